#!/bin/sh
# usage: run.sh <property> [quick|thorough]   — builds the checker (cached) and runs one property
# against the current working tree of $VERIF_REPO (default /repo).
set -u
D=$(cd "$(dirname "$0")" && pwd)
export GOFLAGS=-mod=mod GOPROXY=off GOSUMDB=off GOTOOLCHAIN=local CARGO_NET_OFFLINE=true
unset GOWORK
(cd "$D/checker" && go build -o "$D/bin/memecheck" .) || { echo "CHECKER-ERROR: build of the checker failed"; exit 2; }
VERIF_DIR="$D" exec "$D/bin/memecheck" -prop "$1" -tier "${2:-${VERIF_TIER:-quick}}"
