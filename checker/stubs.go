package main
