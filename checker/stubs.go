package main

import "golang.org/x/tools/go/ssa"

func ruleC19Helpers(w *World, r *Report) {}
func ruleC17R2(w *World, r *Report)      {}

func (w *World) deadPanic(p *ssa.Panic) (Status, string) { return Undecided, "not implemented" }
