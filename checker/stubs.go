package main


func ruleC19Helpers(w *World, r *Report) {}
func ruleC17R2(w *World, r *Report)      {}

