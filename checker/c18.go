package main

import (
	"fmt"
	"go/constant"
	"go/token"
	"go/types"
	"sort"
	"strings"

	"golang.org/x/tools/go/ssa"
)

func init() {
	register(&propDef{
		ID: "C18",
		Explanation: "EFFECTS analysis over the SSA of the four core packages: R1 outside package initialisers no instruction writes through an address derived from a package-level variable, takes such an address into a call, or hands a reference value (slice/map/pointer) loaded from one to anything but element reads, len, range and listed pure standard-library functions (followed interprocedurally into module functions); " +
			"R2 no ambient input: the import set of the core packages is within the pure whitelist, there is no go statement, channel operation, select, or range over a map outside init; " +
			"R3 no aliasing out of a parse: no ast node type can reach *Lexer/*Parser/*token.File through its fields, File.lines is written only by File.init on its own receiver; R8 the address of a field of the parser or lexer (&p.Token) never becomes data (tokens kept in the tree are Token.Clone() results, C10/R3). " +
			"Together: every write of a call goes to memory allocated in that call or owned by its Parser, every read of shared memory reads data immutable after initialisation. Assumes the standard-library functions used are pure.",
		Rules: []ruleFn{ruleC18R1, ruleC18R2, ruleC18R3, ruleC18R4, ruleC18R5, ruleC13R5, ruleC18R6, ruleC18R7, ruleC18R8},
	})
}

func isInitFunc(fn *ssa.Function) bool {
	for f := fn; f != nil; f = f.Parent() {
		if f.Name() == "init" || strings.HasPrefix(f.Name(), "init#") {
			if f.Signature.Recv() == nil {
				return true
			}
		}
	}
	return false
}

func refLike(t types.Type) bool {
	switch t.Underlying().(type) {
	case *types.Slice, *types.Map, *types.Pointer, *types.Chan, *types.Signature, *types.Interface:
		return true
	}
	return false
}

// pure standard-library functions that only read their reference arguments
var pureStd = map[string]bool{
	"strings.Join": true, "strings.Repeat": true, "strings.ToUpper": true, "strings.Contains": true,
	"fmt.Sprintf": true, "fmt.Sprint": true, "fmt.Errorf": true, "errors.Is": true, "errors.As": true,
	"slices.Contains": true, "sort.SearchStrings": true,
	// read-only searches of package slices (a callback sees the elements, not the slice)
	"slices.ContainsFunc": true, "slices.Index": true, "slices.IndexFunc": true, "slices.Equal": true, "slices.BinarySearch": true,
}

type effFinding struct {
	in   ssa.Instruction
	what string
	bad  bool // true: violation, false: undecided
}

// trackShared follows a value that aliases package-level state and reports writes through it or escapes.
func (w *World) trackShared(v ssa.Value, isAddr bool, origin string, seen map[ssa.Value]bool, out *[]effFinding) {
	if seen[v] {
		return
	}
	seen[v] = true
	if al, ok := v.(*ssa.Alloc); ok && isAddr {
		w.trackHolder(al, origin, seen, out)
		return
	}
	for _, u := range referrers(v) {
		fn := u.Parent()
		if isInitFunc(fn) {
			continue
		}
		switch u := u.(type) {
		case *ssa.DebugRef:
		case *ssa.Store:
			if u.Addr == v {
				*out = append(*out, effFinding{u, "store through " + origin, true})
			} else if al := localRoot(u.Addr); al != nil && refLike(v.Type()) {
				// copied into a local variable / named result / varargs array: follow that cell
				w.trackShared(al, true, origin, seen, out)
			} else if refLike(v.Type()) {
				*out = append(*out, effFinding{u, "reference to " + origin + " is stored in memory (may be mutated later)", false})
			}
		case *ssa.MapUpdate:
			if u.Map == v {
				*out = append(*out, effFinding{u, "map update of " + origin, true})
			}
		case *ssa.UnOp:
			// load through an address: the loaded value aliases shared state only if it is reference-like
			if isAddr && u.X == v {
				if refLike(u.Type()) {
					w.trackShared(u, false, origin, seen, out)
				}
			}
		case *ssa.FieldAddr:
			w.trackShared(u, true, origin, seen, out)
		case *ssa.IndexAddr:
			w.trackShared(u, true, origin, seen, out)
		case *ssa.Field, *ssa.Index, *ssa.Lookup:
			if val, ok := u.(ssa.Value); ok && refLike(val.Type()) {
				w.trackShared(val, false, origin, seen, out)
			}
		case *ssa.Slice, *ssa.ChangeType, *ssa.Convert, *ssa.MakeInterface, *ssa.ChangeInterface, *ssa.Phi:
			val := u.(ssa.Value)
			if refLike(val.Type()) || isAddr {
				w.trackShared(val, isAddr, origin, seen, out)
			}
		case *ssa.Range, *ssa.BinOp, *ssa.If, *ssa.TypeAssert, *ssa.Extract, *ssa.Next:
			// reads
		case *ssa.Return:
			// (an error sentinel is an immutable value behind an interface; an exported variable is public anyway)
			originExported := false
			if i := strings.LastIndex(origin, "."); i >= 0 && i+1 < len(origin) {
				c := origin[i+1]
				originExported = c >= 'A' && c <= 'Z'
			}
			if (refLike(v.Type()) || isAddr) && fn.Object() != nil && fn.Object().Exported() && fn.Parent() == nil && !types.Implements(v.Type(), types.Universe.Lookup("error").Type().Underlying().(*types.Interface)) && !originExported {
				// handed to callers outside the module, who own what they are given
				*out = append(*out, effFinding{u, origin + " is returned by the exported " + funcName(fn) + ": every caller gets the same shared value and may write it", true})
			}
			if refLike(v.Type()) || isAddr {
				// returned to callers: follow into the callers' uses of the call value
				for _, caller := range w.callersOf(fn) {
					if cv, ok := caller.(ssa.Value); ok {
						w.trackShared(cv, isAddr, origin+" (returned by "+funcName(fn)+")", seen, out)
					}
				}
			}
		case ssa.CallInstruction:
			com := u.Common()
			if bi, ok := com.Value.(*ssa.Builtin); ok {
				switch bi.Name() {
				case "len", "cap", "print", "println":
				case "append":
					if len(com.Args) > 0 && com.Args[0] == v {
						*out = append(*out, effFinding{u, "append to a slice aliasing " + origin + " (may write into its backing array)", true})
					}
				case "copy":
					if len(com.Args) > 0 && com.Args[0] == v {
						*out = append(*out, effFinding{u, "copy into " + origin, true})
					}
				case "delete", "clear":
					*out = append(*out, effFinding{u, bi.Name() + " on " + origin, true})
				}
				continue
			}
			callees := w.Callees(u)
			if len(callees) == 0 {
				*out = append(*out, effFinding{u, origin + " passed to an unresolved call", false})
				continue
			}
			for _, callee := range callees {
				full := ""
				if o := callee.Origin(); o != nil && o.Pkg != nil {
					full = o.Pkg.Pkg.Name() + "." + o.Name() // an instance of a generic function (slices.IndexFunc[[]string, string])
				} else if callee.Pkg != nil {
					full = callee.Pkg.Pkg.Name() + "." + callee.Name()
				}
				if pureStd[full] {
					if strings.HasSuffix(full, "Func") {
						// the callback is handed the elements: harmless only when they are plain values
						plain := false
						if sl, ok := v.Type().Underlying().(*types.Slice); ok {
							_, plain = sl.Elem().Underlying().(*types.Basic)
						}
						if !plain {
							*out = append(*out, effFinding{u, fmt.Sprintf("reference loaded from %s handed to %s, whose callback receives its reference-typed elements", origin, full), false})
						}
					}
					continue
				}
				if callee.Blocks == nil || !corePkg(fnPkgPath(callee)) {
					if isAddr {
						*out = append(*out, effFinding{u, fmt.Sprintf("address of %s handed to %s (outside the module, may write)", origin, funcName(callee)), true})
					} else {
						*out = append(*out, effFinding{u, fmt.Sprintf("reference loaded from %s handed to %s (outside the module, not listed as pure)", origin, funcName(callee)), false})
					}
					continue
				}
				off := 0
				if com.IsInvoke() {
					off = 1
					if com.Value == v && len(callee.Params) > 0 {
						w.trackShared(callee.Params[0], isAddr, origin, seen, out)
					}
				}
				for ai, a := range com.Args {
					if a == v && ai+off < len(callee.Params) {
						w.trackShared(callee.Params[ai+off], isAddr, origin, seen, out)
					}
				}
			}
		default:
			*out = append(*out, effFinding{u, fmt.Sprintf("%s used by %T", origin, u), false})
		}
	}
}

func (w *World) callersOf(fn *ssa.Function) []ssa.CallInstruction {
	var out []ssa.CallInstruction
	if n := w.CG().Nodes[fn]; n != nil {
		for _, e := range n.In {
			out = append(out, e.Site)
		}
	}
	return out
}

func ruleC18R1(w *World, r *Report) {
	const rule = "C18/R1"
	r.rule(rule, "outside package initialisers nothing writes through, or lets escape for writing, an address or reference derived from a package-level variable of the core packages", 3)
	var globals []*ssa.Global
	for path, sp := range w.SSAPkg {
		if !corePkg(path) {
			continue
		}
		for _, m := range sp.Members {
			if g, ok := m.(*ssa.Global); ok && !strings.HasPrefix(g.Name(), "init$") {
				globals = append(globals, g)
			}
		}
	}
	sort.Slice(globals, func(i, j int) bool { return globals[i].String() < globals[j].String() })
	// SSA globals have no referrer lists: collect uses by scanning operands
	uses := map[*ssa.Global][]ssa.Instruction{}
	for _, fn := range w.ModFns {
		for _, b := range fn.Blocks {
			for _, in := range b.Instrs {
				for _, op := range in.Operands(nil) {
					if g, ok := (*op).(*ssa.Global); ok {
						uses[g] = append(uses[g], in)
					}
				}
			}
		}
	}
	for _, g := range globals {
		construct := "package variable " + g.Pkg.Pkg.Name() + "." + g.Name()
		origin := g.Pkg.Pkg.Name() + "." + g.Name()
		var finds []effFinding
		seen := map[ssa.Value]bool{}
		nUses := 0
		for _, in := range uses[g] {
			if isInitFunc(in.Parent()) {
				continue
			}
			nUses++
			switch u := in.(type) {
			case *ssa.Store:
				if u.Addr == ssa.Value(g) {
					finds = append(finds, effFinding{u, "assignment to " + origin, true})
				}
			case *ssa.UnOp:
				if refLike(u.Type()) {
					w.trackShared(u, false, origin, seen, &finds)
				}
			case *ssa.FieldAddr:
				w.trackShared(u, true, origin, seen, &finds)
			case *ssa.IndexAddr:
				w.trackShared(u, true, origin, seen, &finds)
			case ssa.CallInstruction:
				finds = append(finds, effFinding{u, "address of " + origin + " passed to a call (method with pointer receiver or &var argument)", true})
			case *ssa.DebugRef:
			default:
				finds = append(finds, effFinding{in, fmt.Sprintf("address of %s used by %T", origin, in), false})
			}
		}
		if len(finds) == 0 {
			r.ok(rule, construct, w.pos(g.Pos()), fmt.Sprintf("%d uses outside init, all reads of immutable data", nUses))
			continue
		}
		for i, f := range finds {
			c := construct
			if i > 0 {
				c = fmt.Sprintf("%s (%d)", construct, i+1)
			}
			msg := fmt.Sprintf("in %s: %s", funcName(f.in.Parent()), f.what)
			if f.bad {
				r.bad(rule, c, w.pos(f.in.Pos()), msg)
			} else {
				r.undecided(rule, c, w.pos(f.in.Pos()), msg)
			}
		}
	}
	r.count("package-level variables of the core packages", len(globals))
}

var importWhitelist = map[string]bool{
	"fmt": true, "strings": true, "strconv": true, "bytes": true, "unicode": true, "unicode/utf8": true,
	"iter": true, "errors": true, "slices": true, "maps": true, "sort": true, "cmp": true, "math": true, "math/bits": true, "unicode/utf16": true,
}

func ruleC18R2(w *World, r *Report) {
	const rule = "C18/R2"
	r.rule(rule, "the core packages import only pure packages (no os, time, math/rand, sync, unsafe, reflect, runtime, net, io/fs …); no go statement, channel operation, select; no range over a map outside init", 2)
	for _, p := range []string{modRoot, modRoot + "/ast", modRoot + "/token", modRoot + "/char"} {
		pkg := w.Pkgs[p]
		var badImps []string
		n := 0
		for imp := range pkg.Imports {
			n++
			if strings.HasPrefix(imp, modRoot) {
				if !corePkg(imp) {
					badImps = append(badImps, imp)
				}
				continue
			}
			if !importWhitelist[imp] {
				badImps = append(badImps, imp)
			}
		}
		sort.Strings(badImps)
		if len(badImps) > 0 {
			r.bad(rule, "imports of "+p, "-", "imports outside the pure whitelist: "+strings.Join(badImps, ", "))
		} else {
			r.ok(rule, "imports of "+p, "-", fmt.Sprintf("%d imports, all within the whitelist", n))
		}
	}
	for _, fn := range w.ModFns {
		if isInitFunc(fn) {
			continue
		}
		for _, b := range fn.Blocks {
			for _, in := range b.Instrs {
				what := ""
				switch in := in.(type) {
				case *ssa.Go:
					what = "go statement"
				case *ssa.Send:
					what = "channel send"
				case *ssa.Select:
					what = "select"
				case *ssa.MakeChan:
					what = "channel creation"
				case *ssa.UnOp:
					if in.Op.String() == "<-" {
						what = "channel receive"
					}
				case *ssa.Range:
					if _, ok := in.X.Type().Underlying().(*types.Map); ok {
						what = "range over a map (iteration order is random)"
					}
				}
				if what != "" {
					r.bad(rule, what+" in "+funcName(fn), w.pos(in.Pos()), what+" makes the result depend on scheduling or map order")
				}
			}
		}
	}
	r.ok(rule, "concurrency/map-order scan", "-", fmt.Sprintf("%d functions scanned: no go/select/channel instruction, no map range outside init", len(w.ModFns)))
}

func ruleC18R3(w *World, r *Report) {
	const rule = "C18/R3"
	r.rule(rule, "no ast node type can reach *Lexer, *Parser or *token.File through its fields (type graph); unexported state of token.File is written only by its own init method on its receiver", 3)
	cat := w.Catalog()
	// type graph reachability
	forbidden := func(t types.Type) string {
		n := namedOf(t)
		if n == nil || n.Obj().Pkg() == nil {
			return ""
		}
		switch {
		case n.Obj().Pkg().Path() == modRoot && (n.Obj().Name() == "Lexer" || n.Obj().Name() == "Parser"):
			return n.Obj().Name()
		case n.Obj().Pkg().Path() == modRoot+"/token" && n.Obj().Name() == "File":
			return "token.File"
		}
		return ""
	}
	var reach func(t types.Type, seen map[types.Type]bool, path string) string
	reach = func(t types.Type, seen map[types.Type]bool, path string) string {
		if seen[t] {
			return ""
		}
		seen[t] = true
		if f := forbidden(t); f != "" {
			return path + " -> " + f
		}
		switch u := t.Underlying().(type) {
		case *types.Pointer:
			return reach(u.Elem(), seen, path)
		case *types.Slice:
			return reach(u.Elem(), seen, path+"[]")
		case *types.Array:
			return reach(u.Elem(), seen, path+"[]")
		case *types.Map:
			if s := reach(u.Key(), seen, path); s != "" {
				return s
			}
			return reach(u.Elem(), seen, path)
		case *types.Struct:
			for i := 0; i < u.NumFields(); i++ {
				if s := reach(u.Field(i).Type(), seen, path+"."+u.Field(i).Name()); s != "" {
					return s
				}
			}
		case *types.Interface:
			// node interfaces: every implementing struct is itself checked
		case *types.Signature, *types.Chan:
			return path + " -> " + t.String() + " (function/channel value in an AST node)"
		}
		return ""
	}
	badN := 0
	for _, ns := range cat.Structs {
		if s := reach(ns.Named, map[types.Type]bool{}, "ast."+ns.Name); s != "" {
			r.bad(rule, "type graph of ast."+ns.Name, w.pos(ns.DeclPos), "an AST node can hold parser/lexer state: "+s)
			badN++
		}
	}
	if badN == 0 {
		r.ok(rule, "type graph of ast node structs", "-", fmt.Sprintf("%d node structs: none reaches *Lexer, *Parser, *token.File, a func or a channel", len(cat.Structs)))
	}
	// File.lines written only in (*File).init via the receiver
	n := 0
	for _, fn := range w.ModFns {
		for _, b := range fn.Blocks {
			for _, in := range b.Instrs {
				st, ok := in.(*ssa.Store)
				if !ok {
					continue
				}
				fa, ok := st.Addr.(*ssa.FieldAddr)
				if !ok || !isNamed(fa.X.Type(), modRoot+"/token", "File") {
					continue
				}
				name := fieldAddrName(fa)
				if name != "lines" {
					// exported fields are set in composite literals of fresh Files only
					if _, isAlloc := fa.X.(*ssa.Alloc); !isAlloc {
						r.bad(rule, "store to token.File."+name+" in "+funcName(fn), w.pos(st.Pos()), "a File that is not freshly allocated here is modified")
					}
					continue
				}
				n++
				recvOK := fn.Signature.Recv() != nil && len(fn.Params) > 0 && fa.X == ssa.Value(fn.Params[0])
				if recvOK {
					r.ok(rule, "store to token.File.lines in "+funcName(fn), w.pos(st.Pos()), "written by a method of File on its own receiver (the File belongs to one parse)")
				} else {
					r.bad(rule, "store to token.File.lines in "+funcName(fn), w.pos(st.Pos()), "line table of a File written from outside its own methods")
				}
			}
		}
	}
	// Files are allocated per call: every Alloc of token.File in package memefish is in a function, not stored to a global (R1 covers globals)
	for _, fn := range w.ModFns {
		for _, b := range fn.Blocks {
			for _, in := range b.Instrs {
				if al, ok := in.(*ssa.Alloc); ok && isNamed(al.Type(), modRoot+"/token", "File") && al.Heap {
					r.ok(rule, "alloc token.File in "+funcName(fn), w.pos(al.Pos()), "fresh File per call")
				}
			}
		}
	}
}

// localRoot: the local Alloc an address is rooted at (through FieldAddr/IndexAddr), or nil.
func localRoot(addr ssa.Value) *ssa.Alloc {
	for {
		switch a := addr.(type) {
		case *ssa.Alloc:
			return a
		case *ssa.FieldAddr:
			addr = a.X
		case *ssa.IndexAddr:
			addr = a.X
		default:
			return nil
		}
	}
}

// trackHolder follows a local cell (variable, named result, varargs array) that holds a reference
// to shared state: writing the cell is harmless; values read back from it alias the shared state.
func (w *World) trackHolder(v ssa.Value, origin string, seen map[ssa.Value]bool, out *[]effFinding) {
	for _, u := range referrers(v) {
		switch u := u.(type) {
		case *ssa.FieldAddr, *ssa.IndexAddr:
			val := u.(ssa.Value)
			if !seen[val] {
				seen[val] = true
				w.trackHolder(val, origin, seen, out)
			}
		case *ssa.UnOp:
			if u.X == v && refLike(u.Type()) {
				w.trackShared(u, false, origin, seen, out)
			}
		case *ssa.Slice:
			// a slice over the holder (varargs): treat as a reference handed on
			w.trackShared(u, false, origin, seen, out)
		case *ssa.MakeClosure:
			cl := u.Fn.(*ssa.Function)
			for i, b := range u.Bindings {
				if b == v && !seen[cl.FreeVars[i]] {
					seen[cl.FreeVars[i]] = true
					w.trackHolder(cl.FreeVars[i], origin, seen, out)
				}
			}
		}
	}
}

// ruleC18R4: nothing address-valued is formatted. fmt prints a pointer that is not at the top level of the operand
// (and any pointer under %p, %d, %x; any func, chan, unsafe.Pointer) as its address, and a top-level pointer to a
// struct as &{fields…} with nested pointers as addresses: an error message or an SQL text built from such an
// operand differs between two identical calls. The rule looks at every value boxed into the variadic ...any
// argument of a formatting function (fmt.*, and the module's own printf-style wrappers), by static type.
func ruleC18R4(w *World, r *Report) {
	const rule = "C18/R4"
	r.rule(rule, "every operand boxed into the ...any argument of a formatting call in the core packages has an address-free static type (basic, named basic, or a type with its own String/Error method; structs/slices/arrays of those): no pointer, map, func, chan or empty interface is formatted into a message or an SQL text (%T operands and messages of provably unreachable panics excepted)", 50)
	var stringer, errIfc *types.Interface
	errIfc, _ = types.Universe.Lookup("error").Type().Underlying().(*types.Interface)
	stringer = types.NewInterfaceType([]*types.Func{types.NewFunc(0, nil, "String", types.NewSignatureType(nil, nil, nil, nil, types.NewTuple(types.NewVar(0, nil, "", types.Typ[types.String])), false))}, nil)
	stringer.Complete()
	var addrFree func(t types.Type, depth int) (bool, string)
	addrFree = func(t types.Type, depth int) (bool, string) {
		if depth > 6 {
			return false, "type too deep"
		}
		if types.Implements(t, errIfc) || types.Implements(t, stringer) {
			return true, ""
		}
		switch u := t.Underlying().(type) {
		case *types.Basic:
			if u.Kind() == types.UnsafePointer || u.Kind() == types.Uintptr {
				return false, "unsafe pointer / uintptr"
			}
			return true, ""
		case *types.Slice:
			return addrFree(u.Elem(), depth+1)
		case *types.Array:
			return addrFree(u.Elem(), depth+1)
		case *types.Struct:
			for i := 0; i < u.NumFields(); i++ {
				if ok, why := addrFree(u.Field(i).Type(), depth+1); !ok {
					return false, "field " + u.Field(i).Name() + ": " + why
				}
			}
			return true, ""
		case *types.Pointer:
			return false, "pointer " + t.String() + " (printed as an address, or as &{…} with the addresses of what it points to)"
		case *types.Map:
			return false, "map " + t.String()
		case *types.Chan, *types.Signature:
			return false, "func/chan value (printed as an address)"
		case *types.Interface:
			return false, "interface " + t.String() + " (dynamic type unknown)"
		}
		return false, "type " + t.String()
	}
	isAnySlice := func(t types.Type) bool {
		sl, ok := t.Underlying().(*types.Slice)
		if !ok {
			return false
		}
		ifc, ok := sl.Elem().Underlying().(*types.Interface)
		return ok && ifc.NumMethods() == 0
	}
	n := 0
	for _, fn := range w.ModFns {
		if !corePkg(fnPkgPath(fn)) || fn.Blocks == nil {
			continue
		}
		for _, b := range fn.Blocks {
			for _, in := range b.Instrs {
				ci, ok := in.(ssa.CallInstruction)
				if !ok {
					continue
				}
				com := ci.Common()
				sig := com.Signature()
				if sig == nil || !sig.Variadic() || len(com.Args) == 0 {
					continue
				}
				last := com.Args[len(com.Args)-1]
				if !isAnySlice(last.Type()) {
					continue
				}
				// formatting callee: fmt.*, or a module function (they all forward to fmt)
				name := ""
				if sc := com.StaticCallee(); sc != nil {
					name = funcName(sc)
					if sc.Pkg != nil && sc.Pkg.Pkg.Path() != "fmt" && !corePkg(sc.Pkg.Pkg.Path()) {
						continue
					}
				}
				sl, ok := last.(*ssa.Slice)
				if !ok {
					continue // nil, or a forwarded args... slice (its elements are checked where they are boxed)
				}
				al, ok := sl.X.(*ssa.Alloc)
				if !ok {
					continue
				}
				for _, u := range referrers(al) {
					ia, ok := u.(*ssa.IndexAddr)
					if !ok {
						continue
					}
					for _, su := range referrers(ia) {
						st, ok := su.(*ssa.Store)
						if !ok {
							continue
						}
						n++
						idx := "?"
						if c, ok := ia.Index.(*ssa.Const); ok {
							idx = c.Value.String()
						}
						construct := fmt.Sprintf("operand %s of %s in %s", idx, name, funcName(fn))
						var t types.Type
						val := st.Val
						for {
							if ch, ok := val.(*ssa.ChangeInterface); ok {
								val = ch.X
								continue
							}
							break
						}
						if mi, ok := val.(*ssa.MakeInterface); ok {
							t = mi.X.Type()
						} else {
							t = val.Type()
						}
						// the verb: %T prints the type only, %p always an address
						verb := byte(0)
						if len(com.Args) >= 2 {
							if f, ok := constString(com.Args[len(com.Args)-2]); ok {
								if c, ok := ia.Index.(*ssa.Const); ok {
									if i, exact := constant.Int64Val(c.Value); exact {
										verb = nthVerb(f, int(i))
									}
								}
							}
						}
						if verb == 'T' {
							r.ok(rule, construct, w.pos(ci.Pos()), "printed with %T: only the dynamic type's name")
							continue
						}
						if verb == 'p' {
							r.bad(rule, construct, w.pos(ci.Pos()), "printed with %p: an address")
							continue
						}
						if pn, ok := b.Instrs[len(b.Instrs)-1].(*ssa.Panic); ok {
							if stt, _ := w.deadPanic(pn); stt == Discharged {
								r.ok(rule, construct, w.pos(ci.Pos()), "the message of a panic that C04/R2 shows unreachable (every type that can flow to the switched value has a case)")
								continue
							}
						}
						if ok, why := addrFree(t, 0); !ok {
							// an interface operand is fine when it is statically an error / Stringer (covered above);
							// the value recovered from a panic that is re-thrown unformatted never gets here
							r.bad(rule, construct, w.pos(ci.Pos()), "formats a value of type "+t.String()+": "+why+"; the text depends on where the allocator put it, not on the input")
						} else {
							r.ok(rule, construct, w.pos(ci.Pos()), "operand type "+t.String()+" is address-free")
						}
					}
				}
			}
		}
	}
	_ = n
}

// nthVerb: the verb letter consuming operand n of a fmt format string (0 when it cannot be told:
// explicit argument indexes, '*' widths, too few verbs).
func nthVerb(f string, n int) byte {
	k := 0
	for i := 0; i < len(f); i++ {
		if f[i] != '%' {
			continue
		}
		i++
		for i < len(f) && strings.IndexByte("+-# 0123456789.", f[i]) >= 0 {
			i++
		}
		if i >= len(f) {
			return 0
		}
		switch f[i] {
		case '%':
			continue
		case '[', '*':
			return 0
		}
		if k == n {
			return f[i]
		}
		k++
	}
	return 0
}

// ruleC18R5: a returned function value carries no mutable state of its maker. ast.Preorder returns an iterator; a
// "stopped" flag that lives in Preorder's frame instead of in one run of the iterator is shared by every run of the
// same iterator value: after one early break all later runs yield nothing, and concurrent runs race on it.
func ruleC18R5(w *World, r *Report) {
	const rule = "C18/R5"
	r.rule(rule, "function values returned by exported functions of the core packages (the Preorder iterators) capture no variable cell of the function that made them which they — or a closure nested in them — write: all mutable state of an iterator run is allocated inside the run", 2)
	n := 0
	var writes func(fn *ssa.Function, cellIdx int, seen map[*ssa.Function]bool) bool
	writes = func(fn *ssa.Function, cellIdx int, seen map[*ssa.Function]bool) bool {
		if seen[fn] || cellIdx >= len(fn.FreeVars) {
			return false
		}
		seen[fn] = true
		fv := fn.FreeVars[cellIdx]
		var addrWritten func(a ssa.Value, depth int) bool
		addrWritten = func(a ssa.Value, depth int) bool {
			if depth > 4 {
				return true
			}
			for _, u := range referrers(a) {
				switch x := u.(type) {
				case *ssa.Store:
					if x.Addr == a {
						return true
					}
				case *ssa.FieldAddr:
					if addrWritten(x, depth+1) {
						return true
					}
				case *ssa.IndexAddr:
					if addrWritten(x, depth+1) {
						return true
					}
				case ssa.CallInstruction:
					// the address of the cell is handed to a call (a method with a pointer receiver): it may write
					return true
				case *ssa.MakeClosure:
					for bi, bnd := range x.Bindings {
						if bnd == a {
							if inner, ok := x.Fn.(*ssa.Function); ok && writes(inner, bi, seen) {
								return true
							}
						}
					}
				}
			}
			return false
		}
		return addrWritten(fv, 0)
	}
	for _, fn := range w.ModFns {
		if !corePkg(fnPkgPath(fn)) || fn.Blocks == nil || fn.Parent() != nil || fn.Object() == nil || !fn.Object().Exported() {
			continue
		}
		res := fn.Signature.Results()
		if res.Len() != 1 {
			continue
		}
		if _, isFunc := res.At(0).Type().Underlying().(*types.Signature); !isFunc {
			continue
		}
		for _, b := range fn.Blocks {
			ret, ok := b.Instrs[len(b.Instrs)-1].(*ssa.Return)
			if !ok {
				continue
			}
			v := ret.Results[0]
			if ct, ok := v.(*ssa.ChangeType); ok {
				v = ct.X
			}
			mc, ok := v.(*ssa.MakeClosure)
			if !ok {
				continue
			}
			n++
			construct := "function value returned by " + funcName(fn)
			var shared []string
			cl := mc.Fn.(*ssa.Function)
			for bi, bnd := range mc.Bindings {
				if al, isCell := bnd.(*ssa.Alloc); isCell {
					if writes(cl, bi, map[*ssa.Function]bool{}) {
						shared = append(shared, al.Comment)
					}
				}
			}
			if len(shared) > 0 {
				r.bad(rule, construct, w.pos(mc.Pos()), fmt.Sprintf("captures the variable(s) %v of %s and writes them: every run of the same iterator value shares them (after one early stop all later runs are empty; concurrent runs race)", shared, fn.Name()))
			} else {
				r.ok(rule, construct, w.pos(mc.Pos()), "captures only values it does not write")
			}
		}
	}
	if n < 2 {
		r.errorf("expected the iterators returned by ast.Preorder and ast.PreorderMany, found %d", n)
	}
}

// ruleC18R6: text is data, not a format. A formatting function whose format argument is computed from the
// input (a source line, a node's SQL) rewrites every '%' in it: '%d' in a quoted line becomes %!d(MISSING).
func ruleC18R6(w *World, r *Report) {
	const rule = "C18/R6"
	r.rule(rule, "every call of a printf-style function in the core packages (fmt.*f, and the module's own wrappers that forward a format and ...any to fmt) passes a constant format string, or forwards its own format parameter unchanged", 50)
	isAnySlice := func(t types.Type) bool {
		sl, ok := t.Underlying().(*types.Slice)
		if !ok {
			return false
		}
		ifc, ok := sl.Elem().Underlying().(*types.Interface)
		return ok && ifc.NumMethods() == 0
	}
	n := 0
	for _, fn := range w.ModFns {
		if !corePkg(fnPkgPath(fn)) || fn.Blocks == nil {
			continue
		}
		for _, b := range fn.Blocks {
			for _, in := range b.Instrs {
				ci, ok := in.(ssa.CallInstruction)
				if !ok {
					continue
				}
				com := ci.Common()
				sig := com.Signature()
				if sig == nil || !sig.Variadic() || sig.Params().Len() < 2 {
					continue
				}
				np := sig.Params().Len()
				if !isAnySlice(sig.Params().At(np-1).Type()) || !isStringType(sig.Params().At(np-2).Type()) {
					continue
				}
				sc := com.StaticCallee()
				if sc == nil || sc.Pkg == nil {
					continue
				}
				pkg := sc.Pkg.Pkg.Path()
				if pkg != "fmt" && !corePkg(pkg) {
					continue
				}
				if pkg == "fmt" && !strings.HasSuffix(sc.Name(), "f") {
					continue
				}
				off := 0
				if sig.Recv() != nil {
					off = 1
				}
				if len(com.Args) < np+off {
					continue
				}
				format := com.Args[np-2+off]
				n++
				construct := fmt.Sprintf("format of %s in %s #%d", funcName(sc), funcName(fn), n)
				switch x := format.(type) {
				case *ssa.Const:
					r.ok(rule, construct, w.pos(ci.Pos()), "constant format")
				case *ssa.Parameter:
					if isStringType(x.Type()) && x.Parent() == fn {
						r.ok(rule, construct, w.pos(ci.Pos()), "forwards its own format parameter")
					} else {
						r.bad(rule, construct, w.pos(ci.Pos()), "the format is a value of the enclosing function that is not its format parameter")
					}
				default:
					r.bad(rule, construct, w.pos(ci.Pos()), "the format string is computed ("+format.String()+"): every '%' of the text it is built from is read as a verb and rewritten (\"%d\" -> \"%!d(MISSING)\")")
				}
			}
		}
	}
	if n < 30 {
		r.errorf("only %d printf-style calls found", n)
	}
}

// ruleC18R8: an interior pointer into the parser's or the lexer's own state never becomes data. The type graph (R3) cannot
// see that a *token.Token stored in the tree points at Lexer.Token: the tree would change under the caller with the next
// token read, and two parses sharing a Lexer value would share it.
func ruleC18R8(w *World, r *Report) {
	const rule = "C18/R8"
	r.rule(rule, "in package memefish the address of a field of a *Lexer or *Parser (&p.Token, &l.Token.Comments, …) is only loaded from, stored through, selected further or handed to a call as an argument: it is never stored as a value (into a node field, a slice element, a variadic argument of append), never converted to an interface and never returned", 100)
	n := 0
	done := map[string]bool{}
	pending := map[string]string{}
	defer func() {
		var keys []string
		for k := range pending {
			if !done[k] {
				keys = append(keys, k)
			}
		}
		sort.Strings(keys)
		for _, k := range keys {
			r.ok(rule, k, pending[k], "only read, written through, selected further or passed as an argument")
		}
		if len(keys)+len(done) == 0 {
			r.errorf("no address of a Lexer/Parser field taken in package memefish")
		}
	}()
	for _, fn := range w.ModFns {
		if fnPkgPath(fn) != modRoot || fn.Blocks == nil {
			continue
		}
		cnt := 0
		for _, b := range fn.Blocks {
			for _, in := range b.Instrs {
				fa, ok := in.(*ssa.FieldAddr)
				if !ok || !(w.isLexerPtr(fa.X.Type()) || w.isParserPtr(fa.X.Type())) {
					continue
				}
				if _, fresh := fa.X.(*ssa.Alloc); fresh {
					continue // a Lexer/Parser literal being filled in
				}
				cnt++
				construct := fmt.Sprintf("&%s.%s in %s", namedOf(fa.X.Type()).Obj().Name(), fieldAddrName(fa), funcName(fn))
				if done[construct] {
					continue // one obligation per field and function; a violation of an earlier site has been reported
				}
				n++
				bad := ""
				seen := map[ssa.Value]bool{}
				var follow func(v ssa.Value, depth int)
				follow = func(v ssa.Value, depth int) {
					if seen[v] || depth > 6 || bad != "" {
						return
					}
					seen[v] = true
					for _, u := range referrers(v) {
						switch x := u.(type) {
						case *ssa.Store:
							if x.Val == v {
								bad = "stored as a value at " + w.pos(x.Pos())
							}
						case *ssa.MakeInterface:
							bad = "converted to an interface at " + w.pos(x.Pos())
						case *ssa.Return:
							bad = "returned at " + w.pos(x.Pos())
						case *ssa.FieldAddr:
							if x.X == v {
								follow(x, depth+1)
							}
						case *ssa.IndexAddr:
							if x.X == v {
								follow(x, depth+1)
							}
						case *ssa.Phi:
							follow(x, depth+1)
						case *ssa.ChangeType:
							follow(x, depth+1)
						case *ssa.MakeClosure:
							bad = "captured by a closure at " + w.pos(x.Pos())
						}
					}
				}
				follow(fa, 0)
				if bad != "" {
					done[construct] = true
					r.bad(rule, construct, w.pos(fa.Pos()), "the address of the parser's / lexer's own state is "+bad+": what holds it changes with the next token read (a Token.Clone() is the copy to keep)")
				} else {
					pending[construct] = w.pos(fa.Pos())
					n--
				}
			}
		}
	}
	_ = n
}

// ruleC18R7: unparsing and position queries only read the tree. A SQL() that caches its text in the node, a Pos()
// that memoises: the result of the next call depends on the calls before it, two goroutines printing the same tree
// race, and a printed tree is no longer equal to a freshly parsed one.
func ruleC18R7(w *World, r *Report) {
	const rule = "C18/R7"
	r.rule(rule, "no SQL(), Pos() or End() method of an ast node type, and no function of package ast reachable from one, stores through an address derived from its parameters (the receiver, its fields, what they point to): the consumers of a tree do not write it", 250)
	astPath := modRoot + "/ast"
	// reachable set
	reach := map[*ssa.Function]bool{}
	var work []*ssa.Function
	for _, fn := range w.ModFns {
		if fnPkgPath(fn) != astPath || fn.Signature.Recv() == nil || fn.Blocks == nil {
			continue
		}
		switch fn.Name() {
		case "SQL", "Pos", "End":
			if !reach[fn] {
				reach[fn] = true
				work = append(work, fn)
			}
		}
	}
	for len(work) > 0 {
		fn := work[0]
		work = work[1:]
		for _, b := range fn.Blocks {
			for _, in := range b.Instrs {
				ci, ok := in.(ssa.CallInstruction)
				if !ok {
					continue
				}
				for _, c := range w.Callees(ci) {
					if fnPkgPath(c) == astPath && c.Blocks != nil && !reach[c] {
						reach[c] = true
						work = append(work, c)
					}
				}
				if mc, ok := in.(*ssa.MakeClosure); ok {
					if c, ok := mc.Fn.(*ssa.Function); ok && !reach[c] {
						reach[c] = true
						work = append(work, c)
					}
				}
			}
		}
	}
	var fromParam func(v ssa.Value, depth int) bool
	fromParam = func(v ssa.Value, depth int) bool {
		if depth > 8 {
			return false
		}
		switch x := v.(type) {
		case *ssa.Parameter:
			return true
		case *ssa.FreeVar:
			return false // a cell of the enclosing function: local state of one call
		case *ssa.FieldAddr:
			return fromParam(x.X, depth+1)
		case *ssa.IndexAddr:
			return fromParam(x.X, depth+1)
		case *ssa.UnOp:
			if x.Op == token.MUL {
				return fromParam(x.X, depth+1)
			}
		case *ssa.Phi:
			for _, e := range x.Edges {
				if fromParam(e, depth+1) {
					return true
				}
			}
		case *ssa.ChangeType:
			return fromParam(x.X, depth+1)
		case *ssa.TypeAssert:
			return fromParam(x.X, depth+1)
		case *ssa.Extract:
			return fromParam(x.Tuple, depth+1)
		}
		return false
	}
	var fns []*ssa.Function
	for fn := range reach {
		fns = append(fns, fn)
	}
	sort.Slice(fns, func(i, j int) bool { return funcName(fns[i]) < funcName(fns[j]) })
	for _, fn := range fns {
		construct := "writes of " + funcName(fn)
		var bad []string
		for _, b := range fn.Blocks {
			for _, in := range b.Instrs {
				switch x := in.(type) {
				case *ssa.Store:
					if fromParam(x.Addr, 0) {
						bad = append(bad, fmt.Sprintf("stores through %s at %s", x.Addr.String(), w.pos(x.Pos())))
					}
				case *ssa.MapUpdate:
					if fromParam(x.Map, 0) {
						bad = append(bad, fmt.Sprintf("updates a map reached from a parameter at %s", w.pos(x.Pos())))
					}
				}
			}
		}
		if len(bad) > 0 {
			r.bad(rule, construct, w.pos(fn.Pos()), strings.Join(uniqSorted(bad), "; ")+": the tree is written while it is being printed or measured")
		} else {
			r.ok(rule, construct, w.pos(fn.Pos()), "no store through a parameter")
		}
	}
}
