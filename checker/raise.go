package main

import (
	"fmt"
	"go/types"
	"sort"
	"strings"

	"golang.org/x/tools/go/ssa"
)

// RAISE: interprocedural "may a *memefish.Error panic escape this function" analysis with flag
// specialisation (a bool parameter known to be true prunes `if flag {..}` to its true edge).

type raiseCtx struct {
	fn   *ssa.Function
	flag int // index into fn.Params of a bool parameter known to be true, or -1
}

type raiseWhy struct {
	desc string   // what raises here
	next raiseCtx // callee that raises (zero when the raise is local)
}

type Raise struct {
	w    *World
	may  map[raiseCtx]bool
	why  map[raiseCtx]raiseWhy
	work map[raiseCtx]bool
}

func (w *World) isErrorPtr(t types.Type) bool {
	p, ok := t.(*types.Pointer)
	return ok && isNamed(p.Elem(), modRoot, "Error")
}

// reachUnderFlag: blocks reachable when parameter #flag is true and no-return calls terminate.
func (rz *Raise) reach(fn *ssa.Function, flag int) map[*ssa.BasicBlock]bool {
	w := rz.w
	seen := map[*ssa.BasicBlock]bool{}
	var visit func(b *ssa.BasicBlock)
	visit = func(b *ssa.BasicBlock) {
		if seen[b] {
			return
		}
		seen[b] = true
		if len(b.Instrs) == 0 || w.deadAt(b) >= 0 {
			return
		}
		if iff, ok := b.Instrs[len(b.Instrs)-1].(*ssa.If); ok && flag >= 0 {
			c := iff.Cond
			neg := false
			if u, ok := c.(*ssa.UnOp); ok && u.Op.String() == "!" {
				c, neg = u.X, true
			}
			if p, ok := c.(*ssa.Parameter); ok && p == fn.Params[flag] {
				if neg {
					visit(b.Succs[1])
				} else {
					visit(b.Succs[0])
				}
				return
			}
		}
		for _, s := range b.Succs {
			visit(s)
		}
	}
	if len(fn.Blocks) > 0 {
		visit(fn.Blocks[0])
	}
	if fn.Recover != nil {
		visit(fn.Recover)
	}
	return seen
}

// recoverDefers returns the Defer instructions of fn whose deferred closure calls recover(),
// with that closure.
func recoverDefers(fn *ssa.Function) (defs []*ssa.Defer, handlers []*ssa.Function) {
	for _, b := range fn.Blocks {
		for _, in := range b.Instrs {
			d, ok := in.(*ssa.Defer)
			if !ok {
				continue
			}
			var cl *ssa.Function
			if mc, ok := d.Call.Value.(*ssa.MakeClosure); ok {
				cl = mc.Fn.(*ssa.Function)
			} else if sc := d.Call.StaticCallee(); sc != nil && sc.Blocks != nil && fnPkgPath(sc) == fnPkgPath(fn) {
				cl = sc // `defer p.recoverExpr(&expr, p.Lexer.Clone())`: a method deferred directly, which calls recover() itself
			}
			if cl == nil {
				continue
			}
			if len(recoverCalls(cl)) > 0 {
				defs = append(defs, d)
				handlers = append(handlers, cl)
			}
		}
	}
	return
}

func recoverCalls(fn *ssa.Function) []*ssa.Call {
	var out []*ssa.Call
	for _, b := range fn.Blocks {
		for _, in := range b.Instrs {
			if c, ok := in.(*ssa.Call); ok {
				if bi, ok := c.Call.Value.(*ssa.Builtin); ok && bi.Name() == "recover" {
					out = append(out, c)
				}
			}
		}
	}
	return out
}

func instrProtected(defs []*ssa.Defer, b *ssa.BasicBlock, idx int) bool {
	for _, def := range defs {
		if def.Block() == b {
			for j := 0; j < idx; j++ {
				if b.Instrs[j] == ssa.Instruction(def) {
					return true
				}
			}
		} else if def.Block().Dominates(b) {
			return true
		}
	}
	return false
}

// panicKind classifies the payload of a panic instruction: "error" (*Error), "other" (a
// non-*Error value constructed here), "notError" (re-panic of a recovered value on the branch where
// the assertion to *Error failed), "unknown" (an interface value of unknown content).
func (w *World) panicKind(p *ssa.Panic) string {
	// the checks the compiler puts around a range-over-func loop (the iterator called yield after the loop was left, or
	// re-entered it): not statements of the program, and not reachable with the standard library's iterators
	// (slices.Backward, maps.Keys, …); the module's own iterators are C17/R2's subject
	if c := p.Block().Comment; !p.Pos().IsValid() && (c == "yield-invalid" || strings.HasPrefix(c, "rangefunc.")) {
		return "rangefunc"
	}
	if mi, ok := p.X.(*ssa.MakeInterface); ok {
		if w.isErrorPtr(mi.X.Type()) {
			return "error"
		}
		return "other"
	}
	// re-panic: reached only through the false edge of `_, ok := x.(*Error)` on the same value?
	b := p.Block()
	guarded := len(b.Preds) > 0
	for _, pred := range b.Preds {
		iff, ok := pred.Instrs[len(pred.Instrs)-1].(*ssa.If)
		if !ok {
			guarded = false
			break
		}
		ex, ok := iff.Cond.(*ssa.Extract)
		if !ok || ex.Index != 1 {
			guarded = false
			break
		}
		ta, ok := ex.Tuple.(*ssa.TypeAssert)
		if !ok || !w.isErrorPtr(ta.AssertedType) || pred.Succs[1] != b || ta.X != p.X {
			guarded = false
			break
		}
	}
	if guarded {
		return "notError"
	}
	return "unknown"
}

func (w *World) Raise() *Raise {
	if w.raise != nil {
		return w.raise
	}
	w.NoReturn()
	rz := &Raise{w: w, may: map[raiseCtx]bool{}, why: map[raiseCtx]raiseWhy{}, work: map[raiseCtx]bool{}}
	w.raise = rz
	return rz
}

// May reports whether a *Error panic may escape fn in the given context. The result is the
// least fixed point over the call graph (recursion is iterated until stable).
func (rz *Raise) May(c raiseCtx) bool {
	if _, ok := rz.work[c]; !ok {
		rz.work[c] = true
		// iterate the whole system to a fixed point whenever a new context appears
		for changed := true; changed; {
			changed = false
			var ctxs []raiseCtx
			for k := range rz.work {
				ctxs = append(ctxs, k)
			}
			sort.Slice(ctxs, func(i, j int) bool {
				if ctxs[i].fn != ctxs[j].fn {
					return ctxs[i].fn.String() < ctxs[j].fn.String()
				}
				return ctxs[i].flag < ctxs[j].flag
			})
			n := len(rz.work)
			for _, k := range ctxs {
				if rz.may[k] {
					continue
				}
				if v, why := rz.eval(k); v {
					rz.may[k] = true
					rz.why[k] = why
					changed = true
				}
			}
			if len(rz.work) != n {
				changed = true
			}
		}
	}
	return rz.may[c]
}

func (rz *Raise) lookup(c raiseCtx) bool {
	if _, ok := rz.work[c]; !ok {
		rz.work[c] = true
	}
	return rz.may[c]
}

func (rz *Raise) eval(c raiseCtx) (bool, raiseWhy) {
	w := rz.w
	fn := c.fn
	if fn.Blocks == nil || !corePkg(fnPkgPath(fn)) {
		return false, raiseWhy{} // standard library and other modules: non-raising (they cannot construct a *memefish.Error)
	}
	defs, handlers := recoverDefers(fn)
	rs := rz.reach(fn, c.flag)
	for _, b := range fn.Blocks {
		if !rs[b] {
			continue
		}
		dead := w.deadAt(b)
		for i, in := range b.Instrs {
			if dead >= 0 && i > dead {
				break
			}
			if instrProtected(defs, b, i) {
				continue
			}
			switch in := in.(type) {
			case *ssa.Panic:
				switch w.panicKind(in) {
				case "error", "unknown":
					return true, raiseWhy{desc: "panic at " + w.pos(in.Pos())}
				}
			case ssa.CallInstruction:
				if _, isDefer := in.(*ssa.Defer); isDefer {
					continue
				}
				for _, callee := range w.Callees(in) {
					cc := raiseCtx{callee, rz.calleeFlag(c, in, callee)}
					if rz.lookup(cc) {
						return true, raiseWhy{desc: fmt.Sprintf("call of %s at %s", funcName(callee), w.pos(in.Pos())), next: cc}
					}
				}
			}
		}
	}
	for _, h := range handlers {
		hc := raiseCtx{h, -1}
		if rz.lookup(hc) {
			return true, raiseWhy{desc: "recovery handler " + funcName(h) + " itself raises", next: hc}
		}
	}
	return false, raiseWhy{}
}

// calleeFlag: which bool parameter of callee is known true at this call (constant true, or the
// caller's own specialised parameter forwarded).
func (rz *Raise) calleeFlag(c raiseCtx, in ssa.CallInstruction, callee *ssa.Function) int {
	com := in.Common()
	args := com.Args
	off := 0
	if com.IsInvoke() {
		off = 1
	}
	flag := -1
	for ai, a := range args {
		pi := ai + off
		if pi >= len(callee.Params) {
			break
		}
		if b, ok := constBool(a); ok && b {
			flag = pi
		}
		if c.flag >= 0 {
			if p, ok := a.(*ssa.Parameter); ok && p == c.fn.Params[c.flag] {
				flag = pi
			}
		}
	}
	return flag
}

// Chain renders the witness call chain of a raising context.
func (rz *Raise) Chain(c raiseCtx) string {
	var parts []string
	seen := map[raiseCtx]bool{}
	for {
		if seen[c] {
			break
		}
		seen[c] = true
		y, ok := rz.why[c]
		if !ok {
			break
		}
		parts = append(parts, funcName(c.fn)+": "+y.desc)
		if y.next.fn == nil {
			break
		}
		c = y.next
	}
	return strings.Join(parts, " -> ")
}

// firstEscape finds, inside fn, the first unprotected instruction through which a *Error escapes;
// used to key the obligation on the construct rather than on the entry point.
func (rz *Raise) entryPoints() []*ssa.Function {
	w := rz.w
	var out []*ssa.Function
	sp := w.SSAPkg[modRoot]
	for _, m := range sp.Members {
		if f, ok := m.(*ssa.Function); ok && f.Object() != nil && f.Object().Exported() {
			out = append(out, f)
		}
	}
	for _, tn := range []string{"Parser", "Lexer"} {
		obj := w.Mem.Types.Scope().Lookup(tn)
		if obj == nil {
			continue
		}
		ms := w.Prog.MethodSets.MethodSet(types.NewPointer(obj.Type()))
		for i := 0; i < ms.Len(); i++ {
			sel := ms.At(i)
			if !sel.Obj().Exported() || sel.Obj().Pkg() != w.Mem.Types {
				continue
			}
			// promoted methods of *Lexer through *Parser are the same functions; keep declared ones
			if f := w.Prog.MethodValue(sel); f != nil && f.Synthetic == "" {
				out = append(out, f)
			}
		}
	}
	sort.Slice(out, func(i, j int) bool { return funcName(out[i]) < funcName(out[j]) })
	var uniq []*ssa.Function
	for i, f := range out {
		if i == 0 || out[i-1] != f {
			uniq = append(uniq, f)
		}
	}
	return uniq
}
