package main

import (
	"fmt"
	"go/constant"
	"go/token"
	"go/types"
	"os"
	"regexp"
	"sort"
	"strconv"
	"strings"

	"golang.org/x/tools/go/ssa"
)

// Shape checks of the traversal engine (C17/R2) and of the position helpers (C19 helper contracts),
// on SSA value identities rather than on source text.

// itemField: v is a load of <item>.<field> for a *stackItem value.
func itemField(v ssa.Value) (item ssa.Value, field string, ok bool) {
	if f, isF := v.(*ssa.Field); isF && isNamed(f.X.Type(), modRoot+"/ast", "stackItem") {
		// an item held by value (a stack of stackItem, not *stackItem)
		if st, isS := f.X.Type().Underlying().(*types.Struct); isS && f.Field < st.NumFields() {
			return f.X, st.Field(f.Field).Name(), true
		}
	}
	ld, isL := isLoad(v)
	if !isL {
		return nil, "", false
	}
	fa, isFA := ld.(*ssa.FieldAddr)
	if !isFA || !isNamed(fa.X.Type(), modRoot+"/ast", "stackItem") {
		return nil, "", false
	}
	return fa.X, fieldAddrName(fa), true
}

// stackItemLits: the stackItem literals built in fn, as field -> value: an allocated literal (&stackItem{…}, or a value
// literal spilled to a local) and one written in place into the element of a slice/array literal ([]stackItem{{…}}).
func stackItemLits(fn *ssa.Function) []map[string]ssa.Value {
	var out []map[string]ssa.Value
	for _, b := range fn.Blocks {
		for _, in := range b.Instrs {
			switch x := in.(type) {
			case *ssa.Alloc:
				if isNamed(x.Type(), modRoot+"/ast", "stackItem") {
					if fs := allocFieldStores(x); len(fs) > 0 {
						out = append(out, fs)
					}
				}
			case *ssa.IndexAddr:
				if !isNamed(x.Type(), modRoot+"/ast", "stackItem") {
					continue
				}
				if _, isPtrElem := x.Type().(*types.Pointer).Elem().(*types.Pointer); isPtrElem {
					continue // an element of a stack of pointers
				}
				fs := map[string]ssa.Value{}
				for _, u := range referrers(x) {
					if fa, ok := u.(*ssa.FieldAddr); ok {
						for _, fu := range referrers(fa) {
							if st, ok := fu.(*ssa.Store); ok && st.Addr == ssa.Value(fa) {
								fs[fieldAddrName(fa)] = st.Val
							}
						}
					}
				}
				if len(fs) > 0 {
					out = append(out, fs)
				}
			}
		}
	}
	return out
}

func ruleC17R2(w *World, r *Report) {
	const rule = "C17/R2"
	r.rule(rule, "walkMain pops the last stack item; for a nodes item it calls VisitMany(nodes) and pushes nodes[i] with visitor.Index(i) for i = len-1 down to 0 (same i); for a node item it calls Visit(node) and descends with walkInternal(node, <that visitor>, stack) only when the visitor is non-nil; Inspect's adapter returns itself iff f(node); Preorder's closure stops yielding after yield returned false", 4)
	fn := w.fn(w.Ast, "walkMain")
	if fn == nil {
		r.errorf("ast.walkMain not found")
		return
	}
	where := w.pos(fn.Pos())
	// --- pop ---
	var popped ssa.Value // the *stackItem taken
	var rest ssa.Value   // the shortened stack
	for _, b := range fn.Blocks {
		for _, in := range b.Instrs {
			switch x := in.(type) {
			case *ssa.UnOp:
				if ia, ok := x.X.(*ssa.IndexAddr); ok && isNamed(x.Type(), modRoot+"/ast", "stackItem") {
					if isLenMinus(ia.Index, ia.X, 1) && popped == nil {
						popped = x
					}
				}
			case *ssa.Slice:
				if x.Low == nil && x.High != nil && isLenMinus(x.High, x.X, 1) && rest == nil {
					rest = x
				}
			}
		}
	}
	if popped == nil || rest == nil {
		// the pop in a helper: `last, stack := popStackItem(stack)` returning (stack[len-1], stack[:len-1]) of its parameter
		for _, b := range fn.Blocks {
			for _, in := range b.Instrs {
				c, ok := in.(*ssa.Call)
				if !ok {
					continue
				}
				h := c.Call.StaticCallee()
				if h == nil || h.Blocks == nil || fnPkgPath(h) != modRoot+"/ast" || h.Signature.Results().Len() != 2 || len(h.Params) != 1 || len(naturalLoops(h)) > 0 {
					continue
				}
				okPop, n := true, 0
				itemIdx := -1
				for _, hb := range h.Blocks {
					ret, isRet := hb.Instrs[len(hb.Instrs)-1].(*ssa.Return)
					if !isRet {
						continue
					}
					n++
					ii := 0
					if _, firstIsSlice := ret.Results[0].(*ssa.Slice); firstIsSlice {
						ii = 1
					}
					if itemIdx >= 0 && itemIdx != ii {
						okPop = false
					}
					itemIdx = ii
					ld, isU := ret.Results[ii].(*ssa.UnOp)
					sl, isS := ret.Results[1-ii].(*ssa.Slice)
					if !isU || !isS {
						okPop = false
						continue
					}
					ia, isIA := ld.X.(*ssa.IndexAddr)
					if !isIA || ia.X != ssa.Value(h.Params[0]) || !isLenMinus(ia.Index, h.Params[0], 1) || sl.X != ssa.Value(h.Params[0]) || sl.Low != nil || sl.High == nil || !isLenMinus(sl.High, h.Params[0], 1) {
						okPop = false
					}
				}
				if !okPop || n == 0 {
					continue
				}
				for _, u := range referrers(c) {
					if ex, ok := u.(*ssa.Extract); ok {
						if ex.Index == itemIdx {
							popped = ex
						} else {
							rest = ex
						}
					}
				}
			}
		}
	}
	if popped != nil {
		// an item held by value and kept in a local (`last := stack[len(stack)-1]` on a []stackItem): its fields are read
		// from that local, which nothing else is assigned to
		if _, isStruct := popped.Type().Underlying().(*types.Struct); isStruct {
			for _, u := range referrers(popped) {
				st, ok := u.(*ssa.Store)
				if !ok || st.Val != popped {
					continue
				}
				al, ok := st.Addr.(*ssa.Alloc)
				if !ok {
					continue
				}
				whole := 0
				for _, au := range referrers(al) {
					if s2, ok := au.(*ssa.Store); ok && s2.Addr == ssa.Value(al) {
						whole++
					}
				}
				if whole == 1 {
					popped = al
				}
			}
		}
	}
	if popped != nil && rest != nil {
		r.ok(rule, "walkMain: pop", where, "last := stack[len(stack)-1]; stack = stack[:len(stack)-1]")
	} else {
		r.bad(rule, "walkMain: pop", where, "the item taken is not the last element of the stack, or the stack is not shortened by exactly that element: visiting order is no longer depth-first pre-order")
	}
	// --- node items: Visit + guarded descend ---
	wi := w.fn(w.Ast, "walkInternal")
	okDescend, okVisit := false, false
	detail := ""
	for _, b := range fn.Blocks {
		for _, in := range b.Instrs {
			call, ok := in.(*ssa.Call)
			if !ok {
				continue
			}
			if call.Call.StaticCallee() == wi && wi != nil {
				args := call.Call.Args
				item, f, isItem := itemField(args[0])
				vcall, isCall := args[1].(*ssa.Call)
				if isItem && f == "node" && item == popped && isCall && vcall.Call.IsInvoke() && vcall.Call.Method.Name() == "Visit" {
					// Visit(last.node) on last.visitor
					i2, f2, ok2 := itemField(vcall.Call.Value)
					i3, f3, ok3 := itemField(vcall.Call.Args[0])
					if ok2 && ok3 && f2 == "visitor" && f3 == "node" && i2 == popped && i3 == popped {
						okVisit = true
					}
					// dominated by the non-nil edge of a test of the visitor
					if guardedNonNil(vcall, call, nil) && args[2] == rest {
						okDescend = true
					} else {
						detail = "walkInternal is not guarded by `visitor != nil`, or does not continue on the shortened stack"
					}
				} else {
					detail = "walkInternal is not called with (last.node, Visit(last.node), stack)"
				}
			}
		}
	}
	if okVisit && okDescend {
		r.ok(rule, "walkMain: node item", where, "v := last.visitor.Visit(last.node); if v != nil { stack = walkInternal(last.node, v, stack) }")
	} else {
		if detail == "" {
			detail = "no call walkInternal(last.node, last.visitor.Visit(last.node), stack) found"
		}
		r.bad(rule, "walkMain: node item", where, detail+": children are visited with the wrong visitor, or although Visit returned nil")
	}
	// --- nodes items ---
	var vm *ssa.Call
	for _, b := range fn.Blocks {
		for _, in := range b.Instrs {
			if c, ok := in.(*ssa.Call); ok && c.Call.IsInvoke() && c.Call.Method.Name() == "VisitMany" {
				vm = c
			}
		}
	}
	okMany := false
	manyDetail := "no VisitMany call"
	// the push loop may live in a helper walkMain calls once (pushNodes(stack, last.nodes, v)): its parameters stand
	// for the arguments of that call
	bindArg := map[ssa.Value]ssa.Value{}
	scanFns := []*ssa.Function{fn}
	{
		nCalls := map[*ssa.Function]int{}
		var calls []*ssa.Call
		for _, b := range fn.Blocks {
			for _, in := range b.Instrs {
				if c, ok := in.(*ssa.Call); ok {
					if h := c.Call.StaticCallee(); h != nil && h != wi && h != fn && h.Blocks != nil && fnPkgPath(h) == modRoot+"/ast" && !c.Call.IsInvoke() {
						nCalls[h]++
						calls = append(calls, c)
					}
				}
			}
		}
		for _, c := range calls {
			h := c.Call.StaticCallee()
			if nCalls[h] != 1 {
				continue
			}
			scanFns = append(scanFns, h)
			for i, p := range h.Params {
				if i < len(c.Call.Args) {
					bindArg[p] = c.Call.Args[i]
				}
			}
		}
	}
	res := func(v ssa.Value) ssa.Value {
		for i := 0; i < 3; i++ {
			a, ok := bindArg[v]
			if !ok {
				break
			}
			v = a
		}
		return v
	}
	if vm != nil {
		i1, f1, ok1 := itemField(vm.Call.Value)
		i2, f2, ok2 := itemField(vm.Call.Args[0])
		if ok1 && ok2 && f1 == "visitor" && f2 == "nodes" && i1 == popped && i2 == popped {
			// the push loop
			for _, sf := range scanFns {
				for _, b := range sf.Blocks {
					if b.Index != 0 {
						continue
					}
					for _, fs := range stackItemLits(sf) {
						nv, vv := fs["node"], fs["visitor"]
						ld, isL := isLoad(nv)
						ic, isC := vv.(*ssa.Call)
						if !isL || !isC {
							manyDetail = "pushed item is not {node: nodes[i], visitor: v.Index(i)}"
							continue
						}
						ia, isIA := ld.(*ssa.IndexAddr)
						if !isIA || !ic.Call.IsInvoke() || ic.Call.Method.Name() != "Index" || res(ic.Call.Value) != ssa.Value(vm) {
							manyDetail = "pushed item is not {node: nodes[i], visitor: VisitMany(...).Index(i)}"
							continue
						}
						src, sfld, okSrc := itemField(res(ia.X))
						if !okSrc || sfld != "nodes" || src != popped {
							manyDetail = "pushed element is not taken from last.nodes"
							continue
						}
						if ia.Index != ic.Call.Args[0] {
							manyDetail = "element index and Index() argument are different values: paths no longer spell the real slice index"
							continue
						}
						// descending loop: i is a phi starting at len(nodes)-1, decremented by 1, tested >= 0
						phi, isPhi := ia.Index.(*ssa.Phi)
						if !isPhi {
							manyDetail = "index is not a loop variable"
							continue
						}
						startOK, stepOK := false, false
						for _, e := range phi.Edges {
							if bo, ok := e.(*ssa.BinOp); ok && bo.Op == token.SUB {
								if k, ok := constInt(bo.Y); ok && k == 1 {
									if bo.X == ssa.Value(phi) {
										stepOK = true
									} else if c, ok := bo.X.(*ssa.Call); ok && isLenCall(c) {
										if s2, f2, ok := itemField(res(c.Call.Args[0])); ok && f2 == "nodes" && s2 == popped {
											startOK = true
										}
									}
								}
							}
						}
						condOK := false
						for _, u := range referrers(phi) {
							if bo, ok := u.(*ssa.BinOp); ok && bo.Op == token.GEQ {
								if k, ok := constInt(bo.Y); ok && k == 0 {
									condOK = true
								}
							}
						}
						if startOK && stepOK && condOK {
							okMany = true
						} else {
							manyDetail = fmt.Sprintf("the push loop is not `for i := len(nodes)-1; i >= 0; i--` (start=%v step=%v cond=%v): siblings would be visited out of order or skipped", startOK, stepOK, condOK)
						}
					}
				}
			}
		} else {
			manyDetail = "VisitMany is not called as last.visitor.VisitMany(last.nodes)"
		}
	}
	if okMany {
		r.ok(rule, "walkMain: nodes item", where, "v := last.visitor.VisitMany(last.nodes); push {nodes[i], v.Index(i)} for i descending")
	} else {
		r.bad(rule, "walkMain: nodes item", where, manyDetail)
	}
	// --- Walk / WalkMany seed the stack with the root ---
	for _, name := range []string{"Walk", "WalkMany"} {
		f := w.fn(w.Ast, name)
		if f == nil {
			// generic: look at instances
			for _, cand := range w.ModFns {
				if o := cand.Origin(); o != nil && o.Name() == name {
					f = cand
				}
			}
		}
		if f == nil {
			r.errorf("ast.%s not found", name)
			continue
		}
		seed := false
		for _, fs := range stackItemLits(f) {
			if fs["visitor"] != nil && (fs["node"] != nil || fs["nodes"] != nil) {
				seed = true
			}
		}
		if seed {
			r.ok(rule, "seed of "+name, w.pos(f.Pos()), "stack starts with the root item and the caller's visitor")
		} else {
			r.bad(rule, "seed of "+name, w.pos(f.Pos()), "the traversal does not start from {root, visitor}")
		}
	}
	// --- inspector.Visit ---
	// the adapter is whatever Inspect hands to Walk as the visitor: a func type with methods, or a struct (pointer) that
	// holds the callback in a field
	iv := w.fn(w.Ast, "(inspector).Visit")
	if insp := w.fn(w.Ast, "Inspect"); iv == nil && insp != nil {
		for _, b := range insp.Blocks {
			for _, in := range b.Instrs {
				c, ok := in.(*ssa.Call)
				if !ok || c.Call.StaticCallee() == nil || c.Call.StaticCallee().Name() != "Walk" || len(c.Call.Args) != 2 {
					continue
				}
				if mi, ok := c.Call.Args[1].(*ssa.MakeInterface); ok {
					if m := w.Prog.LookupMethod(mi.X.Type(), w.Ast.Types, "Visit"); m != nil {
						iv = m
					}
				}
			}
		}
	}
	if iv != nil && len(iv.Params) >= 1 {
		ok := false
		fromRecv := func(v ssa.Value) bool {
			if v == ssa.Value(iv.Params[0]) {
				return true
			}
			if f, isF := v.(*ssa.Field); isF && f.X == ssa.Value(iv.Params[0]) {
				return true
			}
			if ld, isL := isLoad(v); isL {
				if fa, isFA := ld.(*ssa.FieldAddr); isFA && fa.X == ssa.Value(iv.Params[0]) {
					return true
				}
			}
			return false
		}
		for _, b := range iv.Blocks {
			iff, isIf := b.Instrs[len(b.Instrs)-1].(*ssa.If)
			if !isIf {
				continue
			}
			call, isCall := iff.Cond.(*ssa.Call)
			if !isCall || !fromRecv(call.Call.Value) {
				continue
			}
			tr, fr := retOf(b.Succs[0]), retOf(b.Succs[1])
			if tr != nil && fr != nil && !isNilConst(tr) && isNilConst(fr) {
				ok = true
			}
		}
		if ok {
			r.ok(rule, "inspector.Visit", w.pos(iv.Pos()), "returns itself when f(node) is true, nil otherwise")
		} else {
			r.bad(rule, "inspector.Visit", w.pos(iv.Pos()), "does not return nil exactly when f(node) is false: Inspect prunes the wrong subtrees")
		}
	} else {
		r.errorf("ast.inspector.Visit not found")
	}
	// --- Preorder closures: ok = ok && yield(n) ---
	n := 0
	for _, outer := range w.ModFns {
		if fnPkgPath(outer) != modRoot+"/ast" || outer.Parent() == nil || outer.Parent().Parent() != nil {
			continue
		}
		root := outer.Parent()
		o := root
		if root.Origin() != nil {
			o = root.Origin()
		}
		if o.Name() != "Preorder" && o.Name() != "PreorderMany" {
			continue
		}
		n++
		construct := "closure of " + funcName(root)
		// the traversal call and the callback it is given
		var cb ssa.Value
		for _, b := range outer.Blocks {
			for _, in := range b.Instrs {
				c, ok := in.(*ssa.Call)
				if !ok {
					continue
				}
				callee := c.Call.StaticCallee()
				if callee == nil {
					continue
				}
				name := callee.Name()
				if callee.Origin() != nil {
					name = callee.Origin().Name()
				}
				if (name == "Inspect" || name == "InspectMany") && len(c.Call.Args) == 2 {
					cb = c.Call.Args[1]
				}
			}
		}
		if cb != nil {
			if okP, whyP, decided := w.stopProtocol(outer); decided {
				if okP {
					r.ok(rule, construct, w.pos(outer.Pos()), "the callback handed to Inspect stops for good after yield's first false (followed by interpretation: "+whyP+")")
				} else {
					r.bad(rule, construct, w.pos(outer.Pos()), whyP)
				}
				continue
			}
		}
		mc, isClosure := cb.(*ssa.MakeClosure)
		if cb == nil {
			r.bad(rule, construct, w.pos(outer.Pos()), "does not traverse with Inspect/InspectMany")
			continue
		}
		if !isClosure {
			r.bad(rule, construct, w.pos(outer.Pos()), "yield is handed to Inspect directly: Inspect prunes only the subtree when the callback returns false and goes on with the siblings, so yield is called again after it returned false (range-over-func panics)")
			continue
		}
		f := mc.Fn.(*ssa.Function)
		// the closure calls yield only on the path where the captured ok is true, stores the conjunction, returns it
		var yieldCall *ssa.Call
		for _, b := range f.Blocks {
			for _, in := range b.Instrs {
				if c, ok := in.(*ssa.Call); ok && c.Call.StaticCallee() == nil {
					if _, isB := c.Call.Value.(*ssa.Builtin); !isB {
						yieldCall = c
					}
				}
			}
		}
		good := false
		if yieldCall != nil {
			// yield dominated by a true edge of a load of the captured flag
			for d := yieldCall.Block(); d != nil; d = d.Idom() {
				p := d.Idom()
				if p == nil {
					break
				}
				if iff, ok := p.Instrs[len(p.Instrs)-1].(*ssa.If); ok {
					if ld, isL := isLoad(iff.Cond); isL {
						if _, isFV := ld.(*ssa.FreeVar); isFV && p.Succs[0] == d {
							good = true
						}
					}
				}
			}
		}
		if good {
			r.ok(rule, construct, w.pos(f.Pos()), "yield is called only while the captured flag is still true (ok = ok && yield(n))")
		} else {
			r.bad(rule, construct, w.pos(f.Pos()), "yield can be called again after it returned false")
		}
	}
	if n == 0 {
		r.errorf("Preorder closures not found")
	}
}

func retOf(b *ssa.BasicBlock) ssa.Value {
	for steps := 0; steps < 4; steps++ {
		switch x := b.Instrs[len(b.Instrs)-1].(type) {
		case *ssa.Return:
			if len(x.Results) == 1 {
				return x.Results[0]
			}
			return nil
		case *ssa.Jump:
			b = b.Succs[0]
		default:
			return nil
		}
	}
	return nil
}

// isLenMinus: v == len(s) - k.
func isLenMinus(v ssa.Value, s ssa.Value, k int64) bool {
	bo, ok := v.(*ssa.BinOp)
	if !ok || bo.Op != token.SUB {
		return false
	}
	c, ok := constInt(bo.Y)
	if !ok || c != k {
		return false
	}
	call, ok := bo.X.(*ssa.Call)
	return ok && isLenCall(call) && call.Call.Args[0] == s
}

// ---- helper contracts (C19) -------------------------------------------------------------------

// normValue renders an SSA value of a small helper as a term over its parameters.
func normValue(fn *ssa.Function, v ssa.Value, depth int) string {
	if depth > 8 {
		return "…"
	}
	for i, p := range fn.Params {
		if v == ssa.Value(p) {
			return fmt.Sprintf("p%d", i)
		}
	}
	switch x := v.(type) {
	case *ssa.Const:
		if x.Value == nil {
			return "nil"
		}
		return x.Value.ExactString()
	case *ssa.Convert:
		return normValue(fn, x.X, depth+1)
	case *ssa.ChangeType:
		return normValue(fn, x.X, depth+1)
	case *ssa.MakeInterface:
		return normValue(fn, x.X, depth+1)
	case *ssa.ChangeInterface:
		return normValue(fn, x.X, depth+1)
	case *ssa.BinOp:
		return "(" + normValue(fn, x.X, depth+1) + x.Op.String() + normValue(fn, x.Y, depth+1) + ")"
	case *ssa.UnOp:
		if x.Op == token.MUL {
			if ia, ok := x.X.(*ssa.IndexAddr); ok {
				// an element of a re-sliced value is an element of the value: xs[lo:][i] = xs[lo+i]
				if sl, isS := ia.X.(*ssa.Slice); isS && sl.Low != nil && sl.Max == nil {
					if k, isK := constInt(ia.Index); isK && k == 0 {
						return normValue(fn, sl.X, depth+1) + "[" + normValue(fn, sl.Low, depth+1) + "]"
					}
					return normValue(fn, sl.X, depth+1) + "[(" + normValue(fn, sl.Low, depth+1) + "+" + normValue(fn, ia.Index, depth+1) + ")]"
				}
				return normValue(fn, ia.X, depth+1) + "[" + normValue(fn, ia.Index, depth+1) + "]"
			}
			return "*" + normValue(fn, x.X, depth+1)
		}
		return x.Op.String() + normValue(fn, x.X, depth+1)
	case *ssa.Call:
		if x.Call.IsInvoke() {
			return normValue(fn, x.Call.Value, depth+1) + "." + x.Call.Method.Name() + "()"
		}
		name := "?"
		if bi, ok := x.Call.Value.(*ssa.Builtin); ok {
			name = bi.Name()
		} else if c := x.Call.StaticCallee(); c != nil {
			name = c.Name()
		}
		var as []string
		for _, a := range x.Call.Args {
			as = append(as, normValue(fn, a, depth+1))
		}
		return name + "(" + strings.Join(as, ",") + ")"
	case *ssa.Extract:
		if nx, ok := x.Tuple.(*ssa.Next); ok && x.Index == 2 {
			if rg, ok := nx.Iter.(*ssa.Range); ok {
				return "elem(" + normValue(fn, rg.X, depth+1) + ")"
			}
		}
	case *ssa.Phi:
		// range-over-slice index variable
		return "φ"
	case *ssa.Alloc:
		return "new"
	}
	return "?"
}

// returnTable: for every Return the conditions on the dominator chain and the returned term.
func (w *World) returnTable(fn *ssa.Function) []string {
	var out []string
	for _, b := range fn.Blocks {
		ret, ok := b.Instrs[len(b.Instrs)-1].(*ssa.Return)
		if !ok || len(ret.Results) != 1 {
			continue
		}
		var conds []string
		for d := b; d != nil; d = d.Idom() {
			p := d.Idom()
			if p == nil {
				break
			}
			iff, ok := p.Instrs[len(p.Instrs)-1].(*ssa.If)
			if !ok {
				continue
			}
			switch {
			case p.Succs[0] == d && len(d.Preds) == 1:
				conds = append(conds, normValue(fn, iff.Cond, 0))
			case p.Succs[1] == d && len(d.Preds) == 1:
				conds = append(conds, "!"+normValue(fn, iff.Cond, 0))
			}
		}
		sort.Strings(conds)
		// a helper that delegates to a sibling (nodeSliceLast = nodeSliceIndex(ns, len(ns)-1)): the sibling's table with
		// its parameters replaced by the arguments
		if c, ok := stripIface(ret.Results[0]).(*ssa.Call); ok && !c.Call.IsInvoke() {
			if cal := c.Call.StaticCallee(); cal != nil && cal != fn && fnPkgPath(cal) == modRoot+"/ast" && cal.Blocks != nil && len(naturalLoops(cal)) == 0 && w.tableDepth < 3 {
				w.tableDepth++
				sub := w.returnTable(cal)
				w.tableDepth--
				var args []string
				for _, a := range c.Call.Args {
					args = append(args, normValue(fn, a, 0))
				}
				okSub := len(sub) > 0
				for _, row := range sub {
					i := strings.Index(row, "] -> ")
					if i < 0 {
						okSub = false
					}
				}
				if okSub {
					for _, row := range sub {
						i := strings.Index(row, "] -> ")
						cs, term := substParams(row[1:i], args), substParams(row[i+5:], args)
						all := append([]string{}, conds...)
						if cs != "" {
							all = append(all, strings.Split(cs, " & ")...)
						}
						sort.Strings(all)
						out = append(out, "["+strings.Join(all, " & ")+"] -> "+term)
					}
					continue
				}
			}
		}
		out = append(out, "["+strings.Join(conds, " & ")+"] -> "+normValue(fn, ret.Results[0], 0))
	}
	sort.Strings(out)
	return out
}

var paramRef = regexp.MustCompile(`\bp(\d+)\b`)

// substParams replaces the parameter placeholders p0, p1, … of a table row by argument terms.
func substParams(s string, args []string) string {
	return paramRef.ReplaceAllStringFunc(s, func(m string) string {
		i, _ := strconv.Atoi(m[1:])
		if i < len(args) {
			return args[i]
		}
		return m
	})
}

func ruleC19Helpers(w *World, r *Report) {
	const rule = "C19/R1h"
	r.rule(rule, "the helpers the generated Pos()/End() methods are made of have their documented contracts (read off the SSA as a table 'conditions -> returned term'): nodePos/nodeEnd: nil -> InvalidPos else n.Pos()/n.End(); posChoice: first valid element else InvalidPos; posAdd: invalid is absorbing else p + x; nodeChoice: first non-nil else nil; nodeSliceIndex/nodeSliceLast: empty -> nil else ns[i] / ns[len-1]; ifThenElse; wrapNode: zero -> nil else the node", 5)
	want := map[string][]string{
		"nodePos":        {"[!(p0==nil)] -> p0.Pos()", "[(p0==nil)] -> -1"},
		"nodeEnd":        {"[!(p0==nil)] -> p0.End()", "[(p0==nil)] -> -1"},
		"posAdd":         {"[!Invalid(p0)] -> (p0+p1)", "[Invalid(p0)] -> -1"},
		"ifThenElse":     {"[!p0] -> p2", "[p0] -> p1"},
		"nodeSliceIndex": {"[!(len(p0)==0)] -> p0[p1]", "[(len(p0)==0)] -> nil"},
		"nodeSliceLast":  {"[!(len(p0)==0)] -> p0[(len(p0)-1)]", "[(len(p0)==0)] -> nil"},
		"wrapNode":       {"[!(p0==nil)] -> p0", "[(p0==nil)] -> nil"},
	}
	checked := map[string]bool{}
	for pass := 0; pass < 2; pass++ {
		for _, fn := range w.ModFns {
			if fnPkgPath(fn) != modRoot+"/ast" || fn.Parent() != nil {
				continue
			}
			name := fn.Name()
			if o := fn.Origin(); o != nil {
				name = o.Name()
			}
			// instances first; the generic body itself only for a helper that nothing instantiates (any more)
			if generic := fn.TypeParams().Len() > 0 && len(fn.TypeArgs()) == 0; generic != (pass == 1) || (pass == 1 && checked[name]) {
				continue
			}
			exp, ok := want[name]
			if !ok {
				continue
			}
			got := w.returnTable(fn)
			// wrapNode instances over interface types compare with the zero value as nil as well
			if strings.Join(got, "; ") == strings.Join(exp, "; ") {
				if !checked[name] {
					r.ok(rule, "contract of ast."+name, w.pos(fn.Pos()), strings.Join(got, "; "))
				}
				checked[name] = true
			} else {
				checked[name] = true
				r.bad(rule, "contract of ast."+funcName(fn), w.pos(fn.Pos()), fmt.Sprintf("behaves as {%s}, contract is {%s}", strings.Join(got, "; "), strings.Join(exp, "; ")))
			}
		}
	}
	for name := range want {
		if !checked[name] {
			r.bad(rule, "contract of ast."+name, "-", "helper not found (or never instantiated)")
		}
	}
	// posChoice / nodeChoice: loops
	for _, spec := range []struct {
		name, test, none string
	}{{"posChoice", "Invalid", "-1"}, {"nodeChoice", "nil", "nil"}} {
		fn := w.fn(w.Ast, spec.name)
		if fn == nil {
			r.bad(rule, "contract of ast."+spec.name, "-", "helper not found")
			continue
		}
		if okC, whyC, decided := w.firstMatchByInterpretation(fn, spec.test); decided {
			if okC {
				r.ok(rule, "contract of ast."+spec.name, w.pos(fn.Pos()), whyC)
			} else {
				r.bad(rule, "contract of ast."+spec.name, w.pos(fn.Pos()), whyC)
			}
			continue
		}
		w.checkFirstMatchLoop(r, rule, fn, spec.test, spec.none)
	}
}

// firstMatchByInterpretation: posChoice / nodeChoice followed by interpretation for every number of alternatives the
// generated methods can pass (0 to 8) and every pattern of valid and invalid ones: the result is the first valid
// alternative, or the "none" value. Whatever the helper looks like inside (a range loop, an index scan, a generic
// first-match function with a predicate), this is its whole behaviour on the domain it is used on.
func (w *World) firstMatchByInterpretation(fn *ssa.Function, test string) (ok bool, why string, decided bool) {
	if len(fn.Params) != 1 {
		return false, "", false
	}
	init, _ := w.pkgInit(modRoot + "/ast")
	cases := 0
	for k := 0; k <= 8; k++ {
		for pat := 0; pat < 1<<k; pat++ {
			arr := &carray{}
			want := -1
			for j := 0; j < k; j++ {
				valid := pat&(1<<j) != 0
				var el cval
				if test == "Invalid" {
					if valid {
						el = mkInt(100 + j)
					} else {
						el = mkInt(-1)
					}
				} else {
					if valid {
						el = cval{kind: cDyn, typ: "Ident", fields: map[string]cval{"#": mkInt(j)}}
					} else {
						el = cval{kind: cNilPtr}
					}
				}
				if valid && want < 0 {
					want = j
				}
				arr.e = append(arr.e, el)
			}
			arg := cval{kind: cSlice, arr: arr, lo: 0, hi: k}
			if k == 0 {
				arg = cval{kind: cNilPtr}
			}
			ci := w.newConcr()
			ci.heap = true
			if init != nil {
				ci.globals = init.globals
			}
			out := ci.run(fn, []cval{arg}, 0)
			if out.status != "return" || len(out.vals) != 1 {
				if os.Getenv("VERIF_CONCR_DEBUG") != "" {
					fmt.Printf("CONCR %s k=%d pat=%d: %s %s\n", fn.Name(), k, pat, out.status, out.why)
				}
				if k == 0 && arg.kind == cNilPtr {
					// try the empty non-nil slice form as well before giving up
				}
				return false, "", false
			}
			got := out.vals[0]
			cases++
			okCase := false
			switch {
			case test == "Invalid" && want < 0:
				v, isI := intOf(got)
				okCase = isI && v == -1
			case test == "Invalid":
				v, isI := intOf(got)
				okCase = isI && v == 100+want
			case want < 0:
				okCase = got.kind == cNilPtr
			default:
				if got.kind == cDyn {
					if id, isI := intOf(got.fields["#"]); isI && id == want {
						okCase = true
					}
				}
			}
			if got.kind == cUnknown {
				return false, "", false
			}
			if !okCase {
				return false, fmt.Sprintf("with %d alternatives of which the valid ones are %s, the result is %s, not the first valid alternative (or the none value)", k, bitsOf(pat, k), got.String()), true
			}
		}
	}
	return true, fmt.Sprintf("followed by interpretation for 0 to 8 alternatives and every pattern of valid/invalid ones (%d cases): the first valid alternative, else the none value", cases), true
}

func bitsOf(pat, k int) string {
	var out []string
	for j := 0; j < k; j++ {
		if pat&(1<<j) != 0 {
			out = append(out, fmt.Sprint(j))
		}
	}
	return "[" + strings.Join(out, " ") + "]"
}

// checkFirstMatchLoop: `for _, x := range p0 { if good(x) { return x } }; return none`.
func (w *World) checkFirstMatchLoop(r *Report, rule string, fn *ssa.Function, test, none string) {
	construct := "contract of ast." + fn.Name()
	var problems []string
	// ascending range over the parameter slice: SSA lowers it to an index phi starting at -1 incremented by 1
	var idxPhi *ssa.Phi
	for _, b := range fn.Blocks {
		for _, in := range b.Instrs {
			if phi, ok := in.(*ssa.Phi); ok {
				if bt, ok := phi.Type().Underlying().(*types.Basic); ok && bt.Kind() == types.Int {
					idxPhi = phi
				}
			}
		}
	}
	if idxPhi == nil {
		problems = append(problems, "no index loop over the parameter")
	} else {
		start, step := false, false
		for _, e := range idxPhi.Edges {
			if k, ok := constInt(e); ok && k == -1 {
				start = true
			}
			if bo, ok := e.(*ssa.BinOp); ok && bo.Op == token.ADD && bo.X == ssa.Value(idxPhi) {
				if k, ok := constInt(bo.Y); ok && k == 1 {
					step = true
				}
			}
		}
		if !start || !step {
			problems = append(problems, "the loop does not scan the alternatives from the first to the last")
		}
	}
	elemRet, noneRet := false, false
	for _, b := range fn.Blocks {
		ret, ok := b.Instrs[len(b.Instrs)-1].(*ssa.Return)
		if !ok {
			continue
		}
		v := ret.Results[0]
		if c, ok := v.(*ssa.Const); ok {
			s := "nil"
			if c.Value != nil {
				s = c.Value.ExactString()
			}
			if s == none {
				noneRet = true
			} else {
				problems = append(problems, "returns constant "+s)
			}
			continue
		}
		// element of p0 at the loop index, guarded by the test on the same element
		ld, isL := isLoad(v)
		var ia *ssa.IndexAddr
		if isL {
			ia, _ = ld.(*ssa.IndexAddr)
		}
		if ia == nil || ia.X != ssa.Value(fn.Params[0]) {
			problems = append(problems, "returns something that is not an element of the parameter")
			continue
		}
		guard := false
		for d := b; d != nil; d = d.Idom() {
			p := d.Idom()
			if p == nil {
				break
			}
			iff, ok := p.Instrs[len(p.Instrs)-1].(*ssa.If)
			if !ok || len(d.Preds) != 1 {
				continue
			}
			switch test {
			case "Invalid":
				if c, ok := iff.Cond.(*ssa.Call); ok && c.Call.StaticCallee() != nil && c.Call.StaticCallee().Name() == "Invalid" && c.Call.Args[0] == v && p.Succs[1] == d {
					guard = true
				}
			case "nil":
				if bo, ok := iff.Cond.(*ssa.BinOp); ok && bo.X == v && isNilConst(bo.Y) {
					if (bo.Op == token.NEQ && p.Succs[0] == d) || (bo.Op == token.EQL && p.Succs[1] == d) {
						guard = true
					}
				}
			}
		}
		if guard {
			elemRet = true
		} else {
			problems = append(problems, "an element is returned without having passed the validity test")
		}
	}
	if !elemRet {
		problems = append(problems, "never returns an element")
	}
	if !noneRet {
		problems = append(problems, "does not return "+none+" when no alternative qualifies")
	}
	if len(problems) > 0 {
		r.bad(rule, construct, w.pos(fn.Pos()), strings.Join(uniqSorted(problems), "; "))
	} else {
		r.ok(rule, construct, w.pos(fn.Pos()), "first element that passes the test, else "+none)
	}
}

// ruleC17R3: nothing but the visitor prunes the traversal. In the traversal loop (walkMain, the functions of package ast
// it calls, and the walkInternal switch) every branch decides on nil tests, on the emptiness of the work stack or on the
// counter of a push loop; a comparison with a size other than 0 or 1 — a depth limit, a node budget — makes Walk drop
// subtrees of a large but finite tree without any callback having asked for it.
func ruleC17R3(w *World, r *Report) {
	const rule = "C17/R3"
	r.rule(rule, "the traversal loop of ast.Walk (walkMain and the package functions it calls) has no branch that compares a length or a counter with a constant other than 0 or 1: no depth or size limit cuts the traversal short", 1)
	root := w.fn(w.Ast, "walkMain")
	if root == nil {
		r.errorf("ast.walkMain not found")
		return
	}
	seen := map[*ssa.Function]bool{}
	work := []*ssa.Function{root}
	n := 0
	for len(work) > 0 {
		fn := work[0]
		work = work[1:]
		if seen[fn] || fn.Blocks == nil {
			continue
		}
		seen[fn] = true
		bad := ""
		for _, b := range fn.Blocks {
			for _, in := range b.Instrs {
				if c, ok := in.(*ssa.Call); ok {
					if cal := c.Call.StaticCallee(); cal != nil && fnPkgPath(cal) == modRoot+"/ast" {
						work = append(work, cal)
					}
				}
			}
			iff, ok := b.Instrs[len(b.Instrs)-1].(*ssa.If)
			if !ok {
				continue
			}
			bo, ok := iff.Cond.(*ssa.BinOp)
			if !ok {
				continue
			}
			for _, side := range []ssa.Value{bo.X, bo.Y} {
				if k, isC := constInt(side); isC && isIntType(side.Type()) && (k > 1 || k < -1) {
					bad = fmt.Sprintf("the branch at %s compares with the constant %d", w.pos(condPosOf(iff, b)), k)
				}
			}
		}
		n++
		construct := "branches of " + funcName(fn)
		if bad != "" {
			r.bad(rule, construct, w.pos(fn.Pos()), bad+": a limit on depth, stack or node count ends the traversal of a finite tree early, although no callback returned nil/false")
		} else {
			r.ok(rule, construct, w.pos(fn.Pos()), "only nil tests, emptiness tests and loop counters")
		}
	}
}

func condPosOf(iff *ssa.If, b *ssa.BasicBlock) token.Pos {
	if v, ok := iff.Cond.(ssa.Instruction); ok && v.Pos().IsValid() {
		return v.Pos()
	}
	return lastPos(b)
}

// helperSynonyms: helpers of package ast that the generated methods may call besides the canonical ones, each with the
// canonical call it is equal to: its table 'conditions -> returned term' is the canonical helper's table with the extra
// parameter fixed to 0 (nodeSliceFirst(xs) ≡ nodeSliceIndex(xs, 0)). Used by C19/R1 to compare a method body that
// names such a helper with the checker's own translation of the specification.
func (w *World) helperSynonyms() map[string]string {
	if w.synonyms != nil {
		return w.synonyms
	}
	w.synonyms = map[string]string{}
	canonical := map[string]*ssa.Function{}
	var others []*ssa.Function
	canonNames := map[string]bool{"nodePos": true, "nodeEnd": true, "posAdd": true, "ifThenElse": true, "nodeSliceIndex": true, "nodeSliceLast": true, "wrapNode": true, "posChoice": true, "nodeChoice": true}
	seen := map[string]bool{}
	for _, fn := range w.ModFns {
		if fnPkgPath(fn) != modRoot+"/ast" || fn.Parent() != nil || fn.Signature.Recv() != nil || fn.Blocks == nil {
			continue
		}
		name := fn.Name()
		if o := fn.Origin(); o != nil {
			name = o.Name()
		}
		if seen[name] || len(naturalLoops(fn)) > 0 {
			continue
		}
		seen[name] = true // an instance or the generic body itself (a helper nothing instantiates any more): same table
		if canonNames[name] {
			canonical[name] = fn
		} else if fn.Signature.Results().Len() == 1 && len(fn.Params) >= 1 && len(fn.Params) <= 2 && !token.IsExported(name) {
			others = append(others, fn)
		}
	}
	for _, h := range others {
		ht := strings.Join(w.returnTable(h), "; ")
		if ht == "" || strings.Contains(ht, "?") {
			continue
		}
		name := h.Name()
		if o := h.Origin(); o != nil {
			name = o.Name()
		}
		for cn, c := range canonical {
			if len(c.Params) != len(h.Params)+1 {
				continue
			}
			args := make([]string, len(c.Params))
			for i := range h.Params {
				args[i] = fmt.Sprintf("p%d", i)
			}
			args[len(c.Params)-1] = "0"
			var rows []string
			for _, row := range w.returnTable(c) {
				rows = append(rows, substParams(row, args))
			}
			sort.Strings(rows)
			if strings.Join(rows, "; ") == ht {
				w.synonyms[name] = cn
			}
		}
	}
	return w.synonyms
}

var callHead = regexp.MustCompile(`\b([A-Za-z_][A-Za-z0-9_]*)\(`)

// canonicalHelpers rewrites calls of synonym helpers in a Go expression (H(args) -> C(args, 0)).
func (w *World) canonicalHelpers(e string) string {
	syn := w.helperSynonyms()
	for changed := true; changed; {
		changed = false
		for _, m := range callHead.FindAllStringSubmatchIndex(e, -1) {
			name := e[m[2]:m[3]]
			cn, ok := syn[name]
			if !ok {
				continue
			}
			// matching parenthesis
			depth, end := 0, -1
			for i := m[3]; i < len(e); i++ {
				switch e[i] {
				case '(':
					depth++
				case ')':
					depth--
					if depth == 0 {
						end = i
					}
				}
				if end >= 0 {
					break
				}
			}
			if end < 0 {
				return e
			}
			e = e[:m[2]] + cn + e[m[3]:end] + ", 0" + e[end:]
			changed = true
			break
		}
	}
	return e
}

// stopProtocol: the callback an iterator (Preorder) hands to Inspect is a small state machine over the boolean cells it
// captures. It is followed by interpretation (CONCR) from the state the iterator sets up, for both answers of yield,
// through every state it can reach: while yield has always answered true the callback calls yield exactly once and
// returns true; from the first false answer on it never calls yield again and returns false. decided is false when
// the interpreter cannot follow the code (the structural form of the rule is used then).
func (w *World) stopProtocol(outer *ssa.Function) (ok bool, why string, decided bool) {
	if len(outer.Params) != 1 {
		return false, "", false
	}
	ci := w.newConcr()
	ci.heap = true
	var callback *cval
	ci.intercept = func(callee *ssa.Function, args []cval) (cval, bool) {
		name := callee.Name()
		if callee.Origin() != nil {
			name = callee.Origin().Name()
		}
		if (name == "Inspect" || name == "InspectMany") && len(args) == 2 {
			cb := args[1]
			callback = &cb
			return cval{}, true
		}
		return cval{}, false
	}
	binds := make([]cval, len(outer.FreeVars))
	out := ci.runB(outer, []cval{{kind: cOracle}}, binds, 0)
	if out.status != "return" || callback == nil {
		return false, "", false
	}
	if callback.kind == cOracle {
		return false, "yield is handed to Inspect directly: Inspect prunes only the subtree when the callback returns false and goes on with the siblings, so yield is called again after it returned false (range-over-func panics)", true
	}
	if callback.kind != cClosure {
		return false, "", false
	}
	// the cells the callback (and closures inside it) can see
	var cells []*ccell
	seenCell := map[*ccell]bool{}
	var collect func(v cval)
	collect = func(v cval) {
		switch v.kind {
		case cRef:
			if !seenCell[v.cell] {
				seenCell[v.cell] = true
				cells = append(cells, v.cell)
				collect(v.cell.v)
			}
		case cClosure:
			for _, b := range v.binds {
				collect(b)
			}
		}
	}
	collect(*callback)
	snapshot := func() ([]cval, string, bool) {
		var vs []cval
		key := ""
		for _, c := range cells {
			if c.v.kind != cConst && c.v.kind != cOracle && c.v.kind != cClosure && c.v.kind != cNilPtr {
				return nil, "", false
			}
			vs = append(vs, c.v)
			key += c.v.String() + ";"
		}
		return vs, key, true
	}
	restore := func(vs []cval) {
		for i, c := range cells {
			c.v = vs[i]
		}
	}
	type item struct {
		vals    []cval
		stopped bool
	}
	init, k0, okS := snapshot()
	if !okS {
		return false, "", false
	}
	seen := map[string]bool{k0 + "|false": true}
	work := []item{{init, false}}
	for len(work) > 0 && len(seen) < 64 {
		it := work[0]
		work = work[1:]
		for _, answer := range []bool{true, false} {
			restore(it.vals)
			calls := 0
			ci.oracle = func(args []cval) (cval, bool) {
				calls++
				return cval{kind: cConst, c: constant.MakeBool(answer)}, true
			}
			ci.steps = 0
			res := ci.runB(callback.fn, []cval{{}}, callback.binds, 0)
			if res.status != "return" || len(res.vals) != 1 || res.vals[0].kind != cConst || res.vals[0].c.Kind() != constant.Bool {
				return false, "", false
			}
			ret := constant.BoolVal(res.vals[0].c)
			switch {
			case !it.stopped && calls != 1:
				return false, fmt.Sprintf("before yield has returned false the callback calls it %d times for one node", calls), true
			case !it.stopped && ret != answer:
				return false, fmt.Sprintf("the callback returns %v when yield answered %v: the traversal goes on after the consumer stopped, or stops although it did not", ret, answer), true
			case it.stopped && calls != 0:
				return false, "yield is called again after it returned false (range-over-func panics)", true
			case it.stopped && ret:
				return false, "after yield returned false the callback still returns true: the traversal descends further", true
			}
			vs, k, okS := snapshot()
			if !okS {
				return false, "", false
			}
			next := item{vs, it.stopped || !answer}
			key := fmt.Sprintf("%s|%v", k, next.stopped)
			if !seen[key] {
				seen[key] = true
				work = append(work, next)
			}
			if it.stopped {
				break // the answer does not matter once stopped
			}
		}
	}
	return true, fmt.Sprintf("%d state(s) of the captured flags explored for both answers of yield", len(seen)), true
}
