package main

import (
	"fmt"
	"go/token"
	"go/types"
	"sort"
	"strings"

	"golang.org/x/tools/go/ssa"
)

func init() {
	register(&propDef{
		ID: "C05",
		Explanation: "The documented 'pos ='/'end =' specifications (compiled into pos.go; C19 checks that step) are checked against the parser per allocation site by abstract evaluation over position values: start/end of a token together with the TKAI fact about that token at the point of use, InvalidPos, zero, Pos()/End() of a child whose possible types come from the VALUE analysis. " +
			"R1 no token.Pos field of a node is left at the zero value at any site. R2 total anchors: at every site the pos and the end chain cannot evaluate to InvalidPos (the last alternative of every ||/?? chain is present: non-nil pointer, non-empty slice, valid position). " +
			"R3 kind discipline: pos evaluates to the start of a token or a child's pos; end to the end of a token, a child's end, or start + n where n equals the byte length of that token as established by the guards on the path (expect(\"X\"), expectKeywordLike(\"X\"), a switch on the kind evaluated while the token was current), constants and len(field) included, (B ? a : b) per constant of B. " +
			"R5 sibling order: the declaration order of the node-typed fields equals the order of their parse events in every production (CreateTable exempt as in the property). " +
			"Does not decide: 0 <= Pos and End <= len(input) (numeric, follows from token positions being in range), Bad* ranges (C10).",
		Rules: []ruleFn{ruleC05Anchors, ruleC05R5, ruleC06Order, ruleC06R3, ruleC05R6},
	})
	register(&propDef{
		ID: "C06",
		Explanation: "Same machinery as C05, the rules that exclude 'one token too short / too long / shifted': C05/R3 (offset = length of the token whose position was stored, shared, the main rule); " +
			"R1 first token: the value chosen by pos at a site is produced by the first token-consuming event of the production for this node (no other field's event precedes it, apart from fields listed earlier in the pos chain); " +
			"R2 last token / complete fallback chains: (a) the alternatives of an end chain are listed in the reverse order of their parse events, (b) every field whose parse event lies after the event of the last (mandatory) alternative appears in the chain. " +
			"Does not decide: clauses (a)/(b) of the property as stated (re-parsing substrings is a run-time experiment); the rules are the code-shape conditions without which they fail.",
		Rules: []ruleFn{ruleC05Anchors, ruleC06Order, ruleC06R3, ruleC06R4, ruleC05R6},
	})
}

type siteInfo struct {
	al     *ssa.Alloc
	ns     *NodeStruct
	env    map[string]AV
	pos    map[string]PosAV     // token.Pos fields
	val    map[string]ssa.Value // values stored by the literal
	stores map[string]*ssa.Store
	all    map[string][]*ssa.Store // every store to the field of this allocation, in block order
}

func (w *World) sites() []*siteInfo {
	if w.siteCache != nil {
		return w.siteCache
	}
	v := w.Value()
	pf := w.PosFlow()
	cat := w.Catalog()
	var out []*siteInfo
	for _, al := range v.sites {
		ns := cat.ByName[v.nodeStructOf(al.Type())]
		if ns == nil {
			continue
		}
		si := &siteInfo{al: al, ns: ns, env: v.SiteEnv(al), pos: map[string]PosAV{}, val: map[string]ssa.Value{}, stores: map[string]*ssa.Store{}, all: map[string][]*ssa.Store{}}
		for _, u := range referrers(al) {
			fa, ok := u.(*ssa.FieldAddr)
			if !ok {
				continue
			}
			for _, fu := range referrers(fa) {
				if st, ok := fu.(*ssa.Store); ok && st.Addr == ssa.Value(fa) {
					si.val[fieldAddrName(fa)] = st.Val
					si.stores[fieldAddrName(fa)] = st
					si.all[fieldAddrName(fa)] = append(si.all[fieldAddrName(fa)], st)
				}
			}
		}
		for i := 0; i < ns.Struct.NumFields(); i++ {
			f := ns.Struct.Field(i)
			if !cat.isPos(f.Type()) {
				continue
			}
			if st, ok := si.stores[f.Name()]; ok {
				si.pos[f.Name()] = pf.Of(st.Val, st, 0)
			} else {
				si.pos[f.Name()] = PosAV{{kind: "zero", desc: "field not set at this site"}}
			}
		}
		// later stores through other pointers (e.ValuePos = pos)
		for _, fn := range v.fns {
			for _, b := range fn.Blocks {
				for _, in := range b.Instrs {
					st, ok := in.(*ssa.Store)
					if !ok {
						continue
					}
					fa, ok := st.Addr.(*ssa.FieldAddr)
					if !ok || namedOf(fa.X.Type()) != ns.Named {
						continue
					}
					if _, isAlloc := fa.X.(*ssa.Alloc); isAlloc {
						continue
					}
					name := fieldAddrName(fa)
					if _, isPos := si.pos[name]; isPos {
						si.pos[name] = append(si.pos[name], pf.Of(st.Val, st, 0)...)
					}
				}
			}
		}
		out = append(out, si)
	}
	w.siteCache = out
	return out
}

type specEval struct {
	alts       PosAV
	mayInvalid bool
	problems   []string // R3-type problems
	zero       []string // fields that are zero
}

// evalPos evaluates a position expression at a site.
func (w *World) evalPos(si *siteInfo, e PExpr) specEval {
	switch x := e.(type) {
	case *PChoice:
		var out specEval
		out.mayInvalid = true
		for _, a := range x.Alts {
			r := w.evalPos(si, a)
			out.alts = append(out.alts, r.alts...)
			out.problems = append(out.problems, r.problems...)
			out.zero = append(out.zero, r.zero...)
			if !r.mayInvalid {
				out.mayInvalid = false
				break
			}
		}
		return out
	case *PVar:
		var out specEval
		for _, a := range si.pos[x.Name] {
			switch a.kind {
			case "invalid":
				out.mayInvalid = true
			case "zero":
				out.zero = append(out.zero, x.Name)
				out.alts = append(out.alts, a)
			default:
				out.alts = append(out.alts, a)
			}
		}
		if len(si.pos[x.Name]) == 0 {
			out.alts = append(out.alts, PosAlt{kind: "unknown", desc: "no value found for " + x.Name})
		}
		return out
	case *PAdd:
		// flatten base + terms
		var terms []IExpr
		var base PExpr = x
		for {
			if pa, ok := base.(*PAdd); ok {
				terms = append(terms, pa.N)
				base = pa.X
				continue
			}
			break
		}
		br := w.evalPos(si, base)
		out := specEval{mayInvalid: br.mayInvalid, problems: br.problems, zero: br.zero}
		bv, _ := base.(*PVar)
		for _, a := range br.alts {
			if a.kind != "start" {
				if a.kind == "zero" {
					out.alts = append(out.alts, a)
					continue
				}
				out.problems = append(out.problems, fmt.Sprintf("%s: an offset is added to a value that is not the start of a token (%s)", pString(e), a))
				continue
			}
			res := w.checkOffset(si, bv, a, terms, e)
			out.alts = append(out.alts, res...)
		}
		return out
	case *PNode:
		types, mayNil := w.evalNode(si, x.N)
		kind := "nodepos"
		if x.End {
			kind = "nodeend"
		}
		out := specEval{mayInvalid: mayNil}
		if len(types) > 0 {
			out.alts = PosAV{{kind: kind, types: types}}
		}
		return out
	}
	return specEval{alts: PosAV{{kind: "unknown"}}}
}

func (w *World) evalNode(si *siteInfo, n NExpr) (map[string]bool, bool) {
	switch x := n.(type) {
	case *NVar:
		a := si.env[x.Name]
		t := map[string]bool{}
		for k := range a.types {
			t[k] = true
		}
		if a.top || (len(t) == 0 && !a.mayNil && !a.bot) {
			t["?"] = true
		}
		return t, a.mayNil || a.bot
	case *NLast, *NIndex:
		name := ""
		if l, ok := x.(*NLast); ok {
			name = l.Slice
		} else {
			name = x.(*NIndex).Slice
		}
		a := si.env[name]
		t := map[string]bool{}
		if a.elem != nil {
			for k := range a.elem.types {
				t[k] = true
			}
		}
		if a.mayFull && len(t) == 0 {
			t["?"] = true
		}
		mayEmpty := a.mayEmpty || a.bot || (!a.mayFull)
		if a.elem != nil && a.elem.mayNil {
			mayEmpty = true
		}
		return t, mayEmpty
	case *NChoice:
		all := map[string]bool{}
		for _, alt := range x.Alts {
			t, mayNil := w.evalNode(si, alt)
			for k := range t {
				all[k] = true
			}
			if !mayNil {
				return all, false
			}
		}
		return all, true
	}
	return nil, true
}

// checkOffset: base alternative `a` (start of a token) plus the integer terms must land on the end
// of that token.
func (w *World) checkOffset(si *siteInfo, base *PVar, a PosAlt, terms []IExpr, whole PExpr) PosAV {
	pf := w.PosFlow()
	sum := 0
	var lenVar, condVar string
	var condT, condE int
	for _, t := range terms {
		switch t := t.(type) {
		case *ILit:
			sum += t.V
		case *ILen:
			lenVar = t.Var
		case *ICond:
			condVar = t.Var
			if tl, ok := t.T.(*ILit); ok {
				condT = tl.V
			}
			if el, ok := t.E.(*ILit); ok {
				condE = el.V
			}
		}
	}
	okAlt := func() PosAV { return PosAV{{kind: "end", fact: a.fact, desc: pString(whole)}} }
	bad := func(msg string) PosAV {
		return PosAV{{kind: "badlen", desc: fmt.Sprintf("%s: %s", pString(whole), msg)}}
	}
	switch {
	case lenVar == "" && condVar == "":
		l, known := tokenLen(a.fact)
		if !known {
			return bad(fmt.Sprintf("the length of the token at %s is not determined by the guards on the path (token is %s)", base.Name, a.fact))
		}
		if a.off+sum != l {
			return bad(fmt.Sprintf("%s holds the start%+d of a token %s of length %d, but %d is added", base.Name, a.off, a.fact, l, sum))
		}
		return okAlt()
	case condVar != "":
		// per constant of the boolean field
		bv := si.val[condVar]
		if c, ok := bv.(*ssa.Const); ok || bv == nil {
			val := false
			if ok {
				val, _ = constBool(c)
			}
			n := condE
			if val {
				n = condT
			}
			l, known := tokenLen(a.fact)
			if !known || a.off+sum+n != l {
				return bad(fmt.Sprintf("%s=%v adds %d, token is %s", condVar, val, sum+n, a.fact))
			}
			return okAlt()
		}
		if phi, ok := bv.(*ssa.Phi); ok && a.src != nil {
			live := w.liveBlocks(phi.Parent())
			for i, e := range phi.Edges {
				if !w.liveEdge(live, phi.Block().Preds[i]) {
					continue
				}
				val, isC := constBool(e)
				if !isC {
					return bad("the boolean is not a constant on an incoming edge")
				}
				pred := phi.Block().Preds[i]
				f := pf.tk.FactOf(a.src, pred.Instrs[len(pred.Instrs)-1])
				if f.IsEmpty() {
					continue
				}
				n := condE
				if val {
					n = condT
				}
				l, known := tokenLen(f)
				if !known || a.off+sum+n != l {
					return bad(fmt.Sprintf("when %s=%v the token is %s, but %d is added", condVar, val, f, sum+n))
				}
			}
			return okAlt()
		}
		if bo, ok := bv.(*ssa.BinOp); ok && (bo.Op == token.EQL || bo.Op == token.NEQ) && a.src != nil {
			// `right := p.Token.Kind == "TRUE"`: the boolean is a test of the kind of the very token whose start is the
			// base (the base's source is still the current token where the test is made): decided per kind of the fact
			for _, side := range [][2]ssa.Value{{bo.X, bo.Y}, {bo.Y, bo.X}} {
				k, isK := constString(side[1])
				if !isK {
					continue
				}
				ld, isL := isLoad(stripConv(side[0]))
				if !isL {
					continue
				}
				fa, isFA := ld.(*ssa.FieldAddr)
				if !isFA || fieldAddrName(fa) != "Kind" || !w.isTokenPtr(fa.X.Type()) {
					continue
				}
				cur, _ := pf.tk.tokenSources(fa.X)
				st := pf.tk.StateBefore(bo)
				if !cur || st == nil || !st.linked[a.src] {
					return bad("the boolean field " + condVar + " tests the kind of another token than the one the base points at")
				}
				atoms, fin := a.fact.Finite()
				if !fin || len(atoms) == 0 {
					return bad("the kinds of the token at " + base.Name + " are not enumerated by the guards on the path")
				}
				for _, atom := range atoms {
					val := (atom == k) == (bo.Op == token.EQL)
					n := condE
					if val {
						n = condT
					}
					l, known := atomLen(atom)
					if !known || a.off+sum+n != l {
						return bad(fmt.Sprintf("when the token is %s, %s=%v and %d is added", atom, condVar, val, sum+n))
					}
				}
				return okAlt()
			}
		}
		return bad("cannot relate the boolean field " + condVar + " to the token")
	default:
		// len(field)
		sv := si.val[lenVar]
		// (a) the spelling of the same token
		if ld, ok := isLoad(stripConv(sv)); ok {
			if fa, ok := ld.(*ssa.FieldAddr); ok && w.isTokenPtr(fa.X.Type()) {
				cur, srcs := pf.tk.tokenSources(fa.X)
				same := false
				if cur && a.src != nil {
					// both read from the current token in the same epoch: accept when both are linked loads of one token
					same = true
				}
				for _, s := range srcs {
					if s == a.src {
						same = true
					}
				}
				if same {
					switch fieldAddrName(fa) {
					case "Raw":
						if a.off+sum == 0 {
							return okAlt()
						}
						return bad("Raw is the whole token but a constant is added as well")
					case "AsString":
						atoms, fin := a.fact.Finite()
						if fin && len(atoms) == 1 && atoms[0] == "<param>" && a.off+sum == 1 {
							return okAlt() // '@' + name: checked on the lexer's <param> branch (C06 rule)
						}
						return bad(fmt.Sprintf("len(%s) is the decoded spelling of a %s token: quoted or escaped spellings are longer than their decoded value", lenVar, a.fact))
					}
				}
			}
		}
		// (b) constants correlated through a multi-result helper
		if ex, ok := stripConv(sv).(*ssa.Extract); ok {
			if bx, ok := si.val[base.Name].(*ssa.Extract); ok && bx.Tuple == ex.Tuple {
				if call, ok := ex.Tuple.(*ssa.Call); ok {
					pairs, okp := w.correlatedPairs(call, ex.Index, bx.Index)
					if okp {
						for _, p := range pairs {
							for _, pa := range p.pos {
								if pa.kind == "invalid" {
									continue
								}
								l, known := tokenLen(pa.fact)
								if pa.kind != "start" || !known || pa.off+sum+len(p.str) != l {
									return bad(fmt.Sprintf("%s=%q has length %d but the token is %s", lenVar, p.str, len(p.str), pa))
								}
							}
						}
						return okAlt()
					}
				}
			}
		}
		// (b2) a constant chosen per kind of the token (`case IsKeywordLike("FIRST"): order = NullOrderFirst; case
		// IsKeywordLike("LAST"): …`): per incoming edge of the phi, the constant against what is known about the token there
		if phi, ok := stripConv(sv).(*ssa.Phi); ok && a.src != nil {
			live := w.liveBlocks(phi.Parent())
			okAll, n := true, 0
			for i, ed := range phi.Edges {
				if !w.liveEdge(live, phi.Block().Preds[i]) {
					continue
				}
				c, isC := constString(stripConv(ed))
				if !isC {
					okAll = false
					break
				}
				pred := phi.Block().Preds[i]
				f := pf.tk.FactOf(a.src, pred.Instrs[len(pred.Instrs)-1])
				if si2, isI := a.src.(ssa.Instruction); isI && f.IsTop() && si2.Block() == phi.Block() {
					// the position is read from the current token right behind the join, before anything is consumed: the
					// token is the one the edge arrived with
					clean := true
					for _, in2 := range phi.Block().Instrs {
						if in2 == si2 {
							break
						}
						if _, isCall := in2.(ssa.CallInstruction); isCall {
							clean = false
						}
					}
					if st := pf.tk.StateBefore(pred.Instrs[len(pred.Instrs)-1]); clean && st != nil {
						f = st.cur
					}
				}
				if f.IsEmpty() {
					continue
				}
				n++
				l, known := tokenLen(f)
				if !known || a.off+sum+len(c) != l {
					if known {
						return bad(fmt.Sprintf("when %s=%q (length %d) the token is %s of length %d", lenVar, c, len(c), f, l))
					}
					okAll = false
					break
				}
			}
			if okAll && n > 0 {
				return okAlt()
			}
		}
		// (c) constants of the field vs the token
		av := si.env[lenVar]
		if len(av.consts) > 0 && !av.consts["?"] && !av.top {
			l, known := tokenLen(a.fact)
			if !known {
				return bad(fmt.Sprintf("len(%s) is a constant, but the token at %s is %s, whose length is not fixed (an identifier may be back-quoted)", lenVar, base.Name, a.fact))
			}
			for c := range av.consts {
				if a.off+sum+len(c) != l {
					return bad(fmt.Sprintf("%s may be %q (length %d) while the token %s has length %d", lenVar, c, len(c), a.fact, l))
				}
			}
			return okAlt()
		}
		return bad(fmt.Sprintf("len(%s) is not the spelling of the token at %s (the token is %s, an identifier matched on its decoded name, which may be written back-quoted)", lenVar, base.Name, a.fact))
	}
}

func stripConv(v ssa.Value) ssa.Value {
	for v != nil {
		switch x := v.(type) {
		case *ssa.Convert:
			v = x.X
		case *ssa.ChangeType:
			v = x.X
		default:
			return v
		}
	}
	return v
}

type corrPair struct {
	str string
	pos PosAV
}

// correlatedPairs: for a helper returning (…string-const…, …pos…) the pairs that can be returned together.
func (w *World) correlatedPairs(call *ssa.Call, si, pi int) ([]corrPair, bool) {
	pf := w.PosFlow()
	callee := call.Call.StaticCallee()
	if callee == nil || callee.Blocks == nil {
		return nil, false
	}
	var out []corrPair
	for _, b := range callee.Blocks {
		ret, ok := b.Instrs[len(b.Instrs)-1].(*ssa.Return)
		if !ok || si >= len(ret.Results) || pi >= len(ret.Results) {
			continue
		}
		sv, pv := stripConv(ret.Results[si]), ret.Results[pi]
		sphi, ok1 := sv.(*ssa.Phi)
		pphi, ok2 := pv.(*ssa.Phi)
		if ok1 && ok2 && sphi.Block() == pphi.Block() {
			for i := range sphi.Edges {
				s, ok := constString(stripConv(sphi.Edges[i]))
				if !ok {
					return nil, false
				}
				out = append(out, corrPair{s, pf.Of(pphi.Edges[i], ret, 0)})
			}
			continue
		}
		if s, ok := constString(sv); ok {
			out = append(out, corrPair{s, pf.Of(pv, ret, 0)})
			continue
		}
		return nil, false
	}
	return out, len(out) > 0
}

func ruleC05Anchors(w *World, r *Report) {
	r.rule("C05/R1", "no token.Pos field of a node is left at its zero value at any allocation site (a forgotten field reads as offset 0)", 100)
	r.rule("C05/R2", "at every allocation site the pos and end specifications evaluate to a valid position: the last alternative of each ||/?? chain is present", 200)
	r.rule("C05/R3", "at every allocation site pos evaluates to the start of a token (or a child's pos) and end to the end of a token, a child's end, or start + n with n = the byte length of that token as fixed by the guards on the path", 200)
	sites := w.sites()
	if len(sites) < 250 {
		r.errorf("only %d allocation sites of ast nodes found in the parser", len(sites))
	}
	r.count("allocation sites evaluated", len(sites))
	type agg struct {
		bad    []string
		where  string
		n      int
		sample string
	}
	get := func(m map[string]*agg, k, where string) *agg {
		if m[k] == nil {
			m[k] = &agg{where: where}
		}
		return m[k]
	}
	r1, r2, r3 := map[string]*agg{}, map[string]*agg{}, map[string]*agg{}
	for _, si := range sites {
		siteName := fmt.Sprintf("site %s in %s", w.pos(si.al.Pos()), funcName(si.al.Parent()))
		// R1
		for f, pv := range si.pos {
			a := get(r1, "ast."+si.ns.Name+"."+f, w.pos(si.ns.DeclPos))
			a.n++
			for _, alt := range pv {
				if alt.kind == "zero" {
					a.bad = append(a.bad, siteName+": "+alt.desc)
				}
			}
		}
		for _, which := range []string{"pos", "end"} {
			expr := si.ns.PosExpr
			if which == "end" {
				expr = si.ns.EndExpr
			}
			if expr == nil {
				continue
			}
			ev := w.evalPos(si, expr)
			key := "ast." + si.ns.Name + "." + which
			a2 := get(r2, key, w.pos(si.ns.DeclPos))
			a2.n++
			if ev.mayInvalid {
				a2.bad = append(a2.bad, fmt.Sprintf("%s: '%s = %s' can evaluate to InvalidPos (every alternative may be absent)", siteName, which, pString(expr)))
			}
			if strings.HasPrefix(si.ns.Name, "Bad") {
				continue // an empty Bad node ends at the start of the next token (allowed by the property; C10 checks the capture)
			}
			a3 := get(r3, key, w.pos(si.ns.DeclPos))
			a3.n++
			a3.sample = ev.alts.String()
			for _, p := range ev.problems {
				a3.bad = append(a3.bad, siteName+": "+p)
			}
			for _, alt := range ev.alts {
				ok := false
				switch alt.kind {
				case "start":
					ok = which == "pos" && alt.off == 0
				case "nodepos":
					ok = which == "pos"
				case "end":
					ok = which == "end" && alt.off == 0
				case "nodeend":
					ok = which == "end"
				case "zero":
					ok = true // reported by R1
				}
				if !ok {
					what := alt.String()
					if alt.kind == "badlen" {
						what = alt.desc
					}
					a3.bad = append(a3.bad, fmt.Sprintf("%s: '%s = %s' evaluates to %s", siteName, which, pString(expr), what))
				}
			}
		}
	}
	emit := func(rule string, m map[string]*agg, okText string) {
		var keys []string
		for k := range m {
			keys = append(keys, k)
		}
		sort.Strings(keys)
		for _, k := range keys {
			a := m[k]
			if len(a.bad) > 0 {
				r.bad(rule, k, a.where, strings.Join(uniqSorted(a.bad), "; "))
			} else {
				d := fmt.Sprintf("%s at %d site(s)", okText, a.n)
				if a.sample != "" {
					d += ": " + a.sample
				}
				r.ok(rule, k, a.where, d)
			}
		}
	}
	emit("C05/R1", r1, "assigned")
	emit("C05/R2", r2, "always valid")
	emit("C05/R3", r3, "token-aligned")
}

// ---- ordering rules -------------------------------------------------------------------------

func (w *World) fieldEvents(si *siteInfo, field string) []event {
	pf := w.PosFlow()
	v := si.val[field]
	if v == nil {
		return nil
	}
	return pf.eventsOf(v, map[ssa.Value]bool{})
}

func (w *World) fieldPresent(si *siteInfo, field string) bool {
	cat := w.Catalog()
	f := si.ns.field(field)
	if f == nil {
		return false
	}
	if cat.isPos(f.Type()) {
		for _, a := range si.pos[field] {
			if a.kind != "invalid" && a.kind != "zero" {
				return true
			}
		}
		return false
	}
	a := si.env[field]
	if _, isSlice := f.Type().Underlying().(*types.Slice); isSlice {
		return a.mayFull
	}
	if b, ok := f.Type().Underlying().(*types.Basic); ok && b.Info()&(types.IsBoolean|types.IsString) != 0 {
		// a flag or a spelling: present unless the literal stores the zero value (or nothing)
		v := si.val[field]
		if v == nil {
			return false
		}
		if c, ok := v.(*ssa.Const); ok {
			if bv, ok := constBool(c); ok {
				return bv
			}
			if sv, ok := constString(c); ok {
				return sv != ""
			}
		}
		return true
	}
	return len(a.types) > 0 || a.top
}

func ruleC05R5(w *World, r *Report) {
	const rule = "C05/R5"
	r.rule(rule, "in every production the node-typed fields of a node are parsed in their declaration order (field declaration order = source order, which Walk relies on); ast.CreateTable is exempt (its elements are grouped by kind)", 40)
	cat := w.Catalog()
	type agg struct {
		bad   []string
		where string
		n     int
	}
	m := map[string]*agg{}
	for _, si := range w.sites() {
		if si.ns.Name == "CreateTable" {
			continue
		}
		names, _ := cat.nodeFields(si.ns)
		if len(names) < 2 {
			continue
		}
		// a literal that copies its fields from another node of the same type keeps that node's order
		if w.copiesFromSameType(si) {
			continue
		}
		key := "ast." + si.ns.Name
		if m[key] == nil {
			m[key] = &agg{where: w.pos(si.ns.DeclPos)}
		}
		m[key].n++
		for i := 0; i < len(names); i++ {
			for j := i + 1; j < len(names); j++ {
				if !w.fieldPresent(si, names[i]) || !w.fieldPresent(si, names[j]) {
					continue
				}
				ei, ej := w.fieldEvents(si, names[i]), w.fieldEvents(si, names[j])
				if allBefore(ej, ei) {
					m[key].bad = append(m[key].bad, fmt.Sprintf("site %s in %s: field %s is declared before %s but parsed after it", w.pos(si.al.Pos()), funcName(si.al.Parent()), names[i], names[j]))
				}
			}
		}
	}
	var keys []string
	for k := range m {
		keys = append(keys, k)
	}
	sort.Strings(keys)
	for _, k := range keys {
		a := m[k]
		if len(a.bad) > 0 {
			r.bad(rule, k, a.where, strings.Join(uniqSorted(a.bad), "; "))
		} else {
			r.ok(rule, k, a.where, fmt.Sprintf("parse order of node fields agrees with declaration order at %d site(s)", a.n))
		}
	}
}

// copiesFromSameType: all node-typed fields of the literal are loaded from one other node of the same type.
func (w *World) copiesFromSameType(si *siteInfo) bool {
	n, copied := 0, 0
	for _, v := range si.val {
		n++
		if ld, ok := isLoad(v); ok {
			if fa, ok := ld.(*ssa.FieldAddr); ok && namedOf(fa.X.Type()) == si.ns.Named {
				copied++
			}
		}
	}
	return copied >= 2 && copied >= n-1
}

// chainFields lists the struct fields referenced by a position expression, in order.
func chainFields(e PExpr) []string {
	var out []string
	var pn func(NExpr)
	pn = func(n NExpr) {
		switch x := n.(type) {
		case *NVar:
			out = append(out, x.Name)
		case *NIndex:
			out = append(out, x.Slice)
		case *NLast:
			out = append(out, x.Slice)
		case *NChoice:
			for _, a := range x.Alts {
				pn(a)
			}
		}
	}
	var pp func(PExpr)
	pp = func(p PExpr) {
		switch x := p.(type) {
		case *PChoice:
			for _, a := range x.Alts {
				pp(a)
			}
		case *PAdd:
			pp(x.X)
		case *PVar:
			out = append(out, x.Name)
		case *PNode:
			pn(x.N)
		}
	}
	pp(e)
	return out
}

func ruleC06Order(w *World, r *Report) {
	r.rule("C06/R1", "the field that yields pos at a site is produced by the first event of the production for this node: no other present field's event precedes it, apart from fields listed earlier in the pos chain", 125)
	r.rule("C06/R2", "end chains: (a) alternatives are listed in the reverse order of their parse events; (b) every field whose parse event lies after the event of the last (mandatory) alternative is part of the chain; (c) a field parsed after the chain's always-present fallback is in the chain unless a preferred alternative parsed after it is present whenever it is", 125)
	cat := w.Catalog()
	type agg struct {
		bad   []string
		where string
		n     int
	}
	m1, m2 := map[string]*agg{}, map[string]*agg{}
	get := func(m map[string]*agg, k, where string) *agg {
		if m[k] == nil {
			m[k] = &agg{where: where}
		}
		return m[k]
	}
	for _, si := range w.sites() {
		if si.ns.PosExpr == nil || si.ns.EndExpr == nil || strings.HasPrefix(si.ns.Name, "Bad") {
			continue
		}
		if w.copiesFromSameType(si) {
			continue
		}
		siteName := fmt.Sprintf("site %s in %s", w.pos(si.al.Pos()), funcName(si.al.Parent()))
		// all fields that carry source material (node-typed or positions)
		var all []string
		for i := 0; i < si.ns.Struct.NumFields(); i++ {
			f := si.ns.Struct.Field(i)
			if cat.isPos(f.Type()) || cat.nodeFieldKind(f.Type()) != "" {
				all = append(all, f.Name())
			}
		}
		// R1
		a1 := get(m1, "ast."+si.ns.Name+".pos", w.pos(si.ns.DeclPos))
		a1.n++
		pchain := chainFields(si.ns.PosExpr)
		inP := map[string]int{}
		for i, f := range pchain {
			if _, dup := inP[f]; !dup {
				inP[f] = i
			}
		}
		// the effective anchor: the first chain field that is present
		for ci, anchor := range pchain {
			if !w.fieldPresent(si, anchor) {
				continue
			}
			ea := w.fieldEvents(si, anchor)
			for _, g := range all {
				if g == anchor || !w.fieldPresent(si, g) {
					continue
				}
				if gi, listed := inP[g]; listed && gi < ci {
					continue
				}
				eg := w.fieldEvents(si, g)
				if anyBefore(eg, ea) && si.ns.Name != "CreateTable" {
					a1.bad = append(a1.bad, fmt.Sprintf("%s: pos = %s chooses %s, but %s is parsed before it: Pos() points into the middle of the node", siteName, pString(si.ns.PosExpr), anchor, g))
				}
			}
			if !w.fieldMayBeAbsent(si, anchor) {
				break
			}
		}
		// R2
		a2 := get(m2, "ast."+si.ns.Name+".end", w.pos(si.ns.DeclPos))
		a2.n++
		echain := chainFields(si.ns.EndExpr)
		inE := map[string]bool{}
		for _, f := range echain {
			inE[f] = true
		}
		// (a) order within the chain
		for i := 0; i < len(echain); i++ {
			for j := i + 1; j < len(echain); j++ {
				fi, fj := echain[i], echain[j]
				if fi == fj || !w.fieldPresent(si, fi) || !w.fieldPresent(si, fj) {
					continue
				}
				// fi is preferred over fj: fi must not be parsed before fj
				if eitherOrder(w.fieldEvents(si, fi), w.fieldEvents(si, fj)) && si.ns.Name != "CreateTable" && !allocInCycleOf(si.al, w.fieldEvents(si, fi)) {
					a2.bad = append(a2.bad, fmt.Sprintf("%s: end = %s prefers %s over %s, but the two are parsed inside one loop, in whichever order the input has them: when %s comes last End() stops before it", siteName, pString(si.ns.EndExpr), fi, fj, fj))
				}
				if anyBefore(w.fieldEvents(si, fi), w.fieldEvents(si, fj)) {
					a2.bad = append(a2.bad, fmt.Sprintf("%s: end = %s prefers %s over %s, but %s is parsed later: End() stops before the last clause", siteName, pString(si.ns.EndExpr), fi, fj, fj))
				}
			}
		}
		// (b) completeness: nothing present is parsed after every chain field that can be the anchor
		var last []event
		for _, f := range echain {
			if w.fieldPresent(si, f) {
				last = append(last, w.fieldEvents(si, f)...)
			}
		}
		if si.ns.Name != "CreateTable" {
			for _, g := range all {
				if inE[g] || !w.fieldPresent(si, g) {
					continue
				}
				eg := w.fieldEvents(si, g)
				if len(last) > 0 && allBefore(last, eg) {
					a2.bad = append(a2.bad, fmt.Sprintf("%s: %s is parsed after every field of end = %s, but is not part of the chain: End() is too small when it is present", siteName, g, pString(si.ns.EndExpr)))
				}
			}
		}
		// (c) a field outside the chain that is parsed after the chain's fallback (the first alternative that is always
		// present): End() reaches it only through a preferred alternative parsed after it, and only if that alternative is
		// there whenever the field is. A preferred alternative that is the result of its own call (an optional clause the
		// callee decides on from the token in front of it) is absent for some input on which the field is present.
		if si.ns.Name != "CreateTable" {
			fb := -1
			for i, f := range echain {
				if w.fieldPresent(si, f) && !w.fieldMayBeAbsent(si, f) {
					fb = i
					break
				}
			}
			for _, g := range all {
				if fb < 0 || inE[g] || !w.fieldPresent(si, g) {
					continue
				}
				eg := w.fieldEvents(si, g)
				if !allBefore(w.fieldEvents(si, echain[fb]), eg) {
					continue
				}
				covered, indep := false, ""
				for _, f := range echain[:fb] {
					if !w.fieldPresent(si, f) || !anyBefore(eg, w.fieldEvents(si, f)) {
						continue
					}
					if w.fieldMayBeAbsent(si, f) && ownOptionalCall(si.val[f], si.val[g]) {
						indep = f
						continue
					}
					covered = true
				}
				if !covered && indep != "" {
					a2.bad = append(a2.bad, fmt.Sprintf("%s: %s is parsed after %s, the fallback of end = %s, and is not part of the chain; the alternative parsed after it (%s) is an optional clause of its own: End() stops before %s when %s is absent", siteName, g, echain[fb], pString(si.ns.EndExpr), indep, g, indep))
				}
			}
		}
	}
	emit := func(rule string, m map[string]*agg, okText string) {
		var keys []string
		for k := range m {
			keys = append(keys, k)
		}
		sort.Strings(keys)
		for _, k := range keys {
			a := m[k]
			if len(a.bad) > 0 {
				r.bad(rule, k, a.where, strings.Join(uniqSorted(a.bad), "; "))
			} else {
				r.ok(rule, k, a.where, fmt.Sprintf("%s at %d site(s)", okText, a.n))
			}
		}
	}
	emit("C06/R1", m1, "first event of the production")
	emit("C06/R2", m2, "chain ordered and complete")
}

func (w *World) fieldMayBeAbsent(si *siteInfo, field string) bool {
	cat := w.Catalog()
	f := si.ns.field(field)
	if f == nil {
		return true
	}
	if cat.isPos(f.Type()) {
		for _, a := range si.pos[field] {
			if a.kind == "invalid" || a.kind == "zero" {
				return true
			}
		}
		return false
	}
	a := si.env[field]
	if _, isSlice := f.Type().Underlying().(*types.Slice); isSlice {
		return a.mayEmpty || !a.mayFull
	}
	return a.mayNil
}

// ruleC05R1Only: the anchor-presence part of ruleC05Anchors (C05/R1) for properties that need the positions to be
// recorded at all, but not their exact extent (known findings of C05/R3 belong to C05/C06 only).
func ruleC05R1Only(w *World, r *Report) {
	tmp := &Report{Prop: r.Prop, Tier: r.Tier}
	ruleC05Anchors(w, tmp)
	for _, ri := range tmp.Rules {
		if ri.ID == "C05/R1" {
			r.rule(ri.ID, ri.Text, ri.Floor)
		}
	}
	for _, o := range tmp.Obs {
		if o.Rule == "C05/R1" {
			r.add(o)
		}
	}
	r.Errors = append(r.Errors, tmp.Errors...)
}

// ruleC06R4: the text printed for a node begins with what its pos anchor stands for and ends with what its end anchor
// stands for. Clause (b) of C06 replaces input[n.Pos():n.End()] by n.SQL(): a node whose SQL() does not start with its
// own first token (the ':' of a braced-constructor field value printed by the parent instead) puts the text in the wrong
// place although every position and the root's SQL() are right.
func ruleC06R4(w *World, r *Report) {
	const rule = "C06/R4"
	r.rule(rule, "for node types whose pos is a single anchor: when the anchor is the position field of a token of known kind(s), every printed form of SQL() starts with constant text that begins with one of those spellings; when it is a child's pos, SQL() starts by printing that child. Likewise the end: `F + n` — SQL() ends with constant text ending in the spelling of F's token; a child's end — SQL() ends by printing that child", 125)
	cat := w.Catalog()
	// kinds of the token whose start is stored in a position field, over all sites
	kindsOf := func(ns *NodeStruct, field string) ([]string, bool) {
		var out KSet
		seen := false
		for _, si := range w.sites() {
			if si.ns != ns {
				continue
			}
			pa, ok := si.pos[field]
			if !ok {
				continue
			}
			for _, a := range pa {
				switch a.kind {
				case "start":
					if a.off != 0 {
						return nil, false
					}
					out = out.Join(a.fact)
					seen = true
				case "invalid", "zero":
				default:
					return nil, false
				}
			}
		}
		if !seen {
			return nil, false
		}
		atoms, fin := out.Finite()
		if !fin || len(atoms) == 0 {
			return nil, false
		}
		for _, a := range atoms {
			if strings.HasPrefix(a, "<") {
				return nil, false // <ident>, <int> …: no fixed spelling
			}
		}
		return atoms, true
	}
	hasPrefixFold := func(s, p string) bool {
		return len(s) >= len(p) && strings.EqualFold(s[:len(p)], p)
	}
	hasSuffixFold := func(s, p string) bool {
		return len(s) >= len(p) && strings.EqualFold(s[len(s)-len(p):], p)
	}
	n := 0
	for _, ns := range cat.Structs {
		if strings.HasPrefix(ns.Name, "Bad") || ns.PosExpr == nil || ns.EndExpr == nil {
			continue
		}
		pm := w.PrintModel(ns)
		if pm == nil || len(pm.seqs) == 0 || pm.opaque {
			continue
		}
		// ---- start
		switch px := ns.PosExpr.(type) {
		case *PVar:
			if kinds, ok := kindsOf(ns, px.Name); ok {
				n++
				construct := "ast." + ns.Name + ": SQL() starts with the token at " + px.Name
				var bad []string
				judged := 0
				for _, seq := range pm.seqs {
					if len(seq) == 0 {
						continue
					}
					p := seq[0]
					switch p.kind {
					case "const":
						if p.text == "" {
							continue
						}
						judged++
						okk := false
						for _, k := range kinds {
							if hasPrefixFold(p.text, k) {
								okk = true
							}
						}
						if !okk {
							bad = append(bad, fmt.Sprintf("a printed form starts with %q, the node starts at a token %v", p.text, kinds))
						}
					case "field-sql", "paren", "join":
						judged++
						bad = append(bad, fmt.Sprintf("a printed form starts with the child %s, the node's range starts at the token %v recorded in %s: the token is printed by someone else", p.field, kinds, px.Name))
					}
				}
				switch {
				case len(bad) > 0:
					r.bad(rule, construct, w.pos(pm.fn.Pos()), strings.Join(uniqSorted(bad), "; "))
				case judged > 0:
					r.ok(rule, construct, w.pos(pm.fn.Pos()), fmt.Sprintf("%d printed form(s) start with %v", judged, kinds))
				default:
					r.trivial(rule, construct, w.pos(pm.fn.Pos()), "first piece is conditional: not judged")
				}
			}
		case *PNode:
			if nv, ok := px.N.(*NVar); ok && !px.End {
				n++
				construct := "ast." + ns.Name + ": SQL() starts with the child " + nv.Name
				var bad []string
				judged := 0
				for _, seq := range pm.seqs {
					if len(seq) == 0 {
						continue
					}
					p := seq[0]
					switch p.kind {
					case "const":
						if p.text == "" {
							continue
						}
						// the child's own text may be printed inline: not judged
					case "field-sql", "paren", "join":
						judged++
						if p.field != nv.Name {
							bad = append(bad, fmt.Sprintf("a printed form starts with the child %s, the node's range starts where %s starts", p.field, nv.Name))
						}
					}
				}
				switch {
				case len(bad) > 0:
					r.bad(rule, construct, w.pos(pm.fn.Pos()), strings.Join(uniqSorted(bad), "; "))
				case judged > 0:
					r.ok(rule, construct, w.pos(pm.fn.Pos()), fmt.Sprintf("%d printed form(s) start with %s", judged, nv.Name))
				default:
					r.trivial(rule, construct, w.pos(pm.fn.Pos()), "first piece is conditional: not judged")
				}
			}
		}
		// ---- end
		switch ex := ns.EndExpr.(type) {
		case *PAdd:
			pv, ok := ex.X.(*PVar)
			if !ok {
				break
			}
			if kinds, ok := kindsOf(ns, pv.Name); ok {
				n++
				construct := "ast." + ns.Name + ": SQL() ends with the token at " + pv.Name
				var bad []string
				judged := 0
				for _, seq := range pm.seqs {
					if len(seq) == 0 {
						continue
					}
					p := seq[len(seq)-1]
					switch p.kind {
					case "const":
						if p.text == "" {
							continue
						}
						judged++
						okk := false
						for _, k := range kinds {
							if hasSuffixFold(p.text, k) {
								okk = true
							}
						}
						if !okk {
							bad = append(bad, fmt.Sprintf("a printed form ends with %q, the node ends with a token %v", p.text, kinds))
						}
					case "field-sql", "paren", "join":
						judged++
						bad = append(bad, fmt.Sprintf("a printed form ends with the child %s, the node's range ends with the token %v recorded in %s", p.field, kinds, pv.Name))
					}
				}
				switch {
				case len(bad) > 0:
					r.bad(rule, construct, w.pos(pm.fn.Pos()), strings.Join(uniqSorted(bad), "; "))
				case judged > 0:
					r.ok(rule, construct, w.pos(pm.fn.Pos()), fmt.Sprintf("%d printed form(s) end with %v", judged, kinds))
				default:
					r.trivial(rule, construct, w.pos(pm.fn.Pos()), "last piece is conditional: not judged")
				}
			}
		case *PNode:
			if nv, ok := ex.N.(*NVar); ok && ex.End {
				n++
				construct := "ast." + ns.Name + ": SQL() ends with the child " + nv.Name
				var bad []string
				judged := 0
				for _, seq := range pm.seqs {
					if len(seq) == 0 {
						continue
					}
					p := seq[len(seq)-1]
					switch p.kind {
					case "const":
						if p.text == "" {
							continue
						}
						// the child's own text may be printed inline: not judged
					case "field-sql", "paren", "join":
						judged++
						if p.field != nv.Name {
							bad = append(bad, fmt.Sprintf("a printed form ends with the child %s, the node's range ends where %s ends", p.field, nv.Name))
						}
					}
				}
				switch {
				case len(bad) > 0:
					r.bad(rule, construct, w.pos(pm.fn.Pos()), strings.Join(uniqSorted(bad), "; "))
				case judged > 0:
					r.ok(rule, construct, w.pos(pm.fn.Pos()), fmt.Sprintf("%d printed form(s) end with %s", judged, nv.Name))
				default:
					r.trivial(rule, construct, w.pos(pm.fn.Pos()), "last piece is conditional: not judged")
				}
			}
		}
	}
	_ = n
}

// ruleC05R6: positions are offsets into the caller's text. Every token.File the core packages build gets as its
// Buffer the very string the caller passed in: a parameter, handed down unchanged from the exported function.
func ruleC05R6(w *World, r *Report) {
	const rule = "C05/R6"
	r.rule(rule, "every store to token.File.Buffer in the core packages stores a string parameter of the enclosing function unchanged, and where that function is not exported each caller passes its own string parameter in that position (up to the exported entry point): positions are offsets into the text the caller supplied, not into a trimmed or converted copy", 2)
	n := 0
	var fromParam func(v ssa.Value, depth int) (bool, string)
	fromParam = func(v ssa.Value, depth int) (bool, string) {
		v = stripConv(v) // string(b) of a []byte parameter keeps every offset
		p, ok := v.(*ssa.Parameter)
		if !ok {
			return false, fmt.Sprintf("%s is computed (%s), not a parameter", v.Name(), v.String())
		}
		fn := p.Parent()
		if fn.Object() != nil && fn.Object().Exported() || depth > 4 {
			return true, ""
		}
		idx := -1
		for i, q := range fn.Params {
			if q == p {
				idx = i
			}
		}
		callers := w.callersOf(fn)
		if len(callers) == 0 {
			return true, ""
		}
		for _, cs := range callers {
			if !corePkg(fnPkgPath(cs.Parent())) {
				continue
			}
			com := cs.Common()
			off := 0
			if com.IsInvoke() {
				off = 1
			}
			if idx-off < 0 || idx-off >= len(com.Args) {
				return false, "argument not found at " + w.pos(cs.Pos())
			}
			if ok, why := fromParam(com.Args[idx-off], depth+1); !ok {
				return false, fmt.Sprintf("in %s at %s: %s", funcName(cs.Parent()), w.pos(cs.Pos()), why)
			}
		}
		return true, ""
	}
	for _, fn := range w.ModFns {
		if !corePkg(fnPkgPath(fn)) || fn.Blocks == nil {
			continue
		}
		for _, b := range fn.Blocks {
			for _, in := range b.Instrs {
				st, ok := in.(*ssa.Store)
				if !ok {
					continue
				}
				fa, ok := st.Addr.(*ssa.FieldAddr)
				if !ok || fieldAddrName(fa) != "Buffer" || !isNamed(fa.X.Type(), modRoot+"/token", "File") {
					continue
				}
				n++
				construct := "File.Buffer in " + funcName(fn)
				if ok, why := fromParam(st.Val, 0); ok {
					r.ok(rule, construct, w.pos(st.Pos()), "the caller's string, unchanged")
				} else {
					r.bad(rule, construct, w.pos(st.Pos()), "the lexer runs on a string that is not the caller's text ("+why+"): every Pos/End is an offset into the copy")
				}
			}
		}
	}
	if n < 2 {
		r.errorf("expected the File literals of newParser and SplitRawStatements, found %d", n)
	}
}

// allocInCycleOf: the allocation lies on a cycle with one of the events: the node is built once per iteration of the
// loop that parses its parts (their order within one iteration is fixed).
func allocInCycleOf(al *ssa.Alloc, ev []event) bool {
	ab := al.Block()
	for _, e := range ev {
		if e.in == nil || e.in.Parent() != al.Parent() {
			continue
		}
		eb := e.in.Block()
		if eb == ab || (blockReaches(ab, eb) && blockReaches(eb, ab)) {
			return true
		}
	}
	return false
}

// ownOptionalCall: v is the result of one call (possibly converted) that does not take g's value as an argument: whether
// it is nil is decided by the callee, from the tokens in front of it, after g has been parsed.
func ownOptionalCall(v, g ssa.Value) bool {
	for {
		switch x := v.(type) {
		case *ssa.MakeInterface:
			v = x.X
			continue
		case *ssa.ChangeInterface:
			v = x.X
			continue
		case *ssa.ChangeType:
			v = x.X
			continue
		case *ssa.Call:
			if x.Call.IsInvoke() {
				return false
			}
			for _, a := range x.Call.Args {
				if a == g {
					return false
				}
			}
			return true
		}
		return false
	}
}
