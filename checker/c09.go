package main

import (
	"fmt"
	"go/token"
	"go/types"
	"strings"

	"golang.org/x/tools/go/ssa"
)

func init() {
	register(&propDef{
		ID: "C09",
		Explanation: "R1 in every Parser.Parse* entry point each `return x, nil` is reachable only through the 'no errors recorded' edge of a test on len(Parser.errors), and that test is dominated by a test of the current token against <eof> whose 'not at end' side must pass an append to Parser.errors (must-pass-through on the SSA CFG). " +
			"R2 every allocation of an ast.Bad* node is dominated by a call to a function every normal return of which has appended to Parser.errors. " +
			"R3 who-may-write: every store to Parser.errors is `append(<load of the same field>, …)`; no truncation, no restore from a copy. " +
			"R4 speculative parsing does not record: between a Lexer.Clone() and the store that restores the clone into Parser.Lexer no callee can reach a store to Parser.errors. " +
			"C03/R2 (recovery discipline) is shared. Decides: the control-flow contract between the error list, Bad nodes and the nil error. Does not decide: numeric range of error positions.",
		Rules: []ruleFn{ruleC09R1, ruleC09R2, ruleC09R3, ruleC09R4, ruleC03R2, ruleC03R1, ruleC09R5, ruleC09R6, ruleC05R6},
	})
}

// parseEntryMethods: the Parse* methods of *Parser that return (T, error).
func (w *World) parseEntryMethods() []*ssa.Function {
	var out []*ssa.Function
	errT := types.Universe.Lookup("error").Type()
	for _, e := range w.Raise().entryPoints() {
		if e.Signature.Recv() == nil || !w.isParserPtr(e.Signature.Recv().Type()) {
			continue
		}
		res := e.Signature.Results()
		if res.Len() == 2 && types.Identical(res.At(1).Type(), errT) {
			out = append(out, e)
		}
	}
	return out
}

// errorsLenTest: cond tests emptiness of Parser.errors; returns which successor index is the "empty" side.
func (w *World) errorsLenTest(cond ssa.Value) (emptySucc int, ok bool) {
	bo, isBin := cond.(*ssa.BinOp)
	if !isBin {
		return 0, false
	}
	// len(p.errors) OP 0
	if call, isCall := bo.X.(*ssa.Call); isCall {
		if bi, isB := call.Call.Value.(*ssa.Builtin); isB && bi.Name() == "len" {
			addr, isL := isLoad(call.Call.Args[0])
			if isL && w.parserFieldAddr(addr, "errors") {
				if z, isC := constInt(bo.Y); isC && z == 0 {
					switch bo.Op {
					case token.GTR, token.NEQ:
						return 1, true
					case token.EQL, token.LEQ:
						return 0, true
					}
				}
				if z, isC := constInt(bo.Y); isC && z == 1 {
					switch bo.Op {
					case token.GEQ:
						return 1, true
					case token.LSS:
						return 0, true
					}
				}
			}
		}
	}
	// p.errors != nil
	if addr, isL := isLoad(bo.X); isL && w.parserFieldAddr(addr, "errors") && isNilConst(bo.Y) {
		switch bo.Op {
		case token.NEQ:
			return 1, true
		case token.EQL:
			return 0, true
		}
	}
	return 0, false
}

// pathsAvoid reports whether some path from block `from` reaches block `to` without executing an
// instruction satisfying stop (used negatively: "all paths pass a stop instruction").
func (w *World) pathAvoiding(from, to *ssa.BasicBlock, stop func(ssa.Instruction) bool) bool {
	seen := map[*ssa.BasicBlock]bool{}
	var visit func(b *ssa.BasicBlock) bool
	visit = func(b *ssa.BasicBlock) bool {
		if seen[b] {
			return false
		}
		seen[b] = true
		dead := w.deadAt(b)
		for i, in := range b.Instrs {
			if stop(in) {
				return false
			}
			if dead >= 0 && i == dead {
				return false
			}
		}
		if b == to {
			return true
		}
		for _, s := range b.Succs {
			if visit(s) {
				return true
			}
		}
		return false
	}
	return visit(from)
}

// eofOrErrorHelper: a method of the parser that checks for trailing input on behalf of the entry points: one test of
// the current token against <eof> dominates all its returns, every path from the "input remains" side to a return
// appends to Parser.errors, and nothing in it reads a token.
func (w *World) eofOrErrorHelper(fn *ssa.Function) bool {
	if fn.Blocks == nil || fnPkgPath(fn) != modRoot || fn.Signature.Recv() == nil || !w.isParserPtr(fn.Signature.Recv().Type()) {
		return false
	}
	var test *ssa.If
	remain := 0
	for _, b := range fn.Blocks {
		iff, ok := b.Instrs[len(b.Instrs)-1].(*ssa.If)
		if !ok {
			continue
		}
		if k, eqOnTrue, _, ok := w.kindTest(iff.Cond); ok && k == "<eof>" {
			if test != nil {
				return false
			}
			test = iff
			if eqOnTrue {
				remain = 1
			}
		}
	}
	if test == nil {
		return false
	}
	for _, b := range fn.Blocks {
		for _, in := range b.Instrs {
			if c, ok := in.(*ssa.Call); ok {
				if _, isBuiltin := c.Call.Value.(*ssa.Builtin); isBuiltin {
					continue
				}
				callee := c.Call.StaticCallee()
				if callee == nil || (corePkg(fnPkgPath(callee)) && callee.Name() != "errorfAtToken") {
					return false
				}
			}
		}
		if _, ok := b.Instrs[len(b.Instrs)-1].(*ssa.Return); ok {
			if !(test.Block() == b || test.Block().Dominates(b)) {
				return false
			}
			if w.pathAvoiding(test.Block().Succs[remain], b, w.recordsError) {
				return false
			}
		}
	}
	return true
}

func ruleC09R1(w *World, r *Report) {
	const rule = "C09/R1"
	r.rule(rule, "Parse* entry points: a nil error is returned only on the 'Parser.errors is empty' edge, and only after a test of the current token against <eof> whose 'input remains' side must append to Parser.errors", 9)
	w.NoReturn()
	for _, e := range w.parseEntryMethods() {
		name := funcName(e)
		nret := 0
		for _, b := range e.Blocks {
			ret, ok := b.Instrs[len(b.Instrs)-1].(*ssa.Return)
			if !ok || !isNilConst(ret.Results[1]) {
				continue
			}
			nret++
			construct := fmt.Sprintf("%s: return _, nil", name)
			if nret > 1 {
				construct += fmt.Sprintf(" (%d)", nret)
			}
			where := w.pos(ret.Pos())
			// (a) dominated by the empty edge of an errors-emptiness test, nothing in between
			var lenIf *ssa.If
			for d := b; d != nil; d = d.Idom() {
				if len(d.Preds) != 1 {
					if d != b || len(d.Preds) != 1 {
						// keep climbing only through straight single-predecessor chains
					}
				}
				p := d.Idom()
				if p == nil {
					break
				}
				if iff, ok := p.Instrs[len(p.Instrs)-1].(*ssa.If); ok {
					if es, ok := w.errorsLenTest(iff.Cond); ok && p.Succs[es] == d && len(d.Preds) == 1 {
						lenIf = iff
						// no effects between the test and the return
						clean := true
						for x := b; ; x = x.Idom() {
							for _, in := range x.Instrs {
								switch in.(type) {
								case *ssa.Call, *ssa.Store, *ssa.Defer, *ssa.Go:
									clean = false
								}
							}
							if x == d {
								break
							}
						}
						if !clean {
							lenIf = nil
						}
					}
				}
				if lenIf != nil {
					break
				}
			}
			if lenIf == nil {
				r.bad(rule, construct, where, "this nil-error return is not guarded by the 'no error recorded' edge of a test on len(Parser.errors)")
				continue
			}
			// (b) an <eof> test dominates the emptiness test; its "input remains" side must record
			var eofIf *ssa.If
			var remainSucc int
			for d := lenIf.Block(); d != nil; d = d.Idom() {
				if iff, ok := d.Instrs[len(d.Instrs)-1].(*ssa.If); ok && iff != lenIf {
					if k, eqOnTrue, _, ok := w.kindTest(iff.Cond); ok && k == "<eof>" {
						eofIf = iff
						if eqOnTrue {
							remainSucc = 1
						} else {
							remainSucc = 0
						}
						break
					}
				}
			}
			consuming := func(in ssa.Instruction) bool {
				c, ok := in.(*ssa.Call)
				if !ok {
					return false
				}
				if _, isBuiltin := c.Call.Value.(*ssa.Builtin); isBuiltin {
					return false
				}
				callee := c.Call.StaticCallee()
				return callee == nil || (corePkg(fnPkgPath(callee)) && callee.Name() != "errorfAtToken")
			}
			if eofIf == nil {
				// the test may live in a helper shared by the entry points: a call, dominating the error-count test, of a
				// function that returns only with the current token at <eof> or with an error appended, and reads no token
				var helper *ssa.Call
			search:
				for d := lenIf.Block(); d != nil; d = d.Idom() {
					for i := len(d.Instrs) - 1; i >= 0; i-- {
						c, ok := d.Instrs[i].(*ssa.Call)
						if !ok {
							continue
						}
						if callee := c.Call.StaticCallee(); callee != nil && w.eofOrErrorHelper(callee) {
							helper = c
							break search
						}
						if consuming(c) {
							break search
						}
					}
				}
				if helper != nil {
					clean := true
					hb := helper.Block()
					after := false
					for _, in := range hb.Instrs {
						if in == ssa.Instruction(helper) {
							after = true
							continue
						}
						if after && consuming(in) {
							clean = false
						}
					}
					if hb != lenIf.Block() {
						for x := lenIf.Block(); x != nil && x != hb; x = x.Idom() {
							for _, in := range x.Instrs {
								if consuming(in) {
									clean = false
								}
							}
						}
					}
					if !clean {
						r.bad(rule, construct, where, "a call that may move the lexer lies between the <eof> check in "+funcName(helper.Call.StaticCallee())+" and this return")
						continue
					}
					r.ok(rule, construct, where, fmt.Sprintf("guarded by len(p.errors) test at %s (empty edge) after the call of %s at %s, which returns only at <eof> or with an error appended", w.pos(lenIf.Pos()), funcName(helper.Call.StaticCallee()), w.pos(helper.Pos())))
					continue
				}
				r.bad(rule, construct, where, "no test of the current token against <eof> dominates this nil-error return: unconsumed input would be accepted silently")
				continue
			}
			if w.pathAvoiding(eofIf.Block().Succs[remainSucc], lenIf.Block(), w.recordsError) {
				r.bad(rule, construct, where, "on the 'current token is not <eof>' side of the test at "+w.pos(eofIf.Pos())+" a path reaches the error-count test without appending to Parser.errors")
				continue
			}
			// nothing may consume a token between the eof test and the return
			if !w.pathAvoiding(eofIf.Block().Succs[1-remainSucc], b, consuming) {
				r.bad(rule, construct, where, "a call that may move the lexer lies between the <eof> test and this return")
				continue
			}
			r.ok(rule, construct, where, fmt.Sprintf("guarded by len(p.errors) test at %s (empty edge) and <eof> test at %s whose other side appends to p.errors", w.pos(lenIf.Pos()), w.pos(eofIf.Pos())))
		}
		if nret == 0 {
			r.bad(rule, name+": return _, nil", w.pos(e.Pos()), "entry point has no nil-error return (every call reports an error)")
		}
	}
}

func ruleC09R2(w *World, r *Report) {
	const rule = "C09/R2"
	r.rule(rule, "every allocation of an ast.Bad* node in package memefish is dominated by a call to a function all of whose normal returns have appended to Parser.errors", 5)
	rec := w.Recording()
	if len(rec) == 0 {
		r.errorf("no error-recording function found (expected handleError and the handleParse*Error family)")
	}
	n := 0
	for _, fn := range w.ModFns {
		if fnPkgPath(fn) != modRoot {
			continue
		}
		for _, b := range fn.Blocks {
			for i, in := range b.Instrs {
				al, ok := in.(*ssa.Alloc)
				if !ok {
					continue
				}
				nt := namedOf(al.Type())
				if nt == nil || nt.Obj().Pkg() == nil || nt.Obj().Pkg().Path() != modRoot+"/ast" || !strings.HasPrefix(nt.Obj().Name(), "Bad") {
					continue
				}
				if _, isStruct := nt.Underlying().(*types.Struct); !isStruct {
					continue
				}
				n++
				construct := fmt.Sprintf("alloc ast.%s in %s", nt.Obj().Name(), funcName(fn))
				// dominated by a recording call?
				found := ""
				for d := b; d != nil && found == ""; d = d.Idom() {
					// In the allocating block the call may follow the Alloc (a composite literal
					// allocates first and evaluates its fields next); the block is straight-line,
					// so the node is only published after the call has returned.
					_ = i
					for j := 0; j < len(d.Instrs); j++ {
						if c, ok := d.Instrs[j].(*ssa.Call); ok {
							if callee := c.Call.StaticCallee(); callee != nil && rec[callee] {
								found = funcName(callee) + " at " + w.pos(c.Pos())
							}
						}
					}
				}
				if found == "" && fn.Signature.Recv() == nil && len(naturalLoops(fn)) == 0 {
					// a constructor (newBadNode(pos, tokens)): decided where it is called — every call is dominated by a
					// recording call
					sites := w.callersOf(fn)
					nOK, nAll := 0, 0
					for _, site := range sites {
						if site.Parent() == nil || site.Parent().Synthetic != "" {
							continue
						}
						nAll++
						okSite := false
						for d := site.Block(); d != nil && !okSite; d = d.Idom() {
							for _, x := range d.Instrs {
								if c, ok := x.(*ssa.Call); ok {
									if callee := c.Call.StaticCallee(); callee != nil && rec[callee] {
										okSite = true
									}
								}
							}
						}
						if okSite {
							nOK++
						}
					}
					if nAll > 0 && nOK == nAll {
						found = fmt.Sprintf("a recording call before each of the %d calls of the constructor", nAll)
					}
				}
				if found == "" {
					r.bad(rule, construct, w.pos(al.Pos()), "a Bad node is created on a path that has not recorded an error in Parser.errors")
				} else {
					r.ok(rule, construct, w.pos(al.Pos()), "dominated by recording call "+found)
				}
			}
		}
	}
	r.count("Bad* allocation sites", n)
}

func ruleC09R3(w *World, r *Report) {
	const rule = "C09/R3"
	r.rule(rule, "every store to Parser.errors stores append(<load of Parser.errors>, …); Parser values are never overwritten as a whole", 2)
	for _, fn := range w.ModFns {
		nStore := 0
		for _, b := range fn.Blocks {
			for _, in := range b.Instrs {
				st, ok := in.(*ssa.Store)
				if !ok {
					continue
				}
				if w.parserFieldAddr(st.Addr, "errors") {
					nStore++
					construct := fmt.Sprintf("store to Parser.errors in %s", funcName(fn))
					if nStore > 1 {
						construct += fmt.Sprintf(" (%d)", nStore)
					}
					if w.isAppendOfField(st.Val, "errors") {
						r.ok(rule, construct, w.pos(st.Pos()), "append to the same field")
					} else {
						r.bad(rule, construct, w.pos(st.Pos()), "Parser.errors is overwritten with a value that is not append(Parser.errors, …): recorded errors can be lost")
					}
				}
				if pt, ok := st.Addr.Type().(*types.Pointer); ok && isNamed(pt.Elem(), modRoot, "Parser") && !isPointer(pt.Elem()) {
					if _, isAlloc := st.Addr.(*ssa.Alloc); !isAlloc {
						r.bad(rule, "whole-Parser store in "+funcName(fn), w.pos(st.Pos()), "a Parser value is overwritten as a whole (its error list with it)")
					}
				}
			}
		}
	}
}

// restoreSites: stores `P.Lexer = v` where v derives from a Clone() call made in the same function
// (directly, or in the parent when the store sits in a deferred closure).
type restoreSite struct {
	fn      *ssa.Function // function containing the Clone()
	clone   *ssa.Call
	store   *ssa.Store
	inDefer bool
}

func (w *World) lexerCloneCall(v ssa.Value) *ssa.Call {
	c, ok := v.(*ssa.Call)
	if !ok {
		return nil
	}
	callee := c.Call.StaticCallee()
	if callee == nil || callee.Name() != "Clone" || callee.Signature.Recv() == nil || !w.isLexerPtr(callee.Signature.Recv().Type()) {
		return nil
	}
	return c
}

func (w *World) restoreSites() []restoreSite {
	var out []restoreSite
	for _, fn := range w.ModFns {
		for _, b := range fn.Blocks {
			for _, in := range b.Instrs {
				st, ok := in.(*ssa.Store)
				if !ok || !w.parserFieldAddr(st.Addr, "Lexer") {
					continue
				}
				if c := w.lexerCloneCall(st.Val); c != nil {
					out = append(out, restoreSite{fn: fn, clone: c, store: st})
					continue
				}
				// captured variable in a closure: FreeVar bound to the parent's value or cell
				v := st.Val
				if ld, isL := isLoad(v); isL {
					v = ld
				}
				if fv, ok := v.(*ssa.FreeVar); ok && fn.Parent() != nil {
					idx := -1
					for i, f := range fn.FreeVars {
						if f == fv {
							idx = i
						}
					}
					for _, pb := range fn.Parent().Blocks {
						for _, pin := range pb.Instrs {
							mc, ok := pin.(*ssa.MakeClosure)
							if !ok || mc.Fn != fn || idx < 0 {
								continue
							}
							bound := mc.Bindings[idx]
							if c := w.lexerCloneCall(bound); c != nil {
								out = append(out, restoreSite{fn: fn.Parent(), clone: c, store: st, inDefer: true})
							} else if al, ok := bound.(*ssa.Alloc); ok {
								var stores []*ssa.Store
								collectStores(al, &stores)
								for _, s2 := range stores {
									if c := w.lexerCloneCall(s2.Val); c != nil {
										out = append(out, restoreSite{fn: fn.Parent(), clone: c, store: st, inDefer: true})
									}
								}
							}
						}
					}
				}
			}
		}
	}
	return out
}

func ruleC09R4(w *World, r *Report) {
	const rule = "C09/R4"
	r.rule(rule, "speculative parsing: on every path from a Lexer.Clone() to the store restoring that clone into Parser.Lexer (in the function or its deferred closure) no callee can reach a store to Parser.errors and no recover() lies in between", 4)
	may := w.MayRecord()
	sites := w.restoreSites()
	for _, s := range sites {
		construct := "lookahead region in " + funcName(s.fn)
		// instructions on paths clone -> restore that do not re-execute the Clone() (for a
		// deferred restore: everything reachable from the clone)
		fwd := instrReach(s.clone, true, func(in ssa.Instruction) bool { return in == ssa.Instruction(s.clone) || in == ssa.Instruction(s.store) })
		var bwd map[ssa.Instruction]bool
		if !s.inDefer {
			bwd = instrReach(s.store, false, func(in ssa.Instruction) bool { return in == ssa.Instruction(s.clone) || in == ssa.Instruction(s.store) })
		}
		bad := ""
		for _, b := range s.fn.Blocks {
			for _, in := range b.Instrs {
				if !fwd[in] || (!s.inDefer && !bwd[in]) {
					continue
				}
				ci, ok := in.(ssa.CallInstruction)
				if !ok {
					continue
				}
				if _, isDefer := in.(*ssa.Defer); isDefer {
					continue
				}
				for _, callee := range w.Callees(ci) {
					if may[callee] {
						bad = fmt.Sprintf("%s (called at %s) can reach a store to Parser.errors", funcName(callee), w.pos(in.Pos()))
					}
				}
			}
		}
		if bad != "" {
			r.bad(rule, construct, w.pos(s.clone.Pos()), "between Clone() and the restore at "+w.pos(s.store.Pos())+": "+bad+"; an error recorded while looking ahead survives the rewind")
		} else {
			r.ok(rule, construct, w.pos(s.clone.Pos()), "no recording callee between Clone() and restore at "+w.pos(s.store.Pos()))
		}
	}
}

func indexOf(b *ssa.BasicBlock, in ssa.Instruction) int {
	for i, x := range b.Instrs {
		if x == in {
			return i
		}
	}
	return -1
}

// loopsBack: the block can reach itself.
func loopsBack(b *ssa.BasicBlock) bool {
	seen := map[*ssa.BasicBlock]bool{}
	var visit func(x *ssa.BasicBlock) bool
	visit = func(x *ssa.BasicBlock) bool {
		for _, s := range x.Succs {
			if s == b {
				return true
			}
			if !seen[s] {
				seen[s] = true
				if visit(s) {
					return true
				}
			}
		}
		return false
	}
	return visit(b)
}

// instrReach: instructions reachable from `from` (exclusive) going forward (or backward) in the
// function's instruction graph without passing an instruction for which stop holds.
func instrReach(from ssa.Instruction, forward bool, stop func(ssa.Instruction) bool) map[ssa.Instruction]bool {
	out := map[ssa.Instruction]bool{}
	var step func(b *ssa.BasicBlock, i int)
	visitedBlockEntry := map[*ssa.BasicBlock]bool{}
	step = func(b *ssa.BasicBlock, i int) {
		if forward {
			for ; i < len(b.Instrs); i++ {
				in := b.Instrs[i]
				if stop(in) {
					return
				}
				out[in] = true
			}
			for _, s := range b.Succs {
				if !visitedBlockEntry[s] {
					visitedBlockEntry[s] = true
					step(s, 0)
				}
			}
		} else {
			for ; i >= 0; i-- {
				in := b.Instrs[i]
				if stop(in) {
					return
				}
				out[in] = true
			}
			for _, p := range b.Preds {
				if !visitedBlockEntry[p] {
					visitedBlockEntry[p] = true
					step(p, len(p.Instrs)-1)
				}
			}
		}
	}
	b := from.Block()
	idx := indexOf(b, from)
	if forward {
		step(b, idx+1)
	} else {
		step(b, idx-1)
	}
	return out
}

// ruleC09R6: an error that is returned is looked at. The lexer has two ways of reporting an error: nextToken raises
// (the parser's recovery turns the raise into an entry of Parser.errors), the exported NextToken returns it. A call of
// an error-returning function of the module whose result is dropped loses the error: the parse goes on with a
// half-built token and reports something else, somewhere else.
func ruleC09R6(w *World, r *Report) {
	const rule = "C09/R6"
	r.rule(rule, "no call in the core packages drops the error result of a function of the module: the result is bound and used (compared, returned, stored)", 3)
	errT := types.Universe.Lookup("error").Type()
	n := 0
	for _, fn := range w.ModFns {
		if !corePkg(fnPkgPath(fn)) || fn.Blocks == nil {
			continue
		}
		for _, b := range fn.Blocks {
			for _, in := range b.Instrs {
				c, ok := in.(*ssa.Call)
				if !ok {
					continue
				}
				var calleePkg string
				name := ""
				if sc := c.Call.StaticCallee(); sc != nil {
					calleePkg, name = fnPkgPath(sc), funcName(sc)
				} else if c.Call.IsInvoke() && c.Call.Method.Pkg() != nil {
					calleePkg, name = c.Call.Method.Pkg().Path(), c.Call.Method.Name()
				}
				if !corePkg(calleePkg) {
					continue
				}
				res := c.Call.Signature().Results()
				idx := -1
				for i := 0; i < res.Len(); i++ {
					if types.Identical(res.At(i).Type(), errT) {
						idx = i
					}
				}
				if idx < 0 {
					continue
				}
				n++
				construct := fmt.Sprintf("error result of %s in %s", name, funcName(fn))
				used := false
				if res.Len() == 1 {
					used = len(referrers(c)) > 0
				} else {
					for _, u := range referrers(c) {
						if ex, ok := u.(*ssa.Extract); ok && ex.Index == idx && len(referrers(ex)) > 0 {
							used = true
						}
					}
				}
				if used {
					r.ok(rule, construct, w.pos(c.Pos()), "bound and used")
				} else {
					r.bad(rule, construct, w.pos(c.Pos()), "the error is dropped: a lexical error in the token fetched here is never reported, and the token is left half-built (its End is not set)")
				}
			}
		}
	}
	if n < 5 {
		r.errorf("only %d calls of error-returning module functions found", n)
	}
}
