package main

import (
	"fmt"
	"go/ast"
	"go/constant"
	"go/token"
	"go/types"
	"regexp"
	"sort"
	"strings"

	"golang.org/x/tools/go/ssa"
)

func init() {
	register(&propDef{
		ID: "C15",
		Explanation: "R1 every escape the quoting functions can emit (quoteSingleEscape pairs, the \\x%02x / \\u%04x / \\U%08x formats) is decoded by the lexer's escape table (C14/R2, shared) to the value it was emitted for: same letter, digit count in the format = digit count the lexer demands, value range of the guard fits the digits, \\u/\\U never emitted for bytes literals, the quote parameter ranges over the three quote characters only. " +
			"R2 in the content loops a raw write of the loop variable happens only after quoteSingleEscape returned \"\" for it (dominance), and quoteSingleEscape escapes the active quote and the backslash unconditionally; opening and closing quote are the same value that is passed to the content function. " +
			"R3 a range over a string whose rune reaches the output without separating utf8.RuneError/width 1 collapses invalid bytes to U+FFFD. " +
			"R4 needQuoteSQLIdent and the lexer's identifier scan use the same classifiers and keyword table (resolved callees) and QuoteSQLIdent returns its argument unquoted only on the false edge of needQuoteSQLIdent. " +
			"Does not decide: unicode.IsPrint behaviour over the whole rune range.",
		Rules: []ruleFn{ruleC14R1, ruleC14R2, ruleC14R7, ruleC15R1, ruleC15R2, ruleC15R3, ruleC15R4, ruleC15R5, ruleC15R6},
	})
}

var specDecode = map[byte]rune{'a': '\a', 'b': '\b', 'f': '\f', 'n': '\n', 'r': '\r', 't': '\t', 'v': '\v', '\\': '\\', '?': '?', '"': '"', '\'': '\'', '`': '`'}

func ruleC15R1(w *World, r *Report) {
	const rule = "C15/R1"
	r.rule(rule, "every escape emitted by token/quote.go decodes (per the lexer's table) to the value it was emitted for; numeric formats have the digit count the lexer demands and guards that make the value fit; \\u/\\U are not emitted for bytes", 4)
	info := w.Tok.TypesInfo
	fd := findFuncDecl(w.Tok, "", "quoteSingleEscape")
	var rObj, quoteObj, isStringObj types.Object
	var sw *ast.SwitchStmt
	where := "-"
	if strE, _ := w.quoteEscapers(); strE != nil {
		where = w.pos(strE.fn.Pos())
	}
	if fd != nil {
		var names []*ast.Ident
		for _, p := range fd.Type.Params.List {
			names = append(names, p.Names...)
		}
		if len(names) == 3 {
			rObj, quoteObj, isStringObj = info.Defs[names[0]], info.Defs[names[1]], info.Defs[names[2]]
			for _, st := range fd.Body.List {
				if s, ok := st.(*ast.SwitchStmt); ok && s.Tag == nil {
					sw = s
				}
			}
		}
	}
	unconditional := map[string]bool{}
	if sw == nil {
		// not the tagless switch of quoteSingleEscape(r, quote, isString) the first version of the rule reads: the
		// function each content loop consults for an element (whatever it is called, one for both kinds of literal or one
		// each) is followed by interpretation (CONCR) for every byte value and a few larger runes and each quote
		// character — it only compares its element with constants, so this is its whole table
		w.quoteEscapeTable(r, rule, where)
		unconditional["quote"], unconditional["backslash"] = true, true // judged inside, per quote character
		sw = &ast.SwitchStmt{Body: &ast.BlockStmt{}}
	}
	for _, c := range sw.Body.List {
		cc := c.(*ast.CaseClause)
		if cc.List == nil {
			continue
		}
		for _, cond := range cc.List {
			// conjuncts
			var conj []ast.Expr
			var split func(e ast.Expr)
			split = func(e ast.Expr) {
				e = ast.Unparen(e)
				if be, ok := e.(*ast.BinaryExpr); ok && be.Op == token.LAND {
					split(be.X)
					split(be.Y)
					return
				}
				conj = append(conj, e)
			}
			split(cond)
			var val rune = -1
			isQuote, guarded, unknown := false, false, false
			for _, e := range conj {
				if id, ok := e.(*ast.Ident); ok && info.Uses[id] == isStringObj {
					guarded = true
					continue
				}
				be, ok := e.(*ast.BinaryExpr)
				if !ok || be.Op != token.EQL || !isUseOf(info, be.X, rObj) {
					unknown = true
					continue
				}
				if isUseOf(info, be.Y, quoteObj) {
					isQuote = true
				} else if v, ok := constI(info, be.Y); ok {
					val = rune(v)
				} else {
					unknown = true
				}
			}
			construct := "quoteSingleEscape case " + exprText(w.Fset, cond)
			if unknown || (val < 0 && !isQuote) {
				r.undecided(rule, construct, w.pos(cond.Pos()), "condition is not of the form [isString &&] r == <constant|quote>")
				continue
			}
			// emitted text
			if len(cc.Body) != 1 {
				r.undecided(rule, construct, w.pos(cc.Pos()), "arm is not a single return")
				continue
			}
			ret, ok := cc.Body[0].(*ast.ReturnStmt)
			if !ok || len(ret.Results) != 1 {
				r.undecided(rule, construct, w.pos(cc.Pos()), "arm is not a single return")
				continue
			}
			if isQuote {
				// `\` + string(r)
				be, ok := ret.Results[0].(*ast.BinaryExpr)
				good := false
				if ok && be.Op == token.ADD {
					if s, ok := constStr(info, be.X); ok && s == `\` {
						if conv, ok := be.Y.(*ast.CallExpr); ok && len(conv.Args) == 1 && isUseOf(info, conv.Args[0], rObj) {
							good = true
						}
					}
				}
				if good {
					if !guarded {
						unconditional["quote"] = true
					}
					r.ok(rule, construct, w.pos(cc.Pos()), "emits backslash + the quote character itself; \\\" \\' \\` decode to themselves")
				} else {
					r.bad(rule, construct, w.pos(cc.Pos()), "the active quote character is not emitted as backslash + itself")
				}
				continue
			}
			s, ok := constStr(info, ret.Results[0])
			if !ok || len(s) != 2 || s[0] != '\\' {
				r.bad(rule, construct, w.pos(cc.Pos()), fmt.Sprintf("emits %q, which is not a backslash followed by one escape letter", s))
				continue
			}
			dec, known := specDecode[s[1]]
			switch {
			case !known:
				r.bad(rule, construct, w.pos(cc.Pos()), fmt.Sprintf("emits %q, which the lexer does not decode as a simple escape", s))
			case dec != val:
				r.bad(rule, construct, w.pos(cc.Pos()), fmt.Sprintf("emits %q for %q, but the lexer decodes it to %q", s, val, dec))
			default:
				if !guarded && val == '\\' {
					unconditional["backslash"] = true
				}
				r.ok(rule, construct, w.pos(cc.Pos()), fmt.Sprintf("%q -> %q -> %q", val, s, dec))
			}
		}
	}
	if len(sw.Body.List) == 0 {
		// decided by quoteEscapeTable
	} else if !unconditional["quote"] {
		r.bad(rule, "quoteSingleEscape escapes the quote unconditionally", where, "no arm `r == quote` that applies to strings, bytes and identifiers alike: the literal could be closed early")
	} else {
		r.ok(rule, "quoteSingleEscape escapes the quote unconditionally", where, "arm r == quote is not guarded by isString")
	}
	if len(sw.Body.List) == 0 {
	} else if !unconditional["backslash"] {
		r.bad(rule, "quoteSingleEscape escapes the backslash unconditionally", where, "no unguarded arm for '\\\\': a backslash in the value would start an escape")
	} else {
		r.ok(rule, "quoteSingleEscape escapes the backslash unconditionally", where, "arm r == '\\\\' is not guarded by isString")
	}

	// numeric formats
	reFmt := regexp.MustCompile(`^\\([xuU])%0(\d)x$`)
	need := map[string]int{"x": 2, "u": 4, "U": 8}
	maxFor := map[string]int64{"x": 0x7f, "u": 0xFFFF, "U": 0x10FFFF}
	for _, fname := range []string{"quoteSQLStringContent", "QuoteSQLBytes", "QuoteSQLString", "QuoteSQLIdent"} {
		f := findFuncDecl(w.Tok, "", fname)
		if f == nil {
			r.errorf("token.%s not found", fname)
			continue
		}
		isBytes := fname == "QuoteSQLBytes"
		// tagless switches with interval tracking on the ranged rune
		var visit func(n ast.Node, lo, hi int64)
		checkFmt := func(call *ast.CallExpr, lo, hi int64) {
			sel, ok := call.Fun.(*ast.SelectorExpr)
			if !ok || sel.Sel.Name != "Fprintf" || len(call.Args) < 2 {
				return
			}
			f, ok := constStr(info, call.Args[1])
			if !ok {
				return
			}
			construct := fmt.Sprintf("%s format %q", fname, f)
			m := reFmt.FindStringSubmatch(f)
			if m == nil {
				r.bad(rule, construct, w.pos(call.Pos()), "format is not a numeric escape the lexer decodes (\\x%02x, \\u%04x, \\U%08x)")
				return
			}
			letter, digits := m[1], int(m[2][0]-'0')
			// what is formatted: a single byte (then \xHH denotes exactly that byte) or a rune
			argIsByte := false
			if len(call.Args) >= 3 {
				e := ast.Unparen(call.Args[2])
				for {
					conv, ok := e.(*ast.CallExpr)
					if !ok || len(conv.Args) != 1 || !info.Types[conv.Fun].IsType() {
						break
					}
					e = ast.Unparen(conv.Args[0])
				}
				if bt, ok := info.Types[e].Type.Underlying().(*types.Basic); ok && bt.Kind() == types.Uint8 {
					argIsByte = true
				}
			}
			if argIsByte && letter == "x" && digits == 2 {
				r.ok(rule, construct, w.pos(call.Pos()), "a single byte is emitted as \\xHH, which the lexer decodes to that byte")
				return
			}
			switch {
			case digits != need[letter]:
				r.bad(rule, construct, w.pos(call.Pos()), fmt.Sprintf("emits %d hex digits after \\%s, the lexer demands %d", digits, letter, need[letter]))
			case isBytes && letter != "x":
				r.bad(rule, construct, w.pos(call.Pos()), "\\u/\\U escapes are rejected by the lexer inside bytes literals")
			case !isBytes && hi > maxFor[letter]:
				r.bad(rule, construct, w.pos(call.Pos()), fmt.Sprintf("reached for values up to %#x, which \\%s with %d digits cannot denote as the same rune (limit %#x)", hi, letter, digits, maxFor[letter]))
			default:
				r.ok(rule, construct, w.pos(call.Pos()), fmt.Sprintf("%d digits; value range [%#x, %#x] fits", digits, lo, hi))
			}
		}
		visit = func(n ast.Node, lo, hi int64) {
			ast.Inspect(n, func(x ast.Node) bool {
				switch x := x.(type) {
				case *ast.SwitchStmt:
					if x.Tag != nil {
						return true
					}
					l, h := lo, hi
					for _, c := range x.Body.List {
						cc := c.(*ast.CaseClause)
						bl, bh := l, h
						if len(cc.List) == 1 {
							if be, ok := cc.List[0].(*ast.BinaryExpr); ok {
								if k, ok := constI(info, be.Y); ok {
									switch be.Op {
									case token.LSS:
										bh, l = min64(h, k-1), max64(l, k)
									case token.LEQ:
										bh, l = min64(h, k), max64(l, k+1)
									case token.GTR:
										bl, h = max64(l, k+1), min64(h, k)
									case token.GEQ:
										bl, h = max64(l, k), min64(h, k-1)
									}
								}
							}
						}
						for _, st := range cc.Body {
							visit(st, bl, bh)
						}
					}
					return false
				case *ast.CallExpr:
					checkFmt(x, lo, hi)
				}
				return true
			})
		}
		hi := int64(0x10FFFF)
		if isBytes {
			hi = 0xFF
		}
		visit(f.Body, 0, hi)
	}

	// the quote parameter ranges over the three quote characters
	strE, bytE := w.quoteEscapers()
	var escs []*quoteEscaper
	for _, e := range []*quoteEscaper{strE, bytE} {
		if e != nil && (len(escs) == 0 || escs[0].fn != e.fn) {
			escs = append(escs, e)
		}
	}
	if len(escs) == 0 {
		r.undecided(rule, "values of the quote parameter", where, "the content loops do not consult an escaper function")
	}
	for _, esc := range escs {
		qf := esc.fn
		vals, ok := w.constantsReaching(qf.Params[esc.quoteIdx], map[ssa.Value]bool{}, 0)
		sort.Slice(vals, func(i, j int) bool { return vals[i] < vals[j] })
		bad := ""
		for _, v := range vals {
			if v != '"' && v != '\'' && v != '`' {
				bad = fmt.Sprintf("%q", rune(v))
			}
		}
		switch {
		case !ok:
			r.undecided(rule, "values of the quote parameter of "+qf.Name(), w.pos(qf.Pos()), "cannot enumerate the constants reaching the quote parameter")
		case bad != "":
			r.bad(rule, "values of the quote parameter of "+qf.Name(), w.pos(qf.Pos()), "quote character "+bad+" is not a delimiter the lexer knows")
		default:
			r.ok(rule, "values of the quote parameter of "+qf.Name(), w.pos(qf.Pos()), fmt.Sprintf("quote ∈ %q", runesOf(vals)))
		}
	}
}

func runesOf(v []int64) []rune {
	var out []rune
	for _, x := range v {
		out = append(out, rune(x))
	}
	return out
}

func min64(a, b int64) int64 {
	if a < b {
		return a
	}
	return b
}
func max64(a, b int64) int64 {
	if a > b {
		return a
	}
	return b
}

// constantsReaching enumerates the integer constants that may flow into v through phis, parameters
// (all call sites) and function results.
func (w *World) constantsReaching(v ssa.Value, seen map[ssa.Value]bool, depth int) ([]int64, bool) {
	if seen[v] {
		return nil, true
	}
	seen[v] = true
	if depth > 20 {
		return nil, false
	}
	switch v := v.(type) {
	case *ssa.Const:
		if k, ok := constInt(v); ok {
			return []int64{k}, true
		}
		return nil, false
	case *ssa.Phi:
		var out []int64
		for _, e := range v.Edges {
			ks, ok := w.constantsReaching(e, seen, depth+1)
			if !ok {
				return nil, false
			}
			out = append(out, ks...)
		}
		return out, true
	case *ssa.Convert:
		return w.constantsReaching(v.X, seen, depth+1)
	case *ssa.ChangeType:
		return w.constantsReaching(v.X, seen, depth+1)
	case *ssa.Parameter:
		fn := v.Parent()
		idx := -1
		for i, p := range fn.Params {
			if p == v {
				idx = i
			}
		}
		callers := w.callersOf(fn)
		if len(callers) == 0 || idx < 0 {
			return nil, false
		}
		var out []int64
		for _, c := range callers {
			args := c.Common().Args
			if idx >= len(args) {
				return nil, false
			}
			ks, ok := w.constantsReaching(args[idx], seen, depth+1)
			if !ok {
				return nil, false
			}
			out = append(out, ks...)
		}
		return out, true
	case *ssa.Call:
		callee := v.Call.StaticCallee()
		if callee == nil || callee.Blocks == nil {
			return nil, false
		}
		var out []int64
		for _, b := range callee.Blocks {
			if ret, ok := b.Instrs[len(b.Instrs)-1].(*ssa.Return); ok && len(ret.Results) == 1 {
				ks, ok := w.constantsReaching(ret.Results[0], seen, depth+1)
				if !ok {
					return nil, false
				}
				out = append(out, ks...)
			}
		}
		return out, true
	}
	return nil, false
}

// ruleC15R2: raw writes of the loop variable only after quoteSingleEscape said "".
func ruleC15R2(w *World, r *Report) {
	const rule = "C15/R2"
	r.rule(rule, "in QuoteSQLBytes and quoteSQLStringContent a raw write (WriteRune/WriteByte) of the loop element is dominated by the `q == \"\"` edge of a test on quoteSingleEscape(<that element>, quote, …); the opening and closing delimiter written by QuoteSQLString/Bytes/Ident are the same value that is passed as quote", 3)
	for _, name := range []string{"quoteSQLStringContent", "QuoteSQLBytes"} {
		fn := w.fn(w.Tok, name)
		if fn == nil {
			r.errorf("token.%s not found", name)
			continue
		}
		esc := w.quoteEscaperOf(fn)
		if esc == nil {
			r.errorf("token.%s: its loop does not consult an escaper function of (element, quote) whose result is tested against \"\"", name)
			continue
		}
		qf := esc.fn
		nraw := 0
		for _, b := range fn.Blocks {
			for _, in := range b.Instrs {
				call, ok := in.(*ssa.Call)
				if !ok {
					continue
				}
				callee := call.Call.StaticCallee()
				if callee == nil || (callee.Name() != "WriteRune" && callee.Name() != "WriteByte") || len(call.Call.Args) != 2 {
					continue
				}
				arg := call.Call.Args[1]
				if _, isConst := arg.(*ssa.Const); isConst || !inLoop(b) {
					continue // constants and the delimiters written outside the content loop
				}
				nraw++
				construct := fmt.Sprintf("raw write in %s (%d)", name, nraw)
				// find dominating If on q == "" / q != "" with q = quoteSingleEscape(elem...)
				found := false
				for d := b; d != nil && !found; d = d.Idom() {
					p := d.Idom()
					if p == nil {
						break
					}
					iff, ok := p.Instrs[len(p.Instrs)-1].(*ssa.If)
					if !ok {
						continue
					}
					bo, ok := iff.Cond.(*ssa.BinOp)
					if !ok {
						continue
					}
					qc, ok := bo.X.(*ssa.Call)
					if !ok || qc.Call.StaticCallee() != qf {
						continue
					}
					if s, ok := constString(bo.Y); !ok || s != "" {
						continue
					}
					emptySucc := 0
					if bo.Op == token.NEQ {
						emptySucc = 1
					}
					if p.Succs[emptySucc] != d || !(d == b || d.Dominates(b)) {
						continue
					}
					// same element: the escaped value is (a conversion of) the written value
					if esc.elemIdx < len(qc.Call.Args) && sameElem(qc.Call.Args[esc.elemIdx], arg) {
						found = true
					}
				}
				if found {
					r.ok(rule, construct, w.pos(call.Pos()), "reached only when "+qf.Name()+"(elem, quote, …) returned \"\"")
				} else {
					r.bad(rule, construct, w.pos(call.Pos()), "the element is written raw on a path where the escaper "+qf.Name()+" was not consulted for it (a quote or backslash could be emitted unescaped)")
				}
			}
		}
		if nraw == 0 {
			r.errorf("no raw write found in token.%s (rule lost its anchor)", name)
		}
	}
	// delimiters
	for _, name := range []string{"QuoteSQLString", "QuoteSQLBytes", "QuoteSQLIdent"} {
		fn := w.fn(w.Tok, name)
		if fn == nil {
			r.errorf("token.%s not found", name)
			continue
		}
		var delims []ssa.Value
		var contentQuote []ssa.Value
		construct := "delimiters of " + name
		for hop := 0; hop < 3; hop++ {
			delims, contentQuote = nil, nil
			var delegate *ssa.Function
			for _, b := range fn.Blocks {
				for _, in := range b.Instrs {
					call, ok := in.(*ssa.Call)
					if !ok {
						continue
					}
					callee := call.Call.StaticCallee()
					if callee == nil {
						continue
					}
					switch callee.Name() {
					case "WriteRune", "WriteByte":
						if len(call.Call.Args) == 2 && indexOfBlock(fn, b) >= 0 && !inLoop(b) {
							delims = append(delims, call.Call.Args[1])
						}
					case "quoteSQLStringContent":
						contentQuote = append(contentQuote, call.Call.Args[1])
					default:
						if esc := w.quoteEscaperOf(fn); esc != nil && esc.fn == callee && esc.quoteIdx < len(call.Call.Args) {
							contentQuote = append(contentQuote, call.Call.Args[esc.quoteIdx])
						} else if fnPkgPath(callee) == modRoot+"/token" && callee.Blocks != nil && isStringType(call.Type()) && len(call.Call.Args) >= 2 {
							delegate = callee // QuoteSQLString -> quoteSQLStringWith(s, quote): the literal is put together there
						}
					}
				}
			}
			if len(delims) == 0 && len(contentQuote) == 0 && delegate != nil {
				fn = delegate
				construct = "delimiters of " + name + " (written in " + delegate.Name() + ")"
				continue
			}
			break
		}
		okD := len(delims) == 2 && sameValue(delims[0], delims[1])
		for _, q := range contentQuote {
			okD = okD && len(delims) > 0 && sameValue(delims[0], q)
		}
		if okD && len(contentQuote) > 0 {
			r.ok(rule, construct, w.pos(fn.Pos()), "opening delimiter, closing delimiter and the quote handed to the escaper are the same value")
		} else {
			r.bad(rule, construct, w.pos(fn.Pos()), fmt.Sprintf("opening/closing delimiter and escaper quote are not one value (%d delimiter writes outside the loop, %d escaper calls)", len(delims), len(contentQuote)))
		}
	}
}

func indexOfBlock(fn *ssa.Function, b *ssa.BasicBlock) int { return b.Index }

func inLoop(b *ssa.BasicBlock) bool { return loopsBack(b) }

func sameValue(a, b ssa.Value) bool {
	if a == b {
		return true
	}
	ca, ok1 := a.(*ssa.Const)
	cb, ok2 := b.(*ssa.Const)
	if ok1 && ok2 && ca.Value != nil && cb.Value != nil {
		x, okx := constInt(ca)
		y, oky := constInt(cb)
		return okx && oky && x == y
	}
	return false
}

func sameElem(a, b ssa.Value) bool {
	strip := func(v ssa.Value) ssa.Value {
		for {
			switch x := v.(type) {
			case *ssa.Convert:
				v = x.X
			case *ssa.ChangeType:
				v = x.X
			default:
				return v
			}
		}
	}
	return strip(a) == strip(b)
}

// ruleC15R3: lossy rune iteration.
func ruleC15R3(w *World, r *Report) {
	const rule = "C15/R3"
	r.rule(rule, "no function reachable from QuoteSQLString/QuoteSQLIdent iterates its input with `range` over a string and forwards the rune to the output: invalid UTF-8 bytes (which the lexer accepts via \\xHH) would all become U+FFFD", 1)
	n := 0
	for _, name := range []string{"quoteSQLStringContent", "QuoteSQLString", "QuoteSQLIdent", "QuoteSQLBytes", "suitableQuote", "needQuoteSQLIdent"} {
		fn := w.fn(w.Tok, name)
		if fn == nil {
			continue
		}
		found := false
		for _, b := range fn.Blocks {
			for _, in := range b.Instrs {
				rg, ok := in.(*ssa.Range)
				if !ok {
					continue
				}
				if bt, ok := rg.X.Type().Underlying().(*types.Basic); !ok || bt.Info()&types.IsString == 0 {
					continue
				}
				n++
				found = true
				// is the rune value (Extract #2 of Next) used at all?
				usesRune := false
				for _, u := range referrers(rg) {
					if nx, ok := u.(*ssa.Next); ok {
						for _, e := range referrers(nx) {
							if ex, ok := e.(*ssa.Extract); ok && ex.Index == 2 && len(referrers(ex)) > 0 {
								usesRune = true
							}
						}
					}
				}
				construct := "range over string in " + name
				if usesRune {
					r.bad(rule, construct, w.pos(rg.Pos()), "the input string is iterated rune-wise; an invalid UTF-8 byte is seen as U+FFFD and the original byte is lost (the string literal \"\\xff\" does not survive SQL())")
				} else {
					r.ok(rule, construct, w.pos(rg.Pos()), "range used for indices only")
				}
			}
		}
		if !found {
			r.ok(rule, "no string range in "+name, w.pos(fn.Pos()), "input is not iterated with range-over-string")
		}
	}
	_ = n
}

// ruleC15R4: identifier predicate agreement.
func ruleC15R4(w *World, r *Report) {
	const rule = "C15/R4"
	r.rule(rule, "needQuoteSQLIdent returns true when IsKeyword(s), !IsIdentStart(s[0]) or some !IsIdentPart(s[i]) — the classifiers and keyword table the lexer's identifier scan uses (resolved callees); QuoteSQLIdent returns s itself only on its false edge", 2)
	nq := w.fn(w.Tok, "needQuoteSQLIdent")
	qi := w.fn(w.Tok, "QuoteSQLIdent")
	if nq == nil || qi == nil {
		r.errorf("token.needQuoteSQLIdent / token.QuoteSQLIdent not found")
		return
	}
	// each classifier call result must lead to `return true` on its "bad" edge
	need := map[string]bool{"IsKeyword": true, "IsIdentStart": false, "IsIdentPart": false} // value = edge (cond true?) that must return true
	seen := map[string]bool{}
	for _, b := range nq.Blocks {
		for _, in := range b.Instrs {
			call, ok := in.(*ssa.Call)
			if !ok {
				continue
			}
			callee := call.Call.StaticCallee()
			if callee == nil {
				continue
			}
			badOnTrue, isNeeded := need[callee.Name()]
			if !isNeeded {
				continue
			}
			construct := "needQuoteSQLIdent uses " + callee.Name()
			// find the If consuming the result (possibly negated)
			okEdge := false
			for _, u := range referrers(call) {
				cond := ssa.Value(call)
				neg := false
				if un, ok := u.(*ssa.UnOp); ok && un.Op == token.NOT {
					cond, neg = un, true
					for _, u2 := range referrers(un) {
						if iff, ok := u2.(*ssa.If); ok {
							okEdge = okEdge || returnsConst(iff.Block().Succs[edgeIdx(badOnTrue != neg)], true)
						}
					}
					continue
				}
				if iff, ok := u.(*ssa.If); ok && iff.Cond == cond {
					okEdge = okEdge || returnsConst(iff.Block().Succs[edgeIdx(badOnTrue)], true)
				}
			}
			seen[callee.Name()] = true
			if okEdge {
				r.ok(rule, construct, w.pos(call.Pos()), "its rejecting outcome returns true (quote needed)")
			} else {
				r.bad(rule, construct, w.pos(call.Pos()), "the rejecting outcome of "+callee.Name()+" does not lead to `return true`")
			}
		}
	}
	for k := range need {
		if !seen[k] {
			r.bad(rule, "needQuoteSQLIdent uses "+k, w.pos(nq.Pos()), "classifier "+k+", which the lexer's identifier scan relies on, is not consulted")
		}
	}
	// the lexer's identifier branch uses the same functions
	ct := w.fn(w.Mem, "(*Lexer).consumeToken")
	if ct != nil {
		used := map[string]bool{}
		for _, f := range w.withOwnHelpers(ct, "consumeNumber", "consumeQuotedContent") {
			for _, b := range f.Blocks {
				for _, in := range b.Instrs {
					if call, ok := in.(*ssa.Call); ok {
						if c := call.Call.StaticCallee(); c != nil && c.Pkg != nil && c.Pkg.Pkg.Path() == modRoot+"/char" {
							used[c.Name()] = true
						}
					}
				}
			}
		}
		if used["IsIdentStart"] && used["IsIdentPart"] {
			r.ok(rule, "lexer identifier scan", w.pos(ct.Pos()), "consumeToken scans identifiers with char.IsIdentStart/char.IsIdentPart and looks them up in KeywordsMap (C14/R1)")
		} else {
			r.bad(rule, "lexer identifier scan", w.pos(ct.Pos()), "consumeToken does not use char.IsIdentStart/char.IsIdentPart: the quoting predicate and the lexer can disagree")
		}
	}
	// QuoteSQLIdent: return of the parameter only on the false edge of needQuoteSQLIdent
	okRet := false
	for _, b := range qi.Blocks {
		ret, ok := b.Instrs[len(b.Instrs)-1].(*ssa.Return)
		if !ok || len(ret.Results) != 1 || ret.Results[0] != ssa.Value(qi.Params[0]) {
			continue
		}
		okRet = false
		for _, p := range b.Preds {
			iff, ok := p.Instrs[len(p.Instrs)-1].(*ssa.If)
			if !ok {
				continue
			}
			cond := iff.Cond
			neg := false
			if un, ok := cond.(*ssa.UnOp); ok && un.Op == token.NOT {
				cond, neg = un.X, true
			}
			call, ok := cond.(*ssa.Call)
			if !ok || call.Call.StaticCallee() != nq || call.Call.Args[0] != ssa.Value(qi.Params[0]) {
				continue
			}
			// unquoted return must be on needQuote == false
			if p.Succs[edgeIdx(neg)] == b {
				okRet = true
			}
		}
		if !okRet {
			r.bad(rule, "QuoteSQLIdent unquoted return", w.pos(ret.Pos()), "the argument is returned unquoted on a path that is not the false edge of needQuoteSQLIdent(s)")
			return
		}
	}
	if okRet {
		r.ok(rule, "QuoteSQLIdent unquoted return", w.pos(qi.Pos()), "s is returned as is only when needQuoteSQLIdent(s) is false")
	} else {
		r.ok(rule, "QuoteSQLIdent unquoted return", w.pos(qi.Pos()), "never returns its argument unquoted")
	}
}

func edgeIdx(onTrue bool) int {
	if onTrue {
		return 0
	}
	return 1
}

// returnsConst: following jumps, the block returns the given boolean constant.
func returnsConst(b *ssa.BasicBlock, want bool) bool {
	for steps := 0; steps < 10; steps++ {
		last := b.Instrs[len(b.Instrs)-1]
		if ret, ok := last.(*ssa.Return); ok && len(ret.Results) == 1 {
			v, isC := constBool(ret.Results[0])
			return isC && v == want
		}
		if _, ok := last.(*ssa.Jump); ok && len(b.Instrs) == 1 {
			b = b.Succs[0]
			continue
		}
		return false
	}
	return false
}

var _ = strings.Join

// ruleC15R6: the value of a quoted literal is what the scan decoded, nothing else. Every value consumeQuotedContent
// returns is the empty string (error paths) or the string conversion of the byte slice the scan loop built by appending
// — not that slice handed through another function ("normalise CRLF", "trim", "to valid UTF-8"): a post-processing of the
// decoded bytes also rewrites what escape sequences produced, and the quoting functions emit exactly such escapes.
func ruleC15R6(w *World, r *Report) {
	const rule = "C15/R6"
	r.rule(rule, "every return of (*Lexer).consumeQuotedContent yields \"\" or string(content) where content is built only by append (through phis) from the bytes the scan decoded: the decoded value is not post-processed", 1)
	fn := w.fn(w.Mem, "(*Lexer).consumeQuotedContent")
	if fn == nil {
		r.errorf("(*Lexer).consumeQuotedContent not found")
		return
	}
	var builtByAppend func(v ssa.Value, seen map[ssa.Value]bool) string
	builtByAppend = func(v ssa.Value, seen map[ssa.Value]bool) string {
		if seen[v] {
			return ""
		}
		seen[v] = true
		switch x := v.(type) {
		case *ssa.Const:
			return ""
		case *ssa.Phi:
			for _, e := range x.Edges {
				if why := builtByAppend(e, seen); why != "" {
					return why
				}
			}
			return ""
		case *ssa.Slice:
			return builtByAppend(x.X, seen)
		case *ssa.MakeSlice, *ssa.Alloc:
			return ""
		case *ssa.Convert:
			return "" // []byte(s[a:b]): a copy of input bytes
		case *ssa.UnOp:
			if x.Op == token.MUL {
				if al, ok := x.X.(*ssa.Alloc); ok {
					// a local variable captured or address-taken: every store to it
					for _, u := range referrers(al) {
						if st, ok := u.(*ssa.Store); ok && st.Addr == ssa.Value(al) {
							if why := builtByAppend(st.Val, seen); why != "" {
								return why
							}
						}
					}
					return ""
				}
			}
		case *ssa.Call:
			if bi, ok := x.Call.Value.(*ssa.Builtin); ok && bi.Name() == "append" {
				return builtByAppend(x.Call.Args[0], seen)
			}
			if c := x.Call.StaticCallee(); c != nil {
				if c.Pkg != nil && c.Pkg.Pkg.Path() == "unicode/utf8" && strings.HasPrefix(c.Name(), "Append") {
					return builtByAppend(x.Call.Args[0], seen)
				}
				return "passes through " + c.String()
			}
			return "passes through a call"
		}
		return "is " + v.String()
	}
	n := 0
	for _, b := range fn.Blocks {
		ret, ok := b.Instrs[len(b.Instrs)-1].(*ssa.Return)
		if !ok || len(ret.Results) < 1 {
			continue
		}
		n++
		construct := fmt.Sprintf("return %d of consumeQuotedContent", n)
		why := ""
		for _, o := range phiOrigins(ret.Results[0]) {
			switch x := o.(type) {
			case *ssa.Const:
			case *ssa.Convert:
				why = builtByAppend(x.X, map[ssa.Value]bool{})
			case *ssa.Call:
				why = "is the result of " + x.Call.Value.String()
				if c := x.Call.StaticCallee(); c != nil {
					why = "is the result of " + c.Name() + "(…), not string(content)"
				}
			default:
				why = "is " + o.String()
			}
			if why != "" {
				break
			}
		}
		if why != "" {
			r.bad(rule, construct, w.pos(ret.Pos()), "the literal's value "+why+": the decoded bytes are post-processed, so a value that the quoting functions wrote with escapes does not lex back to itself")
		} else {
			r.ok(rule, construct, w.pos(ret.Pos()), "\"\" or string(content) with content built by append")
		}
	}
	if n == 0 {
		r.errorf("no return found in consumeQuotedContent")
	}
}

// quoteEscaper: the function a content loop of token/quote.go consults for one element — the call in the loop of fn whose
// string result is compared with "" — and the roles of its arguments (element, quote character, constant bool).
type quoteEscaper struct {
	fn                      *ssa.Function
	call                    *ssa.Call
	elemIdx, quoteIdx, bIdx int
	bVal                    bool
}

func (w *World) quoteEscaperOf(fn *ssa.Function) *quoteEscaper {
	if fn == nil {
		return nil
	}
	for _, b := range fn.Blocks {
		if !inLoop(b) {
			continue
		}
		for _, in := range b.Instrs {
			c, ok := in.(*ssa.Call)
			if !ok {
				continue
			}
			callee := c.Call.StaticCallee()
			if callee == nil || callee.Blocks == nil || fnPkgPath(callee) != modRoot+"/token" || !isStringType(c.Type()) || len(c.Call.Args) < 2 {
				continue
			}
			tested := false
			for _, u := range referrers(c) {
				if bo, ok := u.(*ssa.BinOp); ok && (bo.Op == token.EQL || bo.Op == token.NEQ) {
					if sv, ok := constString(bo.Y); ok && sv == "" {
						tested = true
					}
				}
			}
			if !tested {
				continue
			}
			e := &quoteEscaper{fn: callee, call: c, elemIdx: -1, quoteIdx: -1, bIdx: -1}
			for i, a := range c.Call.Args {
				if bv, ok := constBool(a); ok {
					e.bIdx, e.bVal = i, bv
					continue
				}
				loopDep := false
				if ai, ok := a.(ssa.Instruction); ok && ai.Block() != nil && inLoop(ai.Block()) {
					loopDep = true
				}
				if loopDep && e.elemIdx < 0 {
					e.elemIdx = i
				} else if !loopDep && e.quoteIdx < 0 {
					e.quoteIdx = i
				}
			}
			if e.elemIdx >= 0 && e.quoteIdx >= 0 {
				return e
			}
		}
	}
	return nil
}

// quoteEscapers: the escaper of the string content loop and of the bytes content loop.
func (w *World) quoteEscapers() (str, byt *quoteEscaper) {
	return w.quoteEscaperOf(w.fn(w.Tok, "quoteSQLStringContent")), w.quoteEscaperOf(w.fn(w.Tok, "QuoteSQLBytes"))
}

// quoteEscapeTable: quoteSingleEscape followed by interpretation over its finite table.
func (w *World) quoteEscapeTable(r *Report, rule string, where string) {
	strE, bytE := w.quoteEscapers()
	if strE == nil || bytE == nil {
		r.undecided(rule, "escaper (table)", where, "the content loops of quoteSQLStringContent / QuoteSQLBytes do not consult a function of (element, quote) whose result is tested against \"\"")
		return
	}
	init, _ := w.pkgInit(modRoot + "/token")
	var runes []rune
	for c := rune(0); c < 0x300; c++ {
		runes = append(runes, c)
	}
	runes = append(runes, 0x2028, 0xFFFD, 0x10FFFF)
	type key struct {
		r rune
		e string
	}
	seen := map[key]bool{}
	var undec string
	for _, quote := range []rune{'"', '\'', '`'} {
		for _, isStr := range []bool{false, true} {
			for _, c := range runes {
				esc := bytE
				if isStr {
					esc = strE
				}
				if !isStr && c > 0xFF {
					continue
				}
				fn := esc.fn
				ci := w.newConcr()
				ci.heap = true
				if init != nil {
					ci.globals = init.globals
				}
				args := make([]cval, len(fn.Params))
				for i := range args {
					args[i] = mkInt(0)
				}
				args[esc.elemIdx], args[esc.quoteIdx] = mkInt(int(c)), mkInt(int(quote))
				if esc.bIdx >= 0 {
					args[esc.bIdx] = cval{kind: cConst, c: constant.MakeBool(esc.bVal)}
				}
				out := ci.run(fn, args, 0)
				e, known := "", false
				if out.status == "return" && len(out.vals) == 1 {
					switch v := out.vals[0]; {
					case v.kind == cConst && v.c.Kind() == constant.String:
						e, known = constant.StringVal(v.c), true
					case v.kind == cStr && len(v.parts) == 2 && v.parts[0] == `\` && v.parts[1] == "\x00?":
						// `\` + string(r): backslash and the rune itself
						e, known = `\`+string(c), true
					}
				}
				if !known {
					undec = fmt.Sprintf("%s(%q, %q) [string=%v] could not be followed: %s %s", fn.Name(), c, quote, isStr, out.status, out.why)
					continue
				}
				construct := fmt.Sprintf("escape(%q) = %q", c, e)
				if e == "" {
					if c == quote || c == '\\' {
						r.bad(rule, fmt.Sprintf("escape(%q) with quote %q", c, quote), where, "no escape is emitted for the active quote character / the backslash: the literal would be closed early or start an escape")
					}
					continue
				}
				if seen[key{c, e}] {
					continue
				}
				seen[key{c, e}] = true
				switch {
				case len(e) == 2 && e[0] == '\\' && rune(e[1]) == c && (c == '"' || c == '\'' || c == '`' || c == '\\' || c == '?'):
					r.ok(rule, construct, where, "backslash + the character itself, which decodes to itself")
				case len(e) == 2 && e[0] == '\\':
					dec, ok := specDecode[e[1]]
					if !ok {
						r.bad(rule, construct, where, fmt.Sprintf("emits %q, which the lexer does not decode as a simple escape", e))
					} else if dec != c {
						r.bad(rule, construct, where, fmt.Sprintf("emits %q for %q, but the lexer decodes it to %q", e, c, dec))
					} else {
						r.ok(rule, construct, where, fmt.Sprintf("%q -> %q -> %q", c, e, dec))
					}
				default:
					r.bad(rule, construct, where, fmt.Sprintf("emits %q, which is not a backslash followed by one escape letter", e))
				}
			}
		}
	}
	if undec != "" {
		r.undecided(rule, "escaper (table)", where, undec)
	}
}

// withOwnHelpers: fn and the methods it calls on its own receiver (transitively, a few levels), except the named ones: a
// scan that was split off into a helper (identPartEnd, skipIdentParts) still belongs to the function that asks for it.
func (w *World) withOwnHelpers(fn *ssa.Function, except ...string) []*ssa.Function {
	skip := map[string]bool{}
	for _, e := range except {
		skip[e] = true
	}
	out := []*ssa.Function{fn}
	seen := map[*ssa.Function]bool{fn: true}
	for i := 0; i < len(out) && i < 12; i++ {
		f := out[i]
		if len(f.Params) == 0 {
			continue
		}
		for _, b := range f.Blocks {
			for _, in := range b.Instrs {
				c, ok := in.(*ssa.Call)
				if !ok || c.Call.IsInvoke() || len(c.Call.Args) == 0 || c.Call.Args[0] != ssa.Value(f.Params[0]) {
					continue
				}
				h := c.Call.StaticCallee()
				if h == nil || h.Blocks == nil || seen[h] || skip[h.Name()] || h.Signature.Recv() == nil || fn.Signature.Recv() == nil || !types.Identical(h.Signature.Recv().Type(), fn.Signature.Recv().Type()) {
					continue
				}
				if len(h.Blocks) > 12 {
					continue // a reader of its own (consumeToken, a literal reader), not a helper
				}
				seen[h] = true
				out = append(out, h)
			}
		}
	}
	return out
}
