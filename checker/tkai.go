package main

import (
	"fmt"
	"go/constant"
	"go/token"
	"sort"
	"strings"

	"golang.org/x/tools/go/ssa"
)

// TKAI — token-kind abstract interpreter. A forward dataflow analysis over the SSA CFGs of package
// memefish whose abstract state is the kind of the parser's current token (KSet), partitioned by
// "has a token been consumed since function entry". Interprocedural through summaries keyed by
// (function, entry fact, constant string arguments).

type TState struct {
	cur       KSet
	consumed  bool
	first     KSet               // fact about the first token consumed since entry (valid when consumed)
	linked    map[ssa.Value]bool // values read from the current token: their token's fact is cur
	snaps     map[ssa.Value]KSet // finalised facts of token-source values (token no longer current)
	firstVals map[ssa.Value]bool // token-source values denoting the first consumed token
	nilv      map[ssa.Value]bool // values known to be nil on this path
	nonnil    map[ssa.Value]bool
	saved     map[ssa.Value]*TState // Lexer.Clone() results -> state at the clone
}

func newTState(cur KSet) *TState {
	return &TState{cur: cur, first: KSet{}, linked: map[ssa.Value]bool{}, snaps: map[ssa.Value]KSet{}, firstVals: map[ssa.Value]bool{},
		nilv: map[ssa.Value]bool{}, nonnil: map[ssa.Value]bool{}, saved: map[ssa.Value]*TState{}}
}

func (s *TState) clone() *TState {
	if s == nil {
		return nil
	}
	n := newTState(s.cur)
	n.consumed, n.first = s.consumed, s.first
	for k := range s.linked {
		n.linked[k] = true
	}
	for k, v := range s.snaps {
		n.snaps[k] = v
	}
	for k := range s.firstVals {
		n.firstVals[k] = true
	}
	for k := range s.nilv {
		n.nilv[k] = true
	}
	for k := range s.nonnil {
		n.nonnil[k] = true
	}
	for k, v := range s.saved {
		n.saved[k] = v
	}
	return n
}

func valKeys(m map[ssa.Value]bool) string {
	var ks []string
	for v := range m {
		ks = append(ks, v.Name())
	}
	sort.Strings(ks)
	return strings.Join(ks, ",")
}

func (s *TState) key() string {
	if s == nil {
		return "⊥"
	}
	var sn []string
	for v, f := range s.snaps {
		sn = append(sn, v.Name()+"="+f.Key())
	}
	sort.Strings(sn)
	var sv []string
	for v, st := range s.saved {
		sv = append(sv, v.Name()+"="+st.cur.Key()+fmt.Sprint(st.consumed))
	}
	sort.Strings(sv)
	return fmt.Sprintf("%s|%v|%s|L%s|S%s|F%s|N%s|NN%s|SV%s", s.cur.Key(), s.consumed, s.first.Key(), valKeys(s.linked), strings.Join(sn, ";"), valKeys(s.firstVals), valKeys(s.nilv), valKeys(s.nonnil), strings.Join(sv, ";"))
}

// joinStates merges two states of the same partition.
func joinStates(a, b *TState) *TState {
	if a == nil {
		return b.clone()
	}
	if b == nil {
		return a.clone()
	}
	n := newTState(a.cur.Join(b.cur))
	n.consumed = a.consumed
	n.first = a.first.Join(b.first)
	// a value linked on one side and finalised on the other: finalise with the join
	for v := range a.linked {
		if b.linked[v] {
			n.linked[v] = true
		} else if f, ok := b.snaps[v]; ok {
			n.snaps[v] = f.Join(a.cur)
		} else {
			n.snaps[v] = a.cur // read on this path only: its token's fact is this path's
		}
	}
	for v := range b.linked {
		if a.linked[v] {
			continue
		}
		if f, ok := a.snaps[v]; ok {
			n.snaps[v] = f.Join(b.cur)
		} else {
			n.snaps[v] = b.cur
		}
	}
	for v, f := range a.snaps {
		if _, done := n.snaps[v]; done || n.linked[v] {
			continue
		}
		if g, ok := b.snaps[v]; ok {
			n.snaps[v] = f.Join(g)
		} else {
			n.snaps[v] = f
		}
	}
	for v, g := range b.snaps {
		if _, done := n.snaps[v]; done || n.linked[v] {
			continue
		}
		n.snaps[v] = g
	}
	for v := range a.firstVals {
		n.firstVals[v] = true
	}
	for v := range b.firstVals {
		n.firstVals[v] = true
	}
	for v := range a.nilv {
		if b.nilv[v] {
			n.nilv[v] = true
		}
	}
	for v := range a.nonnil {
		if b.nonnil[v] {
			n.nonnil[v] = true
		}
	}
	for v, st := range a.saved {
		n.saved[v] = st
	}
	for v, st := range b.saved {
		if o, ok := n.saved[v]; ok && o != st {
			n.saved[v] = joinStates(o, st)
		} else {
			n.saved[v] = st
		}
	}
	return n
}

type tkCtx struct {
	fn    *ssa.Function
	entry string // KSet key
	args  string // constant string arguments "idx=val;…"
	rec   bool   // analysed as a recovery handler (recover() yields non-nil)
	clean bool   // error recovery switched off: a raise ends the path even inside a recovery point
}

type ctxInfo struct {
	key    tkCtx
	fn     *ssa.Function
	entry  KSet
	consts map[int]string
}

type TSummary struct {
	pass         KSet // fact on normal returns that consumed nothing (m==nil: there is none)
	passNil      []bool
	first        KSet // fact of the first consumed token on consuming normal returns
	exit         KSet // current-token fact on consuming normal returns
	mayConsume   bool
	retFirstSnap []bool
	raisesNC     KSet // fact at raise points reached before any consumption
	// for single-result functions: the not-consumed returns split by nil-ness of the result
	passWhenNil     KSet
	passWhenNonNil  KSet
	nilWhenConsumed bool // some consuming return hands back the nil constant
	mayRaise        bool // a raise point (of this function or of a callee, in the callee's context) is reachable
}

func (s *TSummary) key() string {
	if s == nil {
		return "nil"
	}
	return fmt.Sprintf("%s|%v|%s|%s|%v|%v|%s|%s|%s", s.pass.Key(), s.passNil, s.first.Key(), s.exit.Key(), s.mayConsume, s.retFirstSnap, s.raisesNC.Key(), s.passWhenNil.Key(), s.passWhenNonNil.Key()) + fmt.Sprint(s.nilWhenConsumed, s.mayRaise)
}

type TKAI struct {
	w           *World
	calleeRaise bool // set while a function is being summarised: some callee summary used so far may raise
	sums        map[tkCtx]*TSummary
	infos       map[tkCtx]*ctxInfo
	order       []tkCtx
	intra       map[*ssa.Function]*flowResult
	dirty       bool
	prim        *ssa.Function // (*Lexer).nextToken
	tokCl       *ssa.Function // (*Token).Clone
	lexCl       *ssa.Function // (*Lexer).Clone
	isKwL       *ssa.Function
	isId        *ssa.Function
	holder      map[*ssa.Alloc][]ssa.Value // local cells holding a token.Token copy -> stored struct values
	fetch       map[*ssa.Function]bool
	touch       map[*ssa.Function]bool
	pfacts      map[*ssa.Parameter]KSet
	solving     bool
	readers     map[tkCtx]map[tkCtx]bool // summary key -> contexts whose computation read it
	stack       []tkCtx
	queue       []tkCtx
	queued      map[tkCtx]bool
	nflows      int
	efacts      map[*ssa.Function]KSet
	ctxIntra    map[*ssa.Function]*flowResult
}

func (w *World) TKAI() *TKAI {
	if w.tkai != nil {
		return w.tkai
	}
	w.NoReturn()
	tk := &TKAI{w: w, sums: map[tkCtx]*TSummary{}, infos: map[tkCtx]*ctxInfo{}, intra: map[*ssa.Function]*flowResult{}, holder: map[*ssa.Alloc][]ssa.Value{}}
	tk.prim = w.fn(w.Mem, "(*Lexer).nextToken")
	tk.lexCl = w.fn(w.Mem, "(*Lexer).Clone")
	tk.tokCl = w.fn(w.Tok, "(*Token).Clone")
	tk.isKwL = w.fn(w.Tok, "(*Token).IsKeywordLike")
	tk.isId = w.fn(w.Tok, "(*Token).IsIdent")
	for _, fn := range w.ModFns {
		for _, b := range fn.Blocks {
			for _, in := range b.Instrs {
				if st, ok := in.(*ssa.Store); ok {
					if al, ok := st.Addr.(*ssa.Alloc); ok && w.isTokenStruct(st.Val.Type()) {
						tk.holder[al] = append(tk.holder[al], st.Val)
					}
				}
			}
		}
	}
	w.tkai = tk
	return tk
}

func (tk *TKAI) anchorsOK() []string {
	var missing []string
	for name, f := range map[string]*ssa.Function{"(*Lexer).nextToken": tk.prim, "(*Lexer).Clone": tk.lexCl, "(*Token).Clone": tk.tokCl, "(*Token).IsKeywordLike": tk.isKwL, "(*Token).IsIdent": tk.isId} {
		if f == nil {
			missing = append(missing, name)
		}
	}
	sort.Strings(missing)
	return missing
}

// ---- token sources ----------------------------------------------------------------------------

// tokenSources resolves a *Token / token.Token / &Token-valued expression to the SSA values that
// stand for "a token": cur=true for the lexer's current token.
func (tk *TKAI) tokenSources(v ssa.Value) (cur bool, srcs []ssa.Value) {
	return tk.tokenSourcesSeen(v, map[ssa.Value]bool{})
}

func (tk *TKAI) tokenSourcesSeen(v ssa.Value, seen map[ssa.Value]bool) (cur bool, srcs []ssa.Value) {
	if seen[v] {
		return false, nil // a phi of a loop reached again
	}
	seen[v] = true
	w := tk.w
	switch x := v.(type) {
	case *ssa.FieldAddr:
		if _, ok := w.curTokenAddr(x); ok {
			return true, nil
		}
	case *ssa.Alloc:
		if hs, ok := tk.holder[x]; ok {
			return false, hs
		}
	case *ssa.UnOp:
		// load of a token struct from the current token or from a holder/pointer
		if x.Op == token.MUL {
			if _, ok := w.curTokenAddr(x.X); ok {
				return false, []ssa.Value{x}
			}
			return tk.tokenSourcesSeen(x.X, seen)
		}
	case *ssa.Phi:
		var out []ssa.Value
		for _, e := range x.Edges {
			_, s := tk.tokenSourcesSeen(e, seen)
			out = append(out, s...)
		}
		return false, out
	}
	if w.isTokenPtr(v.Type()) || w.isTokenStruct(v.Type()) {
		return false, []ssa.Value{v}
	}
	return false, nil
}

// ---- conditions ---------------------------------------------------------------------------------

type tkTest struct {
	atom string
	cur  bool
	srcs []ssa.Value
}

// classify an If condition: a test of a token against a class. neg: the condition is the negation.
func (tk *TKAI) tokenTest(ci *ctxInfo, cond ssa.Value) (t tkTest, neg bool, ok bool) {
	w := tk.w
	for {
		un, isUn := cond.(*ssa.UnOp)
		if !isUn || un.Op != token.NOT {
			break
		}
		cond, neg = un.X, !neg
	}
	strOf := func(v ssa.Value) (string, bool) {
		if s, ok := constString(v); ok {
			return s, true
		}
		if p, ok := v.(*ssa.Parameter); ok && ci != nil {
			for i, q := range ci.fn.Params {
				if q == p {
					s, ok := ci.consts[i]
					return s, ok
				}
			}
		}
		return "", false
	}
	switch c := cond.(type) {
	case *ssa.BinOp:
		if c.Op != token.EQL && c.Op != token.NEQ {
			return t, false, false
		}
		x, y := c.X, c.Y
		if _, isK := strOf(x); isK {
			x, y = y, x
		}
		k, isK := strOf(y)
		if !isK {
			return t, false, false
		}
		addr, isL := isLoad(x)
		if !isL {
			return t, false, false
		}
		fa, isFA := addr.(*ssa.FieldAddr)
		if !isFA || fieldAddrName(fa) != "Kind" || !(w.isTokenPtr(fa.X.Type())) {
			return t, false, false
		}
		cur, srcs := tk.tokenSources(fa.X)
		if !cur && len(srcs) == 0 {
			return t, false, false
		}
		if c.Op == token.NEQ {
			neg = !neg
		}
		return tkTest{atom: k, cur: cur, srcs: srcs}, neg, true
	case *ssa.Call:
		callee := c.Call.StaticCallee()
		if callee == nil || (callee != tk.isKwL && callee != tk.isId) || len(c.Call.Args) != 2 {
			return t, false, false
		}
		s, isK := strOf(c.Call.Args[1])
		if !isK {
			return t, false, false
		}
		cur, srcs := tk.tokenSources(c.Call.Args[0])
		if !cur && len(srcs) == 0 {
			return t, false, false
		}
		atom := kwAtom(s)
		if callee == tk.isId {
			atom = identNamed(s)
		}
		return tkTest{atom: atom, cur: cur, srcs: srcs}, neg, true
	}
	return t, false, false
}

// refine applies the outcome of an If to a state; nil when the edge is infeasible.
func (tk *TKAI) refine(ci *ctxInfo, st *TState, cond ssa.Value, branch bool) *TState {
	if st == nil {
		return nil
	}
	if t, neg, ok := tk.tokenTest(ci, cond); ok {
		holds := branch != neg
		n := st.clone()
		apply := func(f KSet) KSet {
			if holds {
				return f.Meet(t.atom)
			}
			return f.Remove(t.atom)
		}
		if t.cur {
			n.cur = apply(n.cur)
			if n.cur.IsEmpty() {
				return nil
			}
			return n
		}
		// snapshot sources: if all are linked, the test speaks about the current token
		feasible := false
		for _, s := range t.srcs {
			switch {
			case n.linked[s]:
				c := apply(n.cur)
				if !c.IsEmpty() {
					feasible = true
				}
				if len(t.srcs) == 1 {
					n.cur = c
				}
			default:
				f, has := n.snaps[s]
				if !has {
					f = tk.paramFact(s)
				}
				f = apply(f)
				if !f.IsEmpty() {
					feasible = true
				}
				if len(t.srcs) == 1 {
					n.snaps[s] = f
					if n.firstVals[s] && n.consumed {
						n.first = apply(n.first)
					}
				}
			}
		}
		if !feasible {
			return nil
		}
		return n
	}
	// nil tests
	c := cond
	neg := false
	for {
		un, isUn := c.(*ssa.UnOp)
		if !isUn || un.Op != token.NOT {
			break
		}
		c, neg = un.X, !neg
	}
	if bo, ok := c.(*ssa.BinOp); ok && (bo.Op == token.EQL || bo.Op == token.NEQ) {
		var v ssa.Value
		if isNilConst(bo.Y) {
			v = bo.X
		} else if isNilConst(bo.X) {
			v = bo.Y
		}
		if v != nil {
			isNilEdge := (bo.Op == token.EQL) == (branch != neg)
			if isNilEdge && st.nonnil[v] {
				return nil
			}
			if !isNilEdge && st.nilv[v] {
				return nil
			}
			n := st.clone()
			if isNilEdge {
				n.nilv[v] = true
			} else {
				n.nonnil[v] = true
			}
			return n
		}
	}
	return st
}

// ---- flow ---------------------------------------------------------------------------------------

type flowResult struct {
	consumedAt map[ssa.Instruction]KSet // first consumptions (not-consumed state consumes here) -> fact
	ci         *ctxInfo
	in         map[*ssa.BasicBlock][2]*TState
	ret        []*retState // states before Return instructions
	rz         []*TState   // states at raise points (no-return calls, panics)
}

type retState struct {
	ret *ssa.Return
	st  *TState
}

func part(st *TState) int {
	if st.consumed {
		return 1
	}
	return 0
}

// consume finalises the linked values and moves the state into the consumed partition.
func consume(st *TState, firstFact KSet, newCur KSet) *TState {
	n := st.clone()
	final := st.cur
	if firstFact.m != nil {
		final = st.cur.MeetSet(firstFact)
	}
	for v := range n.linked {
		n.snaps[v] = final
	}
	if !n.consumed {
		n.consumed = true
		n.first = final
		for v := range n.linked {
			n.firstVals[v] = true
		}
	}
	n.linked = map[ssa.Value]bool{}
	n.cur = newCur
	return n
}

func (tk *TKAI) flow(ci *ctxInfo, start *ssa.BasicBlock, init [2]*TState, region map[*ssa.BasicBlock]bool, cut func(from, to *ssa.BasicBlock) bool) *flowResult {
	return tk.flowMulti(ci, map[*ssa.BasicBlock][2]*TState{start: init}, region, cut)
}

// flowMulti runs the dataflow from several start blocks, each with its own initial states.
func (tk *TKAI) flowMulti(ci *ctxInfo, starts map[*ssa.BasicBlock][2]*TState, region map[*ssa.BasicBlock]bool, cut func(from, to *ssa.BasicBlock) bool) *flowResult {
	w := tk.w
	tk.nflows++
	res := &flowResult{ci: ci, in: map[*ssa.BasicBlock][2]*TState{}}
	type edgeK struct{ from, to *ssa.BasicBlock }
	edgeIn := map[edgeK][2]*TState{}
	var work []*ssa.BasicBlock
	inWork := map[*ssa.BasicBlock]bool{}
	for _, b := range ci.fn.Blocks {
		if init, ok := starts[b]; ok {
			res.in[b] = init
			work = append(work, b)
			inWork[b] = true
		}
	}
	isStart := func(b *ssa.BasicBlock) bool { _, ok := starts[b]; return ok }
	keys := map[edgeK][2]string{}
	iter := 0
	for len(work) > 0 {
		iter++
		if iter > 20000 {
			panic("TKAI flow does not converge in " + funcName(ci.fn))
		}
		b := work[0]
		work = work[1:]
		inWork[b] = false
		if len(b.Succs) == 0 {
			continue
		}
		// An If on a phi of booleans defined in this block (the lowering of `a || b` used as a
		// value, e.g. in a tagless switch): keep the incoming edges apart, each knows the value of
		// its phi operand.
		var iff *ssa.If
		var phi *ssa.Phi
		var phiCmp *ssa.BinOp
		var phiConst *ssa.Const
		if x, ok := b.Instrs[len(b.Instrs)-1].(*ssa.If); ok {
			iff = x
			if p, ok := x.Cond.(*ssa.Phi); ok && p.Block() == b && !isStart(b) {
				phi = p
			}
			// the same for `phi ==/!= constant` where the phi merges constants chosen by a switch on the token
			// kind (op := ""; switch kind { case "UNION": op = … }; if op == "" { break })
			if bo, ok := x.Cond.(*ssa.BinOp); ok && (bo.Op == token.EQL || bo.Op == token.NEQ) && !isStart(b) {
				if p, ok := bo.X.(*ssa.Phi); ok && p.Block() == b {
					if c, ok := bo.Y.(*ssa.Const); ok && c.Value != nil {
						phi, phiCmp, phiConst = p, bo, c
					}
				}
			}
		}
		next := make([][2]*TState, len(b.Succs))
		emit := func(outs []*TState, cond ssa.Value, fixed int) {
			for si := range b.Succs {
				for _, st := range outs {
					e := st
					if iff != nil {
						switch {
						case fixed >= 0:
							if si != fixed {
								continue
							}
						case cond != nil:
							e = tk.refine(ci, st, cond, si == 0)
						}
					}
					if e == nil {
						continue
					}
					next[si][part(e)] = joinStates(next[si][part(e)], e)
				}
			}
		}
		if phi != nil {
			for pi, pred := range b.Preds {
				es := edgeIn[edgeK{pred, b}]
				var outs []*TState
				for _, st := range es {
					if st != nil {
						outs = append(outs, tk.runBlock(ci, b, st, nil)...)
					}
				}
				if w.deadAt(b) >= 0 {
					continue
				}
				v := phi.Edges[pi]
				if phiCmp != nil {
					if ec, isC := v.(*ssa.Const); isC && ec.Value != nil && ec.Value.Kind() == phiConst.Value.Kind() {
						eq := constant.Compare(ec.Value, token.EQL, phiConst.Value)
						if eq == (phiCmp.Op == token.EQL) {
							emit(outs, nil, 0)
						} else {
							emit(outs, nil, 1)
						}
					} else {
						emit(outs, nil, -1)
					}
					continue
				}
				if cb, isC := constBool(v); isC {
					if cb {
						emit(outs, nil, 0)
					} else {
						emit(outs, nil, 1)
					}
				} else {
					emit(outs, v, -1)
				}
			}
		} else {
			var outs []*TState
			for _, st := range res.in[b] {
				if st != nil {
					outs = append(outs, tk.runBlock(ci, b, st, nil)...)
				}
			}
			if w.deadAt(b) >= 0 {
				continue
			}
			if iff != nil {
				emit(outs, iff.Cond, -1)
			} else {
				emit(outs, nil, -1)
			}
		}
		for si, succ := range b.Succs {
			if (region != nil && !region[succ]) || (cut != nil && cut(b, succ)) {
				continue
			}
			ek := edgeK{b, succ}
			old := edgeIn[ek]
			for p := 0; p < 2; p++ {
				if next[si][p] != nil {
					old[p] = joinStates(old[p], next[si][p])
				}
			}
			nk := [2]string{old[0].key(), old[1].key()}
			if nk == keys[ek] {
				continue
			}
			keys[ek] = nk
			edgeIn[ek] = old
			cur := res.in[succ]
			for p := 0; p < 2; p++ {
				if old[p] != nil {
					cur[p] = joinStates(cur[p], old[p])
				}
			}
			res.in[succ] = cur
			if !inWork[succ] {
				inWork[succ] = true
				work = append(work, succ)
			}
		}
	}
	// collect return / raise states from the final in-states
	var blocks []*ssa.BasicBlock
	for b := range res.in {
		blocks = append(blocks, b)
	}
	sort.Slice(blocks, func(i, j int) bool { return blocks[i].Index < blocks[j].Index })
	for _, b := range blocks {
		for _, st := range res.in[b] {
			if st != nil {
				tk.runBlock(ci, b, st, res)
			}
		}
	}
	return res
}

// runBlock pushes a state through the instructions of a block; it returns the states at the end
// (0, 1 or 2 — a call that may or may not consume forks). When rec != nil, return and raise states
// are recorded.
func (tk *TKAI) runBlock(ci *ctxInfo, b *ssa.BasicBlock, st0 *TState, rec *flowResult) []*TState {
	states := []*TState{st0.clone()}
	dead := tk.w.deadAt(b)
	for i, in := range b.Instrs {
		var next []*TState
		for _, st := range states {
			next = append(next, tk.step(ci, st, in, rec)...)
		}
		states = next
		if dead >= 0 && i == dead {
			if rec != nil {
				rec.rz = append(rec.rz, states...)
			}
			return nil
		}
		if len(states) == 0 {
			return nil
		}
	}
	return states
}

func (tk *TKAI) step(ci *ctxInfo, st *TState, in ssa.Instruction, rec *flowResult) []*TState {
	w := tk.w
	if rec != nil && !st.consumed {
		if _, isCall := in.(ssa.CallInstruction); isCall {
			pre := st.cur
			outs := tk.step(ci, st, in, nil)
			for _, o := range outs {
				if o.consumed {
					if rec.consumedAt == nil {
						rec.consumedAt = map[ssa.Instruction]KSet{}
					}
					rec.consumedAt[in] = rec.consumedAt[in].Join(pre)
				}
			}
			return outs
		}
	}
	switch in := in.(type) {
	case *ssa.UnOp:
		if in.Op == token.MUL {
			if fa, ok := in.X.(*ssa.FieldAddr); ok {
				if _, isCur := w.curTokenAddr(fa.X); isCur {
					st.linked[in] = true
					delete(st.snaps, in)
				}
			}
			if _, isCur := w.curTokenAddr(in.X); isCur { // whole struct copy
				st.linked[in] = true
				delete(st.snaps, in)
			}
		}
	case *ssa.Store:
		if fa, ok := in.Addr.(*ssa.FieldAddr); ok {
			if _, isCur := w.curTokenAddr(fa.X); isCur && fieldAddrName(fa) == "Kind" {
				if k, ok := constString(in.Val); ok {
					st.cur = kIn(k)
				} else {
					st.cur = kTop()
				}
			}
			if w.parserFieldAddr(in.Addr, "Lexer") {
				v := in.Val
				if sv, ok := st.saved[v]; ok {
					// rewind: the token state of the clone point is current again
					st.cur, st.consumed, st.first = sv.cur, sv.consumed, sv.first
					st.linked = map[ssa.Value]bool{}
					for k := range sv.linked {
						st.linked[k] = true
					}
				} else {
					switch v.(type) {
					case *ssa.Parameter, *ssa.FreeVar:
						// rewind performed on behalf of a caller that already models it (handleError)
					default:
						if ld, isL := isLoad(v); isL {
							if _, isFV := ld.(*ssa.FreeVar); isFV {
								break
							}
						}
						st.cur = kTop()
					}
				}
			}
		}
	case *ssa.Panic:
		if rec != nil {
			rec.rz = append(rec.rz, st)
		}
		return nil
	case *ssa.Return:
		if rec != nil {
			rec.ret = append(rec.ret, &retState{in, st})
		}
		return []*TState{st}
	case ssa.CallInstruction:
		if _, isDefer := in.(*ssa.Defer); isDefer {
			return []*TState{st}
		}
		if _, isGo := in.(*ssa.Go); isGo {
			return []*TState{st}
		}
		return tk.stepCall(ci, st, in)
	}
	return []*TState{st}
}

func (tk *TKAI) stepCall(ci *ctxInfo, st *TState, in ssa.CallInstruction) []*TState {
	w := tk.w
	com := in.Common()
	resVal, _ := in.(ssa.Value)
	if bi, ok := com.Value.(*ssa.Builtin); ok {
		if bi.Name() == "recover" && ci != nil && ci.key.rec && resVal != nil {
			st.nonnil[resVal] = true
		}
		return []*TState{st}
	}
	callees := w.Callees(in)
	if len(callees) == 0 {
		return []*TState{st}
	}
	var outs []*TState
	for _, callee := range callees {
		outs = append(outs, tk.applyCallee(ci, st.clone(), in, callee, resVal)...)
	}
	return outs
}

func (tk *TKAI) applyCallee(ci *ctxInfo, st *TState, in ssa.CallInstruction, callee *ssa.Function, resVal ssa.Value) []*TState {
	w := tk.w
	com := in.Common()
	switch callee {
	case tk.prim:
		// the consumption primitive: at <eof> it is a no-op
		if !w.isLexerPtr(com.Args[0].Type()) {
			break
		}
		var outs []*TState
		nonEOF := st.cur.Remove(eofAtom)
		if !nonEOF.IsEmpty() {
			outs = append(outs, consume(st, nonEOF, kTop()))
		}
		if !st.cur.Excludes(eofAtom) {
			n := st.clone()
			n.cur = st.cur.Meet(eofAtom)
			outs = append(outs, n)
		}
		return outs
	case tk.tokCl:
		if resVal != nil {
			if cur, srcs := tk.tokenSources(com.Args[0]); cur {
				st.linked[resVal] = true
				delete(st.snaps, resVal)
			} else if len(srcs) == 1 {
				if st.linked[srcs[0]] {
					st.linked[resVal] = true
				} else if f, ok := st.snaps[srcs[0]]; ok {
					st.snaps[resVal] = f
				}
			}
		}
		return []*TState{st}
	case tk.lexCl:
		if resVal != nil {
			st.saved[resVal] = st.clone()
		}
		return []*TState{st}
	case tk.isKwL, tk.isId:
		return []*TState{st}
	}
	if callee.Blocks == nil || fnPkgPath(callee) != modRoot {
		return []*TState{st} // other packages never touch the parser's lexer
	}
	if !tk.touchesLexer(callee) {
		return []*TState{st}
	}
	// constant string arguments
	consts := map[int]string{}
	off := 0
	if com.IsInvoke() {
		off = 1
	}
	for ai, a := range com.Args {
		if s, ok := constString(a); ok {
			consts[ai+off] = s
		} else if p, ok := a.(*ssa.Parameter); ok && ci != nil {
			for i, q := range ci.fn.Params {
				if q == p {
					if s, ok := ci.consts[i]; ok {
						consts[ai+off] = s
					}
				}
			}
		}
	}
	sum := tk.summaryMode(callee, st.cur, consts, false, ci != nil && ci.key.clean)
	if sum.mayRaise {
		tk.calleeRaise = true
	}
	var outs []*TState
	if sum.pass.m != nil && !sum.pass.IsEmpty() {
		if resVal != nil && len(sum.passNil) == 1 && refLikeOrIface(resVal) {
			if sum.passWhenNil.m != nil {
				n := st.clone()
				n.cur = st.cur.MeetSet(sum.passWhenNil)
				if !n.cur.IsEmpty() {
					n.nilv[resVal] = true
					outs = append(outs, n)
				}
			}
			if sum.passWhenNonNil.m != nil {
				n := st.clone()
				n.cur = st.cur.MeetSet(sum.passWhenNonNil)
				if !n.cur.IsEmpty() {
					n.nonnil[resVal] = true
					outs = append(outs, n)
				}
			}
		} else {
			n := st.clone()
			n.cur = st.cur.MeetSet(sum.pass)
			if !n.cur.IsEmpty() {
				outs = append(outs, n)
			}
		}
	}
	if sum.mayConsume {
		first := sum.first
		n := consume(st, first, sum.exit)
		if n.cur.m == nil {
			n.cur = kTop()
		}
		if resVal != nil {
			if len(sum.retFirstSnap) == 1 && sum.retFirstSnap[0] {
				n.snaps[resVal] = st.cur.MeetSet(first)
				if !st.consumed {
					n.firstVals[resVal] = true
				}
			}
			if len(sum.passNil) == 1 && sum.passNil[0] && tk.nonNilWhenConsumed(callee) {
				n.nonnil[resVal] = true
			}
		}
		outs = append(outs, n)
	}
	return outs
}

// touchesLexer: can the function (transitively) reach the consumption primitive or write the
// current token / Parser.Lexer?
// fetches: fn may fetch a token (it reaches the lexer's nextToken through calls); unlike touchesLexer, rewriting the
// current token in place (the '>>' split) or swapping the lexer does not count.
func (tk *TKAI) fetches(fn *ssa.Function) bool {
	if tk.fetch == nil {
		tk.fetch = map[*ssa.Function]bool{}
		for changed := true; changed; {
			changed = false
			for _, f := range tk.w.ModFns {
				if tk.fetch[f] {
					continue
				}
				hit := false
				for _, b := range f.Blocks {
					for _, in := range b.Instrs {
						ci, ok := in.(ssa.CallInstruction)
						if !ok {
							continue
						}
						if ci.Common().StaticCallee() == tk.prim {
							hit = true
						}
						for _, c := range tk.w.Callees(ci) {
							if c == tk.prim || tk.fetch[c] {
								hit = true
							}
						}
					}
				}
				if hit {
					tk.fetch[f] = true
					changed = true
				}
			}
		}
	}
	return tk.fetch[fn]
}

func (tk *TKAI) touchesLexer(fn *ssa.Function) bool {
	if tk.touch == nil {
		tk.touch = map[*ssa.Function]bool{}
		direct := map[*ssa.Function]bool{}
		for _, f := range tk.w.ModFns {
			for _, b := range f.Blocks {
				for _, in := range b.Instrs {
					switch in := in.(type) {
					case ssa.CallInstruction:
						if in.Common().StaticCallee() == tk.prim {
							direct[f] = true
						}
					case *ssa.Store:
						if tk.w.parserFieldAddr(in.Addr, "Lexer") {
							direct[f] = true
						}
						if fa, ok := in.Addr.(*ssa.FieldAddr); ok {
							if _, isCur := tk.w.curTokenAddr(fa.X); isCur {
								direct[f] = true
							}
						}
					}
				}
			}
		}
		for f := range direct {
			tk.touch[f] = true
		}
		for changed := true; changed; {
			changed = false
			for _, f := range tk.w.ModFns {
				if tk.touch[f] {
					continue
				}
				hit := false
				for _, b := range f.Blocks {
					for _, in := range b.Instrs {
						if ci, ok := in.(ssa.CallInstruction); ok {
							for _, c := range tk.w.Callees(ci) {
								if tk.touch[c] {
									hit = true
								}
							}
							// deferred closures
							if d, ok := in.(*ssa.Defer); ok {
								if mc, ok := d.Call.Value.(*ssa.MakeClosure); ok && tk.touch[mc.Fn.(*ssa.Function)] {
									hit = true
								}
							}
						}
					}
				}
				if hit {
					tk.touch[f] = true
					changed = true
				}
			}
		}
	}
	return tk.touch[fn]
}

// nonNilWhenConsumed: a conservative "result is non-nil on every consuming return" test: every
// Return of the callee returns either the nil constant or a freshly allocated / non-nil value.
func (tk *TKAI) nonNilWhenConsumed(fn *ssa.Function) bool {
	for _, b := range fn.Blocks {
		ret, ok := b.Instrs[len(b.Instrs)-1].(*ssa.Return)
		if !ok || len(ret.Results) != 1 {
			continue
		}
		if isNilConst(ret.Results[0]) {
			continue
		}
		if !tk.definitelyNonNil(ret.Results[0], 0) {
			return false
		}
	}
	return true
}

func (tk *TKAI) definitelyNonNil(v ssa.Value, depth int) bool {
	if depth > 6 {
		return false
	}
	switch x := v.(type) {
	case *ssa.Alloc:
		return true
	case *ssa.MakeInterface:
		return tk.definitelyNonNil(x.X, depth+1)
	case *ssa.ChangeInterface:
		return tk.definitelyNonNil(x.X, depth+1)
	case *ssa.Phi:
		for _, e := range x.Edges {
			if !tk.definitelyNonNil(e, depth+1) {
				return false
			}
		}
		return true
	case *ssa.Call:
		c := x.Call.StaticCallee()
		if c == nil || c.Blocks == nil {
			return false
		}
		for _, b := range c.Blocks {
			if ret, ok := b.Instrs[len(b.Instrs)-1].(*ssa.Return); ok && len(ret.Results) == 1 {
				if !tk.definitelyNonNil(ret.Results[0], depth+1) {
					return false
				}
			}
		}
		return true
	}
	return false
}

// ---- summaries ----------------------------------------------------------------------------------

func constsKey(m map[int]string) string {
	var ks []int
	for k := range m {
		ks = append(ks, k)
	}
	sort.Ints(ks)
	var sb strings.Builder
	for _, k := range ks {
		fmt.Fprintf(&sb, "%d=%s;", k, m[k])
	}
	return sb.String()
}

// summary returns the current approximation of a context's summary, registering the context and
// the dependency of the context being computed on it.
func (tk *TKAI) summary(fn *ssa.Function, entry KSet, consts map[int]string, rec bool) *TSummary {
	return tk.summaryMode(fn, entry, consts, rec, false)
}

func (tk *TKAI) summaryMode(fn *ssa.Function, entry KSet, consts map[int]string, rec, clean bool) *TSummary {
	key := tkCtx{fn, entry.Key(), constsKey(consts), rec, clean}
	if tk.readers == nil {
		tk.readers = map[tkCtx]map[tkCtx]bool{}
		tk.queued = map[tkCtx]bool{}
	}
	if len(tk.stack) > 0 {
		if tk.readers[key] == nil {
			tk.readers[key] = map[tkCtx]bool{}
		}
		tk.readers[key][tk.stack[len(tk.stack)-1]] = true
	}
	if _, ok := tk.sums[key]; !ok {
		ci := &ctxInfo{key: key, fn: fn, entry: entry, consts: consts}
		tk.infos[key] = ci
		tk.order = append(tk.order, key)
		tk.sums[key] = &TSummary{} // optimistic bottom while in progress
		tk.enqueue(key)
	}
	if !tk.solving {
		tk.solve()
	}
	return tk.sums[key]
}

func (tk *TKAI) enqueue(k tkCtx) {
	if !tk.queued[k] {
		tk.queued[k] = true
		tk.queue = append(tk.queue, k)
	}
}

func (tk *TKAI) solve() {
	tk.solving = true
	defer func() { tk.solving = false }()
	steps := 0
	for len(tk.queue) > 0 {
		steps++
		if steps > 400000 {
			panic("TKAI summaries do not converge")
		}
		key := tk.queue[0]
		tk.queue = tk.queue[1:]
		tk.queued[key] = false
		tk.stack = append(tk.stack, key)
		s := tk.compute(tk.infos[key])
		tk.stack = tk.stack[:len(tk.stack)-1]
		if s.key() != tk.sums[key].key() {
			tk.sums[key] = s
			for r := range tk.readers[key] {
				tk.enqueue(r)
			}
		}
	}
}

// lookaheadRestore: fn defers a closure that stores a captured Lexer clone back into Parser.Lexer
// (and does not recover): the bound clone value, or nil.
func (tk *TKAI) deferredRestore(fn *ssa.Function) (bound ssa.Value, ok bool) {
	for _, b := range fn.Blocks {
		for _, in := range b.Instrs {
			d, isD := in.(*ssa.Defer)
			if !isD {
				continue
			}
			mc, isMC := d.Call.Value.(*ssa.MakeClosure)
			if !isMC {
				// `defer p.restoreLexer(p.Lexer.Clone())`: a method that puts its argument back into Parser.Lexer; the
				// argument is evaluated where the defer statement stands
				if h := d.Call.StaticCallee(); h != nil && h.Blocks != nil && len(h.Blocks) == 1 && len(d.Call.Args) == 2 && len(h.Params) == 2 && len(recoverCalls(h)) == 0 {
					for _, hin := range h.Blocks[0].Instrs {
						if st, isSt := hin.(*ssa.Store); isSt && tk.w.parserFieldAddr(st.Addr, "Lexer") && st.Val == ssa.Value(h.Params[1]) {
							return d.Call.Args[1], true
						}
					}
				}
				continue
			}
			cl := mc.Fn.(*ssa.Function)
			if len(recoverCalls(cl)) > 0 {
				continue
			}
			for _, cb := range cl.Blocks {
				for _, cin := range cb.Instrs {
					st, isSt := cin.(*ssa.Store)
					if !isSt || !tk.w.parserFieldAddr(st.Addr, "Lexer") {
						continue
					}
					v := st.Val
					if ld, isL := isLoad(v); isL {
						v = ld
					}
					if fv, isFV := v.(*ssa.FreeVar); isFV {
						for i, f := range cl.FreeVars {
							if f == fv {
								return mc.Bindings[i], true
							}
						}
					}
				}
			}
		}
	}
	return nil, false
}

func (tk *TKAI) compute(ci *ctxInfo) *TSummary {
	fn := ci.fn
	init := newTState(ci.entry)
	tk.calleeRaise = false
	res := tk.flow(ci, fn.Blocks[0], [2]*TState{init, nil}, nil, nil)
	nres := fn.Signature.Results().Len()
	s := &TSummary{passNil: make([]bool, nres), retFirstSnap: make([]bool, nres)}
	s.mayRaise = tk.calleeRaise || len(res.rz) > 0
	for i := range s.passNil {
		s.passNil[i] = true
		s.retFirstSnap[i] = true
	}
	bound, restoring := tk.deferredRestore(fn)
	sawNC, sawC := false, false
	for _, rs := range res.ret {
		st := rs.st
		if restoring {
			// the deferred closure rewinds the lexer: the caller sees the token state of the clone point
			var sv *TState
			if al, ok := bound.(*ssa.Alloc); ok {
				// captured variable cell: the clone stored in it
				var stores []*ssa.Store
				collectStores(al, &stores)
				for _, s2 := range stores {
					if x, ok := st.saved[s2.Val]; ok {
						sv = x
					}
				}
			} else if x, ok := st.saved[bound]; ok {
				sv = x
			}
			n := st.clone()
			if sv != nil {
				n.cur, n.consumed, n.first = sv.cur, sv.consumed, sv.first
			} else {
				n.cur, n.consumed = ci.entry, false
			}
			st = n
		}
		if !st.consumed {
			sawNC = true
			s.pass = s.pass.Join(st.cur)
			for i := 0; i < nres && i < len(rs.ret.Results); i++ {
				v := rs.ret.Results[i]
				if !(isNilConst(v) || st.nilv[v]) {
					s.passNil[i] = false
				}
			}
			if nres == 1 && len(rs.ret.Results) == 1 {
				v := rs.ret.Results[0]
				switch {
				case isNilConst(v) || st.nilv[v]:
					s.passWhenNil = s.passWhenNil.Join(st.cur)
				case st.nonnil[v] || tk.definitelyNonNil(v, 0):
					s.passWhenNonNil = s.passWhenNonNil.Join(st.cur)
				default:
					s.passWhenNil = s.passWhenNil.Join(st.cur)
					s.passWhenNonNil = s.passWhenNonNil.Join(st.cur)
				}
			}
		} else {
			sawC = true
			s.mayConsume = true
			s.first = s.first.Join(st.first)
			s.exit = s.exit.Join(st.cur)
			for i := 0; i < nres && i < len(rs.ret.Results); i++ {
				v := rs.ret.Results[i]
				if !st.firstVals[v] {
					// a token returned by value out of a local cell (`id := p.expect(<ident>); …(&id)…; return id`): the
					// copies stored in the cell are what counts
					_, srcs := tk.tokenSources(v)
					okSrc := len(srcs) > 0
					for _, sv := range srcs {
						if !st.firstVals[sv] {
							okSrc = false
						}
					}
					if !okSrc {
						s.retFirstSnap[i] = false
					}
				}
				if nres == 1 && (isNilConst(v) || st.nilv[v]) {
					s.nilWhenConsumed = true
				} else if nres == 1 && refLike(v.Type()) && !st.nonnil[v] && !tk.definitelyNonNil(v, 0) {
					s.nilWhenConsumed = true // cannot show the consuming return is non-nil
				}
			}
		}
	}
	if !sawNC {
		s.pass = KSet{}
		for i := range s.passNil {
			s.passNil[i] = false
		}
	}
	if !sawC {
		for i := range s.retFirstSnap {
			s.retFirstSnap[i] = false
		}
	}
	for _, st := range res.rz {
		if st != nil && !st.consumed {
			s.raisesNC = s.raisesNC.Join(st.cur)
		}
	}
	// recovery path: a raise inside the protected body continues in the handler with the token state
	// of the clone point (function entry)
	if _, handlers := recoverDefers(fn); len(handlers) > 0 && !ci.key.rec && !ci.key.clean {
		for _, h := range handlers {
			hs := tk.summary(h, ci.entry, nil, true)
			if hs.pass.m != nil && !hs.pass.IsEmpty() {
				s.pass = s.pass.Join(hs.pass)
				for i := range s.passNil {
					s.passNil[i] = false // the handler stores a Bad node / the error in the result
				}
				s.passWhenNonNil = s.passWhenNonNil.Join(hs.pass)
			}
			if hs.mayConsume {
				s.mayConsume = true
				s.first = s.first.Join(hs.first)
				s.exit = s.exit.Join(hs.exit)
				for i := range s.retFirstSnap {
					s.retFirstSnap[i] = false
				}
			}
		}
	}
	return s
}

// ---- intra-procedural facts for the rules -----------------------------------------------------

// Intra analyses fn with an unconstrained entry token.
func (tk *TKAI) Intra(fn *ssa.Function) *flowResult {
	if r, ok := tk.intra[fn]; ok {
		return r
	}
	isHandler := fn.Parent() != nil && len(recoverCalls(fn)) > 0
	ci := &ctxInfo{key: tkCtx{fn: fn, entry: kTop().Key(), rec: isHandler}, fn: fn, entry: kTop(), consts: map[int]string{}}
	r := tk.flow(ci, fn.Blocks[0], [2]*TState{newTState(kTop()), nil}, nil, nil)
	tk.intra[fn] = r
	return r
}

// StateBefore returns the (joined) abstract state just before an instruction.
func (tk *TKAI) StateBefore(at ssa.Instruction) *TState {
	fn := at.Parent()
	r := tk.Intra(fn)
	b := at.Block()
	var out *TState
	for _, st0 := range r.in[b] {
		if st0 == nil {
			continue
		}
		states := []*TState{st0.clone()}
		for _, in := range b.Instrs {
			if in == at {
				break
			}
			var next []*TState
			for _, st := range states {
				next = append(next, tk.step(r.ci, st, in, nil)...)
			}
			states = next
		}
		for _, st := range states {
			j := st.clone()
			j.consumed = false
			if out == nil {
				out = j
			} else {
				out = joinStates(out, j)
			}
		}
	}
	return out
}

// FactOf: what is known, just before `at`, about the token a source value stands for.
func (tk *TKAI) FactOf(src ssa.Value, at ssa.Instruction) KSet {
	st := tk.StateBefore(at)
	if st == nil {
		return kEmpty() // unreachable
	}
	if st.linked[src] {
		return st.cur
	}
	if f, ok := st.snaps[src]; ok {
		return f
	}
	return tk.paramFact(src)
}

// paramFact: fact about a token passed in as a parameter (join over all call sites).
func (tk *TKAI) paramFact(v ssa.Value) KSet {
	p, ok := v.(*ssa.Parameter)
	if !ok {
		return kTop()
	}
	if f, ok := tk.pfacts[p]; ok {
		return f
	}
	if tk.pfacts == nil {
		tk.pfacts = map[*ssa.Parameter]KSet{}
	}
	tk.pfacts[p] = kTop() // recursion guard
	fn := p.Parent()
	idx := -1
	for i, q := range fn.Params {
		if q == p {
			idx = i
		}
	}
	var f KSet
	callers := tk.w.callersOf(fn)
	if len(callers) == 0 || idx < 0 {
		return kTop()
	}
	for _, c := range callers {
		com := c.Common()
		ai := idx
		if com.IsInvoke() {
			ai--
		}
		if ai < 0 || ai >= len(com.Args) {
			return kTop()
		}
		cur, srcs := tk.tokenSources(com.Args[ai])
		if cur {
			if st := tk.StateBefore(c); st != nil {
				f = f.Join(st.cur)
			}
			continue
		}
		if len(srcs) == 0 {
			return kTop()
		}
		for _, s := range srcs {
			f = f.Join(tk.FactOf(s, c))
		}
	}
	if f.m == nil {
		f = kTop()
	}
	tk.pfacts[p] = f
	return f
}

func refLikeOrIface(v ssa.Value) bool { return refLike(v.Type()) }

// flowAfter explores forward from just after an instruction with the given state: the rest of the
// instruction's block is run first, then the dataflow continues from its successors.
func (tk *TKAI) flowAfter(ci *ctxInfo, at ssa.Instruction, st *TState) (*flowResult, []*TState) {
	b := at.Block()
	states := []*TState{st.clone()}
	after := false
	dead := tk.w.deadAt(b)
	for i, in := range b.Instrs {
		if in == at {
			after = true
			continue
		}
		if !after {
			continue
		}
		var next []*TState
		for _, s := range states {
			next = append(next, tk.step(ci, s, in, nil)...)
		}
		states = next
		if dead >= 0 && i == dead {
			states = nil
			break
		}
	}
	tail := states
	starts := map[*ssa.BasicBlock][2]*TState{}
	for si, succ := range b.Succs {
		var init [2]*TState
		for _, s := range states {
			e := s
			if iff, ok := b.Instrs[len(b.Instrs)-1].(*ssa.If); ok {
				e = tk.refine(ci, s, iff.Cond, si == 0)
			}
			if e != nil {
				init[part(e)] = joinStates(init[part(e)], e)
			}
		}
		if init[0] != nil || init[1] != nil {
			old := starts[succ]
			for p := 0; p < 2; p++ {
				if init[p] != nil {
					old[p] = joinStates(old[p], init[p])
				}
			}
			starts[succ] = old
		}
	}
	if len(starts) == 0 {
		return &flowResult{ci: ci, in: map[*ssa.BasicBlock][2]*TState{}}, tail
	}
	return tk.flowMulti(ci, starts, nil, nil), tail
}

// statesBefore re-simulates a block of a flow result up to an instruction and returns the states
// (at most one per partition) just before it.
func (tk *TKAI) statesBefore(res *flowResult, at ssa.Instruction) [2]*TState {
	b := at.Block()
	var out [2]*TState
	for _, st0 := range res.in[b] {
		if st0 == nil {
			continue
		}
		states := []*TState{st0.clone()}
		for _, in := range b.Instrs {
			if in == at {
				break
			}
			var next []*TState
			for _, st := range states {
				next = append(next, tk.step(res.ci, st, in, nil)...)
			}
			states = next
		}
		for _, st := range states {
			out[part(st)] = joinStates(out[part(st)], st)
		}
	}
	return out
}

// entryFact: the join of the current-token facts at all call sites of fn (⊤ for entry points,
// dynamically called functions without resolved callers, and on recursion).
func (tk *TKAI) entryFact(fn *ssa.Function) KSet {
	if tk.efacts == nil {
		tk.efacts = map[*ssa.Function]KSet{}
	}
	if f, ok := tk.efacts[fn]; ok {
		return f
	}
	tk.efacts[fn] = kTop()
	callers := tk.w.callersOf(fn)
	if len(callers) == 0 {
		return kTop()
	}
	var f KSet
	for _, c := range callers {
		if fnPkgPath(c.Parent()) != modRoot {
			return kTop()
		}
		st := tk.StateBefore(c)
		if st == nil {
			continue
		}
		f = f.Join(st.cur)
	}
	if f.m == nil {
		f = kTop()
	}
	tk.efacts[fn] = f
	return f
}

// ReachableUnconsumed: can instruction `at` be reached, from the entry of its function under the
// facts of its call sites, without any token having been consumed?
func (tk *TKAI) ReachableUnconsumed(at ssa.Instruction) bool {
	fn := at.Parent()
	if tk.ctxIntra == nil {
		tk.ctxIntra = map[*ssa.Function]*flowResult{}
	}
	res, ok := tk.ctxIntra[fn]
	if !ok {
		entry := tk.entryFact(fn)
		ci := &ctxInfo{key: tkCtx{fn: fn, entry: "ctx:" + entry.Key()}, fn: fn, entry: entry, consts: map[int]string{}}
		res = tk.flow(ci, fn.Blocks[0], [2]*TState{newTState(entry), nil}, nil, nil)
		tk.ctxIntra[fn] = res
	}
	return tk.statesBefore(res, at)[0] != nil
}
