package main

import (
	"fmt"
	"go/constant"
	"go/token"
	"go/types"
	"strings"
	"unicode"
	"unicode/utf8"

	"golang.org/x/tools/go/ssa"
)

func init() {
	register(&propDef{
		ID: "C16",
		Explanation: "R1 case discipline: every value read from Token.Raw/Token.AsString that takes part in a decision of the parser goes through char.EqualFold (Token.IsKeywordLike/IsIdent, whose shape is checked); a direct ==, switch or map lookup of the spelling against a constant containing a letter is a violation; user-visible values are stored without case conversion; reserved words are matched on Kind, which the lexer derives through char.ToUpper (C14/R1). " +
			"R2 trivia and position non-interference: forward taint analysis over the SSA of package memefish from Token.Space, Token.Comments and every token.Pos-typed value (Token.Pos/End, node Pos()/End(), Lexer.pos) to the sinks 'branch condition in a parser function' and 'store into a non-position field of an ast node' (BadNode.Tokens excepted; token.Pos.Invalid() is the one sanitiser: it separates 'absent' from any real offset). There must be no flow: comments, whitespace and offsets cannot change the tree. " +
			"R3 keyword-class consistency (C08/R2, shared). Does not decide: the lexer side (that re-spacing never changes token boundaries).",
		Rules: []ruleFn{ruleC16R1, ruleC16R2, ruleC08R2, ruleC14R8, ruleC14R5, ruleC14R7, ruleC16R3, ruleC16R4, ruleC16R5},
	})
}

// forwardSlice computes the set of SSA values that depend on one of the sources, following
// operators, phis, local cells, calls into module functions (arguments -> parameters, returns ->
// call values) and out of non-module calls (any tainted argument taints the result).
func (w *World) forwardSlice(srcs []ssa.Value, sanitiser func(*ssa.Function) bool) map[ssa.Value]bool {
	t := map[ssa.Value]bool{}
	var work []ssa.Value
	add := func(v ssa.Value) {
		if v != nil && !t[v] {
			t[v] = true
			work = append(work, v)
		}
	}
	for _, s := range srcs {
		add(s)
	}
	type retKey struct {
		fn  *ssa.Function
		idx int
	}
	retTaint := map[retKey]bool{}
	for len(work) > 0 {
		v := work[len(work)-1]
		work = work[:len(work)-1]
		for _, u := range referrers(v) {
			switch u := u.(type) {
			case *ssa.BinOp, *ssa.UnOp, *ssa.Convert, *ssa.ChangeType, *ssa.Phi, *ssa.MakeInterface, *ssa.ChangeInterface,
				*ssa.Slice, *ssa.Index, *ssa.Lookup, *ssa.Extract, *ssa.TypeAssert, *ssa.Field, *ssa.Range, *ssa.Next:
				if un, ok := u.(*ssa.UnOp); ok && un.Op == token.MUL {
					continue // loads are handled from the address side below
				}
				add(u.(ssa.Value))
			case *ssa.FieldAddr, *ssa.IndexAddr:
				if _, isAlloc := v.(*ssa.Alloc); isAlloc {
					add(u.(ssa.Value)) // address inside a tainted local array/cell
				}
			case *ssa.Store:
				if u.Val == v {
					switch a := u.Addr.(type) {
					case *ssa.Alloc:
						add(a) // a local variable / named result
					case *ssa.FreeVar:
						add(a)
					case *ssa.IndexAddr:
						if root := localRoot(a); root != nil {
							add(root) // element of a local array (varargs): elements are merged
						}
					case *ssa.FieldAddr:
						// field-sensitive: loads of the same field through the same base value
						for _, bu := range referrers(a.X) {
							if fa2, ok := bu.(*ssa.FieldAddr); ok && fa2.Field == a.Field {
								for _, lu := range referrers(fa2) {
									if ld, ok := lu.(*ssa.UnOp); ok && ld.Op == token.MUL {
										add(ld)
									}
								}
							}
						}
					}
				}
			case *ssa.MakeClosure:
				cl := u.Fn.(*ssa.Function)
				for i, b := range u.Bindings {
					if b == v {
						add(cl.FreeVars[i])
					}
				}
			case *ssa.Return:
				fn := u.Parent()
				for ri, rv := range u.Results {
					if rv != v || retTaint[retKey{fn, ri}] {
						continue
					}
					retTaint[retKey{fn, ri}] = true
					for _, c := range w.callersOf(fn) {
						cv, ok := c.(ssa.Value)
						if !ok {
							continue
						}
						if len(u.Results) == 1 {
							add(cv)
							continue
						}
						for _, cu := range referrers(cv) {
							if ex, ok := cu.(*ssa.Extract); ok && ex.Index == ri {
								add(ex)
							}
						}
					}
				}
			case ssa.CallInstruction:
				com := u.Common()
				if _, isB := com.Value.(*ssa.Builtin); isB {
					if cv, ok := u.(ssa.Value); ok {
						add(cv)
					}
					continue
				}
				callees := w.Callees(u)
				for _, callee := range callees {
					if sanitiser != nil && sanitiser(callee) {
						continue
					}
					if callee.Blocks == nil || !corePkg(fnPkgPath(callee)) {
						if cv, ok := u.(ssa.Value); ok {
							add(cv)
						}
						continue
					}
					off := 0
					if com.IsInvoke() {
						off = 1
						if com.Value == v && len(callee.Params) > 0 {
							add(callee.Params[0])
						}
					}
					for ai, a := range com.Args {
						if a == v && ai+off < len(callee.Params) {
							add(callee.Params[ai+off])
						}
					}
				}
			}
		}
		// a tainted cell (or an address inside a tainted local array) taints its loads
		switch v.(type) {
		case *ssa.Alloc, *ssa.FreeVar, *ssa.IndexAddr, *ssa.FieldAddr:
			for _, u := range referrers(v) {
				if ld, ok := u.(*ssa.UnOp); ok && ld.Op == token.MUL {
					add(ld)
				}
			}
		}
	}
	return t
}

func (w *World) isPosType(t types.Type) bool {
	return isNamed(t, modRoot+"/token", "Pos") && !isPointer(t)
}

func (w *World) isParserFunc(fn *ssa.Function) bool {
	if fnPkgPath(fn) != modRoot {
		return false
	}
	for f := fn; f != nil; f = f.Parent() {
		if f.Signature.Recv() != nil && w.isParserPtr(f.Signature.Recv().Type()) {
			return true
		}
		for _, p := range f.Params {
			if w.isParserPtr(p.Type()) {
				return true
			}
		}
	}
	return false
}

func ruleC16R2(w *World, r *Report) {
	const rule = "C16/R2"
	r.rule(rule, "no flow from Token.Space, Token.Comments or any token.Pos value to a branch condition of a parser function or to a non-position field of an ast node (sanitiser: token.Pos.Invalid())", 100)
	var posSrc, triviaSrc []ssa.Value
	for _, fn := range w.ModFns {
		if fnPkgPath(fn) != modRoot {
			continue
		}
		if !w.isParserFunc(fn) {
			continue
		}
		for _, p := range fn.Params {
			if w.isPosType(p.Type()) {
				posSrc = append(posSrc, p)
			}
		}
		for _, b := range fn.Blocks {
			for _, in := range b.Instrs {
				v, ok := in.(ssa.Value)
				if !ok {
					continue
				}
				if w.isPosType(v.Type()) {
					posSrc = append(posSrc, v)
					continue
				}
				if ld, isL := isLoad(v); isL {
					if fa, ok := ld.(*ssa.FieldAddr); ok {
						if n := fieldAddrStruct(fa); n != nil && n.Obj().Pkg() != nil && n.Obj().Pkg().Path() == modRoot+"/token" && n.Obj().Name() == "Token" {
							switch fieldAddrName(fa) {
							case "Space", "Comments":
								triviaSrc = append(triviaSrc, v)
							}
						}
						if w.isLexerPtr(fa.X.Type()) && fieldAddrName(fa) == "pos" {
							posSrc = append(posSrc, v)
						}
					}
				}
			}
		}
	}
	invalid := w.fn(w.Tok, "(Pos).Invalid")
	if invalid == nil {
		r.errorf("token.Pos.Invalid not found")
		return
	}
	sanit := func(f *ssa.Function) bool { return f == invalid }
	// Sources of type token.Pos are everywhere; the slice starts from all of them at once.
	tainted := w.forwardSlice(append(append([]ssa.Value{}, posSrc...), triviaSrc...), sanit)
	r.count("position/trivia source values", len(posSrc)+len(triviaSrc))
	nIf, nStore := 0, 0
	for _, fn := range w.ModFns {
		if !w.isParserFunc(fn) {
			continue
		}
		ifc, stc := 0, 0
		nif0, nst0 := nIf, nStore
		defer func(fn *ssa.Function) {}(fn)
		for _, b := range fn.Blocks {
			for _, in := range b.Instrs {
				switch in := in.(type) {
				case *ssa.If:
					nIf++
					if tainted[in.Cond] {
						ifc++
						r.bad(rule, fmt.Sprintf("branch %d in %s", ifc, funcName(fn)), w.pos(condPos(in)), "this branch condition depends on a source position or on token trivia (whitespace/comments): re-spacing or commenting the input can change the parse")
					}
				case *ssa.Store:
					fa, ok := in.Addr.(*ssa.FieldAddr)
					if !ok {
						continue
					}
					n := fieldAddrStruct(fa)
					if n == nil || n.Obj().Pkg() == nil || n.Obj().Pkg().Path() != modRoot+"/ast" {
						continue
					}
					nStore++
					st := n.Underlying().(*types.Struct)
					ft := st.Field(fa.Field).Type()
					if w.isPosType(ft) {
						continue
					}
					if n.Obj().Name() == "BadNode" && st.Field(fa.Field).Name() == "Tokens" {
						continue
					}
					if tainted[in.Val] {
						stc++
						r.bad(rule, fmt.Sprintf("store to ast.%s.%s in %s", n.Obj().Name(), st.Field(fa.Field).Name(), funcName(fn)), w.pos(in.Pos()), "a non-position field of an AST node receives a value that depends on a source position or on token trivia")
					}
				}
			}
		}
		if ifc == 0 && stc == 0 && (nIf > nif0 || nStore > nst0) {
			r.ok(rule, "sinks of "+funcName(fn), w.pos(fn.Pos()), fmt.Sprintf("%d branch conditions, %d stores into ast node fields: none depends on a position or on trivia", nIf-nif0, nStore-nst0))
		}
	}
	r.count("branch conditions inspected", nIf)
	r.count("node field stores inspected", nStore)
	if nIf < 200 || nStore < 200 {
		r.errorf("taint scan saw only %d branches / %d node stores: the rule has lost its anchor", nIf, nStore)
	}
}

func condPos(in *ssa.If) token.Pos {
	if v, ok := in.Cond.(ssa.Instruction); ok && v.Pos().IsValid() {
		return v.Pos()
	}
	return lastPos(in.Block())
}

func hasLetter(s string) bool {
	for _, c := range s {
		if unicode.IsLetter(c) {
			return true
		}
	}
	return false
}

func ruleC16R1(w *World, r *Report) {
	const rule = "C16/R1"
	r.rule(rule, "spellings (Token.Raw, Token.AsString) are compared only through char.EqualFold; IsKeywordLike/IsIdent have the shape Kind == <ident> && EqualFold(spelling, s); no ==/switch/map lookup of a spelling against a constant containing letters; no case conversion on the way into an AST field", 3)
	tk := w.TKAI()
	eq := w.fn(w.Char, "EqualFold")
	if eq == nil {
		r.errorf("char.EqualFold not found")
		return
	}
	// shape of the two predicates
	for _, f := range []*ssa.Function{tk.isKwL, tk.isId} {
		if f == nil {
			r.errorf("Token.IsKeywordLike / Token.IsIdent not found")
			continue
		}
		want := "Raw"
		if f == tk.isId {
			want = "AsString"
		}
		construct := "shape of " + funcName(f)
		okKind, okFold := false, false
		ncalls := 0
		for _, b := range f.Blocks {
			for _, in := range b.Instrs {
				switch in := in.(type) {
				case *ssa.If:
					if bo, ok := in.Cond.(*ssa.BinOp); ok && bo.Op == token.EQL {
						if k, ok := constString(bo.Y); ok && k == "<ident>" {
							if ld, ok := isLoad(bo.X); ok {
								if fa, ok := ld.(*ssa.FieldAddr); ok && fieldAddrName(fa) == "Kind" && fa.X == ssa.Value(f.Params[0]) {
									// false edge must return false
									okKind = returnsFalseVia(b.Succs[1])
								}
							}
						}
					}
				case *ssa.Call:
					ncalls++
					if in.Call.StaticCallee() == eq && len(in.Call.Args) == 2 {
						if ld, ok := isLoad(in.Call.Args[0]); ok {
							if fa, ok := ld.(*ssa.FieldAddr); ok && fieldAddrName(fa) == want && fa.X == ssa.Value(f.Params[0]) && in.Call.Args[1] == ssa.Value(f.Params[1]) {
								okFold = true
							}
						}
					}
				}
			}
		}
		if okKind && okFold && ncalls == 1 {
			r.ok(rule, construct, w.pos(f.Pos()), "Kind == <ident> && char.EqualFold(t."+want+", s)")
		} else {
			r.bad(rule, construct, w.pos(f.Pos()), fmt.Sprintf("is not `t.Kind == TokenIdent && char.EqualFold(t.%s, s)` (kind guard ok=%v, fold ok=%v, calls=%d): pseudo-keywords would be matched case-sensitively or on the wrong spelling", want, okKind, okFold, ncalls))
		}
	}
	// a spelling that went through a case normaliser is no longer case-sensitive: char.EqualFold, char.ToUpper, and the
	// ASCII-compatible standard functions (`switch char.ToUpper(tok.Raw) { case "ALTER": … }`)
	caseNormaliser := func(f *ssa.Function) bool {
		if f == eq {
			return true
		}
		if f == nil || f.Pkg == nil {
			return false
		}
		switch f.Pkg.Pkg.Path() + "." + f.Name() {
		case modRoot + "/char.ToUpper", "strings.ToUpper", "strings.ToLower", "strings.EqualFold":
			return true
		}
		return false
	}
	// spellings in the parser
	var srcs []ssa.Value
	for _, fn := range w.ModFns {
		if fnPkgPath(fn) != modRoot {
			continue
		}
		if fn.Signature.Recv() != nil && w.isLexerPtr(fn.Signature.Recv().Type()) {
			continue
		}
		for _, b := range fn.Blocks {
			for _, in := range b.Instrs {
				v, ok := in.(ssa.Value)
				if !ok {
					continue
				}
				if ld, isL := isLoad(v); isL {
					if fa, ok := ld.(*ssa.FieldAddr); ok {
						if n := fieldAddrStruct(fa); n != nil && n.Obj().Pkg() != nil && n.Obj().Pkg().Path() == modRoot+"/token" && n.Obj().Name() == "Token" {
							switch fieldAddrName(fa) {
							case "Raw", "AsString":
								srcs = append(srcs, v)
							}
						}
					}
				}
			}
		}
	}
	r.count("spelling reads in the parser", len(srcs))
	if len(srcs) < 10 {
		r.errorf("only %d reads of Token.Raw/AsString found in the parser", len(srcs))
	}
	sl := w.forwardSlice(srcs, caseNormaliser)
	// spellings parked in the tree and read back by the parser (ident.Name == "VALUE"): the string fields of ast
	// nodes that receive a spelling are spellings too
	type fkey struct {
		st   *types.Named
		name string
	}
	spellFields := map[fkey]bool{}
	for v := range sl {
		for _, u := range referrers(v) {
			if st, ok := u.(*ssa.Store); ok && st.Val == v {
				if fa, ok := st.Addr.(*ssa.FieldAddr); ok {
					if n := fieldAddrStruct(fa); n != nil && n.Obj().Pkg() != nil && n.Obj().Pkg().Path() == modRoot+"/ast" && isStringType(v.Type()) {
						spellFields[fkey{n, fieldAddrName(fa)}] = true
					}
				}
			}
		}
	}
	nback := 0
	for _, fn := range w.ModFns {
		if fnPkgPath(fn) != modRoot || (fn.Signature.Recv() != nil && w.isLexerPtr(fn.Signature.Recv().Type())) {
			continue
		}
		for _, b := range fn.Blocks {
			for _, in := range b.Instrs {
				v, ok := in.(ssa.Value)
				if !ok {
					continue
				}
				if ld, isL := isLoad(v); isL {
					if fa, ok := ld.(*ssa.FieldAddr); ok {
						if n := fieldAddrStruct(fa); n != nil && spellFields[fkey{n, fieldAddrName(fa)}] {
							srcs = append(srcs, v)
							nback++
						}
					}
				}
			}
		}
	}
	if nback > 0 {
		sl = w.forwardSlice(srcs, caseNormaliser)
	}
	r.count("spelling fields of ast nodes read back in the parser", nback)
	nbad := 0
	for v := range sl {
		in, ok := v.(ssa.Instruction)
		if !ok || in.Parent() == nil || fnPkgPath(in.Parent()) != modRoot {
			continue
		}
		fn := in.Parent()
		if fn.Signature.Recv() != nil && w.isLexerPtr(fn.Signature.Recv().Type()) {
			continue // the lexer normalises through char.ToUpper before its keyword lookup (C14/R1)
		}
		switch x := v.(type) {
		case *ssa.BinOp:
			if x.Op != token.EQL && x.Op != token.NEQ {
				continue
			}
			other := x.Y
			if !sl[x.X] {
				other = x.X
			}
			s, isStr := constString(other)
			if !isStr {
				if c, isInt := constInt(other); isInt {
					s = string(rune(c))
				} else {
					continue
				}
			}
			if hasLetter(s) {
				nbad++
				r.bad(rule, fmt.Sprintf("comparison with %q in %s", s, funcName(fn)), w.pos(x.Pos()), "a token spelling is compared with a constant containing letters by ==: keyword case changes the outcome")
			}
		case *ssa.Lookup:
			if sl[x.Index] {
				if _, isMap := x.X.Type().Underlying().(*types.Map); isMap {
					nbad++
					r.bad(rule, "map lookup by spelling in "+funcName(fn), w.pos(x.Pos()), "a token spelling is used as a map key: case-sensitive")
				}
			}
		}
	}
	// case conversion of a spelling: harmless for a comparison, harmful when the result reaches an AST field; and the
	// standard parsers that know only some spellings of a keyword (strconv.ParseBool: true/TRUE/True)
	for _, fn := range w.ModFns {
		if fnPkgPath(fn) != modRoot || (fn.Signature.Recv() != nil && w.isLexerPtr(fn.Signature.Recv().Type())) {
			continue
		}
		for _, b := range fn.Blocks {
			for _, in := range b.Instrs {
				x, ok := in.(*ssa.Call)
				if !ok {
					continue
				}
				c := x.Call.StaticCallee()
				if c == nil {
					continue
				}
				fromSpelling := false
				for _, a := range x.Call.Args {
					if sl[a] {
						fromSpelling = true
					}
				}
				if !fromSpelling {
					continue
				}
				if c.Pkg != nil && c.Pkg.Pkg.Path() == "strconv" && c.Name() == "ParseBool" {
					nbad++
					r.bad(rule, "strconv.ParseBool of a spelling in "+funcName(fn), w.pos(x.Pos()), "the value is taken from the spelling by a function that knows only true/TRUE/True (false/FALSE/False): the lexer accepts every letter case of the keyword, tRUE yields false")
					continue
				}
				if strings.HasPrefix(c.Name(), "ToUpper") || strings.HasPrefix(c.Name(), "ToLower") || c.Name() == "Title" {
					conv := w.forwardSlice([]ssa.Value{x}, nil)
					for cv := range conv {
						if ci, ok := cv.(ssa.Instruction); ok {
							for _, u := range referrers(cv) {
								if st, ok := u.(*ssa.Store); ok && st.Val == cv {
									if fa, ok := st.Addr.(*ssa.FieldAddr); ok {
										if n := fieldAddrStruct(fa); n != nil && n.Obj().Pkg() != nil && n.Obj().Pkg().Path() == modRoot+"/ast" {
											nbad++
											r.bad(rule, "case conversion into ast."+n.Obj().Name()+" in "+funcName(fn), w.pos(ci.Pos()), "a user-visible spelling is case-converted before it is stored in the AST")
										}
									}
								}
							}
						}
					}
				}
			}
		}
	}
	if nbad == 0 {
		r.ok(rule, "spelling comparisons in the parser", "-", fmt.Sprintf("%d spelling reads followed: no ==, switch or map lookup against lettered constants, no case conversion into the AST", len(srcs)))
	}
}

func returnsFalseVia(b *ssa.BasicBlock) bool {
	for steps := 0; steps < 6; steps++ {
		last := b.Instrs[len(b.Instrs)-1]
		switch x := last.(type) {
		case *ssa.Return:
			if len(x.Results) == 1 {
				if v, ok := constBool(x.Results[0]); ok {
					return !v
				}
				if phi, ok := x.Results[0].(*ssa.Phi); ok {
					// `a && b` lowering: the short-circuit edge carries the constant false
					for _, e := range phi.Edges {
						if v, ok := constBool(e); ok && !v {
							return true
						}
					}
				}
			}
			return false
		case *ssa.Jump:
			b = b.Succs[0]
		default:
			return false
		}
	}
	return false
}

// ruleC16R4: the white space that may be changed between tokens is what (*Lexer).skipSpaces skips. For each of the 128
// ASCII bytes the decision of skipSpaces on the one-byte buffer is evaluated (CONCR, heap mode: the function and what it
// calls in the module are followed instruction by instruction over a Lexer value whose Buffer is that byte; the two
// library calls it may make, utf8.DecodeRuneInString and unicode.IsSpace, are answered by the library). The cursor must
// end behind the byte exactly for the six ASCII white-space characters (\t \n \v \f \r and the blank): a form feed that is
// no longer skipped turns `SELECT\f1` from an accepted re-spelling of `SELECT 1` into an illegal character, a byte that
// is skipped although it is not white space swallows a token.
func ruleC16R4(w *World, r *Report) {
	const rule = "C16/R4"
	r.rule(rule, "white-space class: on each one-byte ASCII buffer (*Lexer).skipSpaces leaves the cursor behind the byte exactly when the byte is one of \\t \\n \\v \\f \\r ' ' (unicode.IsSpace restricted to ASCII) — the function is evaluated over its whole ASCII domain by the CONCR interpreter, not matched against a source shape", 128)
	fn := w.fn(w.Mem, "(*Lexer).skipSpaces")
	if fn == nil {
		r.errorf("(*Lexer).skipSpaces not found")
		return
	}
	for c := 0; c < 128; c++ {
		construct := fmt.Sprintf("skipSpaces on byte 0x%02x", c)
		file := cval{kind: cDyn, typ: "File", fields: map[string]cval{"Buffer": {kind: cConst, c: constant.MakeString(string([]byte{byte(c)}))}, "FilePath": {kind: cConst, c: constant.MakeString("")}}}
		lx := cval{kind: cDyn, typ: "Lexer", fields: map[string]cval{"File": file, "pos": mkInt(0), "dotIdent": {kind: cConst, c: constant.MakeBool(false)}}}
		ci := w.newConcr()
		ci.heap = true
		ci.intercept = func(callee *ssa.Function, args []cval) (cval, bool) {
			if callee.Pkg == nil {
				return cval{}, false
			}
			switch callee.Pkg.Pkg.Path() + "." + callee.Name() {
			case "unicode/utf8.DecodeRuneInString":
				if sv, ok := bytesOf(args[0]); ok && args[0].kind == cConst {
					rn, size := utf8.DecodeRuneInString(sv)
					return cval{kind: cTuple, tuple: []cval{mkInt(int(rn)), mkInt(size)}}, true
				}
			case "unicode.IsSpace":
				if rn, ok := intOf(args[0]); ok {
					return cval{kind: cConst, c: constant.MakeBool(unicode.IsSpace(rune(rn)))}, true
				}
			}
			return cval{}, false
		}
		// strings.TrimLeftFunc(s, pred) / IndexFunc(s, pred) over a known string, pred a function the interpreter can answer
		// for (unicode.IsSpace, or a function of the module, followed)
		pred := func(v ssa.Value, rn rune) (bool, bool) {
			f, ok := v.(*ssa.Function)
			if !ok {
				return false, false
			}
			if f.Pkg != nil && f.Pkg.Pkg.Path() == "unicode" && f.Name() == "IsSpace" {
				return unicode.IsSpace(rn), true
			}
			if f.Blocks != nil && corePkg(fnPkgPath(f)) {
				sub := w.newConcr()
				sub.intercept = ci.intercept
				o := sub.run(f, []cval{mkInt(int(rn))}, 0)
				if o.status == "return" && len(o.vals) == 1 && o.vals[0].kind == cConst && o.vals[0].c.Kind() == constant.Bool {
					return constant.BoolVal(o.vals[0].c), true
				}
			}
			return false, false
		}
		ci.interceptCall = func(call *ssa.Call, args []cval) (cval, bool) {
			callee := call.Call.StaticCallee()
			if callee.Pkg == nil || callee.Pkg.Pkg.Path() != "strings" || len(args) != 2 || args[0].kind != cConst {
				return cval{}, false
			}
			sv, ok := bytesOf(args[0])
			if !ok {
				return cval{}, false
			}
			first := len(sv) // offset of the first rune that does not satisfy the predicate
			firstSat := -1   // offset of the first rune that satisfies it
			for i, rn := range sv {
				yes, known := pred(call.Call.Args[1], rn)
				if !known {
					return cval{}, false
				}
				if !yes && first == len(sv) {
					first = i
				}
				if yes && firstSat < 0 {
					firstSat = i
				}
			}
			switch callee.Name() {
			case "TrimLeftFunc":
				return cval{kind: cConst, c: constant.MakeString(sv[first:])}, true
			case "IndexFunc":
				return mkInt(firstSat), true
			}
			return cval{}, false
		}
		out := ci.run(fn, []cval{lx}, 0)
		if out.status != "return" {
			r.undecided(rule, construct, w.pos(fn.Pos()), "the interpretation of skipSpaces does not finish: "+out.status+" "+out.why)
			continue
		}
		pos, ok := intOf(lx.fields["pos"])
		want := 0
		if unicode.IsSpace(rune(c)) {
			want = 1
		}
		switch {
		case !ok:
			r.undecided(rule, construct, w.pos(fn.Pos()), "the cursor after skipSpaces is not a known value")
		case pos != want && want == 1:
			r.bad(rule, construct, w.pos(fn.Pos()), fmt.Sprintf("the white-space character %q is not skipped (cursor at %d): an input re-spelled with it between two tokens is no longer accepted", rune(c), pos))
		case pos != want:
			r.bad(rule, construct, w.pos(fn.Pos()), fmt.Sprintf("the byte %q is skipped as white space (cursor at %d) although it is not white space", rune(c), pos))
		default:
			r.ok(rule, construct, w.pos(fn.Pos()), fmt.Sprintf("cursor at %d", pos))
		}
	}
}

// ruleC16R5: the parser sees the input only through tokens. Trivia (white space, comments) is absorbed by the lexer when
// it produces a token; a decision of the parser that looks at the bytes behind the current token — `p.Lexer.peekIs(0, '*')`
// to recognise `t.*` — sees the white space or the comment a re-spelling puts there and decides differently. Outside the
// Lexer's own methods the root package may therefore (a) call a method of Lexer only if it produces a whole token (it
// stores Lexer.Token, directly or in what it calls) or is Clone, and (b) branch on nothing computed from File.Buffer.
func ruleC16R5(w *World, r *Report) {
	const rule = "C16/R5"
	r.rule(rule, "token discipline: outside the methods of Lexer, the root package calls only token-producing methods of Lexer (nextToken / NextToken: they store Lexer.Token, directly or through callees), Clone, and methods that neither read nor move the cursor Lexer.pos (error constructors), and no branch depends on a value computed from File.Buffer or from the result of a byte-level Lexer method (forward slice)", 15)
	isLexerFn := func(fn *ssa.Function) bool {
		for f := fn; f != nil; f = f.Parent() {
			if f.Signature.Recv() != nil {
				t := f.Signature.Recv().Type()
				if w.isLexerPtr(t) || isNamed(t, modRoot, "Lexer") {
					return true
				}
			}
		}
		return false
	}
	// token-producing methods of Lexer
	produces := map[*ssa.Function]bool{}
	var lexFns []*ssa.Function
	for _, fn := range w.ModFns {
		if fnPkgPath(fn) == modRoot && fn.Blocks != nil && isLexerFn(fn) {
			lexFns = append(lexFns, fn)
			for _, b := range fn.Blocks {
				for _, in := range b.Instrs {
					st, ok := in.(*ssa.Store)
					if !ok {
						continue
					}
					if _, isCur := w.curTokenAddr(st.Addr); isCur {
						produces[fn] = true
					}
					if fa, ok := st.Addr.(*ssa.FieldAddr); ok {
						if _, isCur := w.curTokenAddr(fa.X); isCur {
							produces[fn] = true
						}
					}
				}
			}
		}
	}
	// methods that read or move the cursor (Lexer.pos), directly or through other methods of Lexer
	cursor := map[*ssa.Function]bool{}
	for _, fn := range lexFns {
		for _, b := range fn.Blocks {
			for _, in := range b.Instrs {
				if fa, ok := in.(*ssa.FieldAddr); ok && fieldAddrName(fa) == "pos" && w.isLexerPtr(fa.X.Type()) {
					cursor[fn] = true
				}
			}
		}
	}
	for changed := true; changed; {
		changed = false
		for _, fn := range lexFns {
			if cursor[fn] {
				continue
			}
			for _, b := range fn.Blocks {
				for _, in := range b.Instrs {
					if ci, ok := in.(ssa.CallInstruction); ok {
						for _, c := range w.Callees(ci) {
							if cursor[c] && !cursor[fn] {
								cursor[fn] = true
								changed = true
							}
						}
					}
				}
			}
		}
	}
	for changed := true; changed; {
		changed = false
		for _, fn := range lexFns {
			if produces[fn] {
				continue
			}
			for _, b := range fn.Blocks {
				for _, in := range b.Instrs {
					if ci, ok := in.(ssa.CallInstruction); ok {
						for _, c := range w.Callees(ci) {
							if produces[c] && !produces[fn] {
								produces[fn] = true
								changed = true
							}
						}
					}
				}
			}
		}
	}
	var srcs []ssa.Value
	nCalls := 0
	for _, fn := range w.ModFns {
		if fnPkgPath(fn) != modRoot || fn.Blocks == nil || isLexerFn(fn) || fn.Synthetic != "" {
			continue
		}
		for _, b := range fn.Blocks {
			for _, in := range b.Instrs {
				if ci, ok := in.(ssa.CallInstruction); ok {
					callee := ci.Common().StaticCallee()
					if callee != nil && callee.Signature.Recv() != nil && fnPkgPath(callee) == modRoot && isLexerFn(callee) {
						nCalls++
						construct := fmt.Sprintf("call of %s in %s", funcName(callee), funcName(fn))
						switch {
						case callee.Name() == "Clone" || produces[callee]:
							r.ok(rule, construct, w.pos(in.Pos()), "a token-level operation")
						case !cursor[callee]:
							r.ok(rule, construct, w.pos(in.Pos()), "does not read or move the cursor")
						default:
							r.bad(rule, construct, w.pos(in.Pos()), "a byte-level method of the lexer is used outside the lexer: what it sees or skips are the bytes behind the current token — white space and comments included — so the parse depends on trivia")
							if v, isV := in.(ssa.Value); isV {
								srcs = append(srcs, v)
							}
						}
					}
				}
				if v, ok := in.(ssa.Value); ok {
					if ld, isL := isLoad(v); isL {
						if fa, ok := ld.(*ssa.FieldAddr); ok && fieldAddrName(fa) == "Buffer" {
							if n := fieldAddrStruct(fa); n != nil && n.Obj().Pkg() != nil && n.Obj().Pkg().Path() == modRoot+"/token" && n.Obj().Name() == "File" {
								srcs = append(srcs, v)
							}
						}
					}
				}
			}
		}
	}
	if nCalls < 4 {
		r.errorf("only %d calls of Lexer methods found outside the lexer", nCalls)
		return
	}
	nbad := 0
	if len(srcs) > 0 {
		sl := w.forwardSlice(srcs, func(f *ssa.Function) bool { return false })
		seen := map[*ssa.If]bool{}
		for v := range sl {
			for _, u := range referrers(v) {
				iff, ok := u.(*ssa.If)
				if !ok || seen[iff] {
					continue
				}
				fn := iff.Parent()
				if fnPkgPath(fn) != modRoot || isLexerFn(fn) {
					continue
				}
				seen[iff] = true
				nbad++
				r.bad(rule, fmt.Sprintf("branch on input bytes in %s", funcName(fn)), w.pos(lastPos(iff.Block())), "the condition is computed from File.Buffer (or from the answer of a byte-level lexer method), not from a token: white space or a comment at that place changes the decision")
			}
		}
	}
	if nbad == 0 {
		r.ok(rule, "branches on input bytes outside the lexer", "-", fmt.Sprintf("%d read(s) of File.Buffer / byte-level answers outside the lexer followed, no branch depends on them", len(srcs)))
	}
}
