package main

import (
	"fmt"
	"go/token"
	"go/types"
	"sort"
	"strings"

	"golang.org/x/tools/go/ssa"
)

// Abstract source positions. A token.Pos value of the parser is one of:
//   start/end of a token (with the TKAI fact about that token at the point of use, and a constant
//   offset added on the way), InvalidPos, the zero value (field never assigned), the Pos()/End() of a
//   node, or unknown.

type PosAlt struct {
	kind  string // "start", "end", "invalid", "zero", "nodepos", "nodeend", "unknown"
	off   int
	fact  KSet
	types map[string]bool
	src   ssa.Value // token source (for correlation / reporting)
	desc  string
}

type PosAV []PosAlt

func (a PosAlt) String() string {
	switch a.kind {
	case "start", "end":
		s := fmt.Sprintf("%s of token %s", a.kind, a.fact)
		if a.off != 0 {
			s += fmt.Sprintf("%+d", a.off)
		}
		return s
	case "nodepos", "nodeend":
		return a.kind + " of " + strings.Join(sortedKeys(a.types), "|")
	}
	if a.desc != "" {
		return a.kind + " (" + a.desc + ")"
	}
	return a.kind
}

func (p PosAV) String() string {
	var ss []string
	for _, a := range p {
		ss = append(ss, a.String())
	}
	sort.Strings(ss)
	return "{" + strings.Join(uniqStrings(ss), "; ") + "}"
}

type PosFlow struct {
	w    *World
	tk   *TKAI
	v    *Value
	busy map[ssa.Value]bool
}

func (w *World) PosFlow() *PosFlow {
	if w.posflow == nil {
		w.posflow = &PosFlow{w: w, tk: w.TKAI(), v: w.Value(), busy: map[ssa.Value]bool{}}
	}
	return w.posflow
}

// Of evaluates a token.Pos-typed SSA value as seen at instruction `at`.
func (pf *PosFlow) Of(v ssa.Value, at ssa.Instruction, depth int) PosAV {
	w := pf.w
	if depth > 12 {
		return PosAV{{kind: "unknown", desc: "depth"}}
	}
	switch x := v.(type) {
	case *ssa.Const:
		if k, ok := constInt(x); ok {
			if k == -1 {
				return PosAV{{kind: "invalid"}}
			}
			if k == 0 {
				return PosAV{{kind: "zero", desc: "constant 0"}}
			}
		}
		return PosAV{{kind: "unknown", desc: "constant"}}
	case *ssa.Convert:
		return pf.Of(x.X, at, depth)
	case *ssa.ChangeType:
		return pf.Of(x.X, at, depth)
	case *ssa.Phi:
		if pf.busy[x] {
			return nil
		}
		pf.busy[x] = true
		defer delete(pf.busy, x)
		var out PosAV
		live := w.liveBlocks(x.Parent())
		for i, e := range x.Edges {
			if pred := x.Block().Preds[i]; !w.liveEdge(live, pred) {
				continue // the edge comes from a block that ends in a raise
			}
			out = append(out, pf.Of(e, at, depth+1)...)
		}
		return out
	case *ssa.BinOp:
		if x.Op == token.ADD || x.Op == token.SUB {
			if c, ok := constInt(x.Y); ok {
				if x.Op == token.SUB {
					c = -c
				}
				var out PosAV
				for _, a := range pf.Of(x.X, at, depth+1) {
					a.off += int(c)
					out = append(out, a)
				}
				return out
			}
		}
		return PosAV{{kind: "unknown", desc: "arithmetic"}}
	case *ssa.Field:
		// a field of a token held by value (`p.expect("ADD").Pos` where expect returns token.Token)
		if w.isTokenStruct(x.X.Type()) {
			if st, ok := x.X.Type().Underlying().(*types.Struct); ok && x.Field < st.NumFields() {
				name := st.Field(x.Field).Name()
				if name == "Pos" || name == "End" {
					kind := "start"
					if name == "End" {
						kind = "end"
					}
					_, srcs := pf.tk.tokenSources(x.X)
					var out PosAV
					for _, s := range srcs {
						out = append(out, PosAlt{kind: kind, fact: pf.tk.FactOf(s, at), src: s})
					}
					if len(out) > 0 {
						return out
					}
				}
			}
		}
	case *ssa.UnOp:
		if x.Op != token.MUL {
			break
		}
		switch addr := x.X.(type) {
		case *ssa.FieldAddr:
			name := fieldAddrName(addr)
			if (name == "Pos" || name == "End") && (w.isTokenPtr(addr.X.Type())) {
				kind := "start"
				if name == "End" {
					kind = "end"
				}
				cur, srcs := pf.tk.tokenSources(addr.X)
				if cur {
					return PosAV{{kind: kind, fact: pf.tk.FactOf(x, at), src: x}}
				}
				var out PosAV
				for _, s := range srcs {
					out = append(out, PosAlt{kind: kind, fact: pf.tk.FactOf(s, at), src: s})
				}
				if len(out) > 0 {
					return out
				}
			}
			// a position field of an existing node (e.g. copying q.Rparen): unknown provenance
			return PosAV{{kind: "unknown", desc: "loaded from " + name}}
		case *ssa.Alloc:
			// a local variable / named result
			var stores []*ssa.Store
			collectStores(addr, &stores)
			if pf.busy[addr] {
				return nil
			}
			pf.busy[addr] = true
			defer delete(pf.busy, addr)
			var out PosAV
			// strong update in the same block
			b := x.Block()
			for i := indexOf(b, x) - 1; i >= 0; i-- {
				if st, ok := b.Instrs[i].(*ssa.Store); ok && st.Addr == ssa.Value(addr) {
					return pf.Of(st.Val, at, depth+1)
				}
			}
			for _, st := range stores {
				out = append(out, pf.Of(st.Val, st, depth+1)...)
			}
			return out
		}
	case *ssa.Parameter:
		fn := x.Parent()
		idx := -1
		for i, p := range fn.Params {
			if p == x {
				idx = i
			}
		}
		if pf.busy[x] {
			return nil
		}
		pf.busy[x] = true
		defer delete(pf.busy, x)
		var out PosAV
		callers := w.callersOf(fn)
		if len(callers) == 0 {
			return PosAV{{kind: "unknown", desc: "parameter of an uncalled function"}}
		}
		for _, c := range callers {
			com := c.Common()
			ai := idx
			if com.IsInvoke() {
				ai--
			}
			if ai < 0 || ai >= len(com.Args) {
				continue
			}
			out = append(out, pf.Of(com.Args[ai], c, depth+1)...)
		}
		return out
	case *ssa.Extract:
		if call, ok := x.Tuple.(*ssa.Call); ok {
			return pf.ofCall(call, x.Index, depth)
		}
	case *ssa.Call:
		return pf.ofCall(x, 0, depth)
	case *ssa.FreeVar:
		fn := x.Parent()
		for i, fv := range fn.FreeVars {
			if fv == x && fn.Parent() != nil {
				for _, b := range fn.Parent().Blocks {
					for _, in := range b.Instrs {
						if mc, ok := in.(*ssa.MakeClosure); ok && mc.Fn == ssa.Value(fn) {
							return pf.Of(mc.Bindings[i], mc, depth+1)
						}
					}
				}
			}
		}
	}
	return PosAV{{kind: "unknown", desc: fmt.Sprintf("%T", v)}}
}

func (pf *PosFlow) ofCall(call *ssa.Call, idx int, depth int) PosAV {
	w := pf.w
	com := call.Common()
	// node.Pos() / node.End()
	name := ""
	var recv ssa.Value
	if com.IsInvoke() {
		name, recv = com.Method.Name(), com.Value
	} else if c := com.StaticCallee(); c != nil && c.Signature.Recv() != nil && len(com.Args) > 0 {
		name, recv = c.Name(), com.Args[0]
	}
	if (name == "Pos" || name == "End") && recv != nil {
		a := pf.v.get(recv)
		kind := "nodepos"
		if name == "End" {
			kind = "nodeend"
		}
		if len(a.types) > 0 {
			return PosAV{{kind: kind, types: a.types}}
		}
		return PosAV{{kind: kind, types: map[string]bool{"?": true}}}
	}
	var out PosAV
	for _, callee := range w.Callees(call) {
		if callee.Blocks == nil || fnPkgPath(callee) != modRoot {
			out = append(out, PosAlt{kind: "unknown", desc: "result of " + funcName(callee)})
			continue
		}
		key := ssa.Value(callee)
		if pf.busy[key] {
			continue
		}
		pf.busy[key] = true
		live := w.liveBlocks(callee)
		for _, b := range callee.Blocks {
			if !live[b] {
				continue
			}
			if ret, ok := b.Instrs[len(b.Instrs)-1].(*ssa.Return); ok && idx < len(ret.Results) {
				out = append(out, pf.Of(ret.Results[idx], ret, depth+1)...)
			}
		}
		delete(pf.busy, key)
	}
	return out
}

// tokenLen: the byte length of every token described by the fact, if it is the same for all.
func tokenLen(f KSet) (int, bool) {
	atoms, ok := f.Finite()
	if !ok || len(atoms) == 0 {
		return 0, false
	}
	l := -1
	for _, a := range atoms {
		n, ok := atomLen(a)
		if !ok {
			return 0, false
		}
		if l >= 0 && n != l {
			return 0, false
		}
		l = n
	}
	return l, true
}

// ---- events: where in the production is a field's value produced ------------------------------

type event struct {
	in    ssa.Instruction // nil = before the function was entered (a parameter)
	entry bool
}

// eventsOf: the instructions that produce (consume the tokens of) a value stored in a node field.
func (pf *PosFlow) eventsOf(v ssa.Value, seen map[ssa.Value]bool) []event {
	if seen[v] {
		return nil
	}
	seen[v] = true
	w := pf.w
	switch x := v.(type) {
	case *ssa.Const:
		return nil
	case *ssa.Parameter, *ssa.FreeVar:
		return []event{{entry: true}}
	case *ssa.Call:
		if bi, ok := x.Call.Value.(*ssa.Builtin); ok && bi.Name() == "append" {
			var out []event
			for _, a := range x.Call.Args {
				out = append(out, pf.eventsOf(a, seen)...)
			}
			return out
		}
		// node.Pos() / node.End(): produced where the node was
		{
			com := x.Common()
			name := ""
			var recv ssa.Value
			if com.IsInvoke() {
				name, recv = com.Method.Name(), com.Value
			} else if c := com.StaticCallee(); c != nil && c.Signature.Recv() != nil && len(com.Args) > 0 {
				name, recv = c.Name(), com.Args[0]
			}
			if (name == "Pos" || name == "End") && recv != nil && fnPkgPath(w.calleeOrNil(x)) != modRoot {
				return pf.eventsOf(recv, seen)
			}
			// pos.Invalid(): a flag derived from a position is produced where the position was
			if name == "Invalid" && recv != nil && fnPkgPath(w.calleeOrNil(x)) == modRoot+"/token" {
				return pf.eventsOf(recv, seen)
			}
		}
		return []event{{in: x}}
	case *ssa.Extract:
		return pf.eventsOf(x.Tuple, seen)
	case *ssa.Phi:
		var out []event
		for _, e := range x.Edges {
			out = append(out, pf.eventsOf(e, seen)...)
		}
		return out
	case *ssa.MakeInterface:
		return pf.eventsOf(x.X, seen)
	case *ssa.ChangeInterface:
		return pf.eventsOf(x.X, seen)
	case *ssa.ChangeType:
		return pf.eventsOf(x.X, seen)
	case *ssa.Convert:
		return pf.eventsOf(x.X, seen)
	case *ssa.BinOp:
		return append(pf.eventsOf(x.X, seen), pf.eventsOf(x.Y, seen)...)
	case *ssa.Slice:
		return pf.eventsOf(x.X, seen)
	case *ssa.Alloc:
		// a nested literal / array of elements: the events of what is stored into it
		var out []event
		for _, u := range referrers(x) {
			switch u := u.(type) {
			case *ssa.FieldAddr:
				for _, fu := range referrers(u) {
					if st, ok := fu.(*ssa.Store); ok && st.Addr == ssa.Value(u) {
						out = append(out, pf.eventsOf(st.Val, seen)...)
					}
				}
			case *ssa.IndexAddr:
				for _, fu := range referrers(u) {
					if st, ok := fu.(*ssa.Store); ok && st.Addr == ssa.Value(u) {
						out = append(out, pf.eventsOf(st.Val, seen)...)
					}
				}
			case *ssa.Store:
				if u.Addr == ssa.Value(x) {
					out = append(out, pf.eventsOf(u.Val, seen)...)
				}
			}
		}
		return out
	case *ssa.UnOp:
		if x.Op == token.NOT {
			return pf.eventsOf(x.X, seen)
		}
		if x.Op == token.MUL {
			switch addr := x.X.(type) {
			case *ssa.FieldAddr:
				if w.isTokenPtr(addr.X.Type()) {
					cur, srcs := pf.tk.tokenSources(addr.X)
					if cur {
						return []event{{in: x}}
					}
					var out []event
					for _, s := range srcs {
						out = append(out, pf.eventsOf(s, seen)...)
					}
					return out
				}
				// a field of an existing node: produced where that node was
				return pf.eventsOf(addr.X, seen)
			case *ssa.Alloc:
				return pf.eventsOf(addr, seen)
			case *ssa.IndexAddr:
				return pf.eventsOf(addr.X, seen)
			}
			if _, isCur := w.curTokenAddr(x.X); isCur {
				return []event{{in: x}}
			}
		}
	case *ssa.FieldAddr:
		return pf.eventsOf(x.X, seen)
	case *ssa.IndexAddr:
		return pf.eventsOf(x.X, seen)
	}
	return nil
}

// before: whenever both events are executed in one run of the production, a comes first: b is
// reachable from a in the CFG and a is not reachable from b (events in one loop are unordered).
func before(a, b event) bool {
	if a.entry {
		return !b.entry
	}
	if b.entry || a.in == nil || b.in == nil {
		return false
	}
	if a.in.Parent() != b.in.Parent() {
		return false
	}
	ab, bb := a.in.Block(), b.in.Block()
	if ab == bb {
		if blockReaches(ab, ab) {
			return false // inside a loop
		}
		return indexOf(ab, a.in) < indexOf(bb, b.in)
	}
	return blockReaches(ab, bb) && !blockReaches(bb, ab)
}

var reachMemo = map[[2]*ssa.BasicBlock]bool{}

// blockReaches: there is a non-empty path from block a to block b.
func blockReaches(a, b *ssa.BasicBlock) bool {
	k := [2]*ssa.BasicBlock{a, b}
	if v, ok := reachMemo[k]; ok {
		return v
	}
	seen := map[*ssa.BasicBlock]bool{}
	var visit func(x *ssa.BasicBlock) bool
	visit = func(x *ssa.BasicBlock) bool {
		for _, s := range x.Succs {
			if s == b {
				return true
			}
			if !seen[s] {
				seen[s] = true
				if visit(s) {
					return true
				}
			}
		}
		return false
	}
	r := visit(a)
	reachMemo[k] = r
	return r
}

// strictlyAfterAll: every event of B is after some... used as: all of evA before all of evB.
func allBefore(evA, evB []event) bool {
	if len(evA) == 0 || len(evB) == 0 {
		return false
	}
	for _, a := range evA {
		for _, b := range evB {
			if !before(a, b) {
				return false
			}
		}
	}
	return true
}

// eitherOrder: an event of A and an event of B lie on a common cycle (both parsed inside one loop): which of the
// two comes later in the text depends on the input.
func eitherOrder(evA, evB []event) bool {
	for _, a := range evA {
		for _, b := range evB {
			if a.entry || b.entry || a.in == nil || b.in == nil || a.in.Parent() != b.in.Parent() {
				continue
			}
			ab, bb := a.in.Block(), b.in.Block()
			if ab != bb && blockReaches(ab, bb) && blockReaches(bb, ab) {
				return true
			}
		}
	}
	return false
}

// anyBefore: some event of A happens before some event of B on a path that executes both.
func anyBefore(evA, evB []event) bool {
	for _, a := range evA {
		for _, b := range evB {
			if before(a, b) {
				return true
			}
		}
	}
	return false
}

func (w *World) calleeOrNil(c *ssa.Call) *ssa.Function {
	if f := c.Call.StaticCallee(); f != nil {
		return f
	}
	for _, f := range w.Callees(c) {
		return f
	}
	return nil
}
