package main

import (
	"sort"
	"strings"
)

// KSet is the abstract value of "the kind of a token": either In(m) — the token's class is one of the
// atoms in m — or NotIn(m). Atoms are token kinds ("SELECT", "(", "<ident>", "<eof>", …) and two
// refinements of "<ident>": "<ident>:RAW" (an identifier token whose Raw equal-folds RAW, i.e.
// Token.IsKeywordLike(RAW)) and "<ident>~NAME" (AsString equal-folds NAME, Token.IsIdent(NAME)).
type KSet struct {
	neg bool
	m   map[string]bool
}

const identAtom = "<ident>"
const eofAtom = "<eof>"

func kTop() KSet   { return KSet{neg: true, m: map[string]bool{}} }
func kEmpty() KSet { return KSet{m: map[string]bool{}} }
func kIn(atoms ...string) KSet {
	k := kEmpty()
	for _, a := range atoms {
		k.m[a] = true
	}
	return k
}
func kwAtom(s string) string     { return identAtom + ":" + strings.ToUpper(s) }
func identNamed(s string) string { return identAtom + "~" + strings.ToUpper(s) }

func (k KSet) IsEmpty() bool { return !k.neg && len(k.m) == 0 }
func (k KSet) IsTop() bool   { return k.neg && len(k.m) == 0 }

func (k KSet) atoms() []string {
	var out []string
	for a := range k.m {
		out = append(out, a)
	}
	sort.Strings(out)
	return out
}

func (k KSet) String() string {
	if k.m == nil {
		return "⊥"
	}
	s := "{" + strings.Join(k.atoms(), " ") + "}"
	if k.neg {
		if len(k.m) == 0 {
			return "⊤"
		}
		return "¬" + s
	}
	return s
}

func (k KSet) Key() string { return k.String() }

func isIdentish(a string) bool { return strings.HasPrefix(a, identAtom) }

// atomSub: every token of class a is of class b.
func atomSub(a, b string) bool {
	if a == b {
		return true
	}
	if b == identAtom && isIdentish(a) {
		return true
	}
	// IsKeywordLike(X) implies IsIdent(X)
	if strings.HasPrefix(a, identAtom+":") && strings.HasPrefix(b, identAtom+"~") && a[len(identAtom)+1:] == b[len(identAtom)+1:] {
		return true
	}
	return false
}

// atomDisjoint: no token is of both classes.
func atomDisjoint(a, b string) bool {
	if atomSub(a, b) || atomSub(b, a) {
		return false
	}
	if !isIdentish(a) || !isIdentish(b) {
		return true
	}
	// both refinements of <ident> with different names
	return a[len(identAtom)+1:] != b[len(identAtom)+1:]
}

// Meet refines k by "the token is of class t" (true edge of a test).
func (k KSet) Meet(t string) KSet {
	out := kEmpty()
	if !k.neg {
		for a := range k.m {
			switch {
			case atomSub(a, t):
				out.m[a] = true
			case atomSub(t, a):
				out.m[t] = true
			case !atomDisjoint(a, t):
				out.m[t] = true // overlapping refinements (:X with ~X handled by atomSub); keep the tested class
			}
		}
		return out
	}
	for a := range k.m {
		if atomSub(t, a) {
			return out // excluded
		}
	}
	out.m[t] = true
	return out
}

// Remove refines k by "the token is not of class t" (false edge of a test).
func (k KSet) Remove(t string) KSet {
	if !k.neg {
		out := kEmpty()
		for a := range k.m {
			if !atomSub(a, t) {
				out.m[a] = true
			}
		}
		return out
	}
	out := KSet{neg: true, m: map[string]bool{}}
	for a := range k.m {
		out.m[a] = true
	}
	out.m[t] = true
	return out
}

// MeetSet intersects two facts (over-approximating).
func (k KSet) MeetSet(o KSet) KSet {
	switch {
	case !k.neg && !o.neg:
		out := kEmpty()
		for a := range k.m {
			for b := range o.m {
				switch {
				case atomSub(a, b):
					out.m[a] = true
				case atomSub(b, a):
					out.m[b] = true
				case !atomDisjoint(a, b):
					out.m[a] = true
				}
			}
		}
		return out
	case !k.neg && o.neg:
		out := kEmpty()
		for a := range k.m {
			ex := false
			for b := range o.m {
				if atomSub(a, b) {
					ex = true
				}
			}
			if !ex {
				out.m[a] = true
			}
		}
		return out
	case k.neg && !o.neg:
		return o.MeetSet(k)
	default:
		out := KSet{neg: true, m: map[string]bool{}}
		for a := range k.m {
			out.m[a] = true
		}
		for a := range o.m {
			out.m[a] = true
		}
		return out
	}
}

// Join is the least upper bound (over-approximating where refinements meet exclusions).
func (k KSet) Join(o KSet) KSet {
	if k.m == nil {
		return o
	}
	if o.m == nil {
		return k
	}
	switch {
	case !k.neg && !o.neg:
		out := kEmpty()
		for a := range k.m {
			out.m[a] = true
		}
		for a := range o.m {
			out.m[a] = true
		}
		// drop atoms subsumed by a coarser one
		for a := range out.m {
			for b := range out.m {
				if a != b && atomSub(a, b) {
					delete(out.m, a)
				}
			}
		}
		return out
	case k.neg && o.neg:
		out := KSet{neg: true, m: map[string]bool{}}
		for a := range k.m {
			if o.m[a] {
				out.m[a] = true
			}
		}
		return out
	case k.neg && !o.neg:
		out := KSet{neg: true, m: map[string]bool{}}
		for a := range k.m {
			keep := true
			for b := range o.m {
				if !atomDisjoint(a, b) {
					keep = false
				}
			}
			if keep {
				out.m[a] = true
			}
		}
		return out
	default:
		return o.Join(k)
	}
}

// Excludes: no token described by k is of class t.
func (k KSet) Excludes(t string) bool {
	if !k.neg {
		for a := range k.m {
			if !atomDisjoint(a, t) {
				return false
			}
		}
		return true
	}
	for a := range k.m {
		if atomSub(t, a) {
			return true
		}
	}
	return false
}

// Overlaps: some token may satisfy both facts.
func (k KSet) Overlaps(o KSet) bool { return !k.MeetSet(o).IsEmpty() }

func (k KSet) Equal(o KSet) bool { return k.Key() == o.Key() }

// Finite: k is In(m) and returns m.
func (k KSet) Finite() ([]string, bool) {
	if k.neg || k.m == nil {
		return nil, false
	}
	return k.atoms(), true
}

// atomLen: byte length of a token of this class when it is determined by the class.
func atomLen(a string) (int, bool) {
	if strings.HasPrefix(a, identAtom+":") {
		return len(a) - len(identAtom) - 1, true // IsKeywordLike compares Raw, so the token is unquoted
	}
	if strings.HasPrefix(a, "<") && strings.HasSuffix(a, ">") && len(a) > 2 && a != "<>" && a != "<=>" {
		return 0, false // <ident>, <int>, <string>, … have variable length; <eof>, <bad>
	}
	if isIdentish(a) {
		return 0, false
	}
	return len(a), true
}
