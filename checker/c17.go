package main

import (
	"fmt"
	"go/ast"
	"go/token"
	"go/types"
	"strconv"
	"strings"
)

func init() {
	register(&propDef{
		ID: "C17",
		Explanation: "R1 walkInternal (generated) has exactly one case per node struct and pushes exactly the node-typed fields of that struct (classified with go/types) in reverse declaration order, wrapNode for single and wrapNodes for slice fields, with v.Field(<the field's own name>); " +
			"R2 the traversal engine walkMain pops from the end of the stack, pushes slice elements in descending index order with v.Index(i), descends only when Visit returned a non-nil visitor, and the Inspect/Preorder adapters stop exactly when the callback says so (checked on SSA value identities); " +
			"R3 (shared with C05) field declaration order equals parse order in every production. " +
			"Decides: the per-type traversal table and the shape of the 25-line engine. Does not decide: the dynamic theorem 'each node exactly once' beyond these shapes.",
		Rules: []ruleFn{ruleC17R1, ruleC17R2, ruleC18R5, ruleC17R3},
	})
}

// nodeFields returns the node-typed fields of a struct in declaration order.
func (c *Catalog) nodeFields(ns *NodeStruct) (names []string, kinds []string) {
	if ns.Struct == nil {
		return
	}
	for i := 0; i < ns.Struct.NumFields(); i++ {
		f := ns.Struct.Field(i)
		if k := c.nodeFieldKind(f.Type()); k != "" {
			names = append(names, f.Name())
			kinds = append(kinds, k)
		}
	}
	return
}

func ruleC17R1(w *World, r *Report) {
	const rule = "C17/R1"
	r.rule(rule, "walkInternal: one case per node struct; pushes = node-typed fields (go/types) in reverse declaration order; wrapNode/node for single, wrapNodes/nodes for slices; v.Field(name of that field); nothing else pushed; result is the extended stack", 125)
	cat := w.Catalog()
	info := w.Ast.TypesInfo
	var fd *ast.FuncDecl
	for _, f := range w.Ast.Syntax {
		for _, d := range f.Decls {
			if x, ok := d.(*ast.FuncDecl); ok && x.Recv == nil && x.Name.Name == "walkInternal" {
				fd = x
			}
		}
	}
	if fd == nil {
		r.errorf("function ast.walkInternal not found")
		return
	}
	where := w.pos(fd.Pos())
	sig := info.Defs[fd.Name].Type().(*types.Signature)
	if sig.Params().Len() != 3 || sig.Results().Len() != 1 {
		r.errorf("ast.walkInternal: unexpected signature %s", sig)
		return
	}
	nodeParam, visParam, stackParam := sig.Params().At(0), sig.Params().At(1), sig.Params().At(2)
	var sw *ast.TypeSwitchStmt
	okShape := len(fd.Body.List) == 2
	if okShape {
		sw, _ = fd.Body.List[0].(*ast.TypeSwitchStmt)
		ret, _ := fd.Body.List[1].(*ast.ReturnStmt)
		okShape = sw != nil && ret != nil && len(ret.Results) == 1 && isUseOf(info, ret.Results[0], stackParam)
	}
	if !okShape {
		r.undecided(rule, "ast.walkInternal (frame)", where, "body is not `switch n := node.(type) {…}; return stack`")
		return
	}
	// tag: n := node.(type)
	var bound *ast.Ident
	switch a := sw.Assign.(type) {
	case *ast.AssignStmt:
		if len(a.Lhs) == 1 && len(a.Rhs) == 1 {
			bound, _ = a.Lhs[0].(*ast.Ident)
			if ta, ok := a.Rhs[0].(*ast.TypeAssertExpr); !ok || ta.Type != nil || !isUseOf(info, ta.X, nodeParam) {
				bound = nil
			}
		}
	}
	if bound == nil {
		r.undecided(rule, "ast.walkInternal (frame)", where, "type switch is not `n := <first parameter>.(type)`")
		return
	}
	r.ok(rule, "ast.walkInternal (frame)", where, "switch n := node.(type) …; return stack")

	wrapNode := w.Ast.Types.Scope().Lookup("wrapNode")
	wrapNodes := w.Ast.Types.Scope().Lookup("wrapNodes")
	stackItem := w.Ast.Types.Scope().Lookup("stackItem")
	if wrapNode == nil || wrapNodes == nil || stackItem == nil {
		r.errorf("ast.wrapNode / ast.wrapNodes / ast.stackItem not found")
		return
	}
	seen := map[string]bool{}
	for _, cc := range sw.Body.List {
		clause := cc.(*ast.CaseClause)
		cwhere := w.pos(clause.Pos())
		if clause.List == nil {
			// default clause: must not push anything
			if len(clause.Body) > 0 {
				r.undecided(rule, "ast.walkInternal default", cwhere, "default clause with statements")
			}
			continue
		}
		if len(clause.List) != 1 && len(clause.Body) == 0 {
			// `case *A, *B, *C:` with an empty body: the node types that have no children, listed together
			for _, te := range clause.List {
				tv := info.Types[te]
				named := namedOf(tv.Type)
				_, isPtr := tv.Type.(*types.Pointer)
				if named == nil || !isPtr || cat.ByName[named.Obj().Name()] == nil || cat.ByName[named.Obj().Name()].Named != named {
					r.bad(rule, "ast.walkInternal case "+exprText(w.Fset, te), cwhere, "case type is not a pointer to a node struct of package ast")
					continue
				}
				ns := cat.ByName[named.Obj().Name()]
				construct := "ast.walkInternal case *" + ns.Name
				if seen[ns.Name] {
					r.bad(rule, construct, cwhere, "duplicate case (the second one is dead)")
					continue
				}
				seen[ns.Name] = true
				if wantNames, _ := cat.nodeFields(ns); len(wantNames) > 0 {
					r.bad(rule, construct, cwhere, fmt.Sprintf("pushes nothing (the type is listed in a shared clause without a body) but the struct has the node-typed fields [%s]", strings.Join(wantNames, ",")))
				} else {
					r.trivial(rule, construct, cwhere, "no node-typed fields, nothing pushed (shared clause)")
				}
			}
			continue
		}
		if len(clause.List) != 1 {
			r.undecided(rule, "ast.walkInternal case "+exprText(w.Fset, clause.List[0]), cwhere, "case lists several types; the pushes cannot be attributed to one struct")
			continue
		}
		tv := info.Types[clause.List[0]]
		named := namedOf(tv.Type)
		_, isPtr := tv.Type.(*types.Pointer)
		if named == nil || !isPtr || cat.ByName[named.Obj().Name()] == nil || cat.ByName[named.Obj().Name()].Named != named {
			r.bad(rule, "ast.walkInternal case "+exprText(w.Fset, clause.List[0]), cwhere, "case type is not a pointer to a node struct of package ast")
			continue
		}
		ns := cat.ByName[named.Obj().Name()]
		construct := "ast.walkInternal case *" + ns.Name
		if seen[ns.Name] {
			r.bad(rule, construct, cwhere, "duplicate case (the second one is dead)")
			continue
		}
		seen[ns.Name] = true
		// the object bound by the type switch in this clause
		nObj := info.Implicits[clause]
		var gotNames, gotKinds []string
		bad := ""
		for _, st := range clause.Body {
			name, kind, err := parsePush(info, st, nObj, visParam, stackParam, wrapNode, wrapNodes, stackItem)
			if err != "" {
				bad = err + ": " + exprText(w.Fset, st)
				break
			}
			gotNames = append(gotNames, name)
			gotKinds = append(gotKinds, kind)
		}
		if strings.HasPrefix(bad, "VIOL: ") {
			r.bad(rule, construct, cwhere, strings.TrimPrefix(bad, "VIOL: "))
			continue
		}
		if bad != "" {
			r.undecided(rule, construct, cwhere, "unrecognised statement in case body ("+bad+")")
			continue
		}
		wantNames, wantKinds := cat.nodeFields(ns)
		// reverse
		for i, j := 0, len(wantNames)-1; i < j; i, j = i+1, j-1 {
			wantNames[i], wantNames[j] = wantNames[j], wantNames[i]
			wantKinds[i], wantKinds[j] = wantKinds[j], wantKinds[i]
		}
		if strings.Join(gotNames, ",") != strings.Join(wantNames, ",") {
			r.bad(rule, construct, cwhere, fmt.Sprintf("pushes fields [%s] but the node-typed fields of the struct in reverse declaration order are [%s]", strings.Join(gotNames, ","), strings.Join(wantNames, ",")))
			continue
		}
		if strings.Join(gotKinds, ",") != strings.Join(wantKinds, ",") {
			r.bad(rule, construct, cwhere, fmt.Sprintf("single/slice wrapping mismatch: got [%s], want [%s]", strings.Join(gotKinds, ","), strings.Join(wantKinds, ",")))
			continue
		}
		if len(gotNames) == 0 {
			r.trivial(rule, construct, cwhere, "no node-typed fields, nothing pushed")
		} else {
			r.ok(rule, construct, cwhere, "pushes ["+strings.Join(gotNames, ",")+"] = reverse declaration order of node-typed fields")
		}
	}
	for _, ns := range cat.Structs {
		if !seen[ns.Name] {
			names, _ := cat.nodeFields(ns)
			if !(types.Implements(types.NewPointer(ns.Named), cat.NodeIfc)) {
				continue
			}
			r.bad(rule, "ast.walkInternal case *"+ns.Name, w.pos(ns.DeclPos), fmt.Sprintf("node struct has no case in walkInternal; its children %v would be skipped silently", names))
		}
	}
	// struct fields whose element type is a struct that is not a Node are invisible to traversal
	for _, ns := range cat.Structs {
		if ns.Struct == nil {
			continue
		}
		for i := 0; i < ns.Struct.NumFields(); i++ {
			f := ns.Struct.Field(i)
			t := f.Type()
			if sl, ok := t.Underlying().(*types.Slice); ok {
				t = sl.Elem()
			}
			if p, ok := t.(*types.Pointer); ok {
				t = p.Elem()
			}
			if n, ok := t.(*types.Named); ok && n.Obj().Pkg() == w.Ast.Types {
				if _, isStruct := n.Underlying().(*types.Struct); isStruct && cat.nodeFieldKind(f.Type()) == "" {
					r.bad(rule, "ast."+ns.Name+"."+f.Name()+" (field type)", w.pos(f.Pos()), "field holds an ast struct that does not implement Node (by value, or the type lacks Pos/End/SQL): traversal cannot reach it")
				}
			}
		}
	}
}

func isUseOf(info *types.Info, e ast.Expr, obj types.Object) bool {
	id, ok := ast.Unparen(e).(*ast.Ident)
	return ok && info.Uses[id] == obj
}

// parsePush recognises `stack = append(stack, &stackItem{node|nodes: wrapNode|wrapNodes(n.F), visitor: v.Field("F")})`
// through resolved objects and returns F and "single"/"slice".
func parsePush(info *types.Info, st ast.Stmt, nObj types.Object, vis, stack *types.Var, wrapNode, wrapNodes, stackItem types.Object) (string, string, string) {
	as, ok := st.(*ast.AssignStmt)
	if !ok || as.Tok != token.ASSIGN || len(as.Lhs) != 1 || len(as.Rhs) != 1 || !isUseOf(info, as.Lhs[0], stack) {
		return "", "", "not an assignment to the stack parameter"
	}
	call, ok := as.Rhs[0].(*ast.CallExpr)
	if !ok || len(call.Args) != 2 || call.Ellipsis.IsValid() {
		return "", "", "not append(stack, item)"
	}
	if id, ok := call.Fun.(*ast.Ident); !ok || info.Uses[id] != types.Universe.Lookup("append") {
		return "", "", "not a call of the builtin append"
	}
	if !isUseOf(info, call.Args[0], stack) {
		return "", "", "append does not extend the stack parameter"
	}
	// the item: &stackItem{…} on a stack of pointers, stackItem{…} on a stack of values
	var item ast.Expr = call.Args[1]
	if un, ok := item.(*ast.UnaryExpr); ok && un.Op == token.AND {
		item = un.X
	}
	cl, ok := item.(*ast.CompositeLit)
	if !ok || namedOf(info.Types[cl].Type) == nil || namedOf(info.Types[cl].Type).Obj() != stackItem {
		return "", "", "item is not a stackItem{…} literal"
	}
	var field, kind, visName string
	for _, el := range cl.Elts {
		kv, ok := el.(*ast.KeyValueExpr)
		if !ok {
			return "", "", "unkeyed stackItem literal"
		}
		key := kv.Key.(*ast.Ident).Name
		switch key {
		case "node", "nodes":
			c, ok := kv.Value.(*ast.CallExpr)
			if !ok || len(c.Args) != 1 {
				return "", "", "node value is not wrapNode(n.F)/wrapNodes(n.F)"
			}
			fid, _ := c.Fun.(*ast.Ident)
			var fobj types.Object
			if fid != nil {
				fobj = info.Uses[fid]
			}
			sel, ok := c.Args[0].(*ast.SelectorExpr)
			if !ok || !isUseOf(info, sel.X, nObj) {
				return "", "", "argument is not a field of the switched node"
			}
			field = sel.Sel.Name
			switch {
			case key == "node" && fobj == wrapNode:
				kind = "single"
			case key == "nodes" && fobj == wrapNodes:
				kind = "slice"
			default:
				return "", "", "key/wrapper mismatch (node↔wrapNode, nodes↔wrapNodes)"
			}
		case "visitor":
			c, ok := kv.Value.(*ast.CallExpr)
			if !ok || len(c.Args) != 1 {
				return "", "", "visitor is not v.Field(\"F\")"
			}
			sel, ok := c.Fun.(*ast.SelectorExpr)
			if !ok || sel.Sel.Name != "Field" || !isUseOf(info, sel.X, vis) {
				return "", "", "visitor is not <visitor parameter>.Field(…)"
			}
			tv := info.Types[c.Args[0]]
			if tv.Value == nil {
				return "", "", "Field argument is not a constant"
			}
			s, err := strconv.Unquote(tv.Value.ExactString())
			if err != nil {
				return "", "", "Field argument is not a string constant"
			}
			visName = s
		default:
			return "", "", "unexpected stackItem key " + key
		}
	}
	if field == "" || visName == "" {
		return "", "", "stackItem lacks node(s) or visitor"
	}
	if field != visName {
		return "", "", fmt.Sprintf("VIOL: pushes field %s under the path name %q", field, visName)
	}
	return field, kind, ""
}
