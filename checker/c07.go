package main

import (
	"fmt"
	"go/constant"
	"go/types"
	"sort"
	"strings"

	"golang.org/x/tools/go/ssa"
)

func init() {
	register(&propDef{
		ID: "C07",
		Explanation: "The operator table is finite and is decided exactly. Extraction: from parseExpr the chain of level functions is followed through the unique call made before any token is consumed (the first-operand parser); for every BinaryExpr/UnaryExpr/InExpr/IsNullExpr/IsBoolExpr/BetweenExpr/SelectorExpr/IndexExpr allocation the token sequence under which it is reached (TKAI facts on the phi edges of the operator variable / first consumed token), the operator constant, the parser of each operand and whether the node feeds back into the left operand of the next iteration (left-associative) are read off the SSA. " +
			"R1 the extracted table equals the GoogleSQL table (levels, tokens -> operator constants, associativity, right operand one level tighter, prefix operators recurse into their own level, comparison family non-associative with operands and BETWEEN bounds at the bitwise-or level). " +
			"R2 exprPrec (the printer's table, read from its type/constant switch) is order-isomorphic to the parser levels for every operator, and for every paren(p, x.F) call the types/operators that can flow into x.F (VALUE analysis of the parser) have exprPrec <= p, so SQL() never adds a parenthesis to a parser-built tree. " +
			"R3 every ParenExpr wraps exactly the value returned by parseExpr and the function consuming '(' expr ')' never returns the inner expression unwrapped. R5 no SQL() method prints the same pieces both bare and wrapped in parentheses (parentheses are decided by precedence only).",
		Rules: []ruleFn{ruleC07R1, ruleC07R2, ruleC07R3, ruleC07R4, ruleC07R5, ruleC11R4},
	})
}

// ---- reference table (GoogleSQL operator precedence, loosest first) --------------------------

type refLevel struct {
	name   string
	ops    map[string]string // token sequence -> operator constant name
	kind   string            // "binary-left", "prefix", "comparison", "postfix"
	others []string          // other node types allocated at this level
}

var refLevels = []refLevel{
	{name: "OR", kind: "binary-left", ops: map[string]string{"OR": "OpOr"}},
	{name: "AND", kind: "binary-left", ops: map[string]string{"AND": "OpAnd"}},
	{name: "NOT", kind: "prefix", ops: map[string]string{"NOT": "OpNot"}},
	{name: "comparison", kind: "comparison", ops: map[string]string{"=": "OpEqual", "!=": "OpNotEqual", "<>": "OpNotEqual", "<": "OpLess", "<=": "OpLessEqual", ">": "OpGreater", ">=": "OpGreaterEqual", "LIKE": "OpLike", "NOT LIKE": "OpNotLike"},
		others: []string{"InExpr", "BetweenExpr", "IsNullExpr", "IsBoolExpr"}},
	{name: "|", kind: "binary-left", ops: map[string]string{"|": "OpBitOr"}},
	{name: "^", kind: "binary-left", ops: map[string]string{"^": "OpBitXor"}},
	{name: "&", kind: "binary-left", ops: map[string]string{"&": "OpBitAnd"}},
	{name: "shift", kind: "binary-left", ops: map[string]string{"<<": "OpBitLeftShift", ">>": "OpBitRightShift"}},
	{name: "additive", kind: "binary-left", ops: map[string]string{"+": "OpAdd", "-": "OpSub"}},
	{name: "multiplicative", kind: "binary-left", ops: map[string]string{"*": "OpMul", "/": "OpDiv", "||": "OpConcat"}},
	{name: "unary", kind: "prefix", ops: map[string]string{"+": "OpPlus", "-": "OpMinus", "~": "OpBitNot"}},
	{name: "postfix", kind: "postfix", ops: map[string]string{}, others: []string{"SelectorExpr", "IndexExpr"}},
}

// ---- extraction ------------------------------------------------------------------------------

type exLevel struct {
	fn      *ssa.Function
	next    *ssa.Function     // first-operand parser
	ops     map[string]string // token sequence -> constant name
	binary  bool
	unary   bool
	others  map[string]bool // other expression node types allocated here
	assoc   string          // "left" (node feeds back into Left), "none"
	rightBy map[string]bool // functions parsing right operands / prefix operands
	notes   []string
	where   string
}

func (w *World) isAstExpr(t types.Type) bool {
	return isNamed(t, modRoot+"/ast", "Expr") && !isPointer(t)
}

// constName maps a string constant of a named ast type to the name of the constant.
func (w *World) astConstName(v ssa.Value) string {
	c, ok := v.(*ssa.Const)
	if !ok || c.Value == nil || c.Value.Kind() != constant.String {
		return ""
	}
	n := namedOf(c.Type())
	if n == nil {
		return ""
	}
	val := constant.StringVal(c.Value)
	scope := w.Ast.Types.Scope()
	for _, name := range scope.Names() {
		if k, ok := scope.Lookup(name).(*types.Const); ok && types.Identical(k.Type(), n) && k.Val().Kind() == constant.String && constant.StringVal(k.Val()) == val {
			return name
		}
	}
	return fmt.Sprintf("%q", val)
}

// ncExprCalls: calls to module functions returning ast.Expr reached before anything is consumed.
func (w *World) ncExprCalls(fn *ssa.Function) []*ssa.Call {
	tk := w.TKAI()
	ci := &ctxInfo{key: tkCtx{fn: fn, entry: "c07"}, fn: fn, entry: kTop(), consts: map[int]string{}}
	res := tk.flow(ci, fn.Blocks[0], [2]*TState{newTState(kTop()), nil}, nil, nil)
	var out []*ssa.Call
	for _, b := range fn.Blocks {
		for _, in := range b.Instrs {
			call, ok := in.(*ssa.Call)
			if !ok {
				continue
			}
			callee := call.Call.StaticCallee()
			if callee == nil || fnPkgPath(callee) != modRoot || !w.isAstExpr(call.Type()) {
				continue
			}
			if tk.statesBefore(res, in)[0] != nil {
				out = append(out, call)
			}
		}
	}
	return out
}

func seqOf(k KSet) []string {
	as, ok := k.Finite()
	if !ok {
		return []string{k.String()}
	}
	return as
}

func (w *World) extractLevels(r *Report) []*exLevel {
	tk := w.TKAI()
	start := w.fn(w.Mem, "(*Parser).parseExpr")
	if start == nil {
		r.errorf("(*Parser).parseExpr not found")
		return nil
	}
	var levels []*exLevel
	seen := map[*ssa.Function]bool{}
	f := start
	for f != nil && !seen[f] {
		seen[f] = true
		calls := w.ncExprCalls(f)
		callees := map[*ssa.Function]bool{}
		for _, c := range calls {
			callees[c.Call.StaticCallee()] = true
		}
		delete(callees, f)
		if len(callees) != 1 {
			break // the leaf (primary expressions): several alternatives start here
		}
		var next *ssa.Function
		for c := range callees {
			next = c
		}
		lv := &exLevel{fn: f, next: next, ops: map[string]string{}, others: map[string]bool{}, rightBy: map[string]bool{}, where: w.pos(f.Pos()), assoc: "none"}
		levels = append(levels, lv)
		// explore from just after the first-operand call with a fresh "nothing consumed" state
		var first *ssa.Call
		for _, c := range calls {
			if c.Call.StaticCallee() == next {
				first = c
			}
		}
		ci := &ctxInfo{key: tkCtx{fn: f, entry: "c07b"}, fn: f, entry: kTop(), consts: map[int]string{}}
		var res *flowResult
		if first != nil && first.Block() == f.Blocks[0] || true {
			res, _ = tk.flowAfter(ci, first, newTState(kTop()))
		}
		// prefix operators are decided before the first operand: explore from the entry as well
		resEntry := tk.flow(ci, f.Blocks[0], [2]*TState{newTState(kTop()), nil}, nil, nil)
		// the node types of a level may be allocated in helpers the level function hands its running expression to
		// (parseInExprRest(expr, not)): their allocations count for the level, operators are read in the level itself
		scan := []*ssa.Function{f}
		for _, b := range f.Blocks {
			for _, in := range b.Instrs {
				c, ok := in.(*ssa.Call)
				if !ok {
					continue
				}
				h := c.Call.StaticCallee()
				if h == nil || h == f || h == next || h == start || seen[h] || h.Blocks == nil || fnPkgPath(h) != modRoot || h.Signature.Recv() == nil || !w.isParserPtr(h.Signature.Recv().Type()) {
					continue
				}
				passesExpr := false
				for _, a := range c.Call.Args[1:] {
					if w.isAstExpr(a.Type()) {
						passesExpr = true
					}
				}
				if !passesExpr || h.Signature.Results().Len() != 1 {
					continue
				}
				dup := false
				for _, x := range scan {
					if x == h {
						dup = true
					}
				}
				if !dup {
					scan = append(scan, h)
				}
			}
		}
		for _, sf := range scan {
			for _, b := range sf.Blocks {
				for _, in := range b.Instrs {
					al, ok := in.(*ssa.Alloc)
					if !ok {
						continue
					}
					nt := namedOf(al.Type())
					if nt == nil || nt.Obj().Pkg() == nil || nt.Obj().Pkg().Path() != modRoot+"/ast" {
						continue
					}
					tname := nt.Obj().Name()
					fields := allocFieldStores(al)
					if sf != f && (tname == "BinaryExpr" || tname == "UnaryExpr") {
						lv.notes = append(lv.notes, tname+" allocated in the helper "+funcName(sf)+": its operator cannot be tied to the token read in "+funcName(f))
						continue
					}
					switch tname {
					case "BinaryExpr", "UnaryExpr":
						use := res
						if tname == "UnaryExpr" {
							use = resEntry
							lv.unary = true
						} else {
							lv.binary = true
						}
						opv := fields["Op"]
						if opv == nil {
							lv.notes = append(lv.notes, tname+" allocated without Op at "+w.pos(al.Pos()))
							continue
						}
						for _, pr := range w.opPairs(tk, use, opv, al) {
							name := pr[1]
							if old, dup := lv.ops[pr[0]]; dup && old != name && !(pr[0] == "IS" || strings.HasPrefix(pr[0], "IS ")) {
								lv.notes = append(lv.notes, fmt.Sprintf("token %q maps to both %s and %s", pr[0], old, name))
							}
							lv.ops[pr[0]] = name
						}
						// operand parsers
						for _, fld := range []string{"Right", "Expr"} {
							if v := fields[fld]; v != nil {
								if c, ok := v.(*ssa.Call); ok && c.Call.StaticCallee() != nil {
									lv.rightBy[funcName(c.Call.StaticCallee())] = true
								} else {
									lv.rightBy["<"+v.Name()+">"] = true
								}
							}
						}
						if l := fields["Left"]; l != nil {
							if feedsBack(al, l) {
								lv.assoc = "left"
							}
							if !derivesFromCallOrAlloc(l, first, al) {
								lv.notes = append(lv.notes, "Left operand of the BinaryExpr at "+w.pos(al.Pos())+" is not the running expression of this level")
							}
						}
					default:
						// any other expression node of this level: built around the running expression (its Left/Expr field is
						// the first operand or a node of this level), like InExpr, BetweenExpr, IsNullExpr, SelectorExpr, IndexExpr
						known := map[string]bool{"InExpr": true, "BetweenExpr": true, "IsNullExpr": true, "IsBoolExpr": true, "SelectorExpr": true, "IndexExpr": true}
						if !known[tname] {
							if eo := w.Ast.Types.Scope().Lookup("Expr"); eo == nil {
								continue
							} else if ifc, ok := eo.Type().Underlying().(*types.Interface); !ok || !types.Implements(types.NewPointer(nt), ifc) {
								continue
							}
							running := false
							for _, fld := range []string{"Left", "Expr"} {
								if l := fields[fld]; l != nil {
									if sf == f && first != nil && derivesFromCallOrAlloc(l, first, al) {
										running = true
									}
									if _, isParam := stripMakeIface(l).(*ssa.Parameter); sf != f && isParam {
										running = true
									}
								}
							}
							if !running {
								continue
							}
						}
						lv.others[tname] = true
						for _, fld := range []string{"RightStart", "RightEnd"} {
							if v := fields[fld]; v != nil {
								if c, ok := v.(*ssa.Call); ok && c.Call.StaticCallee() != nil {
									lv.rightBy[funcName(c.Call.StaticCallee())] = true
								}
							}
						}
						for _, fld := range []string{"Left", "Expr"} {
							if l := fields[fld]; l != nil && (tname == "SelectorExpr" || tname == "IndexExpr") {
								if feedsBack(al, l) {
									lv.assoc = "left"
								}
							}
						}
					}
				}
			}
		}
		f = next
	}
	return levels
}

func stripMakeIface(v ssa.Value) ssa.Value {
	for {
		switch x := v.(type) {
		case *ssa.MakeInterface:
			v = x.X
		case *ssa.ChangeInterface:
			v = x.X
		default:
			return v
		}
	}
}

// allocFieldStores: field name -> value stored right after the allocation (composite literal).
func allocFieldStores(al *ssa.Alloc) map[string]ssa.Value {
	out := map[string]ssa.Value{}
	for _, u := range referrers(al) {
		fa, ok := u.(*ssa.FieldAddr)
		if !ok {
			continue
		}
		for _, fu := range referrers(fa) {
			if st, ok := fu.(*ssa.Store); ok && st.Addr == ssa.Value(fa) {
				out[fieldAddrName(fa)] = st.Val
			}
		}
	}
	return out
}

// feedsBack: the allocated node reaches, through phis/interfaces, the value stored as its own left operand.
func feedsBack(al *ssa.Alloc, left ssa.Value) bool {
	seen := map[ssa.Value]bool{}
	var reach func(v ssa.Value) bool
	reach = func(v ssa.Value) bool {
		if seen[v] {
			return false
		}
		seen[v] = true
		switch x := v.(type) {
		case *ssa.Alloc:
			return x == al
		case *ssa.MakeInterface:
			return reach(x.X)
		case *ssa.ChangeInterface:
			return reach(x.X)
		case *ssa.Phi:
			for _, e := range x.Edges {
				if reach(e) {
					return true
				}
			}
		}
		return false
	}
	return reach(left)
}

func derivesFromCallOrAlloc(v ssa.Value, first *ssa.Call, al *ssa.Alloc) bool {
	seen := map[ssa.Value]bool{}
	var ok func(v ssa.Value) bool
	ok = func(v ssa.Value) bool {
		if seen[v] {
			return true
		}
		seen[v] = true
		switch x := v.(type) {
		case *ssa.Call:
			return x == first
		case *ssa.Alloc:
			return x == al
		case *ssa.MakeInterface:
			return ok(x.X)
		case *ssa.ChangeInterface:
			return ok(x.X)
		case *ssa.Phi:
			for _, e := range x.Edges {
				if !ok(e) {
					return false
				}
			}
			return true
		}
		return false
	}
	return ok(v)
}

// opPairs: (token sequence, operator constant) pairs for an operator value.
func (w *World) opPairs(tk *TKAI, res *flowResult, opv ssa.Value, al *ssa.Alloc) [][2]string {
	var out [][2]string
	seqAt := func(states [2]*TState, atAlloc bool) []string {
		if states[0] != nil && !atAlloc {
			return seqOf(states[0].cur)
		}
		if states[1] != nil {
			if atAlloc {
				return seqOf(states[1].first)
			}
			var seqs []string
			for _, a := range seqOf(states[1].first) {
				for _, b := range seqOf(states[1].cur) {
					seqs = append(seqs, a+" "+b)
				}
			}
			return seqs
		}
		return nil
	}
	switch v := opv.(type) {
	case *ssa.Const:
		name := w.astConstName(v)
		for _, s := range seqAt(tk.statesBefore(res, al), true) {
			out = append(out, [2]string{s, name})
		}
	case *ssa.Phi:
		for i, e := range v.Edges {
			pred := v.Block().Preds[i]
			c, ok := e.(*ssa.Const)
			if !ok {
				// nested phi: recurse
				out = append(out, w.opPairs(tk, res, e, al)...)
				continue
			}
			name := w.astConstName(c)
			if name == `""` {
				continue // "no operator" marker
			}
			// state at the end of the predecessor = state before its terminator
			states := tk.statesBefore(res, pred.Instrs[len(pred.Instrs)-1])
			for _, s := range seqAt(states, false) {
				out = append(out, [2]string{s, name})
			}
		}
	}
	return out
}

func ruleC07R1(w *World, r *Report) {
	const rule = "C07/R1"
	r.rule(rule, "the level structure extracted from the parser (first-operand chain from parseExpr; per level: token sequences -> operator constants, associativity, operand parsers, other node types) equals the GoogleSQL precedence table", 6)
	levels := w.extractLevels(r)
	if len(levels) == 0 {
		return
	}
	// levels[0] is parseExpr itself (the recovery wrapper) when it allocates nothing
	var lv []*exLevel
	for _, l := range levels {
		if !l.binary && !l.unary && len(l.others) == 0 {
			r.trivial(rule, "wrapper "+funcName(l.fn), l.where, "allocates no operator node; delegates to "+funcName(l.next))
			continue
		}
		lv = append(lv, l)
	}
	if len(lv) != len(refLevels) {
		var names []string
		for _, l := range lv {
			names = append(names, funcName(l.fn))
		}
		r.bad(rule, "number of precedence levels", levels[0].where, fmt.Sprintf("the parser has %d operator levels (%s), GoogleSQL defines %d", len(lv), strings.Join(names, " > "), len(refLevels)))
		return
	}
	for i, l := range lv {
		ref := refLevels[i]
		construct := fmt.Sprintf("level %d (%s) = %s", i+1, ref.name, funcName(l.fn))
		var problems []string
		// operators
		var got, want []string
		for k, v := range l.ops {
			got = append(got, k+"→"+v)
		}
		for k, v := range ref.ops {
			want = append(want, k+"→"+v)
		}
		sort.Strings(got)
		sort.Strings(want)
		// every operator of the reference is there with its constant; an operator beyond the reference is accepted only
		// where GoogleSQL has operators this parser does not implement yet: the IS family (IS [NOT] DISTINCT FROM,
		// IS [NOT] UNKNOWN) on the comparison level — a grammar extension there does not regroup anything
		var opDiff []string
		for k, v := range ref.ops {
			if l.ops[k] != v {
				opDiff = append(opDiff, fmt.Sprintf("%s→%s (parser: %q)", k, v, l.ops[k]))
			}
		}
		for k, v := range l.ops {
			if _, inRef := ref.ops[k]; inRef {
				continue
			}
			if ref.kind == "comparison" && (k == "IS" || strings.HasPrefix(k, "IS ")) {
				continue
			}
			opDiff = append(opDiff, fmt.Sprintf("extra %s→%s", k, v))
		}
		sort.Strings(opDiff)
		if len(opDiff) > 0 {
			problems = append(problems, fmt.Sprintf("operators [%s], GoogleSQL has [%s] at this level: %s", strings.Join(got, ", "), strings.Join(want, ", "), strings.Join(opDiff, "; ")))
		}
		var oth []string
		for k := range l.others {
			oth = append(oth, k)
		}
		sort.Strings(oth)
		wo := append([]string{}, ref.others...)
		sort.Strings(wo)
		var othDiff []string
		for _, k := range wo {
			if !l.others[k] {
				othDiff = append(othDiff, "missing "+k)
			}
		}
		for _, k := range oth {
			inRef := false
			for _, x := range wo {
				if x == k {
					inRef = true
				}
			}
			// the comparison level of GoogleSQL also has the IS family, quantified LIKE (LIKE ANY/SOME/ALL) and IS [NOT]
			// DISTINCT FROM: a grammar that adds them as nodes of their own stays within the table (C07/R2 checks how they print)
			if !inRef && !(ref.kind == "comparison" && (strings.HasPrefix(k, "Is") || strings.HasSuffix(k, "LikeExpr") || strings.Contains(k, "Distinct"))) {
				othDiff = append(othDiff, "extra "+k)
			}
		}
		if len(othDiff) > 0 {
			problems = append(problems, fmt.Sprintf("other node types %v, expected %v (%s)", oth, wo, strings.Join(othDiff, ", ")))
		}
		nextName := funcName(l.next)
		var rb []string
		for k := range l.rightBy {
			rb = append(rb, k)
		}
		sort.Strings(rb)
		switch ref.kind {
		case "binary-left":
			if l.assoc != "left" {
				problems = append(problems, "the node does not feed back into the left operand: operator is not left-associative")
			}
			if len(rb) != 1 || rb[0] != nextName {
				problems = append(problems, fmt.Sprintf("right operand parsed by %v, must be the next tighter level %s", rb, nextName))
			}
		case "prefix":
			if len(rb) != 1 || rb[0] != funcName(l.fn) {
				problems = append(problems, fmt.Sprintf("prefix operand parsed by %v, must recurse into its own level %s", rb, funcName(l.fn)))
			}
		case "comparison":
			if l.assoc != "none" {
				problems = append(problems, "comparison operators must be non-associative (no loop feeding the node back)")
			}
			if len(rb) != 1 || rb[0] != nextName {
				problems = append(problems, fmt.Sprintf("right operand / BETWEEN bounds parsed by %v, must be the next tighter level %s", rb, nextName))
			}
		case "postfix":
			if l.assoc != "left" {
				problems = append(problems, "postfix selectors must chain to the left")
			}
		}
		problems = append(problems, l.notes...)
		// the chain: next of level i is function of level i+1
		if i+1 < len(lv) && l.next != lv[i+1].fn {
			problems = append(problems, fmt.Sprintf("first operand parsed by %s, but the next level is %s", nextName, funcName(lv[i+1].fn)))
		}
		if len(problems) > 0 {
			r.bad(rule, construct, l.where, strings.Join(problems, "; "))
		} else {
			r.ok(rule, construct, l.where, fmt.Sprintf("operators [%s] others %v assoc=%s operands by %v, first operand by %s", strings.Join(got, ", "), oth, l.assoc, rb, nextName))
		}
	}
}

// ---- printer table ---------------------------------------------------------------------------

// precSem reads the printer's precedence table by interpretation (CONCR): exprPrec and paren are followed with an
// abstract operand of a given dynamic type and operator, whatever their shape (type switch, constant switch, lookup
// table, helper functions, either direction of the numeric scale).
type precSem struct {
	w         *World
	prec, par *ssa.Function
	pos       string
	names     map[int64]string
	precIdx   int // index of the precedence parameter of paren (or of the parent expression, see parentForm)
	exprIdx   int
	// parentForm: paren(parent, operand Expr) computes the level itself (exprPrec(parent)) instead of being given it
	parentForm bool
	levelOf    map[int64][2]string // a node type/operator that exprPrec puts at the level (to stand for the parent)
	cache      map[string]concrOutcome
}

func (w *World) readExprPrec() (*precSem, string) {
	ps := &precSem{w: w, names: map[int64]string{}, cache: map[string]concrOutcome{}, levelOf: map[int64][2]string{}}
	ps.prec = w.fn(w.Ast, "exprPrec")
	if ps.prec == nil {
		return nil, "ast.exprPrec not found"
	}
	ps.pos = w.pos(ps.prec.Pos())
	if ps.prec.Signature.Results().Len() != 1 || len(ps.prec.Params) != 1 {
		return nil, "ast.exprPrec is not a function of one operand returning one value"
	}
	rt := namedOf(ps.prec.Signature.Results().At(0).Type())
	if rt != nil {
		for n, v := range w.constsOfType(rt.Obj().Name()) {
			if i, ok := constant.Int64Val(v); ok {
				ps.names[i] = n
			}
		}
	}
	// the function that decides about parentheses: a package-level function of package ast that calls exprPrec and
	// returns a string, with one parameter of the precedence type and one expression
	for _, fn := range w.ModFns {
		if fnPkgPath(fn) != modRoot+"/ast" || fn.Parent() != nil || fn.Signature.Recv() != nil || fn == ps.prec {
			continue
		}
		res := fn.Signature.Results()
		if res.Len() != 1 || !isStringType(res.At(0).Type()) || len(fn.Params) != 2 {
			continue
		}
		calls := false
		for _, b := range fn.Blocks {
			for _, in := range b.Instrs {
				if c, ok := in.(*ssa.Call); ok && c.Call.StaticCallee() == ps.prec {
					calls = true
				}
			}
		}
		if !calls {
			continue
		}
		pi, ei := -1, -1
		parentForm := false
		for i, p := range fn.Params {
			if types.Identical(p.Type(), ps.prec.Signature.Results().At(0).Type()) {
				pi = i
			} else if w.isAstExpr(p.Type()) {
				ei = i
			}
		}
		if pi < 0 && w.isAstExpr(fn.Params[0].Type()) && w.isAstExpr(fn.Params[1].Type()) {
			// paren(parent, operand): the operand is the one whose SQL() is printed, the parent is only asked for its level
			printed := func(p *ssa.Parameter) bool {
				for _, u := range referrers(p) {
					if c, ok := u.(*ssa.Call); ok && c.Call.IsInvoke() && c.Call.Method.Name() == "SQL" && c.Call.Value == ssa.Value(p) {
						return true
					}
				}
				return false
			}
			switch {
			case printed(fn.Params[1]) && !printed(fn.Params[0]):
				pi, ei, parentForm = 0, 1, true
			case printed(fn.Params[0]) && !printed(fn.Params[1]):
				pi, ei, parentForm = 1, 0, true
			}
		}
		if pi >= 0 && ei >= 0 {
			if ps.par != nil {
				return nil, "two functions of package ast decide about parentheses from exprPrec: " + funcName(ps.par) + ", " + funcName(fn)
			}
			ps.par, ps.precIdx, ps.exprIdx, ps.parentForm = fn, pi, ei, parentForm
		}
	}
	if ps.par == nil {
		return nil, "no function of package ast compares exprPrec of an operand with a given level (paren)"
	}
	return ps, ""
}

// parenFn: the function of package ast that decides about parentheses and the index of its operand parameter (cached).
func (w *World) parenFn() (*ssa.Function, int) {
	if !w.parenDone {
		w.parenDone = true
		if ps, _ := w.readExprPrec(); ps != nil {
			w.parenF, w.parenExprIdx = ps.par, ps.exprIdx
		}
	}
	return w.parenF, w.parenExprIdx
}

func (ps *precSem) operand(typ, opName string) cval {
	d := cval{kind: cDyn, typ: typ, fields: map[string]cval{}}
	if opName != "" {
		if c, ok := ps.w.Ast.Types.Scope().Lookup(opName).(*types.Const); ok {
			d.fields["Op"] = cval{kind: cConst, c: c.Val()}
		}
	}
	return d
}

// precOf: the value exprPrec returns for an operand; err is "" or says why there is none (panic / not decided).
func (ps *precSem) precOf(typ, opName string) (int64, string, bool) {
	k := typ + "/" + opName
	out, ok := ps.cache[k]
	if !ok {
		out = ps.w.newConcr().run(ps.prec, []cval{ps.operand(typ, opName)}, 0)
		ps.cache[k] = out
	}
	switch out.status {
	case "panic":
		return 0, "exprPrec has no entry for this operator/node type: SQL() panics (" + out.why + ")", false
	case "unknown":
		return 0, "exprPrec could not be followed for this operand: " + out.why, true
	}
	if len(out.vals) == 1 && out.vals[0].kind == cConst {
		if v, ok := constant.Int64Val(out.vals[0].c); ok {
			if _, has := ps.levelOf[v]; !has {
				ps.levelOf[v] = [2]string{typ, opName}
			}
			return v, "", false
		}
	}
	return 0, "exprPrec does not return a constant for this operand", true
}

func (ps *precSem) name(v int64) string {
	if n, ok := ps.names[v]; ok {
		return n
	}
	return fmt.Sprint(v)
}

// wraps: does paren(level, operand) put parentheses around the operand?
func (ps *precSem) wraps(level int64, typ, opName string) (bool, string) {
	args := make([]cval, 2)
	args[ps.precIdx] = cval{kind: cConst, c: constant.MakeInt64(level)}
	if ps.parentForm {
		par, ok := ps.levelOf[level]
		if !ok {
			return false, fmt.Sprintf("%s takes the parent expression, and no node type is known at level %d to stand for it", funcName(ps.par), level)
		}
		args[ps.precIdx] = ps.operand(par[0], par[1])
	}
	args[ps.exprIdx] = ps.operand(typ, opName)
	k := fmt.Sprintf("w%d/%s/%s", level, typ, opName)
	out, ok := ps.cache[k]
	if !ok {
		out = ps.w.newConcr().run(ps.par, args, 0)
		ps.cache[k] = out
	}
	if out.status != "return" || len(out.vals) != 1 {
		return false, funcName(ps.par) + " could not be followed: " + out.status + " " + out.why
	}
	v := out.vals[0]
	var parts []string
	switch v.kind {
	case cStr:
		parts = v.parts
	case cConst:
		if v.c.Kind() == constant.String {
			parts = []string{constant.StringVal(v.c)}
		}
	default:
		return false, funcName(ps.par) + " returns a value that is not a concatenation"
	}
	open, close := false, false
	for _, p := range parts {
		if strings.Contains(p, "(") {
			open = true
		}
		if strings.Contains(p, ")") {
			close = true
		}
	}
	if open != close {
		return false, funcName(ps.par) + " prints an unbalanced parenthesis"
	}
	return open, ""
}

func ruleC07R2(w *World, r *Report) {
	const rule = "C07/R2"
	r.rule(rule, "the printer's table is order-isomorphic to the parser's levels: for every two operators/node types x, y of the expression grammar, paren(exprPrec(y), x) — both functions followed by interpretation, whatever their shape — adds parentheses exactly when x binds looser than y in the parser", 10)
	ps, err := w.readExprPrec()
	if ps == nil {
		r.errorf("%s", err)
		return
	}
	levels := w.extractLevels(r)
	var lv []*exLevel
	for _, l := range levels {
		if l.binary || l.unary || len(l.others) > 0 {
			lv = append(lv, l)
		}
	}
	// rank: index in lv, loosest = 0
	type item struct {
		name, typ, op string
		rank          int
		prec          int64
		err           string
		undec         bool
	}
	var items []item
	for i, l := range lv {
		for _, opName := range l.ops {
			t := "BinaryExpr"
			if l.unary && !l.binary {
				t = "UnaryExpr"
			}
			items = append(items, item{name: t + "/" + opName, typ: t, op: opName, rank: i})
		}
		for o := range l.others {
			items = append(items, item{name: o, typ: o, rank: i})
		}
	}
	sort.Slice(items, func(i, j int) bool { return items[i].name < items[j].name })
	for i := range items {
		items[i].prec, items[i].err, items[i].undec = ps.precOf(items[i].typ, items[i].op)
	}
	seen := map[string]bool{}
	for _, it := range items {
		if seen[it.name] {
			continue
		}
		seen[it.name] = true
		construct := "exprPrec(" + it.name + ")"
		if it.err != "" {
			if it.undec {
				r.undecided(rule, construct, ps.pos, it.err)
			} else {
				r.bad(rule, construct, ps.pos, it.err)
			}
			continue
		}
		bad, und := "", ""
		for _, o := range items {
			if o.err != "" {
				continue
			}
			wr, e := ps.wraps(o.prec, it.typ, it.op)
			if e != "" {
				und = e
				break
			}
			want := it.rank < o.rank // it binds looser than o
			switch {
			case want && !wr:
				bad = fmt.Sprintf("%s binds looser than %s in the parser, but as an operand of %s (level %s) it is printed without parentheses (its level is %s)", it.name, o.name, o.name, ps.name(o.prec), ps.name(it.prec))
			case !want && wr && it.rank == o.rank:
				bad = fmt.Sprintf("%s and %s are on the same parser level, but the printer puts %s in parentheses under %s (%s vs %s)", it.name, o.name, it.name, o.name, ps.name(it.prec), ps.name(o.prec))
			case !want && wr:
				bad = fmt.Sprintf("%s binds tighter than %s in the parser, but the printer puts it in parentheses under %s (%s vs %s)", it.name, o.name, o.name, ps.name(it.prec), ps.name(o.prec))
			}
		}
		switch {
		case und != "":
			r.undecided(rule, construct, ps.pos, und)
		case bad != "":
			r.bad(rule, construct, ps.pos, bad)
		default:
			r.ok(rule, construct, ps.pos, fmt.Sprintf("%s, consistent with parser level %d (%s) against all %d operators and level types", ps.name(it.prec), it.rank+1, funcName(lv[it.rank].fn), len(items)))
		}
	}
}

func ruleC07R3(w *World, r *Report) {
	const rule = "C07/R3"
	r.rule(rule, "every ParenExpr wraps exactly the result of parseExpr, and the function that consumes '(' expr ')' returns only freshly allocated nodes (never the inner expression itself)", 1)
	pe := w.fn(w.Mem, "(*Parser).parseExpr")
	n := 0
	for _, fn := range w.ModFns {
		if fnPkgPath(fn) != modRoot {
			continue
		}
		for _, b := range fn.Blocks {
			for _, in := range b.Instrs {
				al, ok := in.(*ssa.Alloc)
				if !ok || !isNamed(al.Type(), modRoot+"/ast", "ParenExpr") {
					continue
				}
				n++
				construct := "ParenExpr allocation in " + funcName(fn)
				v := allocFieldStores(al)["Expr"]
				call, isCall := v.(*ssa.Call)
				if isCall && call.Call.StaticCallee() == pe {
					r.ok(rule, construct, w.pos(al.Pos()), "Expr is the value returned by parseExpr")
				} else {
					r.bad(rule, construct, w.pos(al.Pos()), "the parenthesised operand is not exactly the value returned by parseExpr (it is unwrapped or re-built)")
				}
				// the enclosing function must not return an expression it did not allocate
				for _, rb := range fn.Blocks {
					ret, ok := rb.Instrs[len(rb.Instrs)-1].(*ssa.Return)
					if !ok || len(ret.Results) != 1 {
						continue
					}
					if !onlyAllocs(ret.Results[0], map[ssa.Value]bool{}) {
						r.bad(rule, "returns of "+funcName(fn), w.pos(ret.Pos()), "the function that consumes '(' expr ')' can return a value that is not a node allocated here: parentheses are dropped from the tree")
					}
				}
			}
		}
	}
	if n == 0 {
		r.errorf("no allocation of ast.ParenExpr found")
	}
}

func onlyAllocs(v ssa.Value, seen map[ssa.Value]bool) bool {
	if seen[v] {
		return true
	}
	seen[v] = true
	switch x := v.(type) {
	case *ssa.Alloc:
		return true
	case *ssa.MakeInterface:
		return onlyAllocs(x.X, seen)
	case *ssa.ChangeInterface:
		return onlyAllocs(x.X, seen)
	case *ssa.Phi:
		for _, e := range x.Edges {
			if !onlyAllocs(e, seen) {
				return false
			}
		}
		return true
	}
	return false
}

// ruleC07R5: parentheses are decided by precedence, in one place. A SQL() method that returns the same pieces once bare
// and once wrapped in "(" … ")" decides about parentheses at run time by some other test (the operand's text, a flag): the
// printed form then has parentheses the source did not have — or lacks them where the test does not fire.
func ruleC07R5(w *World, r *Report) {
	const rule = "C07/R5"
	r.rule(rule, "no SQL() method of an expression node (other than through the parenthesising function of C07/R2) prints the same sequence of pieces both bare and wrapped in a pair of parentheses: parentheses around an operand are a matter of precedence only", 100)
	pf, _ := w.parenFn()
	n := 0
	for _, ns := range w.Catalog().Structs {
		pm := w.PrintModel(ns)
		if pm == nil || pm.fn == pf {
			continue
		}
		n++
		construct := "SQL() of " + ns.Name
		key := func(seq []Piece) string {
			var ps []string
			for _, p := range seq {
				ps = append(ps, p.kind+"|"+p.text+"|"+p.field)
			}
			return strings.Join(ps, " ; ")
		}
		bare := map[string]bool{}
		for _, seq := range pm.seqs {
			bare[key(seq)] = true
		}
		bad := ""
		for _, seq := range pm.seqs {
			if len(seq) < 3 {
				continue
			}
			f, l := seq[0], seq[len(seq)-1]
			if f.kind != "const" || l.kind != "const" || f.text != "(" || l.text != ")" {
				continue
			}
			inner := seq[1 : len(seq)-1]
			hasOperand := false
			for _, p := range inner {
				if p.kind == "field-sql" || p.kind == "paren" {
					hasOperand = true
				}
			}
			if hasOperand && bare[key(inner)] {
				bad = "returns " + key(inner) + " both as it is and wrapped in parentheses"
			}
		}
		if bad != "" {
			r.bad(rule, construct, w.pos(pm.fn.Pos()), bad+": the parentheses depend on a run-time test other than precedence")
		} else {
			r.ok(rule, construct, w.pos(pm.fn.Pos()), "no sequence is printed both bare and parenthesised")
		}
	}
	if n == 0 {
		r.errorf("no SQL() method modelled")
	}
}

// ruleC07R4: the printer's table is complete for the expression node types and puts every operand form that no
// precedence level of the parser produces (literals, names, calls, parenthesised and bracketed forms) at the tightest
// value: paren() then never wraps it, and exprPrec never reaches its fall-through.
func ruleC07R4(w *World, r *Report) {
	const rule = "C07/R4"
	r.rule(rule, "every struct type implementing ast.Expr (except the Bad* placeholders) has its own entry in exprPrec (followed by interpretation: it returns, it does not reach the fall-through); the types that no precedence level of the parser produces (atoms) are never put in parentheses by paren() under any operator of the grammar", 20)
	ps, err := w.readExprPrec()
	if ps == nil {
		r.errorf("%s", err)
		return
	}
	exprObj := w.Ast.Types.Scope().Lookup("Expr")
	if exprObj == nil {
		r.errorf("ast.Expr not found")
		return
	}
	exprIfc, _ := exprObj.Type().Underlying().(*types.Interface)
	if exprIfc == nil {
		r.errorf("ast.Expr is not an interface")
		return
	}
	levelType := map[string]bool{"BinaryExpr": true, "UnaryExpr": true}
	type opItem struct {
		name string
		prec int64
	}
	var ops []opItem
	for _, l := range w.extractLevels(nil) {
		for o := range l.others {
			levelType[o] = true
			if v, e, _ := ps.precOf(o, ""); e == "" {
				ops = append(ops, opItem{o, v})
			}
		}
		for _, opName := range l.ops {
			t := "BinaryExpr"
			if l.unary && !l.binary {
				t = "UnaryExpr"
			}
			if v, e, _ := ps.precOf(t, opName); e == "" {
				ops = append(ops, opItem{t + "/" + opName, v})
			}
		}
	}
	sort.Slice(ops, func(i, j int) bool { return ops[i].name < ops[j].name })
	for _, ns := range w.Catalog().Structs {
		if !types.Implements(types.NewPointer(ns.Named), exprIfc) || strings.HasPrefix(ns.Name, "Bad") {
			continue
		}
		construct := "exprPrec(*" + ns.Name + ")"
		if levelType[ns.Name] {
			// the operator-dependent types are decided per operator by C07/R2; here: some entry exists
			okAny := ns.Name != "BinaryExpr" && ns.Name != "UnaryExpr"
			if !okAny {
				r.ok(rule, construct, ps.pos, "operator level type; every operator is decided by C07/R2")
				continue
			}
			if _, e, und := ps.precOf(ns.Name, ""); e != "" {
				if und {
					r.undecided(rule, construct, ps.pos, e)
				} else {
					r.bad(rule, construct, ps.pos, "exprPrec has no case for this expression type: "+e)
				}
				continue
			}
			r.ok(rule, construct, ps.pos, "listed (operator level type; order checked by C07/R2)")
			continue
		}
		v, e, und := ps.precOf(ns.Name, "")
		if e != "" {
			if und {
				r.undecided(rule, construct, ps.pos, e)
			} else {
				r.bad(rule, construct, ps.pos, "exprPrec has no case for this expression type: its precedence is whatever the fall-through gives (a panic, or parentheses the source did not have): "+e)
			}
			continue
		}
		bad, undec := "", ""
		for _, o := range ops {
			wr, e := ps.wraps(o.prec, ns.Name, "")
			if e != "" {
				undec = e
				break
			}
			if wr {
				bad = fmt.Sprintf("atom printed at level %s: paren() wraps it in parentheses as an operand of %s (%s), parentheses the source did not have", ps.name(v), o.name, ps.name(o.prec))
				break
			}
		}
		switch {
		case undec != "":
			r.undecided(rule, construct, ps.pos, undec)
		case bad != "":
			r.bad(rule, construct, ps.pos, bad)
		default:
			r.ok(rule, construct, ps.pos, fmt.Sprintf("atom at %s: never parenthesised under any of the %d operators", ps.name(v), len(ops)))
		}
	}
}
