package main

import (
	"fmt"
	"go/constant"
	"go/token"
	"go/types"
	"sort"
	"strings"

	"golang.org/x/tools/go/ssa"
)

func init() {
	register(&propDef{
		ID: "C02",
		Explanation: "Token-centric reading of 'unparse is lossless': R1 no information sink — every field of a node type into which the parser can store information (a child node, a non-empty list, a constant/spelling that takes more than one value over the allocation sites) is read by that type's SQL() method (PRINT model: loads of receiver fields, also in functions the receiver is handed to); a field whose stored value is read from the same token as another printed field is redundant and exempt. " +
			"R2 silent skips are documented noise — an optional token consumed under a kind guard whose branch leaves no trace (no store, no differing phi at the merge point) must be one of the canonicalisations the property lists: INNER, OUTER, INTO, FROM after DELETE, an optional/trailing comma. " +
			"R3 optional-position flags — a token.Pos field that is InvalidPos on some paths and a real position on others, where no other printed field is definitely different between the two cases, must be read by SQL(). " +
			"C01/R2 (required tokens are printed) is shared. Does not decide: order of the printed pieces, survival of literal values through re-quoting (C15).",
		Rules: []ruleFn{ruleC02R1, ruleC02R2, ruleC02R3, ruleC01R2, ruleC02R4, ruleC01R6, ruleC07R2, ruleC07R4, ruleC15R1, ruleC02R5, ruleC14R8, ruleC18R6, ruleC05R6, ruleC02R6, ruleC15R3, ruleC15R4, ruleC15R6},
	})
}

// sameTokenAsPrintedField: the value stored in `field` at the site is read from a token from which
// another field that SQL() reads is also filled (IntLiteral.Base next to Value), or is computed from
// a field that is printed / from a position flag (ColumnDef.PrimaryKey from Key).
func (w *World) redundantAtSite(si *siteInfo, field string, reads map[string]bool) (bool, string) {
	tk := w.TKAI()
	v := si.val[field]
	if v == nil {
		return false, ""
	}
	srcOf := func(x ssa.Value) []ssa.Value {
		x = stripConv(x)
		if ld, ok := isLoad(x); ok {
			if fa, ok := ld.(*ssa.FieldAddr); ok && w.isTokenPtr(fa.X.Type()) {
				cur, srcs := tk.tokenSources(fa.X)
				if cur {
					return []ssa.Value{fa.X}
				}
				return srcs
			}
		}
		return nil
	}
	mine := srcOf(v)
	if len(mine) > 0 {
		for g, gv := range si.val {
			if g == field || !reads[g] {
				continue
			}
			for _, s := range srcOf(gv) {
				for _, m := range mine {
					if s == m {
						return true, "read from the same token as printed field " + g
					}
				}
			}
		}
	}
	// derived from a position stored in another field (`PrimaryKey: !key.Invalid()`)
	sl := map[ssa.Value]bool{}
	var back func(x ssa.Value, d int)
	back = func(x ssa.Value, d int) {
		if d > 6 || sl[x] {
			return
		}
		sl[x] = true
		switch y := x.(type) {
		case *ssa.UnOp:
			back(y.X, d+1)
		case *ssa.BinOp:
			back(y.X, d+1)
			back(y.Y, d+1)
		case *ssa.Call:
			for _, a := range y.Call.Args {
				back(a, d+1)
			}
		case *ssa.Phi:
			for _, e := range y.Edges {
				back(e, d+1)
			}
		case *ssa.Convert:
			back(y.X, d+1)
		}
	}
	back(v, 0)
	for g, gv := range si.val {
		if g != field && sl[gv] && (reads[g] || w.Catalog().isPos(si.ns.field(g).Type())) {
			return true, "computed from field " + g
		}
	}
	return false, ""
}

func ruleC02R1(w *World, r *Report) {
	const rule = "C02/R1"
	r.rule(rule, "every field of a node type that can receive information at some allocation site (child node, non-empty list, a value with more than one possibility) is read by the type's SQL() method, unless it duplicates a printed field", 200)
	v := w.Value()
	cat := w.Catalog()
	bySite := map[string][]*siteInfo{}
	for _, si := range w.sites() {
		bySite[si.ns.Name] = append(bySite[si.ns.Name], si)
	}
	for _, ns := range cat.Structs {
		sites := bySite[ns.Name]
		if len(sites) == 0 || strings.HasPrefix(ns.Name, "Bad") {
			continue
		}
		pm := w.PrintModel(ns)
		if pm == nil {
			r.bad(rule, "ast."+ns.Name+" (SQL method)", w.pos(ns.DeclPos), "node type has no SQL() method body")
			continue
		}
		for i := 0; i < ns.Struct.NumFields(); i++ {
			f := ns.Struct.Field(i)
			if cat.isPos(f.Type()) {
				continue
			}
			construct := "ast." + ns.Name + "." + f.Name()
			// does the field carry information?
			a := v.FieldAV(ns.Name, f.Name())
			info := ""
			switch {
			case cat.nodeFieldKind(f.Type()) == "single":
				if len(a.types) > 0 || a.top {
					info = "a child node (" + strings.Join(sortedKeys(a.types), "|") + ")"
				}
			case cat.nodeFieldKind(f.Type()) == "slice":
				if a.mayFull || a.top {
					info = "a non-empty list"
				}
			default:
				if len(a.consts) > 1 || a.consts["?"] || a.top {
					info = fmt.Sprintf("a value with several possibilities %v", sortedKeys(a.consts))
				} else if _, isSlice := f.Type().Underlying().(*types.Slice); isSlice && (a.mayFull || a.top) {
					info = "a non-empty value"
				}
			}
			if info == "" {
				r.trivial(rule, construct, w.pos(f.Pos()), "the parser never stores information here")
				continue
			}
			if pm.reads[f.Name()] {
				r.ok(rule, construct, w.pos(f.Pos()), "carries "+info+"; read by SQL()")
				continue
			}
			if cat.nodeFieldKind(f.Type()) == "single" && !a.mayNil && !a.top && len(a.types) > 0 {
				// a mandatory child whose type has only position fields carries no information
				onlyPos := true
				for t := range a.types {
					ct := cat.ByName[t]
					for j := 0; ct != nil && j < ct.Struct.NumFields(); j++ {
						if !cat.isPos(ct.Struct.Field(j).Type()) {
							onlyPos = false
						}
					}
				}
				if onlyPos {
					r.ok(rule, construct, w.pos(f.Pos()), "mandatory child of a type with position fields only: nothing to print beyond the fixed text")
					continue
				}
			}
			// redundant at every site that sets it?
			allRedundant, why := true, ""
			for _, si := range sites {
				if si.val[f.Name()] == nil {
					continue
				}
				red, y := w.redundantAtSite(si, f.Name(), pm.reads)
				if !red {
					allRedundant = false
				} else {
					why = y
				}
			}
			if allRedundant && why != "" {
				r.ok(rule, construct, w.pos(f.Pos()), "not read by SQL(), but redundant: "+why)
				continue
			}
			r.bad(rule, construct, w.pos(f.Pos()), fmt.Sprintf("the parser stores %s in this field, but (*%s).SQL never reads it: what the user wrote disappears from the unparsed text", info, ns.Name))
		}
	}
}

// ---- R2 -------------------------------------------------------------------------------------

var documentedNoise = map[string]bool{"INNER": true, "OUTER": true, "INTO": true, "FROM": true, ",": true, "ARE": true}

func ruleC02R2(w *World, r *Report) {
	const rule = "C02/R2"
	r.rule(rule, "an optional token that is consumed under a kind guard and leaves no trace (no store, no allocation, no value that differs at the merge point) is one of the documented canonicalisations: INNER, OUTER, INTO, DELETE's FROM, an optional or trailing comma", 3)
	tk := w.TKAI()
	for _, fn := range w.ModFns {
		if !w.isParserFunc(fn) || w.isRecoveryHandler(fn) || !tk.touchesLexer(fn) {
			continue
		}
		if fn.TypeParams().Len() > 0 && len(fn.TypeArgs()) == 0 {
			continue
		}
		if _, restoring := tk.deferredRestore(fn); restoring {
			continue
		}
		cnt := 0
		for _, b := range fn.Blocks {
			iff, ok := b.Instrs[len(b.Instrs)-1].(*ssa.If)
			if !ok {
				continue
			}
			t, neg, ok := tk.tokenTest(nil, iff.Cond)
			if !ok || !t.cur {
				continue
			}
			eqSide := 0
			if neg {
				eqSide = 1
			}
			S := b.Succs[eqSide]
			if len(S.Preds) != 1 {
				continue // the equal side is not a region of its own
			}
			// the region guarded by the test: the dominator subtree of S
			region := map[*ssa.BasicBlock]bool{}
			for _, x := range fn.Blocks {
				if x == S || S.Dominates(x) {
					region[x] = true
				}
			}
			if region[b] {
				continue
			}
			consumes, traced := false, false
			for x := range region {
				for _, in := range x.Instrs {
					switch y := in.(type) {
					case *ssa.Store, *ssa.Alloc, *ssa.Return, *ssa.Panic, *ssa.MapUpdate:
						traced = true
					case *ssa.Call:
						callee := y.Call.StaticCallee()
						isConsume := false
						if callee != nil && (callee == tk.prim || callee.Name() == "nextToken" || callee.Name() == "expect") && fnPkgPath(callee) == modRoot {
							isConsume = true
						}
						if isConsume {
							consumes = true
							if len(referrers(y)) > 0 {
								traced = true // the token's position / spelling is used
							}
						} else if _, isB := y.Call.Value.(*ssa.Builtin); !isB {
							traced = true
						}
					}
				}
				if w.deadAt(x) >= 0 {
					traced = true
				}
			}
			if !consumes || traced {
				continue
			}
			// values that differ at the merge
			for x := range region {
				for _, s := range x.Succs {
					if region[s] {
						continue
					}
					for _, in := range s.Instrs {
						phi, ok := in.(*ssa.Phi)
						if !ok {
							break
						}
						var fromRegion, fromOther []ssa.Value
						direct := false
						for _, p := range s.Preds {
							if p == b {
								direct = true
							}
						}
						for i, p := range s.Preds {
							if region[p] {
								fromRegion = append(fromRegion, phi.Edges[i])
							} else if !direct || p == b {
								// compare with the path that bypasses the region (the other outcome of the same test)
								fromOther = append(fromOther, phi.Edges[i])
							}
						}
						for _, a := range fromRegion {
							for _, o := range fromOther {
								if !sameConstOrValue(a, o) {
									traced = true
								}
							}
						}
					}
				}
			}
			if traced {
				continue
			}
			cnt++
			kind := t.atom
			construct := fmt.Sprintf("silent skip of %s in %s", kind, funcName(fn))
			if cnt > 1 {
				construct += fmt.Sprintf(" (%d)", cnt)
			}
			name := strings.TrimPrefix(kind, identAtom+":")
			if documentedNoise[name] {
				r.ok(rule, construct, w.pos(condPos(iff)), "optional token consumed without a trace; a documented canonicalisation")
			} else {
				r.bad(rule, construct, w.pos(condPos(iff)), fmt.Sprintf("the optional token %s is consumed and leaves no trace in the AST (no field, no flag): it silently disappears from SQL(), and it is not one of the documented canonicalisations", kind))
			}
		}
	}
}

func sameConstOrValue(a, b ssa.Value) bool {
	if a == b {
		return true
	}
	ca, ok1 := a.(*ssa.Const)
	cb, ok2 := b.(*ssa.Const)
	if ok1 && ok2 {
		if ca.Value == nil || cb.Value == nil {
			return ca.Value == nil && cb.Value == nil
		}
		return ca.Value.ExactString() == cb.Value.ExactString()
	}
	return false
}

func reachSet(b *ssa.BasicBlock) map[*ssa.BasicBlock]bool {
	out := map[*ssa.BasicBlock]bool{}
	var visit func(x *ssa.BasicBlock)
	visit = func(x *ssa.BasicBlock) {
		for _, s := range x.Succs {
			if !out[s] {
				out[s] = true
				visit(s)
			}
		}
	}
	visit(b)
	return out
}

// ---- R3 -------------------------------------------------------------------------------------

func ruleC02R3(w *World, r *Report) {
	const rule = "C02/R3"
	r.rule(rule, "a position field that is InvalidPos in some cases and a real position in others is read by SQL(), unless another field that SQL() reads is definitely different between the two cases", 10)
	cat := w.Catalog()
	bySite := map[string][]*siteInfo{}
	for _, si := range w.sites() {
		bySite[si.ns.Name] = append(bySite[si.ns.Name], si)
	}
	for _, ns := range cat.Structs {
		sites := bySite[ns.Name]
		if len(sites) == 0 || strings.HasPrefix(ns.Name, "Bad") {
			continue
		}
		pm := w.PrintModel(ns)
		if pm == nil {
			continue
		}
		for i := 0; i < ns.Struct.NumFields(); i++ {
			f := ns.Struct.Field(i)
			if !cat.isPos(f.Type()) {
				continue
			}
			type ctx struct {
				si    *siteInfo
				valid bool
				edge  int             // phi edge index within blk, or -1
				blk   *ssa.BasicBlock // block of the phi that selects validity
				ret   *ssa.Return     // when the position comes out of a multi-result helper: the return taken
				call  *ssa.Call
				at    *ssa.Store // when the field is assigned more than once: this assignment
			}
			var ctxs []ctx
			for _, si := range sites {
				v := si.val[f.Name()]
				if sts := si.all[f.Name()]; len(sts) > 1 {
					// assigned in the literal and again later (x.Rparen = ...): one context per assignment
					for _, st := range sts {
						for _, a := range w.PosFlow().Of(st.Val, st, 0) {
							if a.kind == "invalid" {
								ctxs = append(ctxs, ctx{si: si, valid: false, edge: -1, at: st})
							} else if a.kind != "zero" {
								ctxs = append(ctxs, ctx{si: si, valid: true, edge: -1, at: st})
							}
						}
					}
					continue
				}
				if ex, ok := v.(*ssa.Extract); ok {
					if call, ok := ex.Tuple.(*ssa.Call); ok && call.Call.StaticCallee() != nil && call.Call.StaticCallee().Blocks != nil {
						callee := call.Call.StaticCallee()
						live := w.liveBlocks(callee)
						for _, rb := range callee.Blocks {
							ret, ok := rb.Instrs[len(rb.Instrs)-1].(*ssa.Return)
							if !ok || !live[rb] || ex.Index >= len(ret.Results) {
								continue
							}
							rv := ret.Results[ex.Index]
							if phi, ok := rv.(*ssa.Phi); ok {
								for ei, e := range phi.Edges {
									if !w.liveEdge(live, phi.Block().Preds[ei]) {
										continue
									}
									for _, a := range w.PosFlow().Of(e, ret, 0) {
										if a.kind == "invalid" {
											ctxs = append(ctxs, ctx{si: si, valid: false, edge: ei, blk: phi.Block(), ret: ret, call: call})
										} else if a.kind != "zero" {
											ctxs = append(ctxs, ctx{si: si, valid: true, edge: ei, blk: phi.Block(), ret: ret, call: call})
										}
									}
								}
								continue
							}
							for _, a := range w.PosFlow().Of(rv, ret, 0) {
								if a.kind == "invalid" {
									ctxs = append(ctxs, ctx{si: si, valid: false, edge: -1, ret: ret, call: call})
								} else if a.kind != "zero" {
									ctxs = append(ctxs, ctx{si: si, valid: true, edge: -1, ret: ret, call: call})
								}
							}
						}
						continue
					}
				}
				if phi, ok := v.(*ssa.Phi); ok {
					for ei, e := range phi.Edges {
						for _, a := range w.PosFlow().Of(e, si.stores[f.Name()], 0) {
							if a.kind == "invalid" {
								ctxs = append(ctxs, ctx{si: si, valid: false, edge: ei, blk: phi.Block()})
							} else if a.kind != "zero" {
								ctxs = append(ctxs, ctx{si: si, valid: true, edge: ei, blk: phi.Block()})
							}
						}
					}
					continue
				}
				for _, a := range si.pos[f.Name()] {
					switch a.kind {
					case "invalid":
						ctxs = append(ctxs, ctx{si: si, valid: false, edge: -1})
					case "zero":
					default:
						ctxs = append(ctxs, ctx{si: si, valid: true, edge: -1})
					}
				}
			}
			hasV, hasI := false, false
			for _, c := range ctxs {
				if c.valid {
					hasV = true
				} else {
					hasI = true
				}
			}
			if !(hasV && hasI) {
				continue
			}
			construct := "ast." + ns.Name + "." + f.Name()
			if pm.reads[f.Name()] {
				r.ok(rule, construct, w.pos(f.Pos()), "optional position; SQL() reads it")
				continue
			}
			// a printed field computed from the position itself (PrimaryKey: !key.Invalid())
			derived := ""
			for _, si := range sites {
				pv := si.val[f.Name()]
				if pv == nil {
					continue
				}
				for g, gv := range si.val {
					if g == f.Name() || !pm.reads[g] {
						continue
					}
					if dependsOn(gv, pv, 0) {
						derived = g
					}
				}
			}
			if derived != "" {
				r.ok(rule, construct, w.pos(f.Pos()), "not read by SQL(), but the printed field "+derived+" is computed from it")
				continue
			}
			// another read field that separates the valid from the invalid contexts
			sep := ""
			for j := 0; j < ns.Struct.NumFields() && sep == ""; j++ {
				g := ns.Struct.Field(j)
				if g == f || !pm.reads[g.Name()] {
					continue
				}
				all := true
				for _, ci := range ctxs {
					for _, cv := range ctxs {
						if ci.valid || !cv.valid {
							continue
						}
						ai := w.fieldInCtx(ci.si, g.Name(), ci.blk, ci.edge, ci.ret, ci.call)
						av := w.fieldInCtx(cv.si, g.Name(), cv.blk, cv.edge, cv.ret, cv.call)
						if ci.at != nil {
							ai = w.fieldAtStore(ci.si, g.Name(), ci.at)
						}
						if cv.at != nil {
							av = w.fieldAtStore(cv.si, g.Name(), cv.at)
						}
						if !distinguishable(ai, av) {
							all = false
						}
					}
				}
				if all {
					sep = g.Name()
				}
			}
			if sep != "" {
				r.ok(rule, construct, w.pos(f.Pos()), "not read by SQL(), but the printed field "+sep+" is definitely different whenever the position is present")
			} else {
				r.bad(rule, construct, w.pos(f.Pos()), fmt.Sprintf("the position is InvalidPos in some cases and valid in others, nothing else that SQL() reads tells the two apart, and (*%s).SQL does not read it: the optional token it stands for is dropped or invented by SQL()", ns.Name))
			}
		}
	}
}

// fieldInCtx: the abstract value of field g at a site, restricted to one edge of the phi that
// selects the validity of the position (when g is a phi in the same block).
func (w *World) fieldInCtx(si *siteInfo, g string, blk *ssa.BasicBlock, edge int, ret *ssa.Return, call *ssa.Call) AV {
	v := w.Value()
	val := si.val[g]
	if ret != nil && call != nil {
		// the same helper call yields this field: take the value returned together with the position
		if ex, ok := stripConv(val).(*ssa.Extract); ok && ex.Tuple == ssa.Value(call) && ex.Index < len(ret.Results) {
			rv := stripConv(ret.Results[ex.Index])
			if phi, ok := rv.(*ssa.Phi); ok && phi.Block() == blk && edge >= 0 && edge < len(phi.Edges) {
				return v.get(stripConv(phi.Edges[edge]))
			}
			return v.get(rv)
		}
	}
	if blk != nil && edge >= 0 && val != nil {
		if phi, ok := val.(*ssa.Phi); ok && phi.Block() == blk && edge < len(phi.Edges) {
			return v.get(phi.Edges[edge])
		}
		// a slice/struct wrapped after the merge: look one level through conversions
		if mi, ok := val.(*ssa.MakeInterface); ok {
			if phi, ok := mi.X.(*ssa.Phi); ok && phi.Block() == blk && edge < len(phi.Edges) {
				return v.get(phi.Edges[edge])
			}
		}
	}
	return si.env[g]
}

// fieldAtStore: the value of field g of the allocation at the time position field f is assigned by st:
// the assignment to g in the same block if there is one, else the value the literal gave it (or the zero
// value), joined with any assignment to g nested under st's block (which may or may not have run).
func (w *World) fieldAtStore(si *siteInfo, g string, st *ssa.Store) AV {
	v := w.Value()
	gf := si.ns.field(g)
	if gf == nil {
		return avTop()
	}
	initial := zeroAV(gf.Type())
	var same *ssa.Store
	var nested []*ssa.Store
	for _, gs := range si.all[g] {
		switch {
		case gs.Block() == st.Block():
			same = gs
		case gs.Block() == si.al.Block():
			initial = v.get(gs.Val)
		case st.Block().Dominates(gs.Block()):
			nested = append(nested, gs)
		}
	}
	if st.Block() == si.al.Block() {
		// the assignment made by the literal itself: later assignments have not happened
		if same != nil {
			return v.get(same.Val)
		}
		return initial
	}
	if same != nil {
		av := v.get(same.Val)
		if call, ok := same.Val.(*ssa.Call); ok {
			if c := call.Call.StaticCallee(); c != nil && v.emptyImpossibleHere(call, c, 0) {
				av.mayEmpty, av.mayNil = false, false
				av.mayFull = true
			}
		}
		return av
	}
	out := initial
	for _, gs := range nested {
		out = avJoin(out, v.get(gs.Val))
	}
	return out
}

func distinguishable(a, b AV) bool {
	if a.top || b.top || a.bot || b.bot {
		return false
	}
	nilOnly := func(x AV) bool { return x.mayNil && len(x.types) == 0 && !x.mayFull }
	nonNil := func(x AV) bool { return !x.mayNil && (len(x.types) > 0 || x.mayFull) }
	if (nilOnly(a) && nonNil(b)) || (nilOnly(b) && nonNil(a)) {
		return true
	}
	if (a.mayEmpty && !a.mayFull && b.mayFull && !b.mayEmpty) || (b.mayEmpty && !b.mayFull && a.mayFull && !a.mayEmpty) {
		return true
	}
	if len(a.consts) > 0 && len(b.consts) > 0 && !a.consts["?"] && !b.consts["?"] {
		for k := range a.consts {
			if b.consts[k] {
				return false
			}
		}
		return true
	}
	return false
}

var _ = sort.Strings

// dependsOn: value x is computed from value y (through operators, calls and phis).
func dependsOn(x, y ssa.Value, depth int) bool {
	if x == y {
		return true
	}
	if depth > 6 {
		return false
	}
	switch z := x.(type) {
	case *ssa.UnOp:
		return dependsOn(z.X, y, depth+1)
	case *ssa.BinOp:
		return dependsOn(z.X, y, depth+1) || dependsOn(z.Y, y, depth+1)
	case *ssa.Convert:
		return dependsOn(z.X, y, depth+1)
	case *ssa.Call:
		for _, a := range z.Call.Args {
			if dependsOn(a, y, depth+1) {
				return true
			}
		}
	case *ssa.Phi:
		for _, e := range z.Edges {
			if dependsOn(e, y, depth+1) {
				return true
			}
		}
	}
	return false
}

// ruleC02R4: a node rebuilt from another node of its own type carries every field over.
func ruleC02R4(w *World, r *Report) {
	const rule = "C02/R4"
	r.rule(rule, "where the parser rebuilds a node from another node of the same type (a composite literal at least two of whose fields are read from fields of one value of that type), every field of the struct is given a value — a field left out is a clause that was parsed and then dropped from the tree", 1)
	for _, si := range w.sites() {
		// the source value the fields are copied from
		src := map[ssa.Value]int{}
		for f, v := range si.val {
			if ld, ok := isLoad(v); ok {
				if fa, ok := ld.(*ssa.FieldAddr); ok && namedOf(fa.X.Type()) == si.ns.Named && fieldAddrName(fa) == f {
					src[fa.X]++
				}
			}
		}
		best, n := ssa.Value(nil), 0
		for v, c := range src {
			if c > n || (c == n && best != nil && v.Name() < best.Name()) {
				best, n = v, c
			}
		}
		if n < 2 {
			continue
		}
		st := si.ns.Named.Underlying().(*types.Struct)
		var missing []string
		for i := 0; i < st.NumFields(); i++ {
			if _, ok := si.val[st.Field(i).Name()]; !ok {
				missing = append(missing, st.Field(i).Name())
			}
		}
		fn := si.al.Parent()
		construct := fmt.Sprintf("ast.%s rebuilt in %s", si.ns.Name, funcName(fn))
		if len(missing) == 0 {
			r.ok(rule, construct, w.pos(si.al.Pos()), fmt.Sprintf("all %d fields are set (%d copied from the source node)", st.NumFields(), n))
		} else {
			r.bad(rule, construct, w.pos(si.al.Pos()), fmt.Sprintf("%d fields are copied from a node of the same type but %v are not set: whatever the source node carried there is dropped from the tree and from SQL()", n, missing))
		}
	}
}

// ruleC02R5: a node that is extended instead of rebuilt. Where a production either allocates a node T{F: v, …, L: {a, b}}
// or, when the node it already holds is a T, appends to its list L (the set-operator chain of parseQueryExpr), the
// values v parsed in this round are stored nowhere on the append path: the tokens they stand for survive in SQL() only
// if they equal what the node already holds. The append must therefore be reachable only through `c.F == v`.
func ruleC02R5(w *World, r *Report) {
	const rule = "C02/R5"
	r.rule(rule, "where a production extends a node it already holds (c, ok := x.(*T); c.L = append(c.L, …)) instead of allocating T{F: v, L: …} as its sibling path does, every value v parsed in that round and stored only by the allocating path is compared with c.F, and the append is unreachable from the unequal side of that comparison (it raises): otherwise the second UNION/INTERSECT/EXCEPT, ALL/DISTINCT of a chain is silently replaced by the first", 2)
	w.NoReturn()
	cat := w.Catalog()
	n := 0
	for _, fn := range w.ModFns {
		if fnPkgPath(fn) != modRoot || fn.Blocks == nil {
			continue
		}
		for _, b := range fn.Blocks {
			for _, in := range b.Instrs {
				st, ok := in.(*ssa.Store)
				if !ok {
					continue
				}
				fa, ok := st.Addr.(*ssa.FieldAddr)
				if !ok {
					continue
				}
				ex, ok := fa.X.(*ssa.Extract)
				if !ok || ex.Index != 0 {
					continue
				}
				ta, ok := ex.Tuple.(*ssa.TypeAssert)
				if !ok || !ta.CommaOk {
					continue
				}
				named := namedOf(ta.AssertedType)
				if named == nil || cat.ByName[named.Obj().Name()] == nil {
					continue
				}
				call, ok := st.Val.(*ssa.Call)
				if !ok {
					continue
				}
				if bi, ok := call.Call.Value.(*ssa.Builtin); !ok || bi.Name() != "append" {
					continue
				}
				listField := fieldAddrName(fa)
				tname := named.Obj().Name()
				// the sibling allocation of the same type in this function
				var sib *ssa.Alloc
				for _, bb := range fn.Blocks {
					for _, x := range bb.Instrs {
						if al, ok := x.(*ssa.Alloc); ok {
							if nn := namedOf(al.Type()); nn != nil && nn.Obj() == named.Obj() {
								sib = al
							}
						}
					}
				}
				if sib == nil {
					continue
				}
				for f, v := range allocFieldStores(sib) {
					if f == listField {
						continue
					}
					if _, isC := v.(*ssa.Const); isC {
						continue
					}
					if cat.isPos(v.Type()) {
						continue
					}
					n++
					construct := fmt.Sprintf("%s: %s.%s of the node that is extended", funcName(fn), tname, f)
					// the comparison of c.F with v
					var cmp *ssa.If
					var unequal *ssa.BasicBlock
					for _, bb := range fn.Blocks {
						iff, ok := bb.Instrs[len(bb.Instrs)-1].(*ssa.If)
						if !ok {
							continue
						}
						bo, ok := iff.Cond.(*ssa.BinOp)
						if !ok || (bo.Op != token.EQL && bo.Op != token.NEQ) {
							continue
						}
						for _, side := range [][2]ssa.Value{{bo.X, bo.Y}, {bo.Y, bo.X}} {
							if side[1] != v {
								continue
							}
							if addr, ok := isLoad(side[0]); ok {
								if cfa, ok := addr.(*ssa.FieldAddr); ok && cfa.X == ssa.Value(ex) && fieldAddrName(cfa) == f {
									cmp = iff
									if bo.Op == token.EQL {
										unequal = bb.Succs[1]
									} else {
										unequal = bb.Succs[0]
									}
								}
							}
						}
					}
					switch {
					case cmp == nil:
						r.bad(rule, construct, w.pos(st.Pos()), fmt.Sprintf("the value parsed for %s in this round is not compared with the %s the node already holds before %s is appended to: it is dropped without a trace", f, f, listField))
					case w.pathAvoiding(ta.Block(), b, func(x ssa.Instruction) bool { return x == cmp.Block().Instrs[0] }):
						r.bad(rule, construct, w.pos(st.Pos()), "the comparison with the value parsed in this round does not lie on every path to the append")
					case unequal == b || w.pathAvoiding(unequal, b, func(ssa.Instruction) bool { return false }):
						r.bad(rule, construct, w.pos(lastPos(cmp.Block())), fmt.Sprintf("the append to %s is reachable from the side on which %s differs from the value parsed in this round (the guard raises only when other parts differ as well): the chain keeps the first %s and SQL() prints it for every element", listField, f, f))
					default:
						r.ok(rule, construct, w.pos(lastPos(cmp.Block())), "compared with the value parsed in this round; the unequal side raises")
					}
				}
			}
		}
	}
	if n == 0 {
		r.errorf("no extend-or-allocate production found (the set-operator chain of parseQueryExpr expected)")
	}
}

// ruleC02R6: the keyword that was read is the keyword that is recorded. Enumeration-like fields (ast.Direction,
// ast.SetOp, ast.JoinOp, …) hold the spelling SQL() prints; a constant chosen in the arm of a kind test has to spell
// the kind that was tested there, or the user's ASC comes back as DESC — which round-trips perfectly.
func ruleC02R6(w *World, r *Report) {
	const rule = "C02/R6"
	r.rule(rule, "a constant of a string-based enumeration type of package ast that the parser chooses in a block reached only under a test of the current token's kind (a case of a switch, `if Kind == K`) contains, as a word, one of the kinds tested there — or, when the test is a pseudo-keyword test, that pseudo-keyword; exceptions are the documented canonicalisations ('<>' is recorded as '!=')", 6)
	tk := w.TKAI()
	canon := map[string]string{"<>": "!="}
	n := 0
	for _, fn := range w.ModFns {
		if fnPkgPath(fn) != modRoot || fn.Blocks == nil || fn.Signature.Recv() == nil || !w.isParserPtr(fn.Signature.Recv().Type()) {
			continue
		}
		res := tk.Intra(fn)
		seen := map[string]bool{}
		check := func(c *ssa.Const, at *ssa.BasicBlock, where string) {
			if c.Value == nil || c.Value.Kind() != constant.String {
				return
			}
			nt := namedOf(c.Type())
			if nt == nil || nt.Obj().Pkg() == nil || nt.Obj().Pkg().Path() != modRoot+"/ast" {
				return
			}
			val := constant.StringVal(c.Value)
			if val == "" {
				return
			}
			// the kinds the current token can have when `at` is entered, not having consumed anything in this function
			sts := res.in[at]
			st := sts[0]
			if st == nil {
				return // only reachable after a consumption: the keyword is gone, judged by C01/R1
			}
			atoms, fin := st.cur.Finite()
			if !fin || len(atoms) == 0 || len(atoms) > 4 {
				return
			}
			key := fmt.Sprintf("%s %s %q %v", nt.Obj().Name(), where, val, atoms) // the same constant under another kind is another choice
			if seen[key] {
				return
			}
			seen[key] = true
			n++
			construct := fmt.Sprintf("%s: ast.%s %q chosen under %v", funcName(fn), nt.Obj().Name(), val, atoms)
			words := map[string]bool{}
			for _, wd := range sqlWords(val) {
				words[strings.ToUpper(wd)] = true
			}
			okk := false
			for _, a := range atoms {
				k := strings.ToUpper(strings.TrimPrefix(a, "<ident>~"))
				if words[k] || canon[a] == val {
					okk = true
				}
			}
			if okk {
				r.ok(rule, construct, w.pos(lastPos(at)), "the constant spells the kind that was tested")
			} else {
				r.bad(rule, construct, w.pos(lastPos(at)), fmt.Sprintf("the constant %q recorded here does not contain any of the kinds %v under which this block is reached: what the user wrote is replaced by another keyword", val, atoms))
			}
		}
		for _, b := range fn.Blocks {
			for _, in := range b.Instrs {
				switch x := in.(type) {
				case *ssa.Phi:
					for i, e := range x.Edges {
						if c, ok := e.(*ssa.Const); ok && i < len(b.Preds) {
							check(c, b.Preds[i], "phi")
						}
					}
				case *ssa.Store:
					if c, ok := x.Val.(*ssa.Const); ok {
						check(c, b, "store")
					}
				case *ssa.Return:
					for _, rv := range x.Results {
						if c, ok := rv.(*ssa.Const); ok {
							check(c, b, "return")
						}
					}
				}
			}
		}
	}
	if n < 6 {
		r.errorf("only %d enumeration constants chosen under a kind test found", n)
	}
}
