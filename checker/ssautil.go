package main

import (
	"go/constant"
	"go/token"
	"go/types"

	"golang.org/x/tools/go/ssa"
)

// ---- NORETURN ------------------------------------------------------------------------------

// NoReturn computes, as a fixed point through static calls, the functions that have no reachable
// Return instruction (panicf, panicfAtToken, panicfAtPosition, ...). A call to such a function is
// a terminator for every other engine.
func (w *World) NoReturn() map[*ssa.Function]bool {
	if w.noret != nil {
		return w.noret
	}
	w.noret = map[*ssa.Function]bool{}
	changed := true
	for changed {
		changed = false
		for _, fn := range w.ModFns {
			if w.noret[fn] {
				continue
			}
			hasRet := fn.Recover != nil // a function that recovers returns through its recover block
			for b := range w.liveBlocks(fn) {
				if w.deadAt(b) < 0 {
					if _, ok := b.Instrs[len(b.Instrs)-1].(*ssa.Return); ok {
						hasRet = true
					}
				}
			}
			if !hasRet {
				w.noret[fn] = true
				changed = true
			}
		}
	}
	return w.noret
}

// deadAt returns the index of the first instruction of b after which control cannot continue
// (a call to a no-return function), or -1.
func (w *World) deadAt(b *ssa.BasicBlock) int {
	for i, in := range b.Instrs {
		if c, ok := in.(*ssa.Call); ok {
			if callee := c.Call.StaticCallee(); callee != nil && w.noret[callee] {
				return i
			}
		}
	}
	return -1
}

// liveBlocks: blocks reachable from the entry when calls to no-return functions terminate.
func (w *World) liveBlocks(fn *ssa.Function) map[*ssa.BasicBlock]bool {
	live := map[*ssa.BasicBlock]bool{}
	var visit func(b *ssa.BasicBlock)
	visit = func(b *ssa.BasicBlock) {
		if live[b] {
			return
		}
		live[b] = true
		if w.deadAt(b) >= 0 {
			return
		}
		for _, s := range b.Succs {
			visit(s)
		}
	}
	if len(fn.Blocks) > 0 {
		visit(fn.Blocks[0])
	}
	if fn.Recover != nil {
		visit(fn.Recover)
	}
	return live
}

// liveEdge reports whether control can flow from pred to its successors at all.
func (w *World) liveEdge(live map[*ssa.BasicBlock]bool, pred *ssa.BasicBlock) bool {
	return live[pred] && w.deadAt(pred) < 0
}

// ---- small SSA helpers ---------------------------------------------------------------------

func constString(v ssa.Value) (string, bool) {
	c, ok := v.(*ssa.Const)
	if !ok || c.Value == nil || c.Value.Kind() != constant.String {
		return "", false
	}
	return constant.StringVal(c.Value), true
}

func constBool(v ssa.Value) (bool, bool) {
	c, ok := v.(*ssa.Const)
	if !ok || c.Value == nil || c.Value.Kind() != constant.Bool {
		return false, false
	}
	return constant.BoolVal(c.Value), true
}

func constInt(v ssa.Value) (int64, bool) {
	c, ok := v.(*ssa.Const)
	if !ok || c.Value == nil || c.Value.Kind() != constant.Int {
		return 0, false
	}
	i, exact := constant.Int64Val(c.Value)
	return i, exact
}

func isNilConst(v ssa.Value) bool {
	c, ok := v.(*ssa.Const)
	return ok && c.Value == nil
}

// fieldName of a FieldAddr/Field instruction.
func fieldAddrName(fa *ssa.FieldAddr) string {
	t := fa.X.Type().Underlying().(*types.Pointer).Elem().Underlying().(*types.Struct)
	return t.Field(fa.Field).Name()
}

func fieldAddrStruct(fa *ssa.FieldAddr) *types.Named {
	return namedOf(fa.X.Type())
}

// isLoad reports whether v is *x and returns x.
func isLoad(v ssa.Value) (ssa.Value, bool) {
	u, ok := v.(*ssa.UnOp)
	if ok && u.Op == token.MUL {
		return u.X, true
	}
	return nil, false
}

// mustPassThrough reports whether every path from the entry of fn to a Return instruction
// executes an instruction satisfying target (no-return calls terminate paths). When it does not
// hold, the returned block is one Return block reachable without passing a target.
func (w *World) mustPassThrough(fn *ssa.Function, target func(ssa.Instruction) bool) (bool, *ssa.BasicBlock) {
	seen := map[*ssa.BasicBlock]bool{}
	var esc *ssa.BasicBlock
	var visit func(b *ssa.BasicBlock)
	visit = func(b *ssa.BasicBlock) {
		if seen[b] || esc != nil {
			return
		}
		seen[b] = true
		dead := w.deadAt(b)
		for i, in := range b.Instrs {
			if target(in) {
				return
			}
			if dead >= 0 && i == dead {
				return
			}
			if _, ok := in.(*ssa.Return); ok {
				esc = b
				return
			}
			if _, ok := in.(*ssa.Panic); ok {
				return
			}
		}
		for _, s := range b.Succs {
			visit(s)
		}
	}
	w.NoReturn()
	if len(fn.Blocks) > 0 {
		visit(fn.Blocks[0])
	}
	return esc == nil, esc
}

// funcName gives a stable, readable name for a function: "(*Parser).parseExpr", "parseStatements[ast.DDL]",
// "(*Parser).parseExpr$1" for closures.
func funcName(fn *ssa.Function) string {
	if fn == nil {
		return "<nil>"
	}
	if fn.Parent() != nil {
		return funcName(fn.Parent()) + fn.Name()[len(fn.Parent().Name()):]
	}
	if recv := fn.Signature.Recv(); recv != nil {
		return "(" + types.TypeString(recv.Type(), func(p *types.Package) string { return "" }) + ")." + fn.Name()
	}
	return fn.Name()
}

// referrers returns the instructions using v (nil-safe).
func referrers(v ssa.Value) []ssa.Instruction {
	if r := v.Referrers(); r != nil {
		return *r
	}
	return nil
}
