package main

import (
	"fmt"
	"go/token"
	"go/types"
	"os"
	"sort"
	"strings"

	"golang.org/x/tools/go/ssa"
)

func init() {
	register(&propDef{
		ID: "C13",
		Explanation: "R1 cursor ownership: Lexer.pos is written only by skip/skipN; Token.Pos/End/Raw/Space/Comments only by (*Lexer).nextToken, except the parser's '>>' split, which may rewrite Kind/Raw/Pos of the current token only under a dominating Kind == \">>\" test, with Kind/Raw = \">\" and Pos = Pos + 1. " +
			"R2 tiling by value identity in nextToken: every cursor-advancing call (skipSpaces, skipComment, consumeToken/consumeFieldToken) is bracketed by two loads of Lexer.pos that are the bounds of exactly one slice of Buffer stored into Space / a comment's Raw / Token.Raw, with exactly that one advancing call between the loads; Pos/End stored next to each slice are loads in the same cursor epoch as its bounds. Cursor moves only inside those calls (R1), so the slices tile the input. " +
			"R3 the eof() arm of consumeToken only sets Kind = <eof> and advances nothing. R4 every other return path of consumeToken passes a cursor advance; lexer loops make progress (C03/R4, shared). " +
			"Does not decide: that a computed advance is strictly positive, that Space holds only whitespace (numeric / character facts).",
		Rules: []ruleFn{ruleC13R1, ruleC13R4, ruleC13R3, ruleC03R4, ruleC14R9, ruleC13R5, ruleC13R6, ruleC16R4},
	})
}

// Advancing: functions from which (*Lexer).skip / skipN is reachable (they may move the byte cursor).
func (w *World) Advancing() map[*ssa.Function]bool {
	if w.advancing != nil {
		return w.advancing
	}
	adv := map[*ssa.Function]bool{}
	for _, fn := range w.ModFns {
		if fn.Signature.Recv() != nil && w.isLexerPtr(fn.Signature.Recv().Type()) && (fn.Name() == "skip" || fn.Name() == "skipN") {
			adv[fn] = true
		}
	}
	// also: direct writers of Lexer.pos
	for _, fn := range w.ModFns {
		for _, b := range fn.Blocks {
			for _, in := range b.Instrs {
				if st, ok := in.(*ssa.Store); ok {
					if fa, ok := st.Addr.(*ssa.FieldAddr); ok && w.isLexerPtr(fa.X.Type()) && fieldAddrName(fa) == "pos" {
						adv[fn] = true
					}
				}
			}
		}
	}
	for changed := true; changed; {
		changed = false
		for _, fn := range w.ModFns {
			if adv[fn] {
				continue
			}
			for _, b := range fn.Blocks {
				for _, in := range b.Instrs {
					if ci, ok := in.(ssa.CallInstruction); ok {
						for _, c := range w.Callees(ci) {
							if adv[c] {
								adv[fn] = true
								changed = true
							}
						}
					}
				}
			}
		}
	}
	w.advancing = adv
	return adv
}

// MustAdvancing: functions that call skip/skipN on every path from entry to a return (least fixed point from
// skip and skipN through static calls). leak[fn] is a return of fn reached without such a call.
func (w *World) MustAdvancing() (map[*ssa.Function]bool, map[*ssa.Function]*ssa.BasicBlock) {
	if w.mustAdv != nil {
		return w.mustAdv, w.mustAdvLeak
	}
	w.NoReturn()
	must := map[*ssa.Function]bool{}
	for _, fn := range w.ModFns {
		if fn.Signature.Recv() != nil && w.isLexerPtr(fn.Signature.Recv().Type()) && (fn.Name() == "skip" || fn.Name() == "skipN") {
			must[fn] = true
		}
	}
	leak := map[*ssa.Function]*ssa.BasicBlock{}
	isMust := func(in ssa.Instruction) bool {
		ci, ok := in.(ssa.CallInstruction)
		if !ok {
			return false
		}
		if _, isDefer := in.(*ssa.Defer); isDefer {
			return false
		}
		cs := w.Callees(ci)
		if len(cs) == 0 {
			return false
		}
		for _, c := range cs {
			if !must[c] {
				return false
			}
		}
		return true
	}
	for changed := true; changed; {
		changed = false
		for _, fn := range w.ModFns {
			if must[fn] || !w.Advancing()[fn] || fn.Blocks == nil {
				continue
			}
			ok, any := true, false
			for _, rb := range fn.Blocks {
				if _, isRet := rb.Instrs[len(rb.Instrs)-1].(*ssa.Return); !isRet {
					continue
				}
				any = true
				if w.pathAvoiding(fn.Blocks[0], rb, isMust) {
					ok = false
					leak[fn] = rb
					break
				}
			}
			if ok && any {
				must[fn] = true
				delete(leak, fn)
				changed = true
			}
		}
	}
	w.mustAdv, w.mustAdvLeak = must, leak
	return must, leak
}

func (w *World) isMustAdvancingCall(in ssa.Instruction) bool {
	ci, ok := in.(ssa.CallInstruction)
	if !ok {
		return false
	}
	if _, isDefer := in.(*ssa.Defer); isDefer {
		return false
	}
	must, _ := w.MustAdvancing()
	cs := w.Callees(ci)
	if len(cs) == 0 {
		return false
	}
	for _, c := range cs {
		if !must[c] {
			return false
		}
	}
	return true
}

func (w *World) isAdvancingCall(in ssa.Instruction) bool {
	ci, ok := in.(ssa.CallInstruction)
	if !ok {
		return false
	}
	if _, isDefer := in.(*ssa.Defer); isDefer {
		return false
	}
	for _, c := range w.Callees(ci) {
		if w.Advancing()[c] {
			return true
		}
	}
	return false
}

// cursorStoreForward: a direct assignment to Lexer.pos (outside skip/skipN) is accepted when LEXBOUNDS proves, in every
// context it is reached in, that the new value is neither before the old cursor nor behind the end of the input.
func (w *World) cursorStoreForward(st *ssa.Store) (bool, string) {
	if w.cursorStores == nil {
		w.cursorStores = map[string][2]int{}
		e := w.newLexBounds()
		for _, fn := range w.ModFns {
			if fn.Parent() != nil || fn.Synthetic != "" || !e.inScope(fn) || fnPkgPath(fn) != modRoot {
				continue
			}
			if fn.Signature.Recv() == nil || !w.isLexerPtr(fn.Signature.Recv().Type()) {
				continue
			}
			if fn.Name() == "nextToken" || fn.Name() == "NextToken" {
				for _, mode := range []bool{false, true} {
					e.runRoot(fn, map[string]bool{"noPanic": mode})
				}
			}
		}
		for _, fn := range w.ModFns {
			if fn.Parent() != nil || fn.Synthetic != "" || !e.inScope(fn) || fnPkgPath(fn) != modRoot || e.visited[fn] {
				continue
			}
			e.runRoot(fn, nil)
		}
		for _, ob := range e.results() {
			if ob.rule == "C13/R1" || (ob.rule == "C03/R6" && strings.Contains(ob.construct, "the cursor stays within the input")) {
				c := w.cursorStores[ob.where]
				c[0] += ob.total
				c[1] += ob.failed
				w.cursorStores[ob.where] = c
			}
		}
	}
	c, ok := w.cursorStores[w.pos(st.Pos())]
	if os.Getenv("VERIF_C13_DEBUG") != "" {
		fmt.Printf("C13DEBUG store %s: %v %v; known %v\n", w.pos(st.Pos()), c, ok, w.cursorStores)
	}
	switch {
	case !ok || c[0] == 0:
		return false, "the interpretation of the lexer did not reach it"
	case c[1] > 0:
		return false, fmt.Sprintf("in %d of %d context(s) the new value is not proved to lie between the old cursor and the end of the input", c[1], c[0])
	}
	return true, fmt.Sprintf("in all %d context(s) the new value lies between the old cursor and the end of the input (LEXBOUNDS)", c[0])
}

// calledOnReceiverFrom: fn is a method that the method `from` of the same type calls, directly or through such methods,
// always on its own receiver.
func (w *World) calledOnReceiverFrom(fn *ssa.Function, from string) bool {
	seen := map[*ssa.Function]bool{}
	var reach func(f *ssa.Function) bool
	reach = func(f *ssa.Function) bool {
		if seen[f] || f.Blocks == nil || len(f.Params) == 0 {
			return false
		}
		seen[f] = true
		for _, b := range f.Blocks {
			for _, in := range b.Instrs {
				c, ok := in.(*ssa.Call)
				if !ok || c.Call.IsInvoke() || len(c.Call.Args) == 0 || c.Call.Args[0] != ssa.Value(f.Params[0]) {
					continue
				}
				cal := c.Call.StaticCallee()
				if cal == nil || cal.Signature.Recv() == nil {
					continue
				}
				if cal == fn || reach(cal) {
					return true
				}
			}
		}
		return false
	}
	for _, f := range w.ModFns {
		if f.Name() == from && f.Signature.Recv() != nil && fn.Signature.Recv() != nil && types.Identical(f.Signature.Recv().Type(), fn.Signature.Recv().Type()) {
			if reach(f) {
				return true
			}
		}
	}
	return false
}

func ruleC13R1(w *World, r *Report) {
	const rule = "C13/R1"
	r.rule(rule, "Lexer.pos is stored only in skip/skipN; the position/trivia fields of a token are stored only in (*Lexer).nextToken; the parser's '>>' split rewrites Kind/Raw/Pos of the current token only under Kind == \">>\" with Kind/Raw = \">\" and Pos = Pos + 1", 4)
	nPos, nTok := 0, 0
	for _, fn := range w.ModFns {
		if !corePkg(fnPkgPath(fn)) {
			continue
		}
		cnt := map[string]int{}
		for _, b := range fn.Blocks {
			for _, in := range b.Instrs {
				st, ok := in.(*ssa.Store)
				if !ok {
					continue
				}
				fa, ok := st.Addr.(*ssa.FieldAddr)
				if !ok {
					continue
				}
				name := fieldAddrName(fa)
				switch {
				case w.isLexerPtr(fa.X.Type()) && name == "pos":
					nPos++
					cnt["pos"]++
					construct := fmt.Sprintf("store to Lexer.pos in %s (%d)", funcName(fn), cnt["pos"])
					isLexMethod := fn.Signature.Recv() != nil && w.isLexerPtr(fn.Signature.Recv().Type())
					if isLexMethod && (fn.Name() == "skip" || fn.Name() == "skipN") {
						// must be pos + something
						if bo, ok := st.Val.(*ssa.BinOp); ok && bo.Op == token.ADD {
							r.ok(rule, construct, w.pos(st.Pos()), "cursor advanced by addition in "+fn.Name())
						} else {
							r.bad(rule, construct, w.pos(st.Pos()), "cursor is assigned, not advanced")
						}
					} else if ok, detail := w.cursorStoreForward(st); ok {
						r.ok(rule, construct, w.pos(st.Pos()), "written outside skip/skipN, but "+detail)
					} else {
						r.bad(rule, construct, w.pos(st.Pos()), "the byte cursor is written outside skip/skipN and "+detail+": tokens no longer tile the input")
					}
				case w.isTokenPtr(fa.X.Type()) || isNamed(fa.X.Type(), modRoot+"/token", "Token"):
					switch name {
					case "Pos", "End", "Raw", "Space", "Comments":
					default:
						continue
					}
					// only the lexer's current token matters (token literals in tests/tools are fresh values)
					if _, isCur := w.curTokenAddr(fa.X); !isCur {
						if _, isAlloc := fa.X.(*ssa.Alloc); isAlloc {
							continue
						}
					}
					nTok++
					cnt[name]++
					construct := fmt.Sprintf("store to Token.%s in %s (%d)", name, funcName(fn), cnt[name])
					isNext := fn.Signature.Recv() != nil && w.isLexerPtr(fn.Signature.Recv().Type()) && fn.Name() == "nextToken"
					if isNext {
						r.ok(rule, construct, w.pos(st.Pos()), "inside (*Lexer).nextToken")
						continue
					}
					// a method of the lexer that nextToken calls on its own receiver (the trivia loop split off into
					// skipTrivia): still the lexer filling in its own token; the values stored are C13/R4's
					if fn.Signature.Recv() != nil && w.isLexerPtr(fn.Signature.Recv().Type()) && w.calledOnReceiverFrom(fn, "nextToken") {
						r.ok(rule, construct, w.pos(st.Pos()), "inside "+funcName(fn)+", which (*Lexer).nextToken calls on its own receiver")
						continue
					}
					// the '>>' split
					if w.isShiftSplitStore(st, name) {
						r.ok(rule, construct, w.pos(st.Pos()), "the '>>' split: under Kind == \">>\", "+name+" rewritten to the second '>'")
					} else {
						r.bad(rule, construct, w.pos(st.Pos()), "position/spelling of the current token is rewritten outside the lexer (and not by the guarded '>>' split): Raw == input[Pos:End] no longer holds")
					}
				}
			}
		}
	}
	// Kind stores of the '>>' split are checked as well
	for _, fn := range w.ModFns {
		if fnPkgPath(fn) != modRoot || (fn.Signature.Recv() != nil && w.isLexerPtr(fn.Signature.Recv().Type())) {
			continue
		}
		c := 0
		for _, b := range fn.Blocks {
			for _, in := range b.Instrs {
				st, ok := in.(*ssa.Store)
				if !ok {
					continue
				}
				fa, ok := st.Addr.(*ssa.FieldAddr)
				if !ok || fieldAddrName(fa) != "Kind" {
					continue
				}
				if _, isCur := w.curTokenAddr(fa.X); !isCur {
					continue
				}
				c++
				construct := fmt.Sprintf("store to Token.Kind in %s (%d)", funcName(fn), c)
				if w.isShiftSplitStore(st, "Kind") {
					r.ok(rule, construct, w.pos(st.Pos()), "the '>>' split: Kind = \">\" under Kind == \">>\"")
				} else {
					r.bad(rule, construct, w.pos(st.Pos()), "the parser rewrites the kind of the current token outside the guarded '>>' split")
				}
			}
		}
	}
	if nPos < 2 || nTok < 5 {
		r.errorf("expected stores to Lexer.pos in skip and skipN and to the token fields in nextToken (found %d / %d)", nPos, nTok)
	}
}

// isShiftSplitStore: store dominated by the true edge of Kind == ">>" on the current token, storing
// ">" (Kind, Raw) or Pos+1 (Pos).
func (w *World) isShiftSplitStore(st *ssa.Store, field string) bool {
	guarded := w.underShiftKind(st.Block())
	if !guarded {
		// the split written once as a helper of the parser (splitShiftRight): every call of it is under the test
		fn := st.Parent()
		sites := w.callersOf(fn)
		n := 0
		guarded = len(naturalLoops(fn)) == 0
		for _, s := range sites {
			if s.Parent() != nil && s.Parent().Synthetic != "" {
				continue
			}
			n++
			if !w.underShiftKind(s.Block()) {
				guarded = false
			}
		}
		guarded = guarded && n > 0
	}
	if !guarded {
		return false
	}
	switch field {
	case "Kind", "Raw":
		s, ok := constString(st.Val)
		return ok && s == ">"
	case "Pos":
		bo, ok := st.Val.(*ssa.BinOp)
		if !ok || bo.Op != token.ADD {
			return false
		}
		k, ok := constInt(bo.Y)
		f, _, isTok := w.curTokenField(bo.X)
		return ok && k == 1 && isTok && f == "Pos"
	}
	return false
}

// underShiftKind: b is reached only through the equal side of a test Kind == ">>" of the current token.
func (w *World) underShiftKind(b *ssa.BasicBlock) bool {
	guarded := false
	for d := b; d != nil; d = d.Idom() {
		p := d.Idom()
		if p == nil {
			break
		}
		iff, ok := p.Instrs[len(p.Instrs)-1].(*ssa.If)
		if !ok {
			continue
		}
		k, eqOnTrue, _, ok := w.kindTest(iff.Cond)
		if !ok || k != ">>" {
			continue
		}
		succ := p.Succs[1]
		if eqOnTrue {
			succ = p.Succs[0]
		}
		if len(succ.Preds) == 1 && (succ == b || succ.Dominates(b)) {
			guarded = true
		}
	}
	return guarded
}

// advancingBetween enumerates the paths from instruction a to instruction b (each block at most once
// per path) and returns, per path, how many cursor-advancing calls it executes; calls = the calls seen.
func (w *World) advancingBetween(a, b ssa.Instruction) (calls []ssa.Instruction, reachable bool) {
	seqs := w.cursorPaths(a, b)
	if len(seqs) == 0 {
		return nil, false
	}
	seen := map[ssa.Instruction]bool{}
	for _, sq := range seqs {
		for _, c := range sq {
			if !seen[c] {
				seen[c] = true
				calls = append(calls, c)
			}
		}
	}
	sort.Slice(calls, func(i, j int) bool { return calls[i].Pos() < calls[j].Pos() })
	return calls, true
}

// cursorPaths: for every path from a to b the sequence of advancing calls on it (deduplicated).
func (w *World) cursorPaths(a, b ssa.Instruction) [][]ssa.Instruction {
	var out [][]ssa.Instruction
	keys := map[string]bool{}
	onPath := map[*ssa.BasicBlock]bool{}
	budget := 20000
	var visit func(blk *ssa.BasicBlock, from int, acc []ssa.Instruction)
	visit = func(blk *ssa.BasicBlock, from int, acc []ssa.Instruction) {
		budget--
		if budget < 0 {
			return
		}
		for i := from; i < len(blk.Instrs); i++ {
			in := blk.Instrs[i]
			if in == b {
				k := ""
				for _, c := range acc {
					k += fmt.Sprintf("%p;", c)
				}
				if !keys[k] {
					keys[k] = true
					out = append(out, append([]ssa.Instruction{}, acc...))
				}
				return
			}
			if w.isAdvancingCall(in) {
				acc = append(append([]ssa.Instruction{}, acc...), in)
			}
		}
		if w.deadAt(blk) >= 0 {
			return
		}
		for _, s := range blk.Succs {
			if onPath[s] {
				continue
			}
			onPath[s] = true
			visit(s, 0, acc)
			onPath[s] = false
		}
	}
	// paths must not execute a again (the most recent a before b is meant), unless b precedes a in a's own block
	if !(b.Block() == a.Block() && indexOf(b.Block(), b) < indexOf(a.Block(), a)) {
		onPath[a.Block()] = true
	}
	visit(a.Block(), indexOf(a.Block(), a)+1, nil)
	return out
}

// posLoadOf: v is (a conversion / phi-free copy of) a load of Lexer.pos; returns the load instruction.
func (w *World) posLoadOf(v ssa.Value) *ssa.UnOp {
	for {
		switch x := v.(type) {
		case *ssa.Convert:
			v = x.X
		case *ssa.ChangeType:
			v = x.X
		case *ssa.UnOp:
			if f, _, ok := w.lexerField(x); ok && f == "pos" {
				return x
			}
			return nil
		default:
			return nil
		}
	}
}

func ruleC13R2(w *World, r *Report) {
	const rule = "C13/R2"
	r.rule(rule, "in (*Lexer).nextToken every cursor-advancing call is captured by exactly one slice Buffer[lo:hi] stored into Space, a comment's Raw or Token.Raw whose bounds are loads of Lexer.pos with exactly that call between them; the Pos/End stored with each slice are loads of Lexer.pos in the same cursor epoch as lo/hi", 4)
	fn := w.fn(w.Mem, "(*Lexer).nextToken")
	if fn == nil {
		r.errorf("(*Lexer).nextToken not found")
		return
	}
	// all Buffer slices
	type capt struct {
		sl     *ssa.Slice
		lo, hi *ssa.UnOp
		calls  []ssa.Instruction
	}
	var caps []*capt
	covered := map[ssa.Instruction]bool{}
	for _, b := range fn.Blocks {
		for _, in := range b.Instrs {
			sl, ok := in.(*ssa.Slice)
			if !ok {
				continue
			}
			f, _, isLex := w.lexerFieldOrEmbedded(sl.X)
			if !isLex || f != "Buffer" {
				continue
			}
			construct := fmt.Sprintf("slice of Buffer #%d in nextToken", len(caps)+1)
			lo, hi := w.posLoadOf(sl.Low), w.posLoadOf(sl.High)
			if lo == nil || hi == nil {
				r.bad(rule, construct, w.pos(sl.Pos()), "a bound of the slice is not a load of Lexer.pos (bounds must be cursor values, by identity)")
				continue
			}
			seqs := w.cursorPaths(lo, hi)
			calls, reach := w.advancingBetween(lo, hi)
			c := &capt{sl: sl, lo: lo, hi: hi, calls: calls}
			caps = append(caps, c)
			badSeq := ""
			for _, sq := range seqs {
				if len(sq) != 1 {
					var names []string
					for _, x := range sq {
						names = append(names, strings.TrimSpace(x.String()))
					}
					badSeq = fmt.Sprintf("a path between the two cursor loads executes %d cursor-advancing calls %v; a captured range must be the advance of exactly one call", len(sq), names)
				}
			}
			switch {
			case !reach:
				r.bad(rule, construct, w.pos(sl.Pos()), "the upper bound is not loaded after the lower bound")
			case badSeq != "":
				r.bad(rule, construct, w.pos(sl.Pos()), badSeq)
			default:
				var names []string
				for _, x := range calls {
					covered[x] = true
					names = append(names, strings.TrimSpace(x.String()))
				}
				r.ok(rule, construct, w.pos(sl.Pos()), "captures the advance of "+strings.Join(names, " | "))
			}
		}
	}
	// every captured slice is stored into the token: Space/Raw of the token or of a comment; the
	// whitespace capture must reach both (it belongs to the comment that follows, or to the token)
	for i, c := range caps {
		dests := map[string]bool{}
		seen := map[ssa.Value]bool{}
		var follow func(v ssa.Value)
		follow = func(v ssa.Value) {
			if seen[v] {
				return
			}
			seen[v] = true
			for _, u := range referrers(v) {
				switch u := u.(type) {
				case *ssa.Phi:
					follow(u)
				case *ssa.Store:
					if u.Val != v {
						continue
					}
					if fa, ok := u.Addr.(*ssa.FieldAddr); ok {
						if n := namedOf(fa.X.Type()); n != nil {
							dests[n.Obj().Name()+"."+fieldAddrName(fa)] = true
						}
					}
				}
			}
		}
		follow(c.sl)
		construct := fmt.Sprintf("destination of Buffer slice #%d in nextToken", i+1)
		var ds []string
		for d := range dests {
			ds = append(ds, d)
		}
		sort.Strings(ds)
		isSpaceCapture := false
		for _, x := range c.calls {
			if ci, ok := x.(ssa.CallInstruction); ok {
				if cal := ci.Common().StaticCallee(); cal != nil && cal.Name() == "skipSpaces" {
					isSpaceCapture = true
				}
			}
		}
		switch {
		case len(ds) == 0:
			r.bad(rule, construct, w.pos(c.sl.Pos()), "the captured bytes are stored in no token field: they are lost from the token stream")
		case isSpaceCapture && !(dests["Token.Space"] && dests["TokenComment.Space"]):
			r.bad(rule, construct, w.pos(c.sl.Pos()), fmt.Sprintf("the whitespace run must be stored as the Space of the following comment or, when no comment follows, of the token; it reaches only %v", ds))
		default:
			r.ok(rule, construct, w.pos(c.sl.Pos()), "stored in "+strings.Join(ds, ", "))
		}
	}
	// on the normal exit (after the token reader ran) Space, Raw, Pos and End of the token have all been stored
	{
		var normalRets []*ssa.BasicBlock
		for _, b := range fn.Blocks {
			if _, ok := b.Instrs[len(b.Instrs)-1].(*ssa.Return); !ok {
				continue
			}
			// reachable from a token-reader call?
			for _, c := range caps {
				for _, call := range c.calls {
					ci, _ := call.(ssa.CallInstruction)
					if ci == nil {
						continue
					}
					cal := ci.Common().StaticCallee()
					if cal == nil || !strings.HasPrefix(cal.Name(), "consume") {
						continue
					}
					if !w.pathAvoiding(call.Block(), b, func(ssa.Instruction) bool { return false }) {
						continue
					}
					normalRets = append(normalRets, b)
				}
			}
		}
		for _, field := range []string{"Space", "Raw", "Pos", "End"} {
			construct := "Token." + field + " is stored on every normal exit of nextToken"
			ok := len(normalRets) > 0
			for _, rb := range normalRets {
				found := false
				for _, b := range fn.Blocks {
					for _, in := range b.Instrs {
						st, isSt := in.(*ssa.Store)
						if !isSt {
							continue
						}
						fa, isFA := st.Addr.(*ssa.FieldAddr)
						if !isFA || fieldAddrName(fa) != field {
							continue
						}
						if _, isCur := w.curTokenAddr(fa.X); !isCur {
							continue
						}
						if b == rb || b.Dominates(rb) {
							found = true
						}
					}
				}
				ok = ok && found
			}
			if ok {
				r.ok(rule, construct, w.pos(fn.Pos()), "a store of the field dominates the return after the token reader")
			} else {
				r.bad(rule, construct, w.pos(fn.Pos()), "some path to the normal return of nextToken does not store Token."+field+": the field keeps the zero value and the bytes are lost")
			}
		}
	}
	// every advancing call of nextToken is captured
	n := 0
	for _, b := range fn.Blocks {
		for _, in := range b.Instrs {
			if !w.isAdvancingCall(in) {
				continue
			}
			n++
			construct := fmt.Sprintf("advancing call %d in nextToken: %s", n, strings.TrimSpace(in.String()))
			if covered[in] {
				r.ok(rule, construct, w.pos(in.Pos()), "its range is stored in a token field")
			} else {
				r.bad(rule, construct, w.pos(in.Pos()), "the bytes this call skips are not captured by any slice stored in the token: the token stream does not reproduce the input")
			}
		}
	}
	if n < 3 {
		r.errorf("nextToken has %d cursor-advancing calls, expected skipSpaces, skipComment and the token readers", n)
	}
	// Pos/End stored next to the slices are in the same epoch as the bounds
	sameEpoch := func(a, b *ssa.UnOp) bool {
		if a == b {
			return true
		}
		c1, r1 := w.advancingBetween(a, b)
		c2, r2 := w.advancingBetween(b, a)
		if r1 && len(c1) == 0 {
			return true
		}
		if r2 && len(c2) == 0 {
			return true
		}
		return false
	}
	cnt := 0
	for _, b := range fn.Blocks {
		for _, in := range b.Instrs {
			st, ok := in.(*ssa.Store)
			if !ok {
				continue
			}
			fa, ok := st.Addr.(*ssa.FieldAddr)
			if !ok {
				continue
			}
			name := fieldAddrName(fa)
			if name != "Pos" && name != "End" {
				continue
			}
			owner := namedOf(fa.X.Type())
			if owner == nil || (owner.Obj().Name() != "Token" && owner.Obj().Name() != "TokenComment") {
				continue
			}
			cnt++
			construct := fmt.Sprintf("%s.%s store %d in nextToken", owner.Obj().Name(), name, cnt)
			ld := w.posLoadOf(st.Val)
			if ld == nil {
				r.bad(rule, construct, w.pos(st.Pos()), "stored value is not the byte cursor")
				continue
			}
			// find a captured slice whose matching bound is in the same epoch
			ok2 := false
			for _, c := range caps {
				if name == "Pos" && sameEpoch(ld, c.lo) {
					ok2 = true
				}
				if name == "End" && sameEpoch(ld, c.hi) {
					ok2 = true
				}
				// the error exit stores Pos = End = cursor after the unterminated comment
				if name == "Pos" && sameEpoch(ld, c.hi) && st.Block() != fn.Blocks[0] {
					ok2 = true
				}
			}
			if ok2 {
				r.ok(rule, construct, w.pos(st.Pos()), "same cursor epoch as the bound of a captured slice")
			} else {
				r.bad(rule, construct, w.pos(st.Pos()), "the stored position is not in the cursor epoch of any captured slice bound: Raw != input[Pos:End]")
			}
		}
	}
}

// lexerFieldOrEmbedded: load of l.<F> or of l.File.<F> (Buffer is promoted from *token.File).
func (w *World) lexerFieldOrEmbedded(v ssa.Value) (string, ssa.Value, bool) {
	if f, lx, ok := w.lexerField(v); ok {
		return f, lx, true
	}
	addr, ok := isLoad(v)
	if !ok {
		return "", nil, false
	}
	fa, ok := addr.(*ssa.FieldAddr)
	if !ok {
		return "", nil, false
	}
	if isNamed(fa.X.Type(), modRoot+"/token", "File") {
		if f, lx, ok := w.lexerField(fa.X); ok && f == "File" {
			return fieldAddrName(fa), lx, true
		}
	}
	return "", nil, false
}

func ruleC13R3(w *World, r *Report) {
	const rule = "C13/R3"
	r.rule(rule, "consumeToken: on the eof() edge only Kind = <eof> is stored and nothing advances (end of input is a fixed point); on every other path to a return a call is passed that advances the cursor on all of its own return paths (skip, skipN, or a token reader all of whose returns pass one)", 2)
	fn := w.fn(w.Mem, "(*Lexer).consumeToken")
	if fn == nil {
		r.errorf("(*Lexer).consumeToken not found")
		return
	}
	w.NoReturn()
	b0 := fn.Blocks[0]
	iff, ok := b0.Instrs[len(b0.Instrs)-1].(*ssa.If)
	var eofCall *ssa.Call
	if ok {
		if c, isCall := iff.Cond.(*ssa.Call); isCall && c.Call.StaticCallee() != nil && c.Call.StaticCallee().Name() == "eof" {
			eofCall = c
		}
	}
	if eofCall == nil {
		r.undecided(rule, "consumeToken eof arm", w.pos(fn.Pos()), "consumeToken does not start with `if l.eof()`")
		return
	}
	// eof edge: straight to return, only a Kind store
	okEOF := true
	detail := ""
	blk := b0.Succs[0]
	for steps := 0; steps < 5 && blk != nil; steps++ {
		for _, in := range blk.Instrs {
			switch x := in.(type) {
			case *ssa.Store:
				fa, isFA := x.Addr.(*ssa.FieldAddr)
				k, isK := constString(x.Val)
				if !isFA || fieldAddrName(fa) != "Kind" || !isK || k != "<eof>" {
					okEOF, detail = false, "stores something other than Kind = <eof>"
				}
			case ssa.CallInstruction:
				okEOF, detail = false, "calls "+x.String()
			}
		}
		if _, isRet := blk.Instrs[len(blk.Instrs)-1].(*ssa.Return); isRet {
			break
		}
		if len(blk.Succs) != 1 {
			okEOF, detail = false, "branches"
			break
		}
		blk = blk.Succs[0]
	}
	if okEOF {
		r.ok(rule, "consumeToken eof arm", w.pos(eofCall.Pos()), "sets Kind = <eof> and returns; no cursor advance")
	} else {
		r.bad(rule, "consumeToken eof arm", w.pos(eofCall.Pos()), "at end of input consumeToken "+detail+": NextToken at <eof> is not a fixed point")
	}
	// non-eof side: every path to a return passes an advancing call
	leak := false
	// second chance for a return that the structural reading cannot vouch for (a reader that says through its result
	// whether it consumed anything: `if l.consumeStringLike(noPanic) { return }`): the deep LEXBOUNDS run of C13/R6 —
	// everything inlined from nextToken — judges every return of consumeToken in every context
	deepDone, deepOK := false, false
	deep := func() bool {
		if deepDone {
			return deepOK
		}
		deepDone = true
		nt := w.fn(w.Mem, "(*Lexer).nextToken")
		if nt == nil {
			return false
		}
		e := w.newLexBounds()
		e.bytes, e.tokProg = true, true
		joinByteRefute = true
		defer func() { joinByteRefute = false }()
		e.runRoot(nt, map[string]bool{"noPanic": false})
		e.runRoot(nt, map[string]bool{"noPanic": true})
		n := 0
		deepOK = true
		for _, ob := range e.results() {
			if ob.rule != "C13/R6" || !strings.HasPrefix(ob.construct, "(*Lexer).consumeToken:") {
				continue
			}
			n++
			if ob.failed > 0 || ob.total == 0 {
				deepOK = false
				if os.Getenv("VERIF_C13_DEBUG") != "" {
					fmt.Printf("C13DEBUG deep %s: %d of %d failed %v\n", ob.construct, ob.failed, ob.total, ob.details)
				}
			}
		}
		if n == 0 || len(e.notes) > 0 {
			deepOK = false
		}
		return deepOK
	}
	for _, rb := range fn.Blocks {
		if _, isRet := rb.Instrs[len(rb.Instrs)-1].(*ssa.Return); !isRet || rb == b0.Succs[0] {
			continue
		}
		if w.pathAvoiding(b0.Succs[1], rb, w.isMustAdvancingCall) {
			if deep() {
				continue
			}
			leak = true
			detail := "a path from the non-eof side reaches this return without advancing the cursor: an empty token"
			// name the token reader that can return without advancing
			_, leaks := w.MustAdvancing()
			for _, bb := range fn.Blocks {
				for _, in := range bb.Instrs {
					if ci, ok := in.(ssa.CallInstruction); ok && w.isAdvancingCall(in) && !w.isMustAdvancingCall(in) {
						for _, c := range w.Callees(ci) {
							if lb := leaks[c]; lb != nil && (bb == rb || w.pathAvoiding(bb, rb, w.isMustAdvancingCall)) {
								detail += fmt.Sprintf("; %s (called at %s) can return at %s without having called skip/skipN", funcName(c), w.pos(in.Pos()), w.pos(lastPos(lb)))
							}
						}
					}
				}
			}
			r.bad(rule, "consumeToken progress", w.pos(lastPos(rb)), detail+" — in recovering mode the parser's skip loops then never reach <eof>")
		}
	}
	if !leak {
		how := "every non-eof return path passes skip/skipN (directly or in a token reader)"
		if deepDone && deepOK {
			how = "every return of consumeToken has moved the cursor by at least one byte or is at the end of the input, in every context of the deep LEXBOUNDS run (a reader reports through its result whether it consumed anything)"
		}
		r.ok(rule, "consumeToken progress", w.pos(fn.Pos()), how)
	}
}

// ruleC13R5: every token starts from nothing. nextToken resets the current token before it records the new one; a
// field carried over from the previous token (a Comments slice cut to length 0 to reuse its array) makes two tokens
// share memory: the token a caller kept is rewritten by the next call.
func ruleC13R5(w *World, r *Report) {
	const rule = "C13/R5"
	r.rule(rule, "the whole-struct store to Lexer.Token at the start of (*Lexer).nextToken stores the zero Token (a constant, or a literal none of whose fields is set), before anything of the new token is recorded; there is exactly one such store in the lexer", 1)
	fn := w.fn(w.Mem, "(*Lexer).nextToken")
	if fn == nil {
		r.errorf("(*Lexer).nextToken not found")
		return
	}
	n := 0
	for _, f := range w.ModFns {
		if fnPkgPath(f) != modRoot || f.Blocks == nil || f.Signature.Recv() == nil || !w.isLexerPtr(f.Signature.Recv().Type()) {
			continue
		}
		for _, b := range f.Blocks {
			for _, in := range b.Instrs {
				st, ok := in.(*ssa.Store)
				if !ok {
					continue
				}
				fa, ok := st.Addr.(*ssa.FieldAddr)
				if !ok || fieldAddrName(fa) != "Token" || !w.isLexerPtr(fa.X.Type()) {
					continue
				}
				if _, isAlloc := fa.X.(*ssa.Alloc); isAlloc {
					continue // Clone's copy
				}
				n++
				construct := fmt.Sprintf("reset of Lexer.Token in %s", funcName(f))
				zero := false
				why := ""
				switch v := st.Val.(type) {
				case *ssa.Const:
					zero = v.Value == nil
				case *ssa.UnOp:
					if al, ok := v.X.(*ssa.Alloc); ok && v.Op == token.MUL {
						fields := allocFieldStores(al)
						zero = len(fields) == 0
						for fname := range fields {
							why = "the literal sets " + fname
						}
					}
				}
				switch {
				case f != fn:
					r.bad(rule, construct, w.pos(st.Pos()), "the current token is overwritten as a whole outside nextToken")
				case !zero:
					r.bad(rule, construct, w.pos(st.Pos()), "the token is not reset to the zero value ("+why+"): what is carried over is shared between the previous token — which the caller may have kept or cloned — and the new one")
				case b != fn.Blocks[0]:
					r.bad(rule, construct, w.pos(st.Pos()), "the reset is not in the entry block of nextToken")
				default:
					r.ok(rule, construct, w.pos(st.Pos()), "zero Token stored at entry")
				}
			}
		}
	}
	if n == 0 {
		r.errorf("no whole-struct store to Lexer.Token found in nextToken")
	}
}
