// memecheck decides structural necessary conditions of the properties in
// /verif/properties.jsonl from the source of /repo, without running any of it.
package main

import (
	"flag"
	"fmt"
	"os"
	"path/filepath"
	"reflect"
	"runtime"
	"runtime/debug"
	"runtime/pprof"
	"sort"
	"strconv"
	"strings"
	"time"
)

type ruleFn func(w *World, r *Report)

type propDef struct {
	ID          string
	Explanation string
	Rules       []ruleFn
	Thorough    []ruleFn // additional rules of the thorough tier
}

var props = map[string]*propDef{}

func register(p *propDef) { props[p.ID] = p }

func main() {
	prop := flag.String("prop", "", "property id (C01..C19) or 'all'")
	tier := flag.String("tier", "quick", "quick|thorough")
	repo := flag.String("repo", "", "repository directory (default $VERIF_REPO or /repo)")
	list := flag.Bool("list", false, "list properties")
	flag.Parse()
	if pf := os.Getenv("VERIF_CPUPROFILE"); pf != "" {
		if f, err := os.Create(pf); err == nil {
			pprof.StartCPUProfile(f)
			defer pprof.StopCPUProfile()
		}
	}
	if *list {
		var ids []string
		for id := range props {
			ids = append(ids, id)
		}
		sort.Strings(ids)
		for _, id := range ids {
			fmt.Println(id)
		}
		return
	}
	if *repo == "" {
		*repo = os.Getenv("VERIF_REPO")
	}
	if *repo == "" {
		*repo = "/repo"
	}
	if t := os.Getenv("VERIF_TIER"); t != "" && *tier == "" {
		*tier = t
	}
	verifDir := os.Getenv("VERIF_DIR")
	if verifDir == "" {
		exe, _ := os.Executable()
		verifDir = filepath.Dir(filepath.Dir(exe))
	}
	seed, _ := strconv.Atoi(os.Getenv("VERIF_SEED"))
	pd := props[*prop]
	if pd == nil {
		fmt.Fprintf(os.Stderr, "unknown property %q\n", *prop)
		os.Exit(2)
	}
	start := time.Now()
	defer func() {
		if x := recover(); x != nil {
			fmt.Printf("CHECKER-ERROR: panic in checker: %v\n%s\n", x, debug.Stack())
			os.Exit(2)
		}
	}()
	abs, _ := filepath.Abs(*repo)
	w, err := loadWorld(abs)
	if err != nil {
		fmt.Println("CHECKER-ERROR:", err)
		os.Exit(2)
	}
	w.tier = *tier
	r := &Report{Prop: pd.ID, Tier: *tier}
	r.count("packages", len(w.Pkgs))
	r.count("module functions (SSA, incl. closures and generic instances)", len(w.ModFns))
	for _, f := range pd.Rules {
		// development aid: VERIF_ONLY_RULE=<substring of the rule function's name> runs a single rule (the run is then
		// reported as a checker error, so that it can never pass for a whole property)
		if only := os.Getenv("VERIF_ONLY_RULE"); only != "" {
			if !strings.Contains(runtime.FuncForPC(reflect.ValueOf(f).Pointer()).Name(), only) {
				continue
			}
			r.errorf("VERIF_ONLY_RULE=%s: partial run", only)
		}
		f(w, r)
	}
	if *tier == "thorough" {
		for _, f := range pd.Thorough {
			f(w, r)
		}
	}
	if *tier == "thorough" && os.Getenv("VERIF_OUT") == "" {
		res := auditMutants(verifDir, abs, pd.ID)
		okN := 0
		for _, a := range res {
			if a.OK {
				okN++
			}
			fmt.Printf("sensitivity: %-60s expected=%-5s outcome=%s %s\n", a.Patch, a.Expected, a.Outcome, a.Rules)
		}
		r.Extra = map[string]any{"sensitivity_audit": res, "sensitivity_as_expected": fmt.Sprintf("%d/%d", okN, len(res))}
		r.note("sensitivity audit: %d/%d recorded mutants behave as expected (break -> reported, keep -> silent)", okN, len(res))
	}
	code := r.finish(verifDir, time.Since(start).Seconds(), seed, pd.Explanation)
	pprof.StopCPUProfile()
	os.Exit(code)
}
