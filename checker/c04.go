package main

import (
	"fmt"
	"go/token"
	"go/types"
	"os"
	"runtime/debug"
	"sort"
	"strings"

	"golang.org/x/tools/go/ssa"
)

func init() {
	register(&propDef{
		ID: "C04",
		Explanation: "Producer/consumer cross-check through the VALUE (shape) analysis of the parser: R1 for every allocation site of every ast node struct and every consumer method (SQL, Pos, End) the method is abstractly evaluated under the field environment of that site (branches on fields whose value is constant at the site are pruned) and every unguarded dereference of a field value — method call, interface invoke, field access, passing to a helper that dereferences its parameter, indexing — must have may-be-nil = false (elements of slices included); helpers (sqlOpt, sqlJoin, wrapNode, nodePos, …) are summarised from their own SSA, not assumed. " +
			"R2 every type switch / constant switch in the consumers and in the parser whose fall-through panics covers every concrete type / constant that can flow to the switched value (residual-set dataflow); walkInternal has a case for every node struct (C17/R1). " +
			"R3 every index / slice expression in the consumer files is dominated by a length test that covers it, and nodeSliceIndex is only called with index 0. " +
			"Decides: nil-safety and switch exhaustiveness of SQL/Pos/End/Walk on every tree the parser can build, including error-recovered ones. Does not decide: trees built by users by hand.",
		Rules: []ruleFn{ruleC04R1, ruleC04R2, ruleC04R3, ruleC17R1, ruleC17R2, ruleC15R5},
	})
}

// ---- helper summaries: does a function dereference parameter i without a nil guard? ------------

type derefKind int

const (
	derefNone  derefKind = 0
	derefSelf  derefKind = 1 // the value itself
	derefElems derefKind = 2 // the elements of a slice parameter
)

type paramKey struct {
	fn  *ssa.Function
	idx int
}

type Deref struct {
	w    *World
	memo map[paramKey]derefKind
	busy map[paramKey]bool
}

func (w *World) Deref() *Deref {
	if w.deref == nil {
		w.deref = &Deref{w: w, memo: map[paramKey]derefKind{}, busy: map[paramKey]bool{}}
	}
	return w.deref
}

// guardedNonNil: instruction `at` is dominated by the non-nil edge of a nil/zero test of value x
// (or of another load of the same receiver field when sameField != nil).
func guardedNonNil(x ssa.Value, at ssa.Instruction, same func(ssa.Value) bool) bool {
	b := at.Block()
	for d := b; d != nil; d = d.Idom() {
		p := d.Idom()
		if p == nil {
			break
		}
		iff, ok := p.Instrs[len(p.Instrs)-1].(*ssa.If)
		if !ok {
			continue
		}
		bo, ok := iff.Cond.(*ssa.BinOp)
		if !ok || (bo.Op != token.EQL && bo.Op != token.NEQ) {
			continue
		}
		var tested ssa.Value
		if isNilConst(bo.Y) || isZeroConst(bo.Y) {
			tested = bo.X
		} else if isNilConst(bo.X) || isZeroConst(bo.X) {
			tested = bo.Y
		}
		if tested == nil || !(tested == x || (same != nil && same(tested))) {
			continue
		}
		nonNilSucc := p.Succs[0]
		if bo.Op == token.EQL {
			nonNilSucc = p.Succs[1]
		}
		if len(nonNilSucc.Preds) == 1 && (nonNilSucc == b || nonNilSucc.Dominates(b)) {
			return true
		}
	}
	return false
}

func isZeroConst(v ssa.Value) bool {
	c, ok := v.(*ssa.Const)
	return ok && c.Value == nil
}

// Kind computes how fn uses its parameter idx.
func (d *Deref) Kind(fn *ssa.Function, idx int) derefKind {
	k := paramKey{fn, idx}
	if v, ok := d.memo[k]; ok {
		return v
	}
	if d.busy[k] {
		return derefNone
	}
	d.busy[k] = true
	defer delete(d.busy, k)
	res := derefNone
	if fn.Blocks == nil || idx >= len(fn.Params) {
		// unknown code: assume it dereferences pointers it is given
		d.memo[k] = derefSelf
		return derefSelf
	}
	p := fn.Params[idx]
	res = d.valueUse(p, map[ssa.Value]bool{})
	d.memo[k] = res
	return res
}

// valueUse: how the function body uses value x (a parameter or something derived from it).
func (d *Deref) valueUse(x ssa.Value, seen map[ssa.Value]bool) derefKind {
	if seen[x] {
		return derefNone
	}
	seen[x] = true
	res := derefNone
	add := func(k derefKind) {
		if k > res {
			if k == derefElems && res == derefSelf {
				return
			}
			res = k
		}
		if k == derefSelf {
			res = derefSelf
		}
	}
	for _, u := range referrers(x) {
		in := u
		switch u := u.(type) {
		case *ssa.DebugRef, *ssa.BinOp, *ssa.If, *ssa.Return, *ssa.Store:
		case *ssa.FieldAddr:
			if u.X == x && !guardedNonNil(x, in, nil) {
				add(derefSelf)
			}
		case *ssa.Field:
		case *ssa.UnOp:
			if u.Op == token.MUL && u.X == x && !guardedNonNil(x, in, nil) {
				add(derefSelf)
			}
		case *ssa.MakeInterface, *ssa.ChangeInterface, *ssa.ChangeType, *ssa.Phi:
			add(d.valueUse(u.(ssa.Value), seen))
		case *ssa.TypeAssert:
			if !u.CommaOk && !guardedNonNil(x, in, nil) {
				if _, isIface := u.AssertedType.Underlying().(*types.Interface); !isIface || true {
					add(derefSelf) // x.(T) on a nil interface panics
				}
			}
			if u.CommaOk {
				// the asserted value is non-nil under ok
			}
		case *ssa.Extract:
		case *ssa.Range:
			// ranging over a slice: the elements are produced by Next
			for _, nu := range referrers(u) {
				if nx, ok := nu.(*ssa.Next); ok {
					for _, eu := range referrers(nx) {
						if ex, ok := eu.(*ssa.Extract); ok && ex.Index == 2 {
							if d.valueUse(ex, seen) != derefNone {
								add(derefElems)
							}
						}
					}
				}
			}
		case *ssa.IndexAddr:
			// element access: loads of the element
			for _, lu := range referrers(u) {
				if ld, ok := lu.(*ssa.UnOp); ok && ld.Op == token.MUL {
					if d.valueUse(ld, seen) != derefNone {
						add(derefElems)
					}
				}
			}
		case *ssa.Slice:
			add(d.valueUse(u, seen))
		case ssa.CallInstruction:
			com := u.Common()
			if com.IsInvoke() && com.Value == x {
				if !guardedNonNil(x, in, nil) {
					add(derefSelf)
				}
				continue
			}
			if bi, ok := com.Value.(*ssa.Builtin); ok {
				_ = bi
				continue
			}
			callees := d.w.Callees(u)
			if len(callees) == 0 && com.Value != x {
				if !guardedNonNil(x, in, nil) {
					add(derefSelf)
				}
				continue
			}
			for _, callee := range callees {
				off := 0
				for ai, a := range com.Args {
					if a != x {
						continue
					}
					k := d.Kind(callee, ai+off)
					if k == derefSelf && guardedNonNil(x, in, nil) {
						continue
					}
					add(k)
				}
			}
		}
	}
	return res
}

// ---- R1 -------------------------------------------------------------------------------------

type consumerUse struct {
	field string
	in    ssa.Instruction
	kind  derefKind
	what  string
}

// fieldOfRecv: v is a load of recv.<F>.
func fieldOfRecv(v ssa.Value, recv ssa.Value) (string, bool) {
	ld, ok := isLoad(v)
	if !ok {
		return "", false
	}
	fa, ok := ld.(*ssa.FieldAddr)
	if !ok || fa.X != recv {
		return "", false
	}
	return fieldAddrName(fa), true
}

// consumerUses lists the dereferencing uses of receiver fields in a method, per instruction.
func (w *World) consumerUses(m *ssa.Function) []consumerUse {
	d := w.Deref()
	recv := ssa.Value(m.Params[0])
	var out []consumerUse
	for _, b := range m.Blocks {
		for _, in := range b.Instrs {
			v, ok := in.(ssa.Value)
			if !ok {
				continue
			}
			f, ok := fieldOfRecv(v, recv)
			if !ok {
				continue
			}
			if !refLike(v.Type()) {
				continue
			}
			// follow this loaded value
			var follow func(x ssa.Value, seen map[ssa.Value]bool)
			follow = func(x ssa.Value, seen map[ssa.Value]bool) {
				if seen[x] {
					return
				}
				seen[x] = true
				for _, u := range referrers(x) {
					switch u := u.(type) {
					case *ssa.FieldAddr:
						if u.X == x {
							out = append(out, consumerUse{f, u, derefSelf, "field access"})
						}
					case *ssa.UnOp:
						if u.Op == token.MUL && u.X == x {
							out = append(out, consumerUse{f, u, derefSelf, "dereference"})
						}
					case *ssa.MakeInterface, *ssa.ChangeInterface, *ssa.ChangeType, *ssa.Slice:
						follow(u.(ssa.Value), seen)
					case *ssa.Phi:
						follow(u, seen)
					case *ssa.TypeAssert:
						if !u.CommaOk {
							out = append(out, consumerUse{f, u, derefSelf, "unchecked type assertion"})
						} else {
							// asserted value: uses under ok are non-nil by construction
						}
					case *ssa.IndexAddr:
						out = append(out, consumerUse{f, u, derefNone, "index"})
						for _, lu := range referrers(u) {
							if ld, ok := lu.(*ssa.UnOp); ok && ld.Op == token.MUL {
								if d.valueUse(ld, map[ssa.Value]bool{}) != derefNone {
									out = append(out, consumerUse{f, ld, derefElems, "element use"})
								}
							}
						}
					case *ssa.Range:
						for _, nu := range referrers(u) {
							if nx, ok := nu.(*ssa.Next); ok {
								for _, eu := range referrers(nx) {
									if ex, ok := eu.(*ssa.Extract); ok && ex.Index == 2 && d.valueUse(ex, map[ssa.Value]bool{}) != derefNone {
										out = append(out, consumerUse{f, ex, derefElems, "element use in range"})
									}
								}
							}
						}
					case ssa.CallInstruction:
						com := u.Common()
						if com.IsInvoke() && com.Value == x {
							out = append(out, consumerUse{f, u, derefSelf, "method call " + com.Method.Name() + "()"})
							continue
						}
						if _, isB := com.Value.(*ssa.Builtin); isB {
							continue
						}
						for _, callee := range w.Callees(u) {
							for ai, a := range com.Args {
								if a != x {
									continue
								}
								switch d.Kind(callee, ai) {
								case derefSelf:
									out = append(out, consumerUse{f, u, derefSelf, "passed to " + funcName(callee) + ", which dereferences it"})
								case derefElems:
									out = append(out, consumerUse{f, u, derefElems, "passed to " + funcName(callee) + ", which dereferences its elements"})
								}
							}
						}
					}
				}
			}
			follow(v, map[ssa.Value]bool{})
		}
	}
	return out
}

// feasibleBlocks prunes the CFG of a consumer method under a site's field environment.
func (w *World) feasibleBlocks(m *ssa.Function, env map[string]AV) map[*ssa.BasicBlock]bool {
	recv := ssa.Value(m.Params[0])
	seen := map[*ssa.BasicBlock]bool{}
	var visit func(b *ssa.BasicBlock)
	decide := func(cond ssa.Value) (canTrue, canFalse bool) {
		neg := false
		for {
			un, ok := cond.(*ssa.UnOp)
			if !ok || un.Op != token.NOT {
				break
			}
			cond, neg = un.X, !neg
		}
		canTrue, canFalse = true, true
		defer func() {
			if neg {
				canTrue, canFalse = canFalse, canTrue
			}
		}()
		strip := func(v ssa.Value) ssa.Value {
			for {
				switch x := v.(type) {
				case *ssa.Convert:
					v = x.X
				case *ssa.ChangeType:
					v = x.X
				default:
					return v
				}
			}
		}
		if f, ok := fieldOfRecv(cond, recv); ok {
			a := env[f]
			if len(a.consts) > 0 && !a.consts["?"] && !a.top {
				canTrue, canFalse = a.consts["true"], a.consts["false"]
			}
			return
		}
		bo, ok := cond.(*ssa.BinOp)
		if !ok {
			return
		}
		x, y := strip(bo.X), strip(bo.Y)
		// field ==/!= constant
		if f, ok := fieldOfRecv(x, recv); ok {
			a := env[f]
			if s, isS := constString(y); isS && (bo.Op == token.EQL || bo.Op == token.NEQ) && len(a.consts) > 0 && !a.consts["?"] && !a.top {
				eq, ne := a.consts[s], len(a.consts) > 1 || !a.consts[s]
				if bo.Op == token.EQL {
					canTrue, canFalse = eq, ne
				} else {
					canTrue, canFalse = ne, eq
				}
				return
			}
			if isNilConst(y) && (bo.Op == token.EQL || bo.Op == token.NEQ) && !a.top && !a.bot {
				isNil, nonNil := a.mayNil, len(a.types) > 0 || a.mayFull || (!a.mayNil)
				if _, isSlice := x.Type().Underlying().(*types.Slice); isSlice {
					nonNil = a.mayFull || !a.mayNil
				}
				if bo.Op == token.EQL {
					canTrue, canFalse = isNil, nonNil
				} else {
					canTrue, canFalse = nonNil, isNil
				}
				return
			}
		}
		// len(field) cmp 0
		if call, ok := x.(*ssa.Call); ok {
			if bi, ok := call.Call.Value.(*ssa.Builtin); ok && bi.Name() == "len" {
				if f, ok := fieldOfRecv(call.Call.Args[0], recv); ok {
					if k, ok := constInt(y); ok && k == 0 {
						a := env[f]
						if a.top || a.bot {
							return
						}
						switch bo.Op {
						case token.GTR, token.NEQ:
							canTrue, canFalse = a.mayFull, a.mayEmpty
						case token.EQL, token.LEQ:
							canTrue, canFalse = a.mayEmpty, a.mayFull
						}
					}
				}
			}
		}
		return
	}
	visit = func(b *ssa.BasicBlock) {
		if seen[b] {
			return
		}
		seen[b] = true
		if w.deadAt(b) >= 0 {
			return
		}
		if iff, ok := b.Instrs[len(b.Instrs)-1].(*ssa.If); ok {
			t, f := decide(iff.Cond)
			if t {
				visit(b.Succs[0])
			}
			if f {
				visit(b.Succs[1])
			}
			return
		}
		for _, s := range b.Succs {
			visit(s)
		}
	}
	visit(m.Blocks[0])
	return seen
}

func (w *World) nodeMethod(ns *NodeStruct, name string) *ssa.Function {
	sel := w.Prog.MethodSets.MethodSet(types.NewPointer(ns.Named)).Lookup(w.Ast.Types, name)
	if sel == nil {
		return nil
	}
	return w.Prog.MethodValue(sel)
}

func ruleC04R1(w *World, r *Report) {
	const rule = "C04/R1"
	r.rule(rule, "for every allocation site of an ast node in the parser and every consumer method (SQL, Pos, End) of its type: each dereferencing use of a receiver field reachable under the site's field environment has may-be-nil = false for the field (for its elements when a slice), unless dominated by a nil test of that field", 125)
	v := w.Value()
	cat := w.Catalog()
	sitesOf := map[string][]*ssa.Alloc{}
	for _, al := range v.sites {
		n := v.nodeStructOf(al.Type())
		sitesOf[n] = append(sitesOf[n], al)
	}
	r.count("allocation sites of ast nodes in the parser", len(v.sites))
	nNoSite := 0
	for _, ns := range cat.Structs {
		sites := sitesOf[ns.Name]
		if len(sites) == 0 {
			nNoSite++
			continue
		}
		for _, mname := range []string{"SQL", "Pos", "End"} {
			m := w.nodeMethod(ns, mname)
			if m == nil || m.Blocks == nil {
				continue
			}
			uses := w.consumerUses(m)
			recv := ssa.Value(m.Params[0])
			// group by field
			type agg struct {
				bad   []string
				where string
				n     int
			}
			byField := map[string]*agg{}
			for _, u := range uses {
				if byField[u.field] == nil {
					byField[u.field] = &agg{where: w.pos(u.in.Pos())}
				}
			}
			for _, al := range sites {
				env := v.SiteEnv(al)
				feas := w.feasibleBlocks(m, env)
				for _, u := range uses {
					a := byField[u.field]
					if !feas[u.in.Block()] {
						continue
					}
					a.n++
					fa := env[u.field]
					same := func(x ssa.Value) bool { f, ok := fieldOfRecv(x, recv); return ok && f == u.field }
					switch u.kind {
					case derefSelf:
						if (fa.mayNil || fa.top || fa.bot) && !guardedNonNil(nil, u.in, same) {
							why := "may be nil"
							if fa.top {
								why = "has an unknown value"
							}
							a.bad = append(a.bad, fmt.Sprintf("site %s in %s: %s %s, %s at %s", w.pos(al.Pos()), funcName(al.Parent()), u.field, why, u.what, w.pos(u.in.Pos())))
						}
					case derefElems:
						if fa.elem != nil && (fa.elem.mayNil || fa.elem.top) {
							a.bad = append(a.bad, fmt.Sprintf("site %s in %s: an element of %s may be nil, %s at %s", w.pos(al.Pos()), funcName(al.Parent()), u.field, u.what, w.pos(u.in.Pos())))
						}
					}
				}
			}
			var fields []string
			for f := range byField {
				fields = append(fields, f)
			}
			sort.Strings(fields)
			for _, f := range fields {
				a := byField[f]
				construct := fmt.Sprintf("ast.%s.%s in (*%s).%s", ns.Name, f, ns.Name, mname)
				if len(a.bad) > 0 {
					r.bad(rule, construct, a.where, "nil dereference on a tree the parser can build: "+strings.Join(uniqSorted(a.bad), "; "))
				} else if a.n == 0 {
					r.trivial(rule, construct, a.where, "no reachable dereferencing use under any site environment")
				} else {
					r.ok(rule, construct, a.where, fmt.Sprintf("%d site/use pairs: field is non-nil, or the use is guarded, at all %d allocation sites", a.n, len(sites)))
				}
			}
		}
	}
	if nNoSite > 0 {
		r.note("%d node structs are never allocated by the parser (no site to check)", nNoSite)
	}
}

// ---- R2: residual sets at panics ------------------------------------------------------------

// astValueAV resolves the abstract value of a value inside package ast (or any consumer) in terms of
// the VALUE analysis of the parser: loads of node fields, parameters (joined over call sites), phis.
func (w *World) consumerAV(x ssa.Value, seen map[ssa.Value]bool) AV {
	v := w.Value()
	if seen[x] {
		return avBot()
	}
	seen[x] = true
	defer delete(seen, x) // a cycle guard, not a memo: the same value may be reached along several call paths
	switch y := x.(type) {
	case *ssa.Const:
		return v.constAV(y)
	case *ssa.Parameter:
		fn := y.Parent()
		if fnPkgPath(fn) == modRoot {
			return v.get(y)
		}
		idx := -1
		for i, p := range fn.Params {
			if p == y {
				idx = i
			}
		}
		acc := avBot()
		callers := w.callersOf(fn)
		if len(callers) == 0 {
			return avTop()
		}
		for _, c := range callers {
			if !corePkg(fnPkgPath(c.Parent())) {
				continue // tools/examples/tests construct their own trees
			}
			com := c.Common()
			ai := idx
			var arg ssa.Value
			if com.IsInvoke() {
				if idx == 0 {
					arg = com.Value
				} else {
					ai = idx - 1
				}
			}
			if arg == nil {
				if ai >= len(com.Args) {
					continue
				}
				arg = com.Args[ai]
			}
			acc = avJoin(acc, w.consumerAV(arg, seen))
		}
		// only values of the parameter's static type can arrive
		if len(acc.types) > 0 {
			flt := map[string]bool{}
			for t := range acc.types {
				if v.typeMatches(t, y.Type()) {
					flt[t] = true
				}
			}
			acc.types = flt
			if _, isPtr := y.Type().Underlying().(*types.Pointer); isPtr && idx == 0 && fn.Signature.Recv() != nil {
				acc.mayNil = false // a method body runs: the receiver was dereferenced or is checked by R1 at the call site
			}
		}
		return acc
	case *ssa.UnOp:
		if y.Op == token.MUL {
			if fa, ok := y.X.(*ssa.FieldAddr); ok {
				if n := namedOf(fa.X.Type()); n != nil && n.Obj().Pkg() != nil && n.Obj().Pkg().Path() == modRoot+"/ast" {
					return v.FieldAV(n.Obj().Name(), fieldAddrName(fa))
				}
			}
			if ia, ok := y.X.(*ssa.IndexAddr); ok {
				a := w.consumerAV(ia.X, seen)
				if a.elem != nil {
					return *a.elem
				}
				return a
			}
		}
		return avTop()
	case *ssa.Phi:
		acc := avBot()
		for _, e := range y.Edges {
			acc = avJoin(acc, w.consumerAV(e, seen))
		}
		return acc
	case *ssa.MakeInterface:
		return w.consumerAV(y.X, seen)
	case *ssa.ChangeInterface:
		return w.consumerAV(y.X, seen)
	case *ssa.ChangeType:
		return w.consumerAV(y.X, seen)
	case *ssa.Convert:
		return w.consumerAV(y.X, seen)
	case *ssa.Call:
		// the result of a helper of package ast (wrapNode(node) in sqlOpt): what its returns can be
		if callee := y.Call.StaticCallee(); callee != nil && callee.Blocks != nil && fnPkgPath(callee) == modRoot+"/ast" && callee.Signature.Results().Len() == 1 {
			acc := avBot()
			for _, b := range callee.Blocks {
				if ret, ok := b.Instrs[len(b.Instrs)-1].(*ssa.Return); ok && len(ret.Results) == 1 {
					acc = avJoin(acc, w.consumerAV(ret.Results[0], seen))
				}
			}
			return acc
		}
	case *ssa.Extract:
		if ta, ok := y.Tuple.(*ssa.TypeAssert); ok && y.Index == 0 {
			a := w.consumerAV(ta.X, seen)
			out := AV{top: a.top}
			for t := range a.types {
				if v.typeMatches(t, ta.AssertedType) {
					if out.types == nil {
						out.types = map[string]bool{}
					}
					out.types[t] = true
				}
			}
			return out
		}
		if nx, ok := y.Tuple.(*ssa.Next); ok && y.Index == 2 {
			if rg, ok := nx.Iter.(*ssa.Range); ok {
				a := w.consumerAV(rg.X, seen)
				if a.elem != nil {
					return *a.elem
				}
			}
		}
	case *ssa.Alloc:
		return v.get(y)
	}
	if fnPkgPath(x.Parent()) == modRoot {
		return v.get(x)
	}
	return avTop()
}

// deadPanic decides whether a panic with a non-*Error payload is unreachable: the values switched on
// along every path into it have no residual type / constant.
func (w *World) deadPanic(p *ssa.Panic) (Status, string) {
	fn := p.Parent()
	v := w.Value()
	type residual struct {
		types  map[ssa.Value]map[string]bool
		consts map[ssa.Value]map[string]bool
	}
	// Walk the CFG forward from the entry, tracking for each switched value the residual set.
	typesOf := func(x ssa.Value) (map[string]bool, bool) {
		a := w.consumerAV(x, map[ssa.Value]bool{})
		if a.top || a.bot {
			return nil, false
		}
		out := map[string]bool{}
		for t := range a.types {
			out[t] = true
		}
		if a.mayNil {
			out["<nil>"] = true
		}
		return out, true
	}
	constsOf := func(x ssa.Value) (map[string]bool, bool) {
		a := w.consumerAV(x, map[ssa.Value]bool{})
		if a.top || a.bot || a.consts["?"] || len(a.consts) == 0 {
			return nil, false
		}
		out := map[string]bool{}
		for c := range a.consts {
			out[c] = true
		}
		return out, true
	}
	copyRes := func(r residual) residual {
		n := residual{map[ssa.Value]map[string]bool{}, map[ssa.Value]map[string]bool{}}
		for k, s := range r.types {
			m := map[string]bool{}
			for x := range s {
				m[x] = true
			}
			n.types[k] = m
		}
		for k, s := range r.consts {
			m := map[string]bool{}
			for x := range s {
				m[x] = true
			}
			n.consts[k] = m
		}
		return n
	}
	var witnesses []string
	undecided := ""
	seenState := map[string]bool{}
	var walk func(b *ssa.BasicBlock, res residual, depth int)
	keyOf := func(b *ssa.BasicBlock, res residual) string {
		var parts []string
		for k, s := range res.types {
			parts = append(parts, k.Name()+"="+strings.Join(sortedKeys(s), ","))
		}
		for k, s := range res.consts {
			parts = append(parts, k.Name()+"#"+strings.Join(sortedKeys(s), ","))
		}
		sort.Strings(parts)
		return fmt.Sprint(b.Index) + "|" + strings.Join(parts, ";")
	}
	// field-load identity for constants: loads of the same field of the same base value are one variable
	canon := map[string]ssa.Value{}
	canonLoad := func(x ssa.Value) ssa.Value {
		if ld, ok := isLoad(x); ok {
			if fa, ok := ld.(*ssa.FieldAddr); ok {
				k := fa.X.Name() + "." + fieldAddrName(fa)
				if c, ok := canon[k]; ok {
					return c
				}
				canon[k] = x
			}
		}
		return x
	}
	walk = func(b *ssa.BasicBlock, res residual, depth int) {
		if depth > 400 || undecided != "" {
			return
		}
		k := keyOf(b, res)
		if seenState[k] {
			return
		}
		seenState[k] = true

		for _, in := range b.Instrs {
			if in == ssa.Instruction(p) {
				var parts []string
				for val, s := range res.types {
					if len(s) > 0 {
						parts = append(parts, fmt.Sprintf("%s may be %v", val.Name(), sortedKeys(s)))
					}
				}
				for val, s := range res.consts {
					if len(s) > 0 {
						parts = append(parts, fmt.Sprintf("%s may be %v", val.Name(), sortedKeys(s)))
					}
				}
				sort.Strings(parts)
				if len(parts) == 0 {
					parts = []string{"(no switched value on this path)"}
				}
				witnesses = append(witnesses, strings.Join(parts, ", "))
				return
			}
		}
		if w.deadAt(b) >= 0 {
			return
		}
		iff, ok := b.Instrs[len(b.Instrs)-1].(*ssa.If)
		if !ok {
			for _, s := range b.Succs {
				walk(s, res, depth+1)
			}
			return
		}
		// type test?
		if ex, ok := iff.Cond.(*ssa.Extract); ok && ex.Index == 1 {
			if ta, ok := ex.Tuple.(*ssa.TypeAssert); ok {
				x := ta.X
				if _, have := res.types[x]; !have {
					ts, ok := typesOf(x)
					if !ok {
						undecided = "cannot enumerate the types flowing to " + x.Name() + " at " + w.pos(ta.Pos())
						return
					}
					res = copyRes(res)
					res.types[x] = ts
				}
				yes, no := copyRes(res), copyRes(res)
				anyYes := false
				for t := range res.types[x] {
					if t != "<nil>" && v.typeMatches(t, ta.AssertedType) {
						delete(no.types[x], t)
						anyYes = true
					} else {
						delete(yes.types[x], t)
					}
				}
				if anyYes {
					walk(b.Succs[0], yes, depth+1)
				}
				if len(no.types[x]) > 0 {
					walk(b.Succs[1], no, depth+1)
				}
				return
			}
		}
		// constant test?
		if bo, ok := iff.Cond.(*ssa.BinOp); ok && (bo.Op == token.EQL || bo.Op == token.NEQ) {
			if c, isC := constString(bo.Y); isC {
				x := canonLoad(bo.X)
				if _, have := res.consts[x]; !have {
					if cs, ok := constsOf(bo.X); ok {
						res = copyRes(res)
						res.consts[x] = cs
					}
				}
				if cs, have := res.consts[x]; have {
					eq, ne := copyRes(res), copyRes(res)
					for k := range cs {
						if k == c {
							delete(ne.consts[x], k)
						} else {
							delete(eq.consts[x], k)
						}
					}
					tSucc, fSucc := b.Succs[0], b.Succs[1]
					if bo.Op == token.NEQ {
						tSucc, fSucc = fSucc, tSucc
					}
					if cs[c] {
						walk(tSucc, eq, depth+1)
					}
					if len(ne.consts[x]) > 0 {
						walk(fSucc, ne, depth+1)
					}
					return
				}
			}
		}
		// membership test in a constant package-level table (`v, ok := table[x.Op]; if ok`)?
		if ex, ok := iff.Cond.(*ssa.Extract); ok && ex.Index == 1 {
			if lk, ok := ex.Tuple.(*ssa.Lookup); ok && lk.CommaOk {
				if cm := w.constMapLoad(lk.X); cm != nil {
					idx := lk.Index
					for {
						if ct, ok := idx.(*ssa.ChangeType); ok {
							idx = ct.X
							continue
						}
						break
					}
					x := canonLoad(idx)
					if _, have := res.consts[x]; !have {
						if cs, ok := constsOf(idx); ok {
							res = copyRes(res)
							res.consts[x] = cs
						}
					}
					if cs, have := res.consts[x]; have {
						in, out := copyRes(res), copyRes(res)
						anyIn := false
						for k := range cs {
							if cm.keys[k] {
								delete(out.consts[x], k)
								anyIn = true
							} else {
								delete(in.consts[x], k)
							}
						}
						if anyIn {
							walk(b.Succs[0], in, depth+1)
						}
						if len(out.consts[x]) > 0 {
							walk(b.Succs[1], out, depth+1)
						}
						return
					}
				}
			}
		}
		for _, s := range b.Succs {
			walk(s, res, depth+1)
		}
	}
	walk(fn.Blocks[0], residual{map[ssa.Value]map[string]bool{}, map[ssa.Value]map[string]bool{}}, 0)
	if os.Getenv("C04DEBUG") != "" {
		fmt.Println("DEADPANIC", funcName(fn), "states", len(seenState), "witnesses", witnesses, "undecided", undecided)
	}
	if undecided != "" {
		return Undecided, undecided
	}
	if len(witnesses) == 0 {
		return Discharged, "unreachable: every type/constant that can flow to the switched value is handled by a case"
	}
	onlyUnknown := true
	for _, wt := range witnesses {
		if wt != "(no switched value on this path)" {
			onlyUnknown = false
		}
	}
	if onlyUnknown {
		// the one such panic of the lexer is guarded by a byte comparison: decided by the byte-fact interpretation
		if funcName(fn) == "(*Lexer).peekDelimiter" {
			if n, fails := w.delimiterPanicDead(); len(fails) == 0 && n > 0 {
				return Discharged, fmt.Sprintf("unreachable: in each of the %d calling contexts the byte under the cursor was compared equal to a quote before the literal reader was entered (LEXBOUNDS byte facts, C03/R9)", n)
			}
		}
		return Undecided, "reachability depends on a condition that is neither a type test nor a constant test of a tracked value"
	}
	return Violated, "reachable with " + strings.Join(uniqSorted(witnesses), " | ")
}

func ruleC04R2(w *World, r *Report) {
	const rule = "C04/R2"
	r.rule(rule, "every panic with a non-*Error payload in the consumers (package ast) and in the parser is unreachable: the cases of the enclosing type/constant switches cover every concrete type and constant that the VALUE analysis finds flowing to the switched value", 2)
	n := 0
	for _, fn := range w.ModFns {
		p := fnPkgPath(fn)
		if p != modRoot && p != modRoot+"/ast" {
			continue
		}
		if fn.TypeParams().Len() > 0 && len(fn.TypeArgs()) == 0 {
			continue
		}
		live := w.liveBlocks(fn)
		cnt := 0
		for _, b := range fn.Blocks {
			if !live[b] {
				continue
			}
			for _, in := range b.Instrs {
				pn, ok := in.(*ssa.Panic)
				if !ok || w.panicKind(pn) != "other" {
					continue
				}
				n++
				cnt++
				construct := "panic(non-*Error) in " + funcName(fn)
				if cnt > 1 {
					construct += fmt.Sprintf(" (%d)", cnt)
				}
				st, detail := w.deadPanic(pn)
				switch st {
				case Discharged:
					r.ok(rule, construct, w.pos(pn.Pos()), detail)
				case Violated:
					r.bad(rule, construct, w.pos(pn.Pos()), "this panic is reachable on a tree the parser can build: "+detail)
				default:
					r.undecided(rule, construct, w.pos(pn.Pos()), detail)
				}
			}
		}
	}
	r.count("explicit non-*Error panics", n)
}

// ---- R3 ---------------------------------------------------------------------------------------

func ruleC04R3(w *World, r *Report) {
	const rule = "C04/R3"
	r.rule(rule, "in the consumer files of package ast every index and slice expression is within bounds, for any tree: LEXBOUNDS (linear facts about lengths and indices, callees of the package followed in their calling context) proves 0 <= index < length at each of them; two loads of one field path are one value, because the consumers do not write the tree (C18/R7)", 20)
	defer debug.SetGCPercent(debug.SetGCPercent(1000))
	e := w.newLexBounds()
	e.astScope = true
	e.indexText(w.Ast, func(fname string) bool { return !strings.HasSuffix(fname, "options.go") })
	e.trace = verboseRule() != "" && verboseRule() != "1" && strings.HasPrefix(rule, verboseRule())
	var fns []*ssa.Function
	for _, fn := range w.ModFns {
		if fnPkgPath(fn) != modRoot+"/ast" || fn.Parent() != nil || fn.Synthetic != "" || !e.inScope(fn) {
			continue
		}
		if fn.TypeParams().Len() > 0 && len(fn.TypeArgs()) == 0 {
			continue
		}
		fns = append(fns, fn)
	}
	// first the functions the outside can call (exported functions and methods); the unexported helpers are followed in
	// the context of each of their calls, and interpreted on their own only when nothing of the package calls them
	for pass := 0; pass < 2; pass++ {
		for _, fn := range fns {
			exported := token.IsExported(fn.Name()) || fn.Signature.Recv() != nil
			if (pass == 0) != exported || e.visited[fn] {
				continue
			}
			e.runRoot(fn, nil)
		}
	}
	n := 0
	for _, ob := range e.results() {
		if ob.rule != "C03/R6" {
			continue
		}
		n++
		if ob.failed == 0 {
			r.ok(rule, ob.construct, ob.where, fmt.Sprintf("proved in %d context(s)", ob.total))
		} else {
			var ds []string
			for d := range ob.details {
				ds = append(ds, d)
			}
			sort.Strings(ds)
			r.bad(rule, ob.construct, ob.where, fmt.Sprintf("%d of %d context(s): %s", ob.failed, ob.total, strings.Join(ds, " | ")))
		}
	}
	for _, nt := range uniqSorted(e.notes) {
		r.undecided(rule, "engine limit: "+nt, "-", "the interpretation lost track here")
	}
	r.count("functions of package ast interpreted", len(e.visited))
}

func (w *World) indexCovered(ia *ssa.IndexAddr) bool {
	b := ia.Block()
	sameSlice := func(v ssa.Value) bool {
		if v == ia.X {
			return true
		}
		// another load of the same field / the same parameter
		l1, ok1 := isLoad(v)
		l2, ok2 := isLoad(ia.X)
		if ok1 && ok2 {
			f1, a := l1.(*ssa.FieldAddr)
			f2, b := l2.(*ssa.FieldAddr)
			if a && b && f1.X == f2.X && f1.Field == f2.Field {
				return true
			}
		}
		return false
	}
	for d := b; d != nil; d = d.Idom() {
		p := d.Idom()
		if p == nil {
			break
		}
		iff, ok := p.Instrs[len(p.Instrs)-1].(*ssa.If)
		if !ok {
			continue
		}
		bo, ok := iff.Cond.(*ssa.BinOp)
		if !ok {
			continue
		}
		lenOf := func(v ssa.Value) bool {
			c, ok := v.(*ssa.Call)
			if !ok {
				return false
			}
			bi, ok := c.Call.Value.(*ssa.Builtin)
			return ok && bi.Name() == "len" && sameSlice(c.Call.Args[0])
		}
		var okSucc *ssa.BasicBlock
		switch {
		case lenOf(bo.Y) && bo.Op == token.LSS: // i < len(s)
			okSucc = p.Succs[0]
		case lenOf(bo.X) && bo.Op == token.GTR: // len(s) > k
			okSucc = p.Succs[0]
		case lenOf(bo.X) && bo.Op == token.EQL: // len(s) == 0 -> else branch
			if k, ok := constInt(bo.Y); ok && k == 0 {
				okSucc = p.Succs[1]
			}
		case lenOf(bo.X) && bo.Op == token.NEQ:
			if k, ok := constInt(bo.Y); ok && k == 0 {
				okSucc = p.Succs[0]
			}
		case bo.Op == token.GEQ: // i >= 0 with i starting at len-1 (descending loops)
			okSucc = p.Succs[0]
		}
		if okSucc != nil && (okSucc == b || okSucc.Dominates(b)) {
			return true
		}
	}
	return false
}
