package main

import "testing"

// Byte facts: rewriting through an equality on elimination, dropping without one, join by index, refutation.
func TestByteFactsEliminateRewrites(t *testing.T) {
	at := newAtomTable()
	P := at.get("P", "pos", false)
	s := at.get("s", "snap", false)
	i := at.get("i", "i", false)
	st := emptyState().eq(linAtom(s), linAtom(P))
	var q bset
	q.add('"')
	q.add('\'')
	st = st.withByte(linAtom(s).add(linAtom(i)), q)
	// the snapshot goes away: the fact is about Buffer[P+i]
	st2 := st.eliminate(at, map[atomID]bool{s: true})
	if set, ok := st2.byteSet(linAtom(P).add(linAtom(i))); !ok || !set.has('"') || set.has('x') {
		t.Fatalf("fact not rewritten to P+i: %s", at.showState(st2))
	}
	// the cursor moves by i: P' = P + i, the fact is about Buffer[P']
	pp := at.get("pp", "pos'", false)
	st3 := st2.eq(linAtom(pp), linAtom(P).add(linAtom(i))).eliminate(at, map[atomID]bool{P: true})
	if _, ok := st3.byteSet(linAtom(pp)); !ok {
		t.Fatalf("fact not rewritten to pos': %s", at.showState(st3))
	}
	// an atom without a defining equality takes the fact with it
	st4 := st2.eliminate(at, map[atomID]bool{i: true})
	if len(st4.bf) != 0 {
		t.Fatalf("fact about an unknown index kept: %s", at.showState(st4))
	}
}

func TestByteFactsJoinAndRefute(t *testing.T) {
	at := newAtomTable()
	P := at.get("P", "pos", false)
	i := at.get("i", "i", false)
	var a, b bset
	a.add('"')
	b.add('\'')
	s1 := emptyState().ge(linAtom(i), linConst(0)).withByte(linAtom(P).add(linAtom(i)), a)
	s2 := emptyState().ge(linAtom(i), linConst(0)).withByte(linAtom(P).add(linAtom(i)), b)
	j := joinLin(at, []*lstate{s1, s2}, nil, nil)
	set, ok := j.byteSet(linAtom(P).add(linAtom(i)))
	if !ok || !set.has('"') || !set.has('\'') || set.has('a') {
		t.Fatalf("join is not the union: %s", at.showState(j))
	}
	// an empty intersection makes the state unreachable
	if s1.withByte(linAtom(P).add(linAtom(i)), b) != nil {
		t.Fatal("contradictory byte facts must give the unreachable state")
	}
	// refutation: Buffer[P] is a letter, Buffer[P+i] is not; i <= 0 with i >= 0 makes both the same byte
	var letters, nonLetters bset
	for c := 0; c < 256; c++ {
		if c >= 'a' && c <= 'z' {
			letters.add(byte(c))
		} else {
			nonLetters.add(byte(c))
		}
	}
	s := emptyState().ge(linAtom(i), linConst(0)).withByte(linAtom(P), letters).withByte(linAtom(P).add(linAtom(i)), nonLetters)
	if s.bytesContradict(at) {
		t.Fatal("no contradiction without i = 0")
	}
	if !s.with(lfact{l: linAtom(i).scale(-1)}).bytesContradict(at) {
		t.Fatal("i <= 0 must be refuted")
	}
}
