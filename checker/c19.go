package main

import (
	"bytes"
	"fmt"
	"go/ast"
	goparser "go/parser"
	"go/printer"
	"go/token"
	"go/types"
	"strings"
)

func init() {
	register(&propDef{
		ID: "C19",
		Explanation: "Translation validation of the generated code against the node documentation, without running the generators: " +
			"R1 every node struct's 'pos ='/'end =' specification is parsed by the checker's own parser of the documented EBNF, type-checked against the struct's fields, translated to the Go expression the pos_util helpers denote and compared as a syntax tree with the body of the committed Pos()/End() method (one return statement each; no missing and no extra methods); the helpers themselves are checked against their contracts on their SSA form. " +
			"R2 walkInternal has exactly one case per node struct and pushes exactly its node-typed fields (by go/types, not by name heuristics) in reverse declaration order with the field's own name. " +
			"R3 the emitter methods of tools/util/poslang name the helper whose contract R1 checked. " +
			"Decides: the committed methods are the translation of the committed specifications. Does not decide: byte-for-byte generator output, agreement of the reflective interpreter at run time.",
		Rules: []ruleFn{ruleC19R1, ruleC19Helpers, ruleC17R1, ruleC19R3, ruleC19R4},
	})
}

func exprText(fset *token.FileSet, e ast.Node) string {
	var b bytes.Buffer
	printer.Fprint(&b, fset, e)
	return strings.Join(strings.Fields(b.String()), " ")
}

// checkSpecTypes type-checks a position expression against the fields of the struct.
func (c *Catalog) checkSpecTypes(ns *NodeStruct, e PExpr) []string {
	var errs []string
	need := func(name, want string) {
		f := ns.field(name)
		if f == nil {
			errs = append(errs, fmt.Sprintf("field %s does not exist", name))
			return
		}
		t := f.Type()
		ok := false
		switch want {
		case "pos":
			ok = c.isPos(t)
		case "node":
			ok = c.nodeFieldKind(t) == "single"
		case "slice":
			ok = c.nodeFieldKind(t) == "slice"
		case "string":
			b, isb := t.Underlying().(*types.Basic)
			ok = isb && b.Info()&types.IsString != 0
		case "bool":
			b, isb := t.Underlying().(*types.Basic)
			ok = isb && b.Info()&types.IsBoolean != 0
		}
		if !ok {
			errs = append(errs, fmt.Sprintf("field %s has type %s, used as %s", name, t, want))
		}
	}
	var pi func(IExpr)
	pi = func(i IExpr) {
		switch i := i.(type) {
		case *ILen:
			need(i.Var, "string")
		case *ICond:
			need(i.Var, "bool")
			pi(i.T)
			pi(i.E)
		}
	}
	var pn func(NExpr)
	pn = func(n NExpr) {
		switch n := n.(type) {
		case *NVar:
			need(n.Name, "node")
		case *NIndex:
			need(n.Slice, "slice")
			pi(n.Index)
		case *NLast:
			need(n.Slice, "slice")
		case *NChoice:
			for _, a := range n.Alts {
				pn(a)
			}
		}
	}
	var pp func(PExpr)
	pp = func(p PExpr) {
		switch p := p.(type) {
		case *PChoice:
			for _, a := range p.Alts {
				pp(a)
			}
		case *PAdd:
			pp(p.X)
			pi(p.N)
		case *PVar:
			need(p.Name, "pos")
		case *PNode:
			pn(p.N)
		}
	}
	pp(e)
	return errs
}

func ruleC19R1(w *World, r *Report) {
	const rule = "C19/R1"
	r.rule(rule, "for every node struct, the body of Pos()/End() in package ast is exactly the Go translation of the struct's 'pos ='/'end =' specification (parsed by the checker's own POSLANG parser and type-checked against the fields); every node struct has both methods, and no Pos/End method exists without a specification", 250)
	cat := w.Catalog()
	if len(cat.Structs) == 0 {
		r.errorf("no node structs found in package ast")
		return
	}
	// collect Pos/End method declarations of package ast
	type mkey struct{ recv, name string }
	decls := map[mkey]*ast.FuncDecl{}
	for _, f := range w.Ast.Syntax {
		for _, d := range f.Decls {
			fd, ok := d.(*ast.FuncDecl)
			if !ok || fd.Recv == nil || (fd.Name.Name != "Pos" && fd.Name.Name != "End") {
				continue
			}
			obj, _ := w.Ast.TypesInfo.Defs[fd.Name].(*types.Func)
			if obj == nil {
				continue
			}
			recv := obj.Type().(*types.Signature).Recv().Type()
			n := namedOf(recv)
			if n == nil {
				continue
			}
			k := mkey{n.Obj().Name(), fd.Name.Name}
			if _, dup := decls[k]; dup {
				r.bad(rule, "ast."+k.recv+"."+k.name, w.pos(fd.Pos()), "method declared twice")
			}
			decls[k] = fd
		}
	}
	r.count("node structs", len(cat.Structs))
	for _, ns := range cat.Structs {
		for _, which := range []string{"Pos", "End"} {
			construct := "ast." + ns.Name + "." + which
			spec, expr := ns.PosSpec, ns.PosExpr
			if which == "End" {
				spec, expr = ns.EndSpec, ns.EndExpr
			}
			fd := decls[mkey{ns.Name, which}]
			delete(decls, mkey{ns.Name, which})
			where := w.pos(ns.DeclPos)
			if spec == "" {
				r.bad(rule, construct, where, "node struct has no '"+strings.ToLower(which)+" =' specification in its documentation")
				continue
			}
			if expr == nil {
				r.bad(rule, construct, where, "specification does not parse with the documented EBNF: "+ns.ParseErr+" ("+spec+")")
				continue
			}
			if errs := cat.checkSpecTypes(ns, expr); len(errs) > 0 {
				r.bad(rule, construct, where, "specification '"+spec+"' is ill-typed for the struct: "+strings.Join(errs, "; "))
				continue
			}
			if fd == nil {
				r.bad(rule, construct, where, "no "+which+"() method is declared for this node struct")
				continue
			}
			where = w.pos(fd.Pos())
			if _, isPtr := fd.Recv.List[0].Type.(*ast.StarExpr); !isPtr {
				r.bad(rule, construct, where, "receiver must be the pointer type")
				continue
			}
			x := "_"
			if len(fd.Recv.List[0].Names) == 1 {
				x = fd.Recv.List[0].Names[0].Name
			}
			if fd.Body == nil || len(fd.Body.List) != 1 {
				r.bad(rule, construct, where, "method body is not a single return statement")
				continue
			}
			ret, ok := fd.Body.List[0].(*ast.ReturnStmt)
			if !ok || len(ret.Results) != 1 {
				r.bad(rule, construct, where, "method body is not a single return statement")
				continue
			}
			want := pToGo(expr, x)
			got := exprText(w.Fset, ret.Results[0])
			if got != want {
				// the generator may name a helper of its own for a special case (nodeSliceFirst(xs) for Xs[0]); such a
				// helper counts as the canonical call whose table 'conditions -> term' it has
				if cg := w.canonicalHelpers(got); cg == want {
					r.ok(rule, construct, where, fmt.Sprintf("spec '%s' == %s (with %s read as its canonical equivalent)", spec, got, got))
					continue
				}
			}
			if got != want && flatPosAdd(got) == flatPosAdd(want) {
				// posAdd(posAdd(p, 1), len(s)) and posAdd(p, 1+len(s)) are the same function of p: posAdd keeps an invalid
				// position invalid and the addends (integer literals, lengths) are not negative
				r.ok(rule, construct, where, fmt.Sprintf("spec '%s' == %s (chained posAdd of non-negative addends read as one)", spec, got))
				continue
			}
			if got != want {
				r.bad(rule, construct, where, fmt.Sprintf("method returns %s but the specification '%s' translates to %s", got, spec, want))
				continue
			}
			r.ok(rule, construct, where, fmt.Sprintf("spec '%s' == %s", spec, got))
		}
	}
	for k, fd := range decls {
		// a Pos/End method of a type that is no catalogued node struct (wrappers etc. are fine if not in ast.go)
		if cat.ByName[k.recv] == nil {
			obj := w.Ast.Types.Scope().Lookup(k.recv)
			if obj != nil && (types.Implements(types.NewPointer(obj.Type()), cat.NodeIfc) || types.Implements(obj.Type(), cat.NodeIfc)) {
				r.bad(rule, "ast."+k.recv+"."+k.name, w.pos(fd.Pos()), "Pos/End method on a node type that has no documented specification")
			}
		}
	}
}

// ruleC19R3: in tools/util/poslang every expression type that has an Eval* method also has the
// matching *ToGo method, and the helper named in the format string of each *ToGo is the one R1
// translated to.
func ruleC19R3(w *World, r *Report) {
	const rule = "C19/R3"
	r.rule(rule, "tools/util/poslang: each expression type has both an interpreter method (Eval*) and an emitter method (*ToGo), and each emitter names the ast helper that the checker's translation of the same construct names (posChoice, posAdd, nodePos, nodeEnd, nodeChoice, nodeSliceIndex, nodeSliceLast, wrapNode, len, ifThenElse)", 5)
	pl := w.Pkgs[modRoot+"/tools/util/poslang"]
	if pl == nil {
		r.errorf("package tools/util/poslang not loaded")
		return
	}
	// expected helper per (type, method)
	want := map[string]string{
		"NodePos.PosExprToGo":         "nodePos(",
		"NodeEnd.PosExprToGo":         "nodeEnd(",
		"PosChoice.PosExprToGo":       "posChoice(",
		"PosAdd.PosExprToGo":          "posAdd(",
		"NodeChoice.NodeExprToGo":     "nodeChoice(",
		"NodeSliceIndex.NodeExprToGo": "nodeSliceIndex(",
		"NodeSliceLast.NodeExprToGo":  "nodeSliceLast(",
		"Len.IntExprToGo":             "len(",
		"IfThenElse.IntExprToGo":      "ifThenElse(",
		"Var.NodeExprToGo":            "wrapNode(",
	}
	type tm struct{ evals, togos map[string]*ast.FuncDecl }
	byType := map[string]*tm{}
	for _, f := range pl.Syntax {
		for _, d := range f.Decls {
			fd, ok := d.(*ast.FuncDecl)
			if !ok || fd.Recv == nil {
				continue
			}
			obj, _ := pl.TypesInfo.Defs[fd.Name].(*types.Func)
			if obj == nil {
				continue
			}
			n := namedOf(obj.Type().(*types.Signature).Recv().Type())
			if n == nil {
				continue
			}
			t := byType[n.Obj().Name()]
			if t == nil {
				t = &tm{map[string]*ast.FuncDecl{}, map[string]*ast.FuncDecl{}}
				byType[n.Obj().Name()] = t
			}
			if !ast.IsExported(fd.Name.Name) {
				continue // a private helper of the emitters (selectorToGo), not a method of the expression interfaces
			}
			switch {
			case strings.HasPrefix(fd.Name.Name, "Eval"):
				t.evals[strings.TrimPrefix(fd.Name.Name, "Eval")] = fd
			case strings.HasSuffix(fd.Name.Name, "ToGo"):
				t.togos[strings.TrimSuffix(strings.TrimSuffix(fd.Name.Name, "ToGo"), "Expr")] = fd
			}
		}
	}
	for tn, t := range byType {
		for k, fd := range t.evals {
			if t.togos[k] == nil {
				r.bad(rule, "poslang."+tn+".Eval"+k, w.pos(fd.Pos()), "interpreter method without the sibling emitter method "+k+"ExprToGo")
			} else {
				r.ok(rule, "poslang."+tn+".Eval"+k, w.pos(fd.Pos()), "has sibling emitter "+k+"ExprToGo")
			}
		}
		for k, fd := range t.togos {
			if t.evals[k] == nil {
				r.bad(rule, "poslang."+tn+"."+k+"ExprToGo", w.pos(fd.Pos()), "emitter method without the sibling interpreter method Eval"+k)
			}
		}
	}
	for key, helper := range want {
		parts := strings.SplitN(key, ".", 2)
		t := byType[parts[0]]
		var fd *ast.FuncDecl
		if t != nil {
			fd = t.togos[strings.TrimSuffix(strings.TrimSuffix(parts[1], "ToGo"), "Expr")]
		}
		if fd == nil {
			r.bad(rule, "poslang."+key, "-", "emitter method not found")
			continue
		}
		// the format string(s) used in the body
		var lits []string
		ast.Inspect(fd.Body, func(n ast.Node) bool {
			if bl, ok := n.(*ast.BasicLit); ok && bl.Kind == token.STRING {
				lits = append(lits, bl.Value)
			}
			return true
		})
		found := false
		for _, l := range lits {
			if strings.HasPrefix(strings.Trim(l, "\"`"), helper) {
				found = true
			}
		}
		if found {
			r.ok(rule, "poslang."+key, w.pos(fd.Pos()), "emits "+helper+"…)")
		} else {
			r.bad(rule, "poslang."+key, w.pos(fd.Pos()), fmt.Sprintf("emitter does not emit a call to %s…) (format strings: %v)", helper, lits))
		}
	}
}

// flatPosAdd: the text of a Go expression with chains posAdd(posAdd(a, b), c) of non-negative addends (integer literals,
// len(…)) rewritten to posAdd(a, b+c), addends in source order.
func flatPosAdd(text string) string {
	e, err := goparser.ParseExpr(text)
	if err != nil {
		return text
	}
	nonNeg := func(x ast.Expr) bool {
		ok := true
		ast.Inspect(x, func(n ast.Node) bool {
			switch y := n.(type) {
			case *ast.BinaryExpr:
				if y.Op != token.ADD {
					ok = false
				}
			case *ast.BasicLit:
				if y.Kind != token.INT {
					ok = false
				}
			case *ast.CallExpr:
				if id, isId := y.Fun.(*ast.Ident); !isId || id.Name != "len" {
					ok = false
				}
				return false
			case *ast.ParenExpr:
			default:
				if n != nil {
					ok = false
				}
			}
			return ok
		})
		return ok
	}
	var addends func(x ast.Expr) []string
	addends = func(x ast.Expr) []string {
		x = ast.Unparen(x)
		if be, ok := x.(*ast.BinaryExpr); ok && be.Op == token.ADD {
			return append(addends(be.X), addends(be.Y)...)
		}
		return []string{types.ExprString(x)}
	}
	var rw func(x ast.Expr) string
	rw = func(x ast.Expr) string {
		switch y := x.(type) {
		case *ast.CallExpr:
			if id, ok := y.Fun.(*ast.Ident); ok && id.Name == "posAdd" && len(y.Args) == 2 && nonNeg(y.Args[1]) {
				base := y.Args[0]
				sum := addends(y.Args[1])
				for {
					in, ok := ast.Unparen(base).(*ast.CallExpr)
					if !ok {
						break
					}
					iid, ok := in.Fun.(*ast.Ident)
					if !ok || iid.Name != "posAdd" || len(in.Args) != 2 || !nonNeg(in.Args[1]) {
						break
					}
					sum = append(addends(in.Args[1]), sum...)
					base = in.Args[0]
				}
				return "posAdd(" + rw(base) + ", " + strings.Join(sum, "+") + ")"
			}
			var args []string
			for _, a := range y.Args {
				args = append(args, rw(a))
			}
			return types.ExprString(y.Fun) + "(" + strings.Join(args, ", ") + ")"
		case *ast.ParenExpr:
			return "(" + rw(y.X) + ")"
		}
		return types.ExprString(x)
	}
	return rw(e)
}
