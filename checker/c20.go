package main

import (
	"fmt"
	"go/token"
	"strings"

	"golang.org/x/tools/go/ssa"
)

func init() {
	register(&propDef{
		ID: "C20",
		Explanation: "Value-identity (dataflow) rules over the SSA of token/file.go and error.go — the parts of the property that are visible in the shape of the code: " +
			"R1 the Position record: (*File).Position stores its pos/end parameters in Pos/End and the two results of ResolvePos(pos) in Line/Column, of ResolvePos(end) in EndLine/EndColumn; " +
			"R2 the message prefix: (*Position).String formats FilePath, Line+1, Column+1 of its receiver in that order, (*Error).Error formats the error's own Position in front of its Message; " +
			"R3 ResolvePos: on every return the column is -1 or pos - lines[line] for the very line that is returned, that return is taken on the `lines[line] <= pos` side, and the search walks the table from its last entry downwards (the first hit is the last line that starts at or before pos); " +
			"R4 the line table: File.init stores in File.lines a slice that starts as {0} and is extended, for the i-th part of strings.Split(Buffer, \"\\n\"), by lines[i] + len(part) + 1; " +
			"R5 the excerpt: every slice of File.Buffer taken in Position is Buffer[lines[l] : lines[l+1]-1] with l the resolved line, or a counter running from the resolved line to the resolved end line, and the number printed in front of it is l+1. " +
			"Decides: that the record, the prefix and the table are wired to each other as the property says (a swapped pair, a missing +1, a `<` for `<=`, another separator are reported). " +
			"Does not decide: that File.Position never panics for 0 <= pos <= end <= len — that needs invariants about the contents of File.lines (sorted, last entry len+1), which no analysis here expresses (the count arguments of strings.Repeat are C03/R8, the range of the lexer's positions C03/R6 and C09/R5); the arithmetic theorem 'line = number of newlines before pos'.",
		Rules: []ruleFn{ruleC20R1, ruleC20R2, ruleC20R3, ruleC20R4, ruleC20R5, ruleC18R6},
	})
}

// fieldLoadOf: v is (a conversion of) a load of base.<field>; returns the field name.
func fieldLoadOf(v ssa.Value, base ssa.Value) (string, bool) {
	addr, ok := isLoad(stripConv(v))
	if !ok {
		return "", false
	}
	fa, ok := addr.(*ssa.FieldAddr)
	if !ok || (fa.X != base && !isParamValue(fa.X, base)) {
		return "", false
	}
	return fieldAddrName(fa), true
}

// linesElem: v is (a conversion of) f.lines[idx] for the receiver f; returns idx.
func linesElem(v ssa.Value, recv ssa.Value) (ssa.Value, bool) {
	addr, ok := isLoad(stripConv(v))
	if !ok {
		return nil, false
	}
	ia, ok := addr.(*ssa.IndexAddr)
	if !ok {
		return nil, false
	}
	if !isLinesOf(ia.X, recv) {
		return nil, false
	}
	return ia.Index, true
}

// throughCell: v, or — when v is a load of a local cell (a variable a closure captures) that is stored exactly once — the
// value stored there.
func throughCell(v ssa.Value) ssa.Value {
	for i := 0; i < 4; i++ {
		v = stripConv(v)
		u, ok := v.(*ssa.UnOp)
		if !ok || u.Op != token.MUL {
			return v
		}
		al, ok := u.X.(*ssa.Alloc)
		if !ok {
			return v
		}
		var val ssa.Value
		n := 0
		for _, r := range referrers(al) {
			if st, ok := r.(*ssa.Store); ok && st.Addr == ssa.Value(al) {
				n++
				val = st.Val
			}
		}
		if n != 1 {
			return v
		}
		v = val
	}
	return v
}

// isLinesOf: v is recv.lines (possibly kept in a local variable).
func isLinesOf(v ssa.Value, recv ssa.Value) bool {
	v = throughCell(v)
	if f, ok := fieldLoadOf(v, recv); ok && f == "lines" {
		return true
	}
	// the table handed out by an accessor of the same file (`lines := f.lineStarts()`): a File method, called on this
	// receiver, every return of which is File.lines of its own receiver — loaded, or the value it has just stored there
	c, ok := v.(*ssa.Call)
	if !ok {
		return false
	}
	h := c.Call.StaticCallee()
	if h == nil || h.Blocks == nil || h.Signature.Recv() == nil || len(c.Call.Args) != 1 || c.Call.Args[0] != recv || !isNamed(h.Signature.Recv().Type(), modRoot+"/token", "File") {
		return false
	}
	hrecv := h.Params[0]
	stored := map[ssa.Value]bool{}
	for _, b := range h.Blocks {
		for _, in := range b.Instrs {
			if st, ok := in.(*ssa.Store); ok {
				if fa, ok := st.Addr.(*ssa.FieldAddr); ok && fieldAddrName(fa) == "lines" && fa.X == ssa.Value(hrecv) {
					stored[st.Val] = true
				}
			}
		}
	}
	n := 0
	for _, b := range h.Blocks {
		ret, ok := b.Instrs[len(b.Instrs)-1].(*ssa.Return)
		if !ok {
			continue
		}
		n++
		if len(ret.Results) != 1 {
			return false
		}
		rv := ret.Results[0]
		if f, ok := fieldLoadOf(rv, hrecv); ok && f == "lines" {
			continue
		}
		if !stored[rv] {
			return false
		}
	}
	return n > 0
}

// isParamValue: v is the parameter, or a load of the cell the parameter lives in when a closure captures it (and
// nothing else is ever stored there).
func isParamValue(v ssa.Value, param ssa.Value) bool {
	v = stripConv(v)
	if v == param {
		return true
	}
	u, ok := v.(*ssa.UnOp)
	if !ok || u.Op != token.MUL {
		return false
	}
	al, ok := u.X.(*ssa.Alloc)
	if !ok {
		return false
	}
	n := 0
	for _, r := range referrers(al) {
		if st, ok := r.(*ssa.Store); ok && st.Addr == ssa.Value(al) {
			n++
			if stripConv(st.Val) != param {
				return false
			}
		}
	}
	return n == 1
}

// binarySearchLine: v is sort.Search(len(recv.lines), func(i int) bool { return recv.lines[i] > pos }) - 1.
func binarySearchLine(v ssa.Value, recv, pos ssa.Value) bool {
	x, k := plusConst(v)
	if k != -1 {
		return false
	}
	call, ok := x.(*ssa.Call)
	if !ok || len(call.Call.Args) != 2 {
		return false
	}
	sc := call.Call.StaticCallee()
	if sc == nil || sc.Pkg == nil || sc.Pkg.Pkg.Path() != "sort" || sc.Name() != "Search" {
		return false
	}
	n, ok := call.Call.Args[0].(*ssa.Call)
	if !ok || !isLenCall(n) {
		return false
	}
	if !isLinesOf(n.Call.Args[0], recv) {
		return false
	}
	mc, ok := call.Call.Args[1].(*ssa.MakeClosure)
	if !ok {
		return false
	}
	cl := mc.Fn.(*ssa.Function)
	if len(cl.Params) != 1 {
		return false
	}
	// free variables of the closure stand for the values bound to them
	bound := map[ssa.Value]ssa.Value{}
	for i, fv := range cl.FreeVars {
		if i < len(mc.Bindings) {
			bound[fv] = mc.Bindings[i]
		}
	}
	resolve := func(v ssa.Value) ssa.Value {
		v = stripConv(v)
		if b, ok := bound[v]; ok {
			return stripConv(b)
		}
		// a captured variable is a cell: *freevar
		if u, ok := v.(*ssa.UnOp); ok && u.Op == token.MUL {
			if b, ok := bound[u.X]; ok {
				if al, ok := b.(*ssa.Alloc); ok {
					for _, r := range referrers(al) {
						if st, ok := r.(*ssa.Store); ok && st.Addr == ssa.Value(al) {
							return stripConv(st.Val)
						}
					}
				}
			}
		}
		return v
	}
	nret := 0
	for _, b := range cl.Blocks {
		ret, ok := b.Instrs[len(b.Instrs)-1].(*ssa.Return)
		if !ok {
			continue
		}
		nret++
		bo, ok := ret.Results[0].(*ssa.BinOp)
		if !ok {
			return false
		}
		elemOf := func(v ssa.Value) bool {
			addr, ok := isLoad(stripConv(v))
			if !ok {
				return false
			}
			ia, ok := addr.(*ssa.IndexAddr)
			if !ok || ia.Index != ssa.Value(cl.Params[0]) {
				return false
			}
			// the table: f.lines with f captured, or a captured local that holds f.lines
			if ld, ok := isLoad(ia.X); ok {
				if fa, ok := ld.(*ssa.FieldAddr); ok && fieldAddrName(fa) == "lines" && resolve(fa.X) == recv {
					return true
				}
			}
			return isLinesOf(resolve(ia.X), recv)
		}
		switch {
		case bo.Op == token.GTR && elemOf(bo.X) && resolve(bo.Y) == pos:
		case bo.Op == token.LSS && elemOf(bo.Y) && resolve(bo.X) == pos:
		default:
			return false
		}
	}
	return nret == 1
}

// plusConst: v is x + k (k constant) or x (k = 0) or x - k.
func plusConst(v ssa.Value) (ssa.Value, int64) {
	v = stripConv(v)
	if bo, ok := v.(*ssa.BinOp); ok {
		if k, isC := constInt(bo.Y); isC {
			switch bo.Op {
			case token.ADD:
				x, k0 := plusConst(bo.X)
				return x, k0 + k
			case token.SUB:
				x, k0 := plusConst(bo.X)
				return x, k0 - k
			}
		}
		if k, isC := constInt(bo.X); isC && bo.Op == token.ADD {
			x, k0 := plusConst(bo.Y)
			return x, k0 + k
		}
	}
	return v, 0
}

// varargOperands: the values boxed into the ...any argument of a call, by index.
func varargOperands(c *ssa.Call) []ssa.Value {
	if len(c.Call.Args) == 0 {
		return nil
	}
	sl, ok := c.Call.Args[len(c.Call.Args)-1].(*ssa.Slice)
	if !ok {
		return nil
	}
	al, ok := sl.X.(*ssa.Alloc)
	if !ok {
		return nil
	}
	var out []ssa.Value
	for _, u := range referrers(al) {
		ia, ok := u.(*ssa.IndexAddr)
		if !ok {
			continue
		}
		idx, ok := constInt(ia.Index)
		if !ok {
			continue
		}
		for _, su := range referrers(ia) {
			if st, ok := su.(*ssa.Store); ok {
				for int(idx) >= len(out) {
					out = append(out, nil)
				}
				v := st.Val
				for {
					switch x := v.(type) {
					case *ssa.MakeInterface:
						v = x.X
						continue
					case *ssa.ChangeInterface:
						v = x.X
						continue
					}
					break
				}
				out[idx] = v
			}
		}
	}
	return out
}

func (w *World) c20Funcs(r *Report) (position, resolve, initFn, str *ssa.Function) {
	position = w.fn(w.Tok, "(*File).Position")
	resolve = w.fn(w.Tok, "(*File).ResolvePos")
	initFn = w.fn(w.Tok, "(*File).init")
	if initFn == nil {
		// the table builder under another name (an accessor `lines := f.lineStarts()`): the one method of File that stores File.lines
		for _, f := range w.ModFns {
			if fnPkgPath(f) != modRoot+"/token" || f.Signature.Recv() == nil || !isNamed(f.Signature.Recv().Type(), modRoot+"/token", "File") {
				continue
			}
			for _, b := range f.Blocks {
				for _, in := range b.Instrs {
					if st, ok := in.(*ssa.Store); ok {
						if fa, ok := st.Addr.(*ssa.FieldAddr); ok && fieldAddrName(fa) == "lines" && isNamed(fa.X.Type(), modRoot+"/token", "File") {
							if initFn != nil && initFn != f {
								initFn = nil
								goto done
							}
							initFn = f
						}
					}
				}
			}
		}
	done:
	}
	str = w.fn(w.Tok, "(*Position).String")
	if (position == nil || resolve == nil || initFn == nil || str == nil) && r != nil {
		r.errorf("token.(*File).Position / ResolvePos / init or (*Position).String not found")
	}
	return
}

// clampOfParam: v is the parameter, or the parameter clamped to the length of the receiver's buffer
// (`if end > len(f.Buffer) { end = len(f.Buffer) }`): for positions within the buffer — the domain of the property — that
// is the parameter itself.
func clampOfParam(v, param ssa.Value, recv *ssa.Parameter) bool {
	v = stripConv(v)
	if v == param {
		return true
	}
	phi, ok := v.(*ssa.Phi)
	if !ok {
		return false
	}
	hasParam := false
	for _, o := range phiOrigins(phi) {
		o = stripConv(o)
		if o == param {
			hasParam = true
			continue
		}
		c, isCall := o.(*ssa.Call)
		if !isCall || !isLenCall(c) {
			return false
		}
		if f, ok := fieldLoadOf(c.Call.Args[0], recv); !ok || f != "Buffer" {
			return false
		}
	}
	return hasParam
}

func ruleC20R1(w *World, r *Report) {
	const rule = "C20/R1"
	r.rule(rule, "(*File).Position returns a Position whose Pos/End are its parameters, Line/Column the two results of ResolvePos(pos), EndLine/EndColumn those of ResolvePos(end), FilePath the file's", 7)
	pf, resolve, _, _ := w.c20Funcs(r)
	if pf == nil || resolve == nil {
		return
	}
	recv, pos, end := pf.Params[0], pf.Params[1], pf.Params[2]
	n := 0
	for _, b := range pf.Blocks {
		for _, in := range b.Instrs {
			al, ok := in.(*ssa.Alloc)
			if !ok || !isNamed(al.Type(), modRoot+"/token", "Position") {
				continue
			}
			n++
			fields := allocFieldStores(al)
			resOf := func(v ssa.Value) (arg ssa.Value, idx int, ok bool) {
				ex, isEx := stripConv(v).(*ssa.Extract)
				if !isEx {
					return nil, 0, false
				}
				c, isC := ex.Tuple.(*ssa.Call)
				if !isC || c.Call.StaticCallee() != resolve || len(c.Call.Args) != 2 || c.Call.Args[0] != ssa.Value(recv) {
					return nil, 0, false
				}
				return c.Call.Args[1], ex.Index, true
			}
			// a parameter, or the parameter clamped to the length of the buffer (`if end > len(f.Buffer) { end = len(f.Buffer) }`):
			// for positions within the buffer — the domain of the property — that is the parameter
			clampOf := func(v, param ssa.Value) bool { return clampOfParam(v, param, recv) }
			posV, endV := ssa.Value(pos), ssa.Value(end)
			if v := fields["Pos"]; v != nil && clampOf(v, pos) {
				posV = stripConv(v)
			}
			if v := fields["End"]; v != nil && clampOf(v, end) {
				endV = stripConv(v)
			}
			want := []struct {
				field string
				arg   ssa.Value
				idx   int
				what  string
			}{{"Line", posV, 0, "line of ResolvePos(pos)"}, {"Column", posV, 1, "column of ResolvePos(pos)"}, {"EndLine", endV, 0, "line of ResolvePos(end)"}, {"EndColumn", endV, 1, "column of ResolvePos(end)"}}
			for _, wt := range want {
				construct := "Position." + wt.field
				a, i, ok := resOf(fields[wt.field])
				if ok && stripConv(a) == wt.arg && i == wt.idx {
					r.ok(rule, construct, w.pos(al.Pos()), wt.what)
				} else {
					r.bad(rule, construct, w.pos(al.Pos()), "is not the "+wt.what+": the line/column reported for an error belong to another position than its Pos/End")
				}
			}
			for _, wt := range []struct {
				field string
				v     ssa.Value
			}{{"Pos", posV}, {"End", endV}} {
				if fields[wt.field] != nil && stripConv(fields[wt.field]) == wt.v {
					r.ok(rule, "Position."+wt.field, w.pos(al.Pos()), "the parameter (or the parameter clamped to the length of the buffer)")
				} else {
					r.bad(rule, "Position."+wt.field, w.pos(al.Pos()), "is not the "+strings.ToLower(wt.field)+" parameter of File.Position")
				}
			}
			if f, ok := fieldLoadOf(fields["FilePath"], recv); ok && f == "FilePath" {
				r.ok(rule, "Position.FilePath", w.pos(al.Pos()), "the file's path")
			} else {
				r.bad(rule, "Position.FilePath", w.pos(al.Pos()), "is not File.FilePath")
			}
		}
	}
	if n != 1 {
		r.errorf("expected one Position literal in (*File).Position, found %d", n)
	}
}

func ruleC20R2(w *World, r *Report) {
	const rule = "C20/R2"
	r.rule(rule, "(*Position).String formats FilePath, Line+1 and Column+1 of its receiver, in that order, as path:line:col; (*Error).Error puts the error's own Position (formatted through String) in front of its Message", 2)
	_, _, _, str := w.c20Funcs(r)
	if str == nil {
		return
	}
	check := func(fn *ssa.Function, construct string, f func(c *ssa.Call, format string, ops []ssa.Value) string) {
		found := false
		for _, b := range fn.Blocks {
			for _, in := range b.Instrs {
				c, ok := in.(*ssa.Call)
				if !ok {
					continue
				}
				sc := c.Call.StaticCallee()
				if sc == nil || sc.Pkg == nil || sc.Pkg.Pkg.Path() != "fmt" || sc.Name() != "Sprintf" {
					continue
				}
				format, ok := constString(c.Call.Args[0])
				if !ok {
					continue
				}
				found = true
				if why := f(c, format, varargOperands(c)); why != "" {
					r.bad(rule, construct, w.pos(c.Pos()), why)
				} else {
					r.ok(rule, construct, w.pos(c.Pos()), "format "+fmt.Sprintf("%q", format))
				}
			}
		}
		if !found {
			// the same text put together with + (and strconv.Itoa for the numbers): read as the format it amounts to
			for _, b := range fn.Blocks {
				ret, ok := b.Instrs[len(b.Instrs)-1].(*ssa.Return)
				if !ok || len(ret.Results) != 1 {
					continue
				}
				if format, ops, ok := concatAsFormat(ret.Results[0]); ok && len(ops) > 0 {
					found = true
					if why := f(nil, format, ops); why != "" {
						r.bad(rule, construct, w.pos(ret.Pos()), why)
					} else {
						r.ok(rule, construct, w.pos(ret.Pos()), "concatenation amounting to the format "+fmt.Sprintf("%q", format))
					}
				}
			}
		}
		if !found {
			r.undecided(rule, construct, w.pos(fn.Pos()), "no fmt.Sprintf with a constant format (and no concatenation that amounts to one) found")
		}
	}
	check(str, "(*Position).String", func(c *ssa.Call, format string, ops []ssa.Value) string {
		recv := str.Params[0]
		if len(ops) != 3 {
			return fmt.Sprintf("%d operands (want path, line, column)", len(ops))
		}
		if f, ok := fieldLoadOf(ops[0], recv); !ok || f != "FilePath" {
			return "the first operand is not the receiver's FilePath"
		}
		for i, want := range []string{"Line", "Column"} {
			x, k := plusConst(ops[i+1])
			f, ok := fieldLoadOf(x, recv)
			if !ok || f != want || k != 1 {
				return fmt.Sprintf("operand %d is not %s+1 of the receiver (found field %q, offset %+d): the prefix of every message names another place than Position.%s", i+1, want, f, k, want)
			}
		}
		if nthVerb(format, 0) != 's' || nthVerb(format, 1) != 'd' || nthVerb(format, 2) != 'd' || !strings.Contains(format, ":") {
			return "the format is not path:line:col"
		}
		return ""
	})
	errFn := w.fn(w.Mem, "(*Error).Error")
	if errFn == nil {
		r.errorf("(*Error).Error not found")
		return
	}
	check(errFn, "(*Error).Error", func(c *ssa.Call, format string, ops []ssa.Value) string {
		recv := errFn.Params[0]
		if len(ops) != 2 {
			return fmt.Sprintf("%d operands (want position, message)", len(ops))
		}
		if f, ok := fieldLoadOf(ops[0], recv); !ok || f != "Position" {
			return "the first operand is not the error's Position"
		}
		if f, ok := fieldLoadOf(ops[1], recv); !ok || f != "Message" {
			return "the second operand is not the error's Message"
		}
		if v := nthVerb(format, 0); v != 's' && v != 'v' {
			return "the position is not formatted through its String method (%s / %v)"
		}
		return ""
	})
}

func ruleC20R3(w *World, r *Report) {
	const rule = "C20/R3"
	r.rule(rule, "ResolvePos: every return gives column -1 or pos - lines[line] for the line it returns, on the `lines[line] <= pos` side; the candidate line starts at len(lines)-1 and goes down by one", 3)
	_, fn, _, _ := w.c20Funcs(r)
	if fn == nil {
		return
	}
	recv, pos := fn.Params[0], fn.Params[1]
	nfound := 0
	searchByLibrary := false
	var lineVal ssa.Value
	for _, b := range fn.Blocks {
		ret, ok := b.Instrs[len(b.Instrs)-1].(*ssa.Return)
		if !ok || len(ret.Results) != 2 {
			continue
		}
		construct := fmt.Sprintf("return at %s", w.pos(ret.Pos()))
		if k, isC := constInt(ret.Results[1]); isC {
			if k == -1 {
				r.ok(rule, construct, w.pos(ret.Pos()), "column -1 (invalid position / nothing found)")
			} else {
				r.bad(rule, construct, w.pos(ret.Pos()), fmt.Sprintf("constant column %d", k))
			}
			continue
		}
		nfound++
		col := stripConv(ret.Results[1])
		bo, ok := col.(*ssa.BinOp)
		if !ok || bo.Op != token.SUB || !isParamValue(bo.X, pos) {
			r.bad(rule, construct, w.pos(ret.Pos()), "the column is not pos minus the start of a line")
			continue
		}
		idx, ok := linesElem(bo.Y, recv)
		if !ok {
			r.bad(rule, construct, w.pos(ret.Pos()), "the column is not pos - lines[…] of this file")
			continue
		}
		if idx != ret.Results[0] {
			r.bad(rule, construct, w.pos(ret.Pos()), "the column is measured from the start of another line than the one returned")
			continue
		}
		lineVal = idx
		// the guard
		guarded := false
		for d := b; d != nil && !guarded; d = d.Idom() {
			id := d.Idom()
			if id == nil {
				break
			}
			iff, isIf := id.Instrs[len(id.Instrs)-1].(*ssa.If)
			if !isIf || len(d.Preds) != 1 || d.Preds[0] != id {
				continue
			}
			c, isB := iff.Cond.(*ssa.BinOp)
			if !isB {
				continue
			}
			onTrue := id.Succs[0] == d
			lx, lok := linesElem(c.X, recv)
			ly, yok := linesElem(c.Y, recv)
			switch {
			case lok && lx == idx && stripConv(c.Y) == ssa.Value(pos):
				guarded = (c.Op == token.LEQ && onTrue) || (c.Op == token.GTR && !onTrue)
			case yok && ly == idx && stripConv(c.X) == ssa.Value(pos):
				guarded = (c.Op == token.GEQ && onTrue) || (c.Op == token.LSS && !onTrue)
			}
		}
		if !guarded && binarySearchLine(idx, recv, pos) {
			// line = sort.Search(len(lines), func(i) bool { return lines[i] > pos }) - 1: by the contract of sort.Search
			// over the ascending table (C20/R4) the first entry after pos, minus one, is the last entry <= pos
			r.ok(rule, construct, w.pos(ret.Pos()), "column = pos - lines[line] with line = sort.Search(len(lines), lines[i] > pos) - 1: the last line that starts at or before pos")
			searchByLibrary = true
			continue
		}
		if guarded {
			r.ok(rule, construct, w.pos(ret.Pos()), "column = pos - lines[line] under lines[line] <= pos")
		} else {
			r.bad(rule, construct, w.pos(ret.Pos()), "the line is not chosen by `lines[line] <= pos`: a position at the very start of a line (or before the chosen line's start) resolves to the wrong line or a negative column")
		}
	}
	if nfound == 0 {
		r.errorf("ResolvePos has no return with a computed column")
		return
	}
	// direction of the search
	construct := "search order"
	if searchByLibrary {
		r.ok(rule, construct, w.pos(fn.Pos()), "binary search by sort.Search over the ascending line table")
		return
	}
	phi, ok := lineVal.(*ssa.Phi)
	if !ok {
		r.undecided(rule, construct, w.pos(fn.Pos()), "the returned line is not a loop variable (another search scheme than the linear scan this rule knows)")
		return
	}
	okInit, okStep := false, false
	for _, e := range phi.Edges {
		x, k := plusConst(e)
		if x == ssa.Value(phi) && k == -1 {
			okStep = true
			continue
		}
		if c, isCall := x.(*ssa.Call); isCall && k == -1 {
			if bi, isB := c.Call.Value.(*ssa.Builtin); isB && bi.Name() == "len" {
				if isLinesOf(c.Call.Args[0], recv) {
					okInit = true
				}
			}
		}
	}
	if okInit && okStep {
		r.ok(rule, construct, w.pos(phi.Pos()), "from len(lines)-1 downwards: the first line found is the last one that starts at or before pos")
	} else {
		r.bad(rule, construct, w.pos(phi.Pos()), fmt.Sprintf("the candidate line does not run from len(lines)-1 downwards by one (start ok=%v, step ok=%v): with `lines[line] <= pos` as the test, another order returns the first line of the file for every position", okInit, okStep))
	}
}

func ruleC20R4(w *World, r *Report) {
	const rule = "C20/R4"
	r.rule(rule, "File.init stores in File.lines a slice that starts as {0} and receives, for the i-th part of strings.Split(Buffer, \"\\n\"), the value lines[i] + len(part) + 1; File.lines is stored nowhere else", 2)
	_, _, fn, _ := w.c20Funcs(r)
	if fn == nil {
		return
	}
	recv := fn.Params[0]
	// who writes File.lines
	nst := 0
	for _, f := range w.ModFns {
		if !corePkg(fnPkgPath(f)) {
			continue
		}
		for _, b := range f.Blocks {
			for _, in := range b.Instrs {
				st, ok := in.(*ssa.Store)
				if !ok {
					continue
				}
				fa, ok := st.Addr.(*ssa.FieldAddr)
				if !ok || fieldAddrName(fa) != "lines" || !isNamed(fa.X.Type(), modRoot+"/token", "File") {
					continue
				}
				nst++
				if f != fn {
					r.bad(rule, "store to File.lines in "+funcName(f), w.pos(st.Pos()), "the line table is written outside File.init")
					continue
				}
				construct := "line table built by File.init"
				phi, ok := st.Val.(*ssa.Phi)
				if !ok {
					// the second idiom: a scan with strings.IndexByte from just behind the previous newline
					if why := w.lineTableByIndexByte(st.Val, recv); why == "" {
						r.ok(rule, construct, w.pos(st.Pos()), "{0}, then for each strings.IndexByte(Buffer[start:], '\\n') = i >= 0 the offset start+i+1 (the search resumes there), then len(Buffer)+1")
					} else {
						r.bad(rule, construct, w.pos(st.Pos()), "the stored table is not built by a loop over the lines of the buffer ("+why+")")
					}
					continue
				}
				var problems []string
				okInit, okApp := false, false
				for _, e := range phi.Edges {
					switch x := e.(type) {
					case *ssa.Slice:
						// {0}
						if al, ok := x.X.(*ssa.Alloc); ok {
							vals := 0
							good := true
							for _, u := range referrers(al) {
								if ia, ok := u.(*ssa.IndexAddr); ok {
									for _, su := range referrers(ia) {
										if s2, ok := su.(*ssa.Store); ok {
											vals++
											if k, isC := constInt(s2.Val); !isC || k != 0 {
												good = false
											}
										}
									}
								}
							}
							if vals == 1 && good {
								okInit = true
							} else {
								problems = append(problems, "the table does not start as {0}")
							}
						}
					case *ssa.Call:
						bi, isB := x.Call.Value.(*ssa.Builtin)
						if !isB || bi.Name() != "append" || x.Call.Args[0] != ssa.Value(phi) {
							problems = append(problems, "the table is extended by something else than append(lines, …)")
							continue
						}
						// the single appended value
						var val ssa.Value
						if sl, ok := x.Call.Args[1].(*ssa.Slice); ok {
							if al, ok := sl.X.(*ssa.Alloc); ok {
								for _, u := range referrers(al) {
									if ia, ok := u.(*ssa.IndexAddr); ok {
										for _, su := range referrers(ia) {
											if s2, ok := su.(*ssa.Store); ok {
												val = s2.Val
											}
										}
									}
								}
							}
						}
						if val == nil {
							problems = append(problems, "cannot see the appended value")
							continue
						}
						// val = lines[i] + len(parts[i]) + 1
						x0, k := plusConst(val)
						sum, ok := stripConv(x0).(*ssa.BinOp)
						if !ok || sum.Op != token.ADD || k != 1 {
							problems = append(problems, fmt.Sprintf("the appended value is not previous + len(part) + 1 (constant part %+d): every later line start is shifted", k))
							continue
						}
						var prevIdx, partIdx ssa.Value
						var split *ssa.Call
						for _, opnd := range []ssa.Value{sum.X, sum.Y} {
							o := stripConv(opnd)
							if addr, ok := isLoad(o); ok {
								if ia, ok := addr.(*ssa.IndexAddr); ok && ia.X == ssa.Value(phi) {
									prevIdx = ia.Index
								}
							}
							if c, ok := o.(*ssa.Call); ok {
								if bi, ok := c.Call.Value.(*ssa.Builtin); ok && bi.Name() == "len" {
									if addr, ok := isLoad(c.Call.Args[0]); ok {
										if ia, ok := addr.(*ssa.IndexAddr); ok {
											partIdx = ia.Index
											split, _ = ia.X.(*ssa.Call)
										}
									}
								}
							}
						}
						switch {
						case prevIdx == nil || partIdx == nil:
							problems = append(problems, "the appended value is not lines[i] + len(part_i) + 1")
						case prevIdx != partIdx:
							problems = append(problems, "the previous line start and the part are taken at different indexes")
						case split == nil || split.Call.StaticCallee() == nil || split.Call.StaticCallee().Name() != "Split" || split.Call.StaticCallee().Pkg.Pkg.Path() != "strings":
							problems = append(problems, "the parts are not strings.Split(Buffer, …)")
						default:
							sep, isC := constString(split.Call.Args[1])
							bufOK := false
							if f, ok := fieldLoadOf(split.Call.Args[0], recv); ok && f == "Buffer" {
								bufOK = true
							}
							if !isC || sep != "\n" || !bufOK {
								problems = append(problems, fmt.Sprintf("the buffer is not split at \"\\n\" (separator %q, buffer ok=%v): line numbers are the number of newline bytes before a position", sep, bufOK))
							} else {
								okApp = true
							}
						}
					default:
						problems = append(problems, "unexpected origin of the table")
					}
				}
				if !okInit && len(problems) == 0 {
					problems = append(problems, "the table does not start as {0}")
				}
				if !okApp && len(problems) == 0 {
					problems = append(problems, "no append of the next line start found")
				}
				if len(problems) > 0 {
					r.bad(rule, construct, w.pos(st.Pos()), strings.Join(uniqSorted(problems), "; "))
				} else {
					r.ok(rule, construct, w.pos(st.Pos()), "{0} then lines[i] + len(part_i) + 1 over strings.Split(Buffer, \"\\n\")")
				}
			}
		}
	}
	if nst == 0 {
		r.errorf("no store to File.lines found")
	} else {
		r.ok(rule, "writers of File.lines", w.pos(fn.Pos()), fmt.Sprintf("%d store(s) inspected", nst))
	}
}

func ruleC20R5(w *World, r *Report) {
	const rule = "C20/R5"
	r.rule(rule, "every excerpt line of (*File).Position is Buffer[lines[l] : lines[l+1]-1] with l the resolved line or a counter running from the resolved line up to the resolved end line by one, and is numbered l+1; the line break between excerpt lines is written for every line after the first one of the excerpt (excerpt helpers called from Position are followed, line indexes through their parameters)", 1)
	pf, resolve, _, _ := w.c20Funcs(r)
	if pf == nil {
		return
	}
	recv, pos, end := pf.Params[0], pf.Params[1], pf.Params[2]
	resLine := func(v ssa.Value, arg ssa.Value) bool {
		ex, ok := stripConv(v).(*ssa.Extract)
		if !ok || ex.Index != 0 {
			return false
		}
		c, ok := ex.Tuple.(*ssa.Call)
		return ok && c.Call.StaticCallee() == resolve && len(c.Call.Args) == 2 && (c.Call.Args[1] == arg || clampOfParam(c.Call.Args[1], arg, recv))
	}
	// the line index used at a place of Position itself: the resolved line, or a counter from it to the end line
	var through func(v ssa.Value, check func(ssa.Value) bool, depth int) bool
	plusOneOK := false // the line itself is printed by another call of the same helper: the counter may start behind it
	indexProblem := func(lb ssa.Value) string {
		isPosLine := func(x ssa.Value) bool { return resLine(x, pos) }
		isEndLine := func(x ssa.Value) bool { return resLine(x, end) }
		if through(lb, isPosLine, 0) {
			return ""
		}
		phi, isPhi := lb.(*ssa.Phi)
		okInit, okStep, okBound := false, false, false
		if isPhi {
			for _, e := range phi.Edges {
				x, k := plusConst(e)
				if x == ssa.Value(phi) && k == 1 {
					okStep = true
				} else if (k == 0 || (k == 1 && plusOneOK)) && through(x, isPosLine, 0) {
					okInit = true
				}
			}
			for _, u := range referrers(phi) {
				if c, ok := u.(*ssa.BinOp); ok {
					if c.X == ssa.Value(phi) && through(c.Y, isEndLine, 0) && c.Op == token.LEQ {
						for _, uu := range referrers(c) {
							if _, ok := uu.(*ssa.If); ok {
								okBound = true
							}
						}
					}
				}
			}
		}
		if !(okInit && okStep && okBound) {
			return fmt.Sprintf("the line index is neither the resolved line nor a counter from the resolved line to the resolved end line (start ok=%v, step ok=%v, bound `<= endLine` ok=%v)", okInit, okStep, okBound)
		}
		return ""
	}
	// Position itself and the File methods it calls directly (an extracted "sourceLine(l)" helper)
	type place struct {
		fn    *ssa.Function
		calls []*ssa.Call // call sites in Position (nil for Position itself)
	}
	places := []place{{fn: pf}}
	seenH := map[*ssa.Function]bool{pf: true}
	_, _, builder, _ := w.c20Funcs(nil)
	for i := 0; i < len(places) && i < 8; i++ {
		from := places[i].fn
		for _, b := range from.Blocks {
			for _, in := range b.Instrs {
				c, ok := in.(*ssa.Call)
				if !ok {
					continue
				}
				h := c.Call.StaticCallee()
				if h == nil || h == resolve || h == builder || h == pf || h.Blocks == nil || h.Signature.Recv() == nil || !isNamed(h.Signature.Recv().Type(), modRoot+"/token", "File") || c.Call.Args[0] != ssa.Value(from.Params[0]) {
					continue
				}
				if !seenH[h] {
					seenH[h] = true
					places = append(places, place{fn: h})
				}
				for k := range places {
					if places[k].fn == h {
						places[k].calls = append(places[k].calls, c)
					}
				}
			}
		}
	}
	callsOf := func(fn *ssa.Function) []*ssa.Call {
		for _, pl := range places {
			if pl.fn == fn {
				return pl.calls
			}
		}
		return nil
	}
	// through: v satisfies check, or is a parameter of a helper every call of which passes a value that does
	through = func(v ssa.Value, check func(ssa.Value) bool, depth int) bool {
		if check(v) {
			return true
		}
		prm, isP := stripConv(v).(*ssa.Parameter)
		if !isP || depth > 4 || prm.Parent() == pf {
			return false
		}
		pi := -1
		for k, q := range prm.Parent().Params {
			if q == prm {
				pi = k
			}
		}
		sites := callsOf(prm.Parent())
		if pi < 0 || len(sites) == 0 {
			return false
		}
		for _, c := range sites {
			ab, ak := plusConst(c.Call.Args[pi])
			if ak != 0 || !through(ab, check, depth+1) {
				return false
			}
		}
		return true
	}
	n := 0
	for _, pl := range places {
		frecv := pl.fn.Params[0]
		for _, b := range pl.fn.Blocks {
			for _, in := range b.Instrs {
				sl, ok := in.(*ssa.Slice)
				if !ok {
					continue
				}
				if f, ok := fieldLoadOf(sl.X, frecv); !ok || f != "Buffer" {
					continue
				}
				n++
				construct := fmt.Sprintf("excerpt line #%d", n)
				var problems []string
				var l ssa.Value
				if sl.Low == nil || sl.High == nil {
					problems = append(problems, "the slice has an open bound")
				} else {
					lo, okLo := linesElem(sl.Low, frecv)
					hx, hk := plusConst(sl.High)
					hi, okHi := linesElem(hx, frecv)
					switch {
					case !okLo:
						problems = append(problems, "the excerpt does not start at lines[l]")
					case !okHi || hk != -1:
						problems = append(problems, "the excerpt does not end at lines[…]-1 (the byte before the next line start, i.e. without the newline)")
					default:
						hb, hkk := plusConst(hi)
						lb, lkk := plusConst(lo)
						if hb != lb || hkk-lkk != 1 {
							problems = append(problems, "the end of the excerpt is not taken from the entry right after the one its start is taken from")
						}
						l = lo
					}
				}
				if l != nil {
					lb, lk := plusConst(l)
					switch {
					case lk != 0:
						problems = append(problems, "the line index has an offset")
					case pl.fn == pf:
						if why := indexProblem(lb); why != "" {
							problems = append(problems, why)
						}
					default:
						// in a helper: the index is a parameter, judged at each call site in Position
						prm, isP := lb.(*ssa.Parameter)
						pi := -1
						for k, q := range pl.fn.Params {
							if isP && q == prm {
								pi = k
							}
						}
						if pi < 0 {
							// a counter of the helper itself (the excerpt loop moved out of Position)
							if why := indexProblem(lb); why != "" {
								problems = append(problems, why)
							}
						} else {
							plusOneOK = false
							for _, c := range pl.calls {
								if ab, ak := plusConst(c.Call.Args[pi]); ak == 0 && through(ab, func(x ssa.Value) bool { return resLine(x, pos) }, 0) {
									plusOneOK = true
								}
							}
							for _, c := range pl.calls {
								ab, ak := plusConst(c.Call.Args[pi])
								if ak != 0 {
									problems = append(problems, "the helper is called with an offset line index")
								} else if why := indexProblem(ab); why != "" {
									problems = append(problems, why)
								}
							}
							plusOneOK = false
						}
					}
					// the number printed with it: a formatting call in the same function gets l+1
					hasNum := false
					for _, bb := range pl.fn.Blocks {
						for _, x := range bb.Instrs {
							c, ok := x.(*ssa.Call)
							if !ok {
								continue
							}
							for _, o := range varargOperands(c) {
								if ob, k1 := plusConst(o); k1 == 1 && ob == lb {
									hasNum = true
								}
							}
						}
					}
					if prm, isP := lb.(*ssa.Parameter); !hasNum && isP && len(pl.calls) > 0 {
						// lineText(l) only cuts the line out: the number is printed where it is called
						pi := -1
						for k, q := range pl.fn.Params {
							if q == prm {
								pi = k
							}
						}
						all := pi >= 0
						for _, site := range pl.calls {
							found := false
							ab, _ := plusConst(site.Call.Args[pi])
							for _, bb := range site.Parent().Blocks {
								for _, x := range bb.Instrs {
									if c, ok := x.(*ssa.Call); ok {
										for _, o := range varargOperands(c) {
											if ob, k1 := plusConst(o); k1 == 1 && ob == ab {
												found = true
											}
										}
									}
								}
							}
							if !found {
								all = false
							}
						}
						hasNum = all
					}
					if !hasNum {
						problems = append(problems, "the excerpt line is not printed with the number l+1")
					}
				}
				if len(problems) > 0 {
					r.bad(rule, construct, w.pos(sl.Pos()), strings.Join(uniqSorted(problems), "; "))
				} else {
					r.ok(rule, construct, w.pos(sl.Pos()), "Buffer[lines[l]:lines[l+1]-1], numbered l+1")
				}
			}
		}
	}
	if n < 1 {
		r.errorf("no excerpt slice of the buffer found in (*File).Position or a File method it calls")
	}
	// the separator between excerpt lines: a line break in front of every line but the first of the excerpt
	for _, b := range pf.Blocks {
		for _, in := range b.Instrs {
			c, ok := in.(*ssa.Call)
			if !ok {
				continue
			}
			sc := c.Call.StaticCallee()
			if sc == nil || sc.Pkg == nil || sc.Pkg.Pkg.Path() != "fmt" || sc.Name() != "Fprintln" || len(varargOperands(c)) != 0 {
				continue
			}
			construct := "separator between excerpt lines"
			// the guard of this block
			var cond *ssa.BinOp
			if len(b.Preds) == 1 {
				if iff, ok := b.Preds[0].Instrs[len(b.Preds[0].Instrs)-1].(*ssa.If); ok && b.Preds[0].Succs[0] == b {
					cond, _ = iff.Cond.(*ssa.BinOp)
				}
			}
			phi, _ := func() (*ssa.Phi, bool) {
				if cond == nil {
					return nil, false
				}
				p, ok := cond.X.(*ssa.Phi)
				return p, ok
			}()
			switch {
			case cond == nil || phi == nil:
				r.undecided(rule, construct, w.pos(c.Pos()), "the line break is not written under a test of the line counter")
			case cond.Op == token.GTR && resLine(cond.Y, pos):
				r.ok(rule, construct, w.pos(c.Pos()), "a line break in front of every line after the resolved first line")
			case cond.Op == token.NEQ && resLine(cond.Y, pos):
				r.ok(rule, construct, w.pos(c.Pos()), "a line break in front of every line but the resolved first line")
			default:
				r.bad(rule, construct, w.pos(c.Pos()), "the line break between excerpt lines is written under `"+cond.X.Name()+" "+cond.Op.String()+" "+cond.Y.String()+"`, not for every line after the first line of the excerpt: an excerpt that does not start on line 1 begins with an empty line that is not in the source")
			}
		}
	}
}

// concatAsFormat: a string built with + from constants, strings and strconv.Itoa(x) as the Sprintf format and operands
// that produce the same text ("%s" for a string or a String() result, "%d" for Itoa).
func concatAsFormat(v ssa.Value) (string, []ssa.Value, bool) {
	var format strings.Builder
	var ops []ssa.Value
	var walk func(v ssa.Value, depth int) bool
	walk = func(v ssa.Value, depth int) bool {
		if depth > 12 {
			return false
		}
		if sv, ok := constString(v); ok {
			format.WriteString(strings.ReplaceAll(sv, "%", "%%"))
			return true
		}
		switch x := v.(type) {
		case *ssa.BinOp:
			if x.Op == token.ADD && isStringType(x.Type()) {
				return walk(x.X, depth+1) && walk(x.Y, depth+1)
			}
			return false
		case *ssa.Call:
			if sc := x.Call.StaticCallee(); sc != nil {
				if sc.String() == "strconv.Itoa" && len(x.Call.Args) == 1 {
					format.WriteString("%d")
					ops = append(ops, x.Call.Args[0])
					return true
				}
				if sc.Name() == "String" && sc.Signature.Recv() != nil && len(x.Call.Args) == 1 {
					format.WriteString("%s")
					a := x.Call.Args[0]
					ops = append(ops, a)
					return true
				}
			}
			return false
		}
		if isStringType(v.Type()) {
			format.WriteString("%s")
			ops = append(ops, v)
			return true
		}
		return false
	}
	if !walk(v, 0) {
		return "", nil, false
	}
	return format.String(), ops, true
}

// lineTableByIndexByte: v is
//
//	lines := []Pos{0}            (or make([]Pos, 1, …))
//	for start := 0; ; { i := strings.IndexByte(f.Buffer[start:], '\n'); if i < 0 { break }; start += i + 1; lines = append(lines, Pos(start)) }
//	append(lines, Pos(len(f.Buffer)+1))
//
// — every search begins right behind the newline found last, so no newline is passed over, and each hit adds exactly the
// offset behind it. "" or what does not fit.
func (w *World) lineTableByIndexByte(v ssa.Value, recv *ssa.Parameter) string {
	appended := func(c *ssa.Call) (base, val ssa.Value, ok bool) {
		bi, isB := c.Call.Value.(*ssa.Builtin)
		if !isB || bi.Name() != "append" || len(c.Call.Args) != 2 {
			return nil, nil, false
		}
		sl, isS := c.Call.Args[1].(*ssa.Slice)
		if !isS {
			return nil, nil, false
		}
		al, isA := sl.X.(*ssa.Alloc)
		if !isA {
			return nil, nil, false
		}
		n := 0
		for _, u := range referrers(al) {
			if ia, ok := u.(*ssa.IndexAddr); ok {
				for _, su := range referrers(ia) {
					if s2, ok := su.(*ssa.Store); ok && s2.Addr == ssa.Value(ia) {
						val = s2.Val
						n++
					}
				}
			}
		}
		return c.Call.Args[0], val, n == 1
	}
	isBufLen := func(x ssa.Value) bool {
		c, ok := stripConv(x).(*ssa.Call)
		if !ok || !isLenCall(c) {
			return false
		}
		f, ok := fieldLoadOf(c.Call.Args[0], recv)
		return ok && f == "Buffer"
	}
	last, ok := v.(*ssa.Call)
	if !ok {
		return "the table is not the result of an append"
	}
	base, sentinel, ok := appended(last)
	if !ok {
		return "the table is not the result of append(lines, one value)"
	}
	if x0, k := plusConst(stripConv(sentinel)); k != 1 || !isBufLen(x0) {
		return "the last entry is not len(Buffer)+1"
	}
	lphi, ok := base.(*ssa.Phi)
	if !ok {
		return "the entries before the last are not collected in a loop"
	}
	var startNext ssa.Value
	okInit, nApp := false, 0
	for _, ed := range lphi.Edges {
		switch x := ed.(type) {
		case *ssa.MakeSlice:
			if k, isK := constInt(x.Len); isK && k == 1 {
				okInit = true // one zero element
			}
		case *ssa.Slice:
			if al, isA := x.X.(*ssa.Alloc); isA {
				vals, good := 0, true
				for _, u := range referrers(al) {
					if ia, ok := u.(*ssa.IndexAddr); ok {
						for _, su := range referrers(ia) {
							if s2, ok := su.(*ssa.Store); ok {
								vals++
								if k, isC := constInt(s2.Val); !isC || k != 0 {
									good = false
								}
							}
						}
					}
				}
				okInit = vals == 1 && good
			}
		case *ssa.Call:
			b2, val, ok := appended(x)
			if !ok || b2 != ssa.Value(lphi) {
				return "the table is extended by something else than append(lines, one value)"
			}
			startNext = stripConv(val)
			nApp++
		default:
			return "unexpected origin of the table"
		}
	}
	if !okInit {
		return "the table does not start as {0}"
	}
	if nApp != 1 {
		return "not exactly one append in the loop"
	}
	// start + i + 1 in any association (`start += i + 1`)
	var leaves []ssa.Value
	konst := int64(0)
	var flat func(x ssa.Value, depth int)
	flat = func(x ssa.Value, depth int) {
		x = stripConv(x)
		if k, isK := constInt(x); isK {
			konst += k
			return
		}
		if bo, isB := x.(*ssa.BinOp); isB && bo.Op == token.ADD && depth < 4 {
			flat(bo.X, depth+1)
			flat(bo.Y, depth+1)
			return
		}
		leaves = append(leaves, x)
	}
	flat(startNext, 0)
	var sphi *ssa.Phi
	var search *ssa.Call
	for _, o := range leaves {
		switch y := o.(type) {
		case *ssa.Phi:
			sphi = y
		case *ssa.Call:
			search = y
		}
	}
	if len(leaves) != 2 || konst != 1 || sphi == nil || search == nil {
		return "the appended offset is not start + i + 1 with i the answer of the search"
	}
	for _, ed := range sphi.Edges {
		if k, isK := constInt(ed); isK && k == 0 {
			continue
		}
		if stripConv(ed) != startNext {
			return "the search does not resume right behind the newline found last"
		}
	}
	sc := search.Call.StaticCallee()
	if sc == nil || (sc.String() != "strings.IndexByte" && sc.String() != "strings.Index" && sc.String() != "strings.IndexRune") || len(search.Call.Args) != 2 {
		return "the search is not strings.IndexByte / Index / IndexRune"
	}
	if k, isK := constInt(search.Call.Args[1]); isK {
		if k != '\n' {
			return "the search is not for a newline"
		}
	} else if sv, isS := constString(search.Call.Args[1]); !isS || sv != "\n" {
		return "the search is not for a newline"
	}
	hay, ok := search.Call.Args[0].(*ssa.Slice)
	if !ok || hay.High != nil || hay.Low == nil || stripConv(hay.Low) != ssa.Value(sphi) {
		return "the text searched is not Buffer[start:]"
	}
	if f, ok := fieldLoadOf(hay.X, recv); !ok || f != "Buffer" {
		return "the text searched is not a slice of the file's buffer"
	}
	// the append is on the found side of `i < 0`, which is the only way out of the loop
	appBlock := startNext.(ssa.Instruction).Block()
	guarded := false
	for d := appBlock; d != nil; d = d.Idom() {
		p := d.Idom()
		if p == nil {
			break
		}
		iff, ok := p.Instrs[len(p.Instrs)-1].(*ssa.If)
		if !ok {
			continue
		}
		bo, ok := iff.Cond.(*ssa.BinOp)
		if !ok || bo.X != ssa.Value(search) {
			continue
		}
		k, isK := constInt(bo.Y)
		if !isK {
			continue
		}
		switch {
		case bo.Op == token.LSS && k == 0 && p.Succs[1] == d, bo.Op == token.GEQ && k == 0 && p.Succs[0] == d, bo.Op == token.EQL && k == -1 && p.Succs[1] == d, bo.Op == token.NEQ && k == -1 && p.Succs[0] == d:
			guarded = true
		}
	}
	if !guarded {
		return "the offset is appended without the test that the search found a newline"
	}
	return ""
}
