package main

import (
	"fmt"
	"go/constant"
	"go/token"
	"go/types"
	"sort"
	"strings"

	"golang.org/x/tools/go/ssa"
)

// C19/R4 — the interpreter of the position language agrees with the compiled helpers.
//
// Both siblings of a construct (poslang.(*PosAdd).EvalPos and ast.posAdd, …) touch their operands
// only through comparisons with constants, nil tests and len tests; their behaviour is therefore a
// function of a finite partition of the operand values (Pos: <-1, -1, 0, >0; node: nil / non-nil;
// slice length: 0, 1, >1; bool). Each function is executed abstractly over every cell of that
// partition (a condition must be uniform on the cell, otherwise the pair is undecided) and the
// returned terms are compared cell by cell.

type cellAtom struct {
	name string // A0, A1, …
	kind string // pos, node, slice, bool, int, string
}

var cellSamples = map[string][][]int64{
	"pos":    {{-2, -3, -(1 << 40)}, {-1}, {0}, {1, 2, 1 << 40}},
	"node":   {{0}, {1}},                  // nil, non-nil
	"slice":  {{0}, {1}, {2, 3, 1 << 40}}, // length
	"bool":   {{0}, {1}},
	"int":    {{0}},
	"string": {{0}},
}

var cellNames = map[string][]string{
	"pos":    {"< -1", "= -1 (InvalidPos)", "= 0", "> 0"},
	"node":   {"nil", "non-nil"},
	"slice":  {"empty", "one element", "several elements"},
	"bool":   {"false", "true"},
	"int":    {"any"},
	"string": {"any"},
}

type cellExec struct {
	fn     *ssa.Function
	atom   func(v ssa.Value) (cellAtom, bool)
	env    map[string]int // atom name -> cell index
	notes  []string
	parent *cellExec                    // set while a helper the function delegates to is executed in its place
	bind   map[*ssa.Parameter]ssa.Value // parameters of the delegate -> arguments (values of the parent)
	depth  int
}

// bound: v is a parameter of a delegate that stands for a value of the calling helper.
func (e *cellExec) bound(v ssa.Value) (ssa.Value, bool) {
	if p, ok := v.(*ssa.Parameter); ok && e.parent != nil {
		if a, ok := e.bind[p]; ok {
			return a, true
		}
	}
	return nil, false
}

func (e *cellExec) atomOf(v ssa.Value) (cellAtom, bool) {
	if a, ok := e.bound(v); ok {
		return e.parent.atomOf(stripIface(a))
	}
	return e.atom(v)
}

func stripIface(v ssa.Value) ssa.Value {
	for {
		switch x := v.(type) {
		case *ssa.Convert:
			v = x.X
		case *ssa.ChangeType:
			v = x.X
		case *ssa.MakeInterface:
			v = x.X
		case *ssa.ChangeInterface:
			v = x.X
		default:
			return v
		}
	}
}

// scalar: the numeric samples of a comparable operand (atom, len(atom), constant).
func (e *cellExec) scalar(v ssa.Value) (samples []int64, isNilable bool, ok bool) {
	v = stripIface(v)
	if a, ok := e.bound(v); ok {
		return e.parent.scalar(a)
	}
	if c, isC := v.(*ssa.Const); isC {
		if c.Value == nil {
			return []int64{0}, true, true
		}
		if c.Value.Kind() == constant.Int {
			if k, exact := constant.Int64Val(c.Value); exact {
				return []int64{k}, false, true
			}
		}
		return nil, false, false
	}
	if a, isA := e.atomOf(v); isA {
		switch a.kind {
		case "pos", "bool":
			return cellSamples[a.kind][e.env[a.name]], false, true
		case "node":
			return cellSamples["node"][e.env[a.name]], true, true
		}
		return nil, false, false
	}
	if call, isCall := v.(*ssa.Call); isCall && isLenCall(call) {
		if a, isA := e.atomOf(stripIface(call.Call.Args[0])); isA && a.kind == "slice" {
			return cellSamples["slice"][e.env[a.name]], false, true
		}
	}
	return nil, false, false
}

func (e *cellExec) cond(v ssa.Value) (bool, bool) {
	switch x := v.(type) {
	case *ssa.UnOp:
		if x.Op == token.NOT {
			b, ok := e.cond(x.X)
			return !b, ok
		}
	case *ssa.Call:
		if c := x.Call.StaticCallee(); c != nil && c.Name() == "Invalid" && fnPkgPath(c) == modRoot+"/token" {
			s, _, ok := e.scalar(x.Call.Args[0])
			if !ok {
				return false, false
			}
			return uniform(s, func(a int64) bool { return a < 0 })
		}
		if a, ok := e.atomOf(x); ok && a.kind == "bool" {
			return e.env[a.name] == 1, true
		}
	case *ssa.BinOp:
		ls, ln, ok1 := e.scalar(x.X)
		rs, rn, ok2 := e.scalar(x.Y)
		if !ok1 || !ok2 {
			return false, false
		}
		if ln != rn && (x.Op != token.EQL && x.Op != token.NEQ) {
			return false, false
		}
		var f func(a, b int64) bool
		switch x.Op {
		case token.EQL:
			f = func(a, b int64) bool { return a == b }
		case token.NEQ:
			f = func(a, b int64) bool { return a != b }
		case token.LSS:
			f = func(a, b int64) bool { return a < b }
		case token.LEQ:
			f = func(a, b int64) bool { return a <= b }
		case token.GTR:
			f = func(a, b int64) bool { return a > b }
		case token.GEQ:
			f = func(a, b int64) bool { return a >= b }
		default:
			return false, false
		}
		first, set := false, false
		for _, a := range ls {
			for _, b := range rs {
				r := f(a, b)
				if set && r != first {
					return false, false // not uniform on the cell
				}
				first, set = r, true
			}
		}
		return first, set
	default:
		if a, ok := e.atomOf(v); ok && a.kind == "bool" {
			return e.env[a.name] == 1, true
		}
	}
	return false, false
}

func uniform(s []int64, f func(int64) bool) (bool, bool) {
	r := f(s[0])
	for _, a := range s[1:] {
		if f(a) != r {
			return false, false
		}
	}
	return r, true
}

// term renders a returned value over the atoms.
func (e *cellExec) term(v ssa.Value, depth int) string {
	if depth > 10 {
		return "…"
	}
	v = stripIface(v)
	if a, ok := e.bound(v); ok {
		return e.parent.term(a, depth+1)
	}
	if a, ok := e.atomOf(v); ok {
		return a.name
	}
	switch x := v.(type) {
	case *ssa.Const:
		if x.Value == nil {
			return "nil"
		}
		return x.Value.ExactString()
	case *ssa.BinOp:
		l, r := e.term(x.X, depth+1), e.term(x.Y, depth+1)
		if x.Op == token.ADD && r < l {
			l, r = r, l
		}
		return "(" + l + x.Op.String() + r + ")"
	case *ssa.UnOp:
		if x.Op == token.MUL {
			switch a := x.X.(type) {
			case *ssa.IndexAddr:
				// an element of a re-sliced value: xs[lo:][i] = xs[lo+i]
				if sl, isS := a.X.(*ssa.Slice); isS && sl.Low != nil && sl.Max == nil {
					if k, isK := constInt(a.Index); isK && k == 0 {
						return e.term(sl.X, depth+1) + "[" + e.term(sl.Low, depth+1) + "]"
					}
					return e.term(sl.X, depth+1) + "[(" + e.term(sl.Low, depth+1) + "+" + e.term(a.Index, depth+1) + ")]"
				}
				return e.term(a.X, depth+1) + "[" + e.term(a.Index, depth+1) + "]"
			case *ssa.FieldAddr:
				return "." + fieldAddrName(a)
			}
		}
		return x.Op.String() + e.term(x.X, depth+1)
	case *ssa.Index:
		return e.term(x.X, depth+1) + "[" + e.term(x.Index, depth+1) + "]"
	case *ssa.Call:
		if x.Call.IsInvoke() {
			return e.term(x.Call.Value, depth+1) + "." + x.Call.Method.Name() + "()"
		}
		if bi, ok := x.Call.Value.(*ssa.Builtin); ok {
			var as []string
			for _, a := range x.Call.Args {
				as = append(as, e.term(a, depth+1))
			}
			return bi.Name() + "(" + strings.Join(as, ",") + ")"
		}
		if c := x.Call.StaticCallee(); c != nil {
			var as []string
			for _, a := range x.Call.Args {
				as = append(as, e.term(a, depth+1))
			}
			return c.Name() + "(" + strings.Join(as, ",") + ")"
		}
	}
	return "?"
}

// run executes the function on the current cell assignment.
func (e *cellExec) run() string {
	b := e.fn.Blocks[0]
	var prev *ssa.BasicBlock
	for steps := 0; steps < 64; steps++ {
		switch t := b.Instrs[len(b.Instrs)-1].(type) {
		case *ssa.Return:
			if len(t.Results) != 1 {
				return "?multi"
			}
			v := t.Results[0]
			if phi, ok := v.(*ssa.Phi); ok && phi.Block() == b && prev != nil {
				for i, p := range b.Preds {
					if p == prev {
						v = phi.Edges[i]
					}
				}
			}
			// a helper that hands its work to a sibling (nodeSliceLast = nodeSliceIndex(ns, len(ns)-1)): the sibling is
			// executed on the same cell, its parameters standing for the arguments
			if c, ok := stripIface(v).(*ssa.Call); ok && !c.Call.IsInvoke() && e.depth < 3 {
				if cal := c.Call.StaticCallee(); cal != nil && cal != e.fn && cal.Blocks != nil && fnPkgPath(cal) == fnPkgPath(e.fn) && len(naturalLoops(cal)) == 0 {
					sub := &cellExec{fn: cal, atom: e.atom, env: e.env, parent: e, bind: map[*ssa.Parameter]ssa.Value{}, depth: e.depth + 1}
					for i, p := range cal.Params {
						if i < len(c.Call.Args) {
							sub.bind[p] = c.Call.Args[i]
						}
					}
					return sub.run()
				}
			}
			return e.term(v, 0)
		case *ssa.Jump:
			prev, b = b, b.Succs[0]
		case *ssa.If:
			c, ok := e.cond(t.Cond)
			if !ok {
				return "?cond(" + e.term(t.Cond, 0) + ")"
			}
			prev = b
			if c {
				b = b.Succs[0]
			} else {
				b = b.Succs[1]
			}
		case *ssa.Panic:
			return "panic"
		default:
			return "?"
		}
	}
	return "?loop"
}

// cellTable: the returned term per cell assignment of the given atoms.
func cellTable(fn *ssa.Function, atoms []cellAtom, atomOf func(ssa.Value) (cellAtom, bool)) map[string]string {
	out := map[string]string{}
	env := map[string]int{}
	var rec func(i int, label []string)
	rec = func(i int, label []string) {
		if i == len(atoms) {
			e := &cellExec{fn: fn, atom: atomOf, env: env}
			out[strings.Join(label, ", ")] = e.run()
			return
		}
		a := atoms[i]
		for c := range cellSamples[a.kind] {
			env[a.name] = c
			l := label
			if len(cellSamples[a.kind]) > 1 {
				l = append(append([]string{}, label...), a.name+" "+cellNames[a.kind][c])
			}
			rec(i+1, l)
		}
	}
	rec(0, nil)
	return out
}

type interpPair struct {
	typ, method string   // poslang type and Eval method
	helper      string   // ast helper ("" = builtin/none: expect)
	fields      []string // receiver fields evaluated, in helper parameter order
	kinds       []string
	expect      string // expected term when there is no helper
}

func ruleC19R4(w *World, r *Report) {
	const rule = "C19/R4"
	r.rule(rule, "tools/util/poslang: the interpreter method of every construct of the position language computes the same function as the ast helper its emitter names — both are executed abstractly over the finite partition of operand values their comparisons can distinguish (Pos: <-1, -1, 0, >0; node: nil/non-nil; slice length 0/1/>1; bool), sub-evaluations standing for the helper's parameters, and must return the same term in every cell; the first-match loops of PosChoice/NodeChoice are matched structurally", 5)
	pl := w.Pkgs[modRoot+"/tools/util/poslang"]
	if pl == nil {
		r.errorf("package tools/util/poslang not loaded")
		return
	}
	pairs := []interpPair{
		{"NodePos", "EvalPos", "nodePos", []string{"Expr"}, []string{"node"}, ""},
		{"NodeEnd", "EvalPos", "nodeEnd", []string{"Expr"}, []string{"node"}, ""},
		{"PosAdd", "EvalPos", "posAdd", []string{"Expr", "Value"}, []string{"pos", "int"}, ""},
		{"NodeSliceIndex", "EvalNode", "nodeSliceIndex", []string{"Expr", "Index"}, []string{"slice", "int"}, ""},
		{"NodeSliceLast", "EvalNode", "nodeSliceLast", []string{"Expr"}, []string{"slice"}, ""},
		{"IfThenElse", "EvalInt", "ifThenElse", []string{"Cond", "Then", "Else"}, []string{"bool", "int", "int"}, ""},
		{"Len", "EvalInt", "", []string{"Expr"}, []string{"string"}, "len(A0)"},
		{"IntLiteral", "EvalInt", "", nil, nil, ".Value"},
	}
	for _, p := range pairs {
		construct := fmt.Sprintf("poslang.(*%s).%s", p.typ, p.method)
		ifn := w.fn(pl, "(*"+p.typ+")."+p.method)
		if ifn == nil || ifn.Blocks == nil {
			r.bad(rule, construct, "-", "interpreter method not found")
			continue
		}
		var atoms []cellAtom
		for i, k := range p.kinds {
			atoms = append(atoms, cellAtom{fmt.Sprintf("A%d", i), k})
		}
		// interpreter atoms: recv.<Field>.Eval*(x)
		var argProblem string
		iatom := func(v ssa.Value) (cellAtom, bool) {
			call, ok := v.(*ssa.Call)
			if !ok || !call.Call.IsInvoke() || !strings.HasPrefix(call.Call.Method.Name(), "Eval") {
				return cellAtom{}, false
			}
			ld, ok := isLoad(call.Call.Value)
			if !ok {
				return cellAtom{}, false
			}
			fa, ok := ld.(*ssa.FieldAddr)
			if !ok || fa.X != ssa.Value(ifn.Params[0]) {
				return cellAtom{}, false
			}
			if len(call.Call.Args) != 1 || call.Call.Args[0] != ssa.Value(ifn.Params[1]) {
				argProblem = "a sub-expression is evaluated on something other than the node being evaluated"
			}
			for i, f := range p.fields {
				if f == fieldAddrName(fa) {
					return atoms[i], true
				}
			}
			return cellAtom{}, false
		}
		it := cellTable(ifn, atoms, iatom)
		var ht map[string]string
		hname := "the builtin"
		if p.helper != "" {
			hname = "ast." + p.helper
			var hfn *ssa.Function
			for _, fn := range w.ModFns {
				if fnPkgPath(fn) != modRoot+"/ast" || fn.Parent() != nil || fn.Blocks == nil {
					continue
				}
				name := fn.Name()
				if o := fn.Origin(); o != nil {
					name = o.Name()
					if len(fn.TypeArgs()) == 0 {
						continue
					}
				}
				if name == p.helper && (hfn == nil || fn.String() < hfn.String()) {
					hfn = fn
				}
			}
			if hfn == nil {
				r.bad(rule, construct, w.pos(ifn.Pos()), "helper "+hname+" not found")
				continue
			}
			hatom := func(v ssa.Value) (cellAtom, bool) {
				for i, prm := range hfn.Params {
					if v == ssa.Value(prm) && i < len(atoms) {
						return atoms[i], true
					}
				}
				return cellAtom{}, false
			}
			ht = cellTable(hfn, atoms, hatom)
		} else {
			ht = map[string]string{}
			for k := range it {
				ht[k] = p.expect
			}
		}
		var diffs []string
		for _, k := range sortedKeysS(it) {
			a, b := it[k], ht[k]
			if a != b || strings.Contains(a, "?") {
				where := k
				if where == "" {
					where = "always"
				}
				diffs = append(diffs, fmt.Sprintf("[%s] interpreter yields %s, %s yields %s", where, renderTerm(a, p), hname, renderTerm(b, p)))
			}
		}
		if argProblem != "" {
			diffs = append(diffs, argProblem)
		}
		if len(diffs) > 0 {
			r.bad(rule, construct, w.pos(ifn.Pos()), "the interpreter disagrees with the compiled helper: "+strings.Join(diffs, "; "))
		} else {
			r.ok(rule, construct, w.pos(ifn.Pos()), fmt.Sprintf("agrees with %s on all %d cells", hname, len(it)))
		}
	}
	// first-match loops
	for _, spec := range []struct{ typ, method, test, none string }{{"PosChoice", "EvalPos", "Invalid", "-1"}, {"NodeChoice", "EvalNode", "nil", "nil"}} {
		construct := fmt.Sprintf("poslang.(*%s).%s", spec.typ, spec.method)
		fn := w.fn(pl, "(*"+spec.typ+")."+spec.method)
		if fn == nil || fn.Blocks == nil {
			r.bad(rule, construct, "-", "interpreter method not found")
			continue
		}
		if probs := w.firstMatchLoopInterp(fn, spec.method, spec.test, spec.none); len(probs) > 0 {
			r.bad(rule, construct, w.pos(fn.Pos()), "the interpreter disagrees with the compiled helper: "+strings.Join(probs, "; "))
		} else {
			r.ok(rule, construct, w.pos(fn.Pos()), "value of the first alternative that passes the test, else "+spec.none)
		}
	}
}

func renderTerm(t string, p interpPair) string {
	for i, f := range p.fields {
		t = strings.ReplaceAll(t, fmt.Sprintf("A%d", i), "<"+f+">")
	}
	return t
}

func sortedKeysS(m map[string]string) []string {
	var out []string
	for k := range m {
		out = append(out, k)
	}
	sort.Strings(out)
	return out
}

// firstMatchLoopInterp: `for _, e := range recv.Exprs { v := e.EvalX(x); if good(v) { return v } }; return none`.
func (w *World) firstMatchLoopInterp(fn *ssa.Function, method, test, none string) []string {
	var problems []string
	var idxPhi *ssa.Phi
	for _, b := range fn.Blocks {
		for _, in := range b.Instrs {
			if phi, ok := in.(*ssa.Phi); ok {
				if bt, ok := phi.Type().Underlying().(*types.Basic); ok && bt.Kind() == types.Int {
					idxPhi = phi
				}
			}
		}
	}
	if idxPhi == nil {
		return []string{"no index loop over the alternatives"}
	}
	start, step := false, false
	for _, e := range idxPhi.Edges {
		if k, ok := constInt(e); ok && k == -1 {
			start = true
		}
		if bo, ok := e.(*ssa.BinOp); ok && bo.Op == token.ADD && bo.X == ssa.Value(idxPhi) {
			if k, ok := constInt(bo.Y); ok && k == 1 {
				step = true
			}
		}
	}
	if !start || !step {
		problems = append(problems, "the loop does not scan the alternatives from the first to the last")
	}
	isAltEval := func(v ssa.Value) bool {
		call, ok := v.(*ssa.Call)
		if !ok || !call.Call.IsInvoke() || call.Call.Method.Name() != method {
			return false
		}
		if len(call.Call.Args) != 1 || call.Call.Args[0] != ssa.Value(fn.Params[1]) {
			return false
		}
		ld, ok := isLoad(call.Call.Value)
		if !ok {
			return false
		}
		ia, ok := ld.(*ssa.IndexAddr)
		if !ok {
			return false
		}
		// index: the loop index (idxPhi + 1)
		if bo, ok := ia.Index.(*ssa.BinOp); !ok || bo.X != ssa.Value(idxPhi) {
			return false
		}
		sl, ok := isLoad(ia.X)
		if !ok {
			return false
		}
		fa, ok := sl.(*ssa.FieldAddr)
		return ok && fa.X == ssa.Value(fn.Params[0]) && fieldAddrName(fa) == "Exprs"
	}
	elemRet, noneRet := false, false
	for _, b := range fn.Blocks {
		ret, ok := b.Instrs[len(b.Instrs)-1].(*ssa.Return)
		if !ok {
			continue
		}
		v := ret.Results[0]
		if c, ok := v.(*ssa.Const); ok {
			s := "nil"
			if c.Value != nil {
				s = c.Value.ExactString()
			}
			if s == none {
				noneRet = true
			} else {
				problems = append(problems, "returns constant "+s)
			}
			continue
		}
		if !isAltEval(v) {
			problems = append(problems, "returns something that is not the value of an alternative")
			continue
		}
		guard := false
		for d := b; d != nil; d = d.Idom() {
			p := d.Idom()
			if p == nil {
				break
			}
			iff, ok := p.Instrs[len(p.Instrs)-1].(*ssa.If)
			if !ok || len(d.Preds) != 1 {
				continue
			}
			switch test {
			case "Invalid":
				if c, ok := iff.Cond.(*ssa.Call); ok && c.Call.StaticCallee() != nil && c.Call.StaticCallee().Name() == "Invalid" && c.Call.Args[0] == v && p.Succs[1] == d {
					guard = true
				}
				if u, ok := iff.Cond.(*ssa.UnOp); ok && u.Op == token.NOT && p.Succs[0] == d {
					if c, ok := u.X.(*ssa.Call); ok && c.Call.StaticCallee() != nil && c.Call.StaticCallee().Name() == "Invalid" && c.Call.Args[0] == v {
						guard = true
					}
				}
			case "nil":
				if bo, ok := iff.Cond.(*ssa.BinOp); ok && bo.X == v && isNilConst(bo.Y) {
					if (bo.Op == token.NEQ && p.Succs[0] == d) || (bo.Op == token.EQL && p.Succs[1] == d) {
						guard = true
					}
				}
			}
		}
		if guard {
			elemRet = true
		} else {
			problems = append(problems, "the value of an alternative is returned without having passed the validity test")
		}
	}
	if !elemRet {
		problems = append(problems, "never returns the value of an alternative")
	}
	if !noneRet {
		problems = append(problems, "does not return "+none+" when no alternative qualifies")
	}
	return uniqSorted(problems)
}
