package main

import (
	"fmt"
	"go/constant"
	"go/token"
	"go/types"
	"sort"
	"strings"

	"golang.org/x/tools/go/ssa"
)

func init() {
	register(&propDef{
		ID: "C03",
		Explanation: "R1 (RAISE) interprocedural may-escape analysis of panics whose payload is a *memefish.Error over SSA + VTA call graph with flag specialisation: no such panic can leave an exported entry point of package memefish (a raising instruction must be dominated by a defer whose closure recovers, and the handler must not raise itself). " +
			"R2 every recover() value flows only to a nil test, a *Error assertion whose failure branch re-panics the same value and whose success value is recorded (Parser.errors / error result). " +
			"R3 every panic with a non-*Error payload sits on a branch that the value-flow analysis shows dead, or is a listed assumption. " +
			"R4 every loop of the lexer/parser/splitter has a progress event (token consumption while the kind state excludes <eof>, or a strictly increasing cursor) on each feasible cycle. " +
			"R5 the error result of entry points carries only MultiError / *Error, node results of single-node functions are never nil. " +
			"Decides: containment of syntax-error panics, recovery discipline, loop progress. Does not decide: run-time panics from byte arithmetic (index/slice bounds), recursion depth.",
		Rules: []ruleFn{ruleC03R1, ruleC03R2, ruleC03R3, ruleC03R4, ruleC03R5, ruleC03R6, ruleC13R3, ruleC03R8, ruleC20R3, ruleC20R4, ruleC03R9, ruleC13R6, ruleC03R10, ruleC03R11},
	})
}

type raiseSite struct {
	in   ssa.Instruction
	desc string
	next raiseCtx
}

// sites lists every unprotected instruction of c.fn through which a *Error may escape.
func (rz *Raise) sites(c raiseCtx) []raiseSite {
	w := rz.w
	fn := c.fn
	var out []raiseSite
	if fn.Blocks == nil {
		return nil
	}
	defs, _ := recoverDefers(fn)
	rs := rz.reach(fn, c.flag)
	for _, b := range fn.Blocks {
		if !rs[b] {
			continue
		}
		dead := w.deadAt(b)
		for i, in := range b.Instrs {
			if dead >= 0 && i > dead {
				break
			}
			if instrProtected(defs, b, i) {
				continue
			}
			switch in := in.(type) {
			case *ssa.Panic:
				if k := w.panicKind(in); k == "error" || k == "unknown" {
					out = append(out, raiseSite{in: in, desc: "panic(" + k + ")"})
				}
			case ssa.CallInstruction:
				if _, isDefer := in.(*ssa.Defer); isDefer {
					continue
				}
				for _, callee := range w.Callees(in) {
					cc := raiseCtx{callee, rz.calleeFlag(c, in, callee)}
					if rz.May(cc) {
						out = append(out, raiseSite{in: in, desc: funcName(callee), next: cc})
					}
				}
			}
		}
	}
	return out
}

func ruleC03R1(w *World, r *Report) {
	const rule = "C03/R1"
	r.rule(rule, "no panic carrying a *memefish.Error can escape an exported entry point of package memefish: every raising instruction on a call path from the entry point is dominated by a defer whose closure calls recover(), and no recovery handler raises", 10)
	rz := w.Raise()
	entries := rz.entryPoints()
	if len(entries) == 0 {
		r.errorf("no exported entry points found in package memefish")
		return
	}
	isEntry := map[*ssa.Function]bool{}
	for _, e := range entries {
		isEntry[e] = true
	}
	r.count("entry points", len(entries))
	for _, e := range entries {
		c := raiseCtx{e, -1}
		name := funcName(e)
		if !rz.May(c) {
			r.ok(rule, "entry "+name, w.pos(e.Pos()), "no *Error panic escapes (all raising paths pass a recovering defer)")
			continue
		}
		sites := rz.sites(c)
		counts := map[string]int{}
		reported := 0
		for _, s := range sites {
			if s.next.fn != nil && isEntry[s.next.fn] {
				continue // reported at that entry point
			}
			counts[s.desc]++
			construct := fmt.Sprintf("entry %s via %s", name, s.desc)
			if counts[s.desc] > 1 {
				construct += fmt.Sprintf(" (site %d)", counts[s.desc])
			}
			chain := name + ": " + s.desc + " at " + w.pos(s.in.Pos())
			if s.next.fn != nil {
				if ch := rz.Chain(s.next); ch != "" {
					chain += " -> " + ch
				}
			}
			r.bad(rule, construct, w.pos(s.in.Pos()), "a *Error panic escapes outside every recovery point: "+chain)
			reported++
		}
		if reported == 0 {
			r.ok(rule, "entry "+name, w.pos(e.Pos()), "raises only through other entry points, which are checked on their own")
		}
	}
	// Error()/String() callbacks of module types must not raise (fmt calls them)
	for _, fn := range w.ModFns {
		if fn.Parent() != nil || fn.Signature.Recv() == nil {
			continue
		}
		switch fn.Name() {
		case "Error", "String", "FullError":
		default:
			continue
		}
		if fn.Synthetic != "" {
			continue
		}
		c := raiseCtx{fn, -1}
		if rz.May(c) {
			r.bad(rule, "callback "+funcName(fn), w.pos(fn.Pos()), "formatting callback may raise: "+rz.Chain(c))
		} else {
			r.ok(rule, "callback "+funcName(fn), w.pos(fn.Pos()), "does not raise")
		}
	}
}

// ruleC03R2: recovery discipline.
func ruleC03R2(w *World, r *Report) {
	const rule = "C03/R2"
	r.rule(rule, "every recover() value is only nil-tested, asserted to *Error with the failure branch re-panicking the same value, and on success recorded (appended to Parser.errors or stored in the error result); no handler drops a recovered value or swallows a foreign panic", 5)
	for _, fn := range w.ModFns {
		for _, rc := range recoverCalls(fn) {
			construct := "recover() in " + funcName(fn)
			verdict, detail := w.checkRecoverUse(rc)
			switch verdict {
			case Discharged:
				r.ok(rule, construct, w.pos(rc.Pos()), detail)
			case Violated:
				r.bad(rule, construct, w.pos(rc.Pos()), detail)
			default:
				r.undecided(rule, construct, w.pos(rc.Pos()), detail)
			}
		}
	}
}

// checkRecoverUse follows the recovered value through nil tests, phis and calls to the type
// assertion(s) that interpret it.
func (w *World) checkRecoverUse(rc *ssa.Call) (Status, string) {
	type item struct{ v ssa.Value }
	seen := map[ssa.Value]bool{}
	work := []ssa.Value{rc}
	var asserts []*ssa.TypeAssert
	nilTested := false
	for len(work) > 0 {
		v := work[len(work)-1]
		work = work[:len(work)-1]
		if seen[v] {
			continue
		}
		seen[v] = true
		for _, u := range referrers(v) {
			switch u := u.(type) {
			case *ssa.BinOp:
				nilTested = true
			case *ssa.Phi:
				work = append(work, u)
			case *ssa.TypeAssert:
				if u.X == v {
					asserts = append(asserts, u)
				}
			case *ssa.Panic:
				// judged from the assertion's failure branch below
			case *ssa.DebugRef:
			case ssa.CallInstruction:
				com := u.Common()
				callees := w.Callees(u)
				if len(callees) == 0 {
					return Undecided, "recovered value passed to an unresolved call at " + w.pos(u.Pos())
				}
				for _, callee := range callees {
					if !corePkg(fnPkgPath(callee)) || callee.Blocks == nil {
						return Violated, fmt.Sprintf("recovered value handed to %s at %s, which cannot record it", funcName(callee), w.pos(u.Pos()))
					}
					off := 0
					if com.IsInvoke() {
						off = 1
					}
					for ai, a := range com.Args {
						if a == v && ai+off < len(callee.Params) {
							work = append(work, callee.Params[ai+off])
						}
					}
				}
			case *ssa.Store:
				// stored into a local cell (named result / captured variable): follow loads of that cell
				if al, ok := u.Addr.(*ssa.Alloc); ok {
					for _, lu := range referrers(al) {
						if ld, ok := lu.(*ssa.UnOp); ok {
							work = append(work, ld)
						}
					}
				} else {
					return Undecided, "recovered value stored to memory at " + w.pos(u.Pos())
				}
			case *ssa.MakeInterface, *ssa.ChangeInterface:
				work = append(work, u.(ssa.Value))
			default:
				return Undecided, fmt.Sprintf("recovered value used by %T at %s", u, w.pos(u.Pos()))
			}
		}
	}
	if len(asserts) == 0 {
		if nilTested {
			return Violated, "recovered value is only compared with nil and then dropped: a panic (of any kind) is swallowed without being recorded"
		}
		return Violated, "recovered value is never inspected: every panic is swallowed"
	}
	var notes []string
	for _, ta := range asserts {
		if !w.isErrorPtr(ta.AssertedType) {
			return Undecided, "recovered value asserted to " + ta.AssertedType.String() + " at " + w.pos(ta.Pos())
		}
		if !ta.CommaOk {
			return Violated, "unchecked assertion r.(*Error) at " + w.pos(ta.Pos()) + ": a foreign panic becomes a type-assertion panic"
		}
		var okv, errv *ssa.Extract
		for _, u := range referrers(ta) {
			if ex, ok := u.(*ssa.Extract); ok {
				if ex.Index == 0 {
					errv = ex
				} else {
					okv = ex
				}
			}
		}
		if okv == nil {
			return Violated, "result 'ok' of r.(*Error) is ignored at " + w.pos(ta.Pos())
		}
		// failure branch must re-panic the same value
		repanic := false
		for _, u := range referrers(okv) {
			iff, ok := u.(*ssa.If)
			if !ok {
				continue
			}
			fb := iff.Block().Succs[1]
			for _, in := range fb.Instrs {
				if p, ok := in.(*ssa.Panic); ok && p.X == ta.X {
					repanic = true
				}
			}
		}
		if !repanic {
			return Violated, "when the recovered value is not a *Error it is not re-panicked (assertion at " + w.pos(ta.Pos()) + "): foreign panics are swallowed"
		}
		if errv == nil {
			return Violated, "the *Error extracted at " + w.pos(ta.Pos()) + " is dropped"
		}
		rec, how := w.errorRecorded(errv)
		if !rec {
			return Violated, "the recovered *Error (" + w.pos(ta.Pos()) + ") is neither appended to Parser.errors nor returned: " + how
		}
		notes = append(notes, "asserted at "+w.pos(ta.Pos())+", else-branch re-panics, "+how)
	}
	return Discharged, strings.Join(notes, "; ")
}

// errorRecorded: does the *Error value reach `p.errors = append(p.errors, e)` or an error result?
func (w *World) errorRecorded(e ssa.Value) (bool, string) {
	seen := map[ssa.Value]bool{}
	work := []ssa.Value{e}
	for len(work) > 0 {
		v := work[len(work)-1]
		work = work[:len(work)-1]
		if seen[v] {
			continue
		}
		seen[v] = true
		for _, u := range referrers(v) {
			switch u := u.(type) {
			case *ssa.Store:
				if u.Val != v {
					continue
				}
				// element of a varargs slice for append, or a named result
				if ia, ok := u.Addr.(*ssa.IndexAddr); ok {
					if al, ok := ia.X.(*ssa.Alloc); ok {
						for _, au := range referrers(al) {
							if sl, ok := au.(*ssa.Slice); ok {
								work = append(work, sl)
							}
						}
					}
					continue
				}
				switch u.Addr.(type) {
				case *ssa.Alloc, *ssa.FreeVar: // a named result, possibly captured by the deferred closure
					if pt, ok := u.Addr.Type().(*types.Pointer); ok && types.Identical(pt.Elem(), types.Universe.Lookup("error").Type()) {
						return true, "stored in the error result"
					}
				}
				if fa, ok := u.Addr.(*ssa.FieldAddr); ok && fieldAddrName(fa) == "errors" && isNamed(fa.X.Type(), modRoot, "Parser") {
					return true, "appended to Parser.errors"
				}
			case *ssa.Call:
				if bi, ok := u.Call.Value.(*ssa.Builtin); ok && bi.Name() == "append" {
					work = append(work, u)
				}
				// handed to a function of the module (recordError(e, l)): followed into its parameter
				if callee := u.Call.StaticCallee(); callee != nil && callee.Blocks != nil && corePkg(fnPkgPath(callee)) && !u.Call.IsInvoke() {
					for i, a := range u.Call.Args {
						if a == v && i < len(callee.Params) {
							work = append(work, callee.Params[i])
						}
					}
				}
			case *ssa.MakeInterface, *ssa.Phi, *ssa.ChangeInterface, *ssa.TypeAssert, *ssa.Extract:
				work = append(work, u.(ssa.Value))
			case *ssa.Return:
				if _, isParam := e.(*ssa.Parameter); !isParam && u.Parent() != nil {
					if in, ok := e.(ssa.Instruction); ok && in.Parent() != u.Parent() {
						continue // a return of a callee the value was handed to: not the handler's own result
					}
				}
				return true, "returned"
			}
		}
	}
	return false, "no store to Parser.errors or an error result found"
}

// ruleC03R3: explicit panics with a non-*Error payload.
func ruleC03R3(w *World, r *Report) {
	const rule = "C03/R3"
	r.rule(rule, "every panic whose payload is not a *Error (\"BUG: …\", \"exprPrec: unexpected\", re-panics aside) is unreachable: it is the fall-through of a type/constant switch whose cases cover every value the flow analysis finds, or a listed assumption", 2)
	for _, fn := range w.ModFns {
		live := w.liveBlocks(fn)
		for _, b := range fn.Blocks {
			if !live[b] {
				continue
			}
			for _, in := range b.Instrs {
				p, ok := in.(*ssa.Panic)
				if !ok || w.panicKind(p) != "other" {
					continue
				}
				construct := "panic(non-*Error) in " + funcName(fn)
				st, detail := w.deadPanic(p)
				switch st {
				case Discharged:
					r.ok(rule, construct, w.pos(p.Pos()), detail)
				case Violated:
					r.bad(rule, construct, w.pos(p.Pos()), detail)
				default:
					r.undecided(rule, construct, w.pos(p.Pos()), detail)
				}
			}
		}
	}
}

func ruleC03R5(w *World, r *Report) {
	const rule = "C03/R5"
	r.rule(rule, "the error result of the Parse* entry points is nil or a MultiError made from a non-empty Parser.errors; NextToken/SplitRawStatements return *Error; single-node entry points never return a nil node", 6)
	rz := w.Raise()
	errT := types.Universe.Lookup("error").Type()
	for _, e := range rz.entryPoints() {
		sig := e.Signature
		n := sig.Results().Len()
		if n == 0 || !types.Identical(sig.Results().At(n-1).Type(), errT) {
			continue
		}
		name := funcName(e)
		// dynamic types reaching the error result
		var kinds []string
		okAll := true
		for _, b := range e.Blocks {
			ret, ok := b.Instrs[len(b.Instrs)-1].(*ssa.Return)
			if !ok {
				continue
			}
			ks, ok2 := w.errorKinds(ret.Results[n-1], map[ssa.Value]bool{})
			kinds = append(kinds, ks...)
			okAll = okAll && ok2
		}
		sort.Strings(kinds)
		kinds = uniqStrings(kinds)
		wantMulti := strings.HasPrefix(e.Name(), "Parse")
		bad := ""
		for _, k := range kinds {
			switch {
			case k == "nil", k == "callee":
			case wantMulti && k == "MultiError":
			case !wantMulti && k == "*Error":
			default:
				bad = k
			}
		}
		switch {
		case !okAll:
			r.undecided(rule, "error result of "+name, w.pos(e.Pos()), "cannot enumerate the dynamic types of the error result")
		case bad != "":
			r.bad(rule, "error result of "+name, w.pos(e.Pos()), "error result may carry dynamic type "+bad)
		default:
			r.ok(rule, "error result of "+name, w.pos(e.Pos()), "dynamic types: "+strings.Join(kinds, ", "))
		}
	}
}

func uniqStrings(s []string) []string {
	var out []string
	for i, x := range s {
		if i == 0 || s[i-1] != x {
			out = append(out, x)
		}
	}
	return out
}

// errorKinds enumerates the dynamic types that may be held by an error-typed SSA value.
func (w *World) errorKinds(v ssa.Value, seen map[ssa.Value]bool) ([]string, bool) {
	if seen[v] {
		return nil, true
	}
	seen[v] = true
	switch v := v.(type) {
	case *ssa.Const:
		if v.Value == nil {
			return []string{"nil"}, true
		}
	case *ssa.MakeInterface:
		t := v.X.Type()
		switch {
		case isNamed(t, modRoot, "MultiError") && !isPointer(t):
			return []string{"MultiError"}, true
		case w.isErrorPtr(t):
			return []string{"*Error"}, true
		}
		return []string{t.String()}, true
	case *ssa.Phi:
		var out []string
		ok := true
		for _, e := range v.Edges {
			ks, o := w.errorKinds(e, seen)
			out = append(out, ks...)
			ok = ok && o
		}
		return out, ok
	case *ssa.Extract:
		if call, ok := v.Tuple.(*ssa.Call); ok {
			return w.calleeErrorKinds(call, v.Index, seen)
		}
	case *ssa.Call:
		return w.calleeErrorKinds(v, 0, seen)
	case *ssa.UnOp:
		// load of a named result cell: union over the stores
		if al, ok := v.X.(*ssa.Alloc); ok {
			out := []string{"nil"}
			okAll := true
			for _, fnn := range append([]*ssa.Function{al.Parent()}, al.Parent().AnonFuncs...) {
				_ = fnn
			}
			var stores []*ssa.Store
			collectStores(al, &stores)
			for _, st := range stores {
				ks, o := w.errorKinds(st.Val, seen)
				out = append(out, ks...)
				okAll = okAll && o
			}
			return out, okAll
		}
	}
	return nil, false
}

func isPointer(t types.Type) bool { _, ok := t.(*types.Pointer); return ok }

// collectStores finds stores to a local cell, including those made by closures that capture it.
func collectStores(al *ssa.Alloc, out *[]*ssa.Store) {
	var visit func(addr ssa.Value)
	visit = func(addr ssa.Value) {
		for _, u := range referrers(addr) {
			switch u := u.(type) {
			case *ssa.Store:
				if u.Addr == addr {
					*out = append(*out, u)
				}
			case *ssa.MakeClosure:
				cl := u.Fn.(*ssa.Function)
				for i, b := range u.Bindings {
					if b == addr {
						visit(cl.FreeVars[i])
					}
				}
			}
		}
	}
	visit(al)
}

func (w *World) calleeErrorKinds(call *ssa.Call, idx int, seen map[ssa.Value]bool) ([]string, bool) {
	var out []string
	ok := true
	callees := w.Callees(call)
	if len(callees) == 0 {
		return nil, false
	}
	for _, callee := range callees {
		if callee.Blocks == nil {
			return nil, false
		}
		for _, b := range callee.Blocks {
			if ret, isRet := b.Instrs[len(b.Instrs)-1].(*ssa.Return); isRet && idx < len(ret.Results) {
				ks, o := w.errorKinds(ret.Results[idx], seen)
				out = append(out, ks...)
				ok = ok && o
			}
		}
	}
	return out, ok
}

// ruleC03R8: standard-library calls with a panicking precondition on a count. strings.Repeat panics on a negative
// count; the only callers are the two underline/indent computations of (*File).Position, which every error goes through.
func ruleC03R8(w *World, r *Report) {
	const rule = "C03/R8"
	r.rule(rule, "every count handed to strings.Repeat / bytes.Repeat in the core packages is non-negative by construction: a constant, a length, a value clamped with `if n < 0 { n = 0 }` or max(0, n) on every incoming path, or the column result of (*File).ResolvePos for a valid position (assumption: the line table starts with 0, so the line loop finds a line and column = pos - start >= 0)", 2)
	var nonNeg func(v ssa.Value, at *ssa.BasicBlock, seen map[ssa.Value]bool) (bool, string)
	nonNeg = func(v ssa.Value, at *ssa.BasicBlock, seen map[ssa.Value]bool) (bool, string) {
		if seen[v] {
			return true, ""
		}
		seen[v] = true
		switch x := v.(type) {
		case *ssa.Const:
			if x.Value != nil && x.Value.Kind() == constant.Int && constant.Sign(x.Value) >= 0 {
				return true, ""
			}
			return false, "negative constant"
		case *ssa.Call:
			if bi, ok := x.Call.Value.(*ssa.Builtin); ok {
				switch bi.Name() {
				case "len", "cap":
					return true, ""
				case "max":
					for _, a := range x.Call.Args {
						if ok, _ := nonNeg(a, at, seen); ok {
							return true, ""
						}
					}
					return false, "max() without a non-negative operand"
				case "min":
					for _, a := range x.Call.Args {
						if ok, why := nonNeg(a, at, seen); !ok {
							return false, why
						}
					}
					return true, ""
				}
			}
			return false, "result of " + x.String()
		case *ssa.Extract:
			if c, ok := x.Tuple.(*ssa.Call); ok {
				if sc := c.Call.StaticCallee(); sc != nil && funcName(sc) == "(*File).ResolvePos" && x.Index == 1 {
					// column of a resolved position; the use must be on a path where the position is valid
					return true, "assumed"
				}
			}
			return false, "tuple element " + x.String()
		case *ssa.Phi:
			for i, e := range x.Edges {
				pred := x.Block().Preds[i]
				if ok, _ := nonNeg(e, pred, seen); ok {
					continue
				}
				// the edge comes through the false side of `e < 0` / true side of `e >= 0`?
				if !edgeImpliesNonNeg(pred, x.Block(), e) {
					return false, fmt.Sprintf("on the edge from block %d the value %s is not clamped", pred.Index, e.Name())
				}
			}
			return true, ""
		case *ssa.Convert:
			return nonNeg(x.X, at, seen)
		case *ssa.Parameter:
			// a count handed down to an excerpt helper: judged at every call of the helper
			fn := x.Parent()
			idx := -1
			for i, p := range fn.Params {
				if p == x {
					idx = i
				}
			}
			n := 0
			why := ""
			for _, site := range w.callersOf(fn) {
				if site.Parent() == nil || site.Parent().Synthetic != "" || !corePkg(fnPkgPath(site.Parent())) {
					continue
				}
				args := site.Common().Args
				if idx < 0 || idx >= len(args) {
					return false, "value parameter " + x.String()
				}
				ok, wy := nonNeg(args[idx], site.Block(), seen)
				if !ok {
					return false, wy
				}
				if wy != "" {
					why = wy
				}
				n++
			}
			if n > 0 {
				return true, why
			}
			return false, "value parameter " + x.String()
		case *ssa.BinOp:
			if x.Op == token.ADD || x.Op == token.MUL {
				okx, _ := nonNeg(x.X, at, seen)
				oky, _ := nonNeg(x.Y, at, seen)
				if okx && oky {
					return true, ""
				}
			}
			return false, "arithmetic " + x.String() + " that can be negative"
		}
		return false, "value " + v.String()
	}
	n := 0
	for _, fn := range w.ModFns {
		if !corePkg(fnPkgPath(fn)) || fn.Blocks == nil {
			continue
		}
		for _, b := range fn.Blocks {
			for _, in := range b.Instrs {
				c, ok := in.(*ssa.Call)
				if !ok {
					continue
				}
				sc := c.Call.StaticCallee()
				if sc == nil || sc.Pkg == nil || sc.Name() != "Repeat" || (sc.Pkg.Pkg.Path() != "strings" && sc.Pkg.Pkg.Path() != "bytes") {
					continue
				}
				n++
				construct := fmt.Sprintf("count of %s.Repeat #%d in %s", sc.Pkg.Pkg.Name(), n, funcName(fn))
				arg := c.Call.Args[1]
				// a use dominated by the false side of `arg < 0` is fine too
				ok2, why := nonNeg(arg, b, map[ssa.Value]bool{})
				if !ok2 && w.dominatedByNonNegTest(b, arg) {
					ok2, why = true, ""
				}
				switch {
				case !ok2:
					r.bad(rule, construct, w.pos(c.Pos()), "the count can be negative ("+why+"): strings.Repeat panics with \"negative Repeat count\" while the error position is being formatted, instead of the *Error being returned")
				case why == "assumed":
					r.ok(rule, construct, w.pos(c.Pos()), "column of ResolvePos for a valid position (assumption stated in the rule)")
				default:
					r.ok(rule, construct, w.pos(c.Pos()), "non-negative by construction")
				}
			}
		}
	}
	if n < 2 {
		r.errorf("expected the two strings.Repeat calls of (*File).Position, found %d", n)
	}
}

// edgeImpliesNonNeg: the CFG edge pred->succ is only taken when v >= 0 (pred ends in `if v < 0` and succ is its
// false successor, or `if v >= 0` and succ its true successor), possibly through empty jump blocks.
func edgeImpliesNonNeg(pred, succ *ssa.BasicBlock, v ssa.Value) bool {
	for steps := 0; steps < 3; steps++ {
		if iff, ok := pred.Instrs[len(pred.Instrs)-1].(*ssa.If); ok {
			bo, ok := iff.Cond.(*ssa.BinOp)
			if !ok || bo.X != v {
				return false
			}
			idx := -1
			for i, s := range pred.Succs {
				if s == succ {
					idx = i
				}
			}
			if pred.Succs[0] == pred.Succs[1] {
				return false
			}
			switch {
			case bo.Op == token.LSS && constIntIs(bo.Y, 0):
				return idx == 1
			case bo.Op == token.GEQ && constIntIs(bo.Y, 0):
				return idx == 0
			case bo.Op == token.GTR && constIntIs(bo.Y, -1):
				return idx == 0
			case bo.Op == token.LEQ && constIntIs(bo.Y, -1):
				return idx == 1
			}
			return false
		}
		if len(pred.Preds) != 1 || len(pred.Instrs) != 1 {
			return false
		}
		succ, pred = pred, pred.Preds[0]
	}
	return false
}

func (w *World) dominatedByNonNegTest(b *ssa.BasicBlock, v ssa.Value) bool {
	for d := b; d != nil; d = d.Idom() {
		id := d.Idom()
		if id == nil {
			break
		}
		if len(d.Preds) == 1 && d.Preds[0] == id && edgeImpliesNonNeg(id, d, v) {
			return true
		}
	}
	return false
}

// ruleC03R10: the quoting helpers with a documented domain (token.QuoteSQLIdent reads s[0]: names are non-empty) are
// called by the parser and the lexer only with the spelling of an identifier token — the one kind of token whose
// AsString the lexer never leaves empty. An error message that quotes "the current token" at a place where that token
// can be a keyword, a punctuation or <eof> panics with an index error, which no recovery point turns into a *Error.
func ruleC03R10(w *World, r *Report) {
	const rule = "C03/R10"
	r.rule(rule, "every call of a quoting helper that requires a non-empty name (token.QuoteSQLIdent) outside package ast passes the AsString of a token that is an identifier at that point: the result of expect(<ident>), or the current token where the token-kind analysis finds only <ident>", 1)
	tk := w.TKAI()
	var targets []*ssa.Function
	for k := range lbRootPre {
		name := strings.SplitN(k, ".", 2)[0]
		if f := w.fn(w.Tok, name); f != nil {
			targets = append(targets, f)
		}
	}
	isTarget := func(f *ssa.Function) bool {
		for _, t := range targets {
			if t == f {
				return true
			}
		}
		return false
	}
	n := 0
	for _, fn := range w.ModFns {
		if fnPkgPath(fn) != modRoot {
			continue
		}
		cnt := 0
		for _, b := range fn.Blocks {
			for _, in := range b.Instrs {
				call, ok := in.(*ssa.Call)
				if !ok || call.Call.StaticCallee() == nil || !isTarget(call.Call.StaticCallee()) || len(call.Call.Args) < 1 {
					continue
				}
				n++
				cnt++
				construct := fmt.Sprintf("%s call %d in %s", call.Call.StaticCallee().Name(), cnt, funcName(fn))
				arg := call.Call.Args[0]
				why := "the argument is not the AsString of a token"
				okArg := false
				if addr, isLd := isLoad(arg); isLd {
					if fa, isFA := addr.(*ssa.FieldAddr); isFA && fieldAddrName(fa) == "AsString" {
						tokv := fa.X
						switch {
						case func() bool { _, cur := w.curTokenAddr(tokv); return cur }():
							res := tk.Intra(fn)
							sts := tk.statesBefore(res, call)
							kinds := kEmpty()
							for _, st := range sts {
								if st != nil {
									kinds = kinds.Join(st.cur)
								}
							}
							allIdent := false
							if ks, fin := kinds.Finite(); fin && len(ks) > 0 {
								allIdent = true
								for _, a := range ks {
									if !isIdentish(a) {
										allIdent = false
									}
								}
							}
							if allIdent {
								okArg = true
								why = "the current token is an identifier here"
							} else {
								why = "the current token can be " + kinds.String() + " here, and only identifier tokens have a non-empty AsString"
							}
						default:
							// the token held by value in a local (`id := p.expect(<ident>)` with expect returning token.Token):
							// what was stored into the cell
							if al, isAl := tokv.(*ssa.Alloc); isAl {
								if _, srcs := tk.tokenSources(al); len(srcs) == 1 {
									tokv = srcs[0]
								}
							}
							if c, isCall := tokv.(*ssa.Call); isCall && c.Call.StaticCallee() != nil && c.Call.StaticCallee().Name() == "expect" && len(c.Call.Args) == 2 {
								if k, isC := constString(c.Call.Args[1]); isC && k == "<ident>" {
									okArg = true
									why = "the token returned by expect(<ident>)"
								} else {
									why = "the token returned by expect is not required to be an identifier"
								}
							} else {
								why = "the token whose AsString is quoted is neither the current token nor the result of expect(<ident>)"
							}
						}
					}
				}
				if okArg {
					r.ok(rule, construct, w.pos(call.Pos()), why)
				} else {
					r.bad(rule, construct, w.pos(call.Pos()), why+": "+call.Call.StaticCallee().Name()+" indexes the first byte of its argument — an index-out-of-range panic that no recovery point converts into a *Error")
				}
			}
		}
	}
	if n == 0 {
		r.trivial(rule, "calls of the quoting helpers outside package ast", "-", "none")
	}
}

// ruleC03R11: the string-taking entry points (memefish.ParseStatement(filepath, s), …) hand back exactly what the
// Parser method returned. A pre-check that returns early (a nesting limit, a size limit) with a nil node and an error
// breaks the clause "a non-nil node together with the error" for inputs the Parser method handles.
func ruleC03R11(w *World, r *Report) {
	const rule = "C03/R11"
	r.rule(rule, "the package-level Parse* functions (and the module functions whose results they pass on) never return a constant nil node: what they return is what a (*Parser).Parse* call returned — no early return path with a nil node and a hand-made error exists", 5)
	entries := map[*ssa.Function]bool{}
	for _, e := range w.parseEntryMethods() {
		entries[e] = true
	}
	for _, fn := range w.ModFns {
		if fnPkgPath(fn) != modRoot || fn.Parent() != nil || fn.Signature.Recv() != nil || !strings.HasPrefix(fn.Name(), "Parse") || !token.IsExported(fn.Name()) {
			continue
		}
		if fn.Signature.Results().Len() != 2 {
			continue
		}
		construct := "returns of memefish." + fn.Name()
		bad := ""
		n := 0
		// the function itself and the module functions whose results it passes on (a shared generic helper): no return
		// of theirs has a constant nil node; what is returned comes, in the end, from a (*Parser).Parse* call
		seenFn := map[*ssa.Function]bool{}
		work := []*ssa.Function{fn}
		reachesEntry := false
		for len(work) > 0 {
			f := work[0]
			work = work[1:]
			if seenFn[f] || f.Blocks == nil {
				continue
			}
			seenFn[f] = true
			for _, b := range f.Blocks {
				ret, ok := b.Instrs[len(b.Instrs)-1].(*ssa.Return)
				if !ok || len(ret.Results) != 2 {
					continue
				}
				n++
				for _, o := range phiOrigins(ret.Results[0]) {
					if c, isC := o.(*ssa.Const); isC && c.Value == nil {
						bad = "the return at " + w.pos(ret.Pos()) + " hands back a nil node: the entry point does not return what (*Parser).Parse* returns for this input"
						continue
					}
					if ex, ok := o.(*ssa.Extract); ok {
						if c, ok := ex.Tuple.(*ssa.Call); ok {
							for _, cal := range w.Callees(c) {
								if entries[cal] {
									reachesEntry = true
								} else if fnPkgPath(cal) == modRoot {
									work = append(work, cal)
								}
							}
							if c.Call.StaticCallee() == nil && len(w.Callees(c)) == 0 {
								reachesEntry = true // a function value handed in by the entry point (func(*Parser) (T, error))
							}
						}
					}
				}
			}
		}
		if bad == "" && !reachesEntry {
			bad = "no (*Parser).Parse* call provides the returned node"
		}
		switch {
		case n == 0:
			r.bad(rule, construct, w.pos(fn.Pos()), "no return found")
		case bad != "":
			r.bad(rule, construct, w.pos(fn.Pos()), bad)
		default:
			r.ok(rule, construct, w.pos(fn.Pos()), fmt.Sprintf("%d return(s), each the pair returned by the Parser method", n))
		}
	}
}
