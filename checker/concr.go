package main

// CONCR: a small interpreter of the SSA form for table-like functions (exprPrec, paren, keyword classifiers): the
// function is *read* with concrete or partly known arguments — a dynamic type, the constant held by one field, a
// constant — and the value it returns (or the fact that it panics) is computed by following the instructions. Nothing of
// the repository is executed: the interpreter walks go/ssa instructions and knows constants, type tests, field loads of
// the abstract argument, lookups in package-level tables that are filled once by the package initialiser, string
// concatenation (as a set of constant parts) and calls of functions of the module. A branch on a value it does not
// know ends the interpretation with "unknown", and the rule that asked reports the construct as undecided.

import (
	"fmt"
	"go/constant"
	"go/token"
	"go/types"
	"sort"
	"strings"

	"golang.org/x/tools/go/ssa"
)

type ckind int

const (
	cUnknown ckind = iota
	cConst
	cDyn    // the abstract argument: a value of dynamic type *ast.<typ> with some known fields
	cField  // address of a field of a cDyn
	cStr    // a string built from constant parts and unknown parts
	cTuple  // multi-value
	cMap    // a constant package-level table
	cNilPtr // typed nil
)

type cval struct {
	kind   ckind
	c      constant.Value
	typ    string          // cDyn: struct name in package ast
	fields map[string]cval // cDyn
	field  string          // cField
	dyn    *cval           // cField
	parts  []string        // cStr: constant parts, in order of concatenation
	tuple  []cval
	m      map[string]cval // cMap
}

func (v cval) String() string {
	switch v.kind {
	case cConst:
		return v.c.ExactString()
	case cDyn:
		return "*" + v.typ
	case cStr:
		return fmt.Sprintf("str%q", v.parts)
	case cTuple:
		return fmt.Sprint(v.tuple)
	case cMap:
		return fmt.Sprintf("map[%d]", len(v.m))
	}
	return "?"
}

func constKey(c constant.Value) string {
	if c == nil {
		return "<nil>"
	}
	if c.Kind() == constant.String {
		return "s:" + constant.StringVal(c)
	}
	return c.ExactString()
}

// ---- constant package-level maps ------------------------------------------------------------------

type constMapInfo struct {
	entries map[string]cval // constKey(key) -> value
	keys    map[string]bool // string value (string keys) or exact string
	why     string          // "" when constant; otherwise why it is not
}

func (w *World) constMapOf(g *ssa.Global) *constMapInfo {
	if w.constMaps == nil {
		w.constMaps = map[*ssa.Global]*constMapInfo{}
	}
	if ci, ok := w.constMaps[g]; ok {
		return ci
	}
	ci := &constMapInfo{entries: map[string]cval{}, keys: map[string]bool{}}
	w.constMaps[g] = ci
	if _, isMap := g.Type().(*types.Pointer).Elem().Underlying().(*types.Map); !isMap {
		ci.why = "not a map"
		return ci
	}
	isInit := func(fn *ssa.Function) bool {
		return fn.Synthetic == "package initializer" || (fn.Parent() == nil && fn.Signature.Recv() == nil && (fn.Name() == "init" || strings.HasPrefix(fn.Name(), "init#")))
	}
	var made ssa.Value
	nStores := 0
	// every use of the global in the whole program
	for fn := range w.AllFns {
		if fn.Blocks == nil {
			continue
		}
		for _, b := range fn.Blocks {
			for _, in := range b.Instrs {
				uses := false
				for _, op := range in.Operands(nil) {
					if *op == ssa.Value(g) {
						uses = true
					}
				}
				if !uses {
					continue
				}
				switch x := in.(type) {
				case *ssa.Store:
					if x.Addr != ssa.Value(g) {
						ci.why = "its address is stored somewhere"
						return ci
					}
					nStores++
					if !isInit(fn) {
						ci.why = "assigned outside the package initialiser, in " + funcName(fn)
						return ci
					}
					made = x.Val
				case *ssa.UnOp:
					if x.Op != token.MUL {
						ci.why = "unexpected use"
						return ci
					}
					// the loaded map value: read-only uses only (outside init)
					for _, ref := range *x.Referrers() {
						switch r := ref.(type) {
						case *ssa.Lookup, *ssa.Range, *ssa.DebugRef:
						case *ssa.MapUpdate:
							if !isInit(fn) {
								ci.why = "written in " + funcName(fn)
								return ci
							}
							_ = r
						case *ssa.Call:
							if bi, ok := r.Call.Value.(*ssa.Builtin); ok && bi.Name() == "len" {
								continue
							}
							ci.why = "passed to a call in " + funcName(fn)
							return ci
						default:
							ci.why = fmt.Sprintf("used by %T in %s", ref, funcName(fn))
							return ci
						}
					}
				default:
					ci.why = fmt.Sprintf("its address is used by %T in %s", in, funcName(fn))
					return ci
				}
			}
		}
	}
	if nStores != 1 || made == nil {
		ci.why = fmt.Sprintf("%d assignments", nStores)
		return ci
	}
	var mm *ssa.MakeMap
	switch x := made.(type) {
	case *ssa.MakeMap:
		mm = x
	case *ssa.Call:
		// built by a helper of the module from constant tables: not followed here
		ci.why = "built by a call"
		return ci
	default:
		ci.why = fmt.Sprintf("assigned a %T", made)
		return ci
	}
	for _, ref := range *mm.Referrers() {
		switch r := ref.(type) {
		case *ssa.MapUpdate:
			k, ok1 := r.Key.(*ssa.Const)
			v, ok2 := r.Value.(*ssa.Const)
			if !ok1 || !ok2 || k.Value == nil {
				ci.why = "an entry is not a pair of constants"
				return ci
			}
			ci.entries[constKey(k.Value)] = cval{kind: cConst, c: v.Value}
			if k.Value.Kind() == constant.String {
				ci.keys[constant.StringVal(k.Value)] = true
			} else {
				ci.keys[k.Value.ExactString()] = true
			}
		case *ssa.Store, *ssa.DebugRef:
		default:
			ci.why = fmt.Sprintf("the fresh map is used by %T", ref)
			return ci
		}
	}
	return ci
}

// constMapLoad: v is a load of a package-level map that is a constant table.
func (w *World) constMapLoad(v ssa.Value) *constMapInfo {
	u, ok := v.(*ssa.UnOp)
	if !ok || u.Op != token.MUL {
		return nil
	}
	g, ok := u.X.(*ssa.Global)
	if !ok {
		return nil
	}
	ci := w.constMapOf(g)
	if ci.why != "" {
		return nil
	}
	return ci
}

// ---- interpreter ------------------------------------------------------------------------------------

type concrOutcome struct {
	status string // "return", "panic", "unknown"
	vals   []cval
	why    string
}

type concr struct {
	w     *World
	steps int
}

func (w *World) newConcr() *concr { return &concr{w: w} }

func (ci *concr) run(fn *ssa.Function, args []cval, depth int) concrOutcome {
	if fn.Blocks == nil || depth > 8 {
		return concrOutcome{status: "unknown", why: "no body / too deep: " + funcName(fn)}
	}
	env := map[ssa.Value]cval{}
	for i, p := range fn.Params {
		if i < len(args) {
			env[p] = args[i]
		}
	}
	get := func(v ssa.Value) cval {
		if c, ok := v.(*ssa.Const); ok {
			if c.Value == nil {
				return cval{kind: cNilPtr}
			}
			return cval{kind: cConst, c: c.Value}
		}
		if x, ok := env[v]; ok {
			return x
		}
		return cval{}
	}
	var prev *ssa.BasicBlock
	b := fn.Blocks[0]
	for {
		for _, in := range b.Instrs {
			ci.steps++
			if ci.steps > 200000 {
				return concrOutcome{status: "unknown", why: "step limit"}
			}
			switch x := in.(type) {
			case *ssa.Phi:
				for i, p := range b.Preds {
					if p == prev {
						env[x] = get(x.Edges[i])
					}
				}
			case *ssa.TypeAssert:
				v := get(x.X)
				if v.kind != cDyn {
					env[x] = cval{}
					continue
				}
				ok := ci.w.dynMatches(v.typ, x.AssertedType)
				if x.CommaOk {
					res := cval{}
					if ok {
						res = v
					}
					env[x] = cval{kind: cTuple, tuple: []cval{res, {kind: cConst, c: constant.MakeBool(ok)}}}
				} else if ok {
					env[x] = v
				} else {
					return concrOutcome{status: "panic", why: "failed type assertion"}
				}
			case *ssa.Extract:
				t := get(x.Tuple)
				if t.kind == cTuple && x.Index < len(t.tuple) {
					env[x] = t.tuple[x.Index]
				} else {
					env[x] = cval{}
				}
			case *ssa.FieldAddr:
				v := get(x.X)
				if v.kind == cDyn {
					vv := v
					env[x] = cval{kind: cField, dyn: &vv, field: fieldAddrName(x)}
				} else {
					env[x] = cval{}
				}
			case *ssa.UnOp:
				switch x.Op {
				case token.MUL:
					if g, ok := x.X.(*ssa.Global); ok {
						if cm := ci.w.constMapOf(g); cm.why == "" {
							env[x] = cval{kind: cMap, m: cm.entries}
							continue
						}
						env[x] = cval{}
						continue
					}
					v := get(x.X)
					if v.kind == cField {
						if f, ok := v.dyn.fields[v.field]; ok {
							env[x] = f
							continue
						}
					}
					env[x] = cval{}
				case token.NOT:
					v := get(x.X)
					if v.kind == cConst && v.c.Kind() == constant.Bool {
						env[x] = cval{kind: cConst, c: constant.MakeBool(!constant.BoolVal(v.c))}
					} else {
						env[x] = cval{}
					}
				case token.SUB:
					v := get(x.X)
					if v.kind == cConst {
						env[x] = cval{kind: cConst, c: constant.UnaryOp(token.SUB, v.c, 0)}
					} else {
						env[x] = cval{}
					}
				default:
					env[x] = cval{}
				}
			case *ssa.Lookup:
				m, k := get(x.X), get(x.Index)
				if m.kind == cMap && k.kind == cConst {
					e, ok := m.m[constKey(k.c)]
					if !ok {
						e = zeroCval(x.Type(), x.CommaOk)
					}
					if x.CommaOk {
						env[x] = cval{kind: cTuple, tuple: []cval{e, {kind: cConst, c: constant.MakeBool(ok)}}}
					} else {
						env[x] = e
					}
				} else {
					env[x] = cval{}
				}
			case *ssa.BinOp:
				env[x] = concrBinOp(x.Op, get(x.X), get(x.Y))
			case *ssa.ChangeType:
				env[x] = get(x.X)
			case *ssa.Convert:
				env[x] = get(x.X)
			case *ssa.MakeInterface:
				env[x] = get(x.X)
			case *ssa.ChangeInterface:
				env[x] = get(x.X)
			case *ssa.Call:
				callee := x.Call.StaticCallee()
				if callee != nil && callee.Blocks != nil && corePkg(fnPkgPath(callee)) && !x.Call.IsInvoke() {
					var as []cval
					for _, a := range x.Call.Args {
						as = append(as, get(a))
					}
					out := ci.run(callee, as, depth+1)
					switch out.status {
					case "panic":
						return out
					case "unknown":
						// the result is unknown, the caller may still not depend on it
						env[x] = unknownResult(x.Type())
					default:
						if len(out.vals) == 1 {
							env[x] = out.vals[0]
						} else {
							env[x] = cval{kind: cTuple, tuple: out.vals}
						}
					}
					continue
				}
				env[x] = unknownResult(x.Type())
			case *ssa.DebugRef:
			case *ssa.If:
				c := get(x.Cond)
				if c.kind != cConst || c.c.Kind() != constant.Bool {
					return concrOutcome{status: "unknown", why: "branch on a value that is not known at " + ci.w.pos(concrCondPos(x, b))}
				}
				prev = b
				if constant.BoolVal(c.c) {
					b = b.Succs[0]
				} else {
					b = b.Succs[1]
				}
				goto next
			case *ssa.Jump:
				prev = b
				b = b.Succs[0]
				goto next
			case *ssa.Return:
				var vs []cval
				for _, r := range x.Results {
					vs = append(vs, get(r))
				}
				return concrOutcome{status: "return", vals: vs}
			case *ssa.Panic:
				return concrOutcome{status: "panic", why: ci.w.pos(x.Pos())}
			default:
				if v, ok := in.(ssa.Value); ok {
					env[v] = cval{}
				} else {
					// stores, defers, sends: the table functions have none that matter; be safe
					return concrOutcome{status: "unknown", why: fmt.Sprintf("%T in %s", in, funcName(fn))}
				}
			}
		}
		return concrOutcome{status: "unknown", why: "fell off a block"}
	next:
	}
}

func concrCondPos(x *ssa.If, b *ssa.BasicBlock) token.Pos {
	if v, ok := x.Cond.(ssa.Instruction); ok && v.Pos().IsValid() {
		return v.Pos()
	}
	for i := len(b.Instrs) - 1; i >= 0; i-- {
		if b.Instrs[i].Pos().IsValid() {
			return b.Instrs[i].Pos()
		}
	}
	return token.NoPos
}

func unknownResult(t types.Type) cval {
	if b, ok := t.Underlying().(*types.Basic); ok && b.Info()&types.IsString != 0 {
		return cval{kind: cStr, parts: []string{"\x00?"}}
	}
	return cval{}
}

func zeroCval(t types.Type, commaOk bool) cval {
	if commaOk {
		if tup, ok := t.(*types.Tuple); ok {
			t = tup.At(0).Type()
		}
	}
	switch u := t.Underlying().(type) {
	case *types.Basic:
		switch {
		case u.Info()&types.IsString != 0:
			return cval{kind: cConst, c: constant.MakeString("")}
		case u.Info()&types.IsBoolean != 0:
			return cval{kind: cConst, c: constant.MakeBool(false)}
		case u.Info()&types.IsNumeric != 0:
			return cval{kind: cConst, c: constant.MakeInt64(0)}
		}
	}
	return cval{}
}

func concrBinOp(op token.Token, a, b cval) cval {
	str := func(v cval) ([]string, bool) {
		switch v.kind {
		case cConst:
			if v.c.Kind() == constant.String {
				return []string{constant.StringVal(v.c)}, true
			}
		case cStr:
			return v.parts, true
		}
		return nil, false
	}
	if a.kind == cConst && b.kind == cConst {
		switch op {
		case token.EQL, token.NEQ, token.LSS, token.LEQ, token.GTR, token.GEQ:
			if a.c.Kind() == b.c.Kind() || (a.c.Kind() != constant.String && b.c.Kind() != constant.String && a.c.Kind() != constant.Bool && b.c.Kind() != constant.Bool) {
				return cval{kind: cConst, c: constant.MakeBool(constant.Compare(a.c, op, b.c))}
			}
			return cval{}
		case token.ADD, token.SUB, token.MUL, token.AND, token.OR, token.XOR, token.LAND, token.LOR:
			defer func() { recover() }()
			if a.c.Kind() == b.c.Kind() {
				return cval{kind: cConst, c: constant.BinaryOp(a.c, op, b.c)}
			}
		case token.SHL, token.SHR:
			if s, ok := constant.Uint64Val(b.c); ok && a.c.Kind() == constant.Int {
				return cval{kind: cConst, c: constant.Shift(a.c, op, uint(s))}
			}
		}
		return cval{}
	}
	if op == token.ADD {
		pa, oka := str(a)
		pb, okb := str(b)
		if oka && okb {
			return cval{kind: cStr, parts: append(append([]string{}, pa...), pb...)}
		}
	}
	return cval{}
}

// dynMatches: does a value of dynamic type *ast.<name> satisfy a type assertion to t?
func (w *World) dynMatches(name string, t types.Type) bool {
	obj := w.Ast.Types.Scope().Lookup(name)
	if obj == nil {
		return false
	}
	pt := types.NewPointer(obj.Type())
	if ifc, ok := t.Underlying().(*types.Interface); ok {
		return types.Implements(pt, ifc)
	}
	return types.Identical(pt, t)
}

// constsOfType: the package-level constants of a named type of package ast, by name.
func (w *World) constsOfType(typeName string) map[string]constant.Value {
	out := map[string]constant.Value{}
	sc := w.Ast.Types.Scope()
	for _, n := range sc.Names() {
		c, ok := sc.Lookup(n).(*types.Const)
		if !ok {
			continue
		}
		if nt := namedOf(c.Type()); nt != nil && nt.Obj().Name() == typeName {
			out[n] = c.Val()
		}
	}
	return out
}

func sortedConstNames(m map[string]constant.Value) []string {
	var out []string
	for k := range m {
		out = append(out, k)
	}
	sort.Strings(out)
	return out
}
