package main

// CONCR: a small interpreter of the SSA form for table-like functions (exprPrec, paren, keyword classifiers): the
// function is *read* with concrete or partly known arguments — a dynamic type, the constant held by one field, a
// constant — and the value it returns (or the fact that it panics) is computed by following the instructions. Nothing of
// the repository is executed: the interpreter walks go/ssa instructions and knows constants, type tests, field loads of
// the abstract argument, lookups in package-level tables that are filled once by the package initialiser, string
// concatenation (as a set of constant parts) and calls of functions of the module. A branch on a value it does not
// know ends the interpretation with "unknown", and the rule that asked reports the construct as undecided.

import (
	"fmt"
	"go/constant"
	"go/token"
	"go/types"
	"sort"
	"strings"

	"golang.org/x/tools/go/ssa"
)

type ckind int

const (
	cUnknown ckind = iota
	cConst
	cDyn     // the abstract argument: a value of dynamic type *ast.<typ> with some known fields
	cField   // address of a field of a cDyn
	cStr     // a string built from constant parts and unknown parts
	cTuple   // multi-value
	cMap     // a constant package-level table
	cNilPtr  // typed nil
	cRef     // pointer to a cell (local variable, global)
	cArr     // pointer to an array
	cElem    // pointer to an element of an array
	cSlice   // slice of an array
	cMapV    // a map built during the interpretation
	cZero    // zero value of a struct type (struct{}{})
	cClosure // a function value made here: the function and the values bound to its free variables
	cOracle  // a function value supplied by the rule that asks (a callback whose answers it chooses)
)

type ccell struct{ v cval }
type carray struct{ e []cval }
type cmapv struct {
	e    map[string]cval
	keys []cval
}

type cval struct {
	kind   ckind
	c      constant.Value
	typ    string          // cDyn: struct name in package ast
	fields map[string]cval // cDyn
	field  string          // cField
	dyn    *cval           // cField
	parts  []string        // cStr: constant parts, in order of concatenation
	tuple  []cval
	m      map[string]cval // cMap
	cell   *ccell          // cRef
	arr    *carray         // cArr, cElem, cSlice
	idx    int             // cElem
	lo, hi int             // cSlice
	mv     *cmapv          // cMapV
	fn     *ssa.Function   // cClosure
	binds  []cval          // cClosure
}

func (v cval) String() string {
	switch v.kind {
	case cConst:
		return v.c.ExactString()
	case cDyn:
		return "*" + v.typ
	case cStr:
		return fmt.Sprintf("str%q", v.parts)
	case cTuple:
		return fmt.Sprint(v.tuple)
	case cMap:
		return fmt.Sprintf("map[%d]", len(v.m))
	}
	return "?"
}

func constKey(c constant.Value) string {
	if c == nil {
		return "<nil>"
	}
	if c.Kind() == constant.String {
		return "s:" + constant.StringVal(c)
	}
	return c.ExactString()
}

// ---- constant package-level maps ------------------------------------------------------------------

type constMapInfo struct {
	entries map[string]cval // constKey(key) -> value
	keys    map[string]bool // string value (string keys) or exact string
	why     string          // "" when constant; otherwise why it is not
}

func (w *World) constMapOf(g *ssa.Global) *constMapInfo {
	if w.constMaps == nil {
		w.constMaps = map[*ssa.Global]*constMapInfo{}
	}
	if ci, ok := w.constMaps[g]; ok {
		return ci
	}
	ci := &constMapInfo{entries: map[string]cval{}, keys: map[string]bool{}}
	w.constMaps[g] = ci
	if _, isMap := g.Type().(*types.Pointer).Elem().Underlying().(*types.Map); !isMap {
		ci.why = "not a map"
		return ci
	}
	isInit := func(fn *ssa.Function) bool {
		return fn.Synthetic == "package initializer" || (fn.Parent() == nil && fn.Signature.Recv() == nil && (fn.Name() == "init" || strings.HasPrefix(fn.Name(), "init#")))
	}
	var made ssa.Value
	nStores := 0
	// every use of the global in the whole program
	for fn := range w.AllFns {
		if fn.Blocks == nil {
			continue
		}
		for _, b := range fn.Blocks {
			for _, in := range b.Instrs {
				uses := false
				for _, op := range in.Operands(nil) {
					if *op == ssa.Value(g) {
						uses = true
					}
				}
				if !uses {
					continue
				}
				switch x := in.(type) {
				case *ssa.Store:
					if x.Addr != ssa.Value(g) {
						ci.why = "its address is stored somewhere"
						return ci
					}
					nStores++
					if !isInit(fn) {
						ci.why = "assigned outside the package initialiser, in " + funcName(fn)
						return ci
					}
					made = x.Val
				case *ssa.UnOp:
					if x.Op != token.MUL {
						ci.why = "unexpected use"
						return ci
					}
					// the loaded map value: read-only uses only (outside init)
					for _, ref := range *x.Referrers() {
						switch r := ref.(type) {
						case *ssa.Lookup, *ssa.Range, *ssa.DebugRef:
						case *ssa.MapUpdate:
							if !isInit(fn) {
								ci.why = "written in " + funcName(fn)
								return ci
							}
							_ = r
						case *ssa.Call:
							if bi, ok := r.Call.Value.(*ssa.Builtin); ok && bi.Name() == "len" {
								continue
							}
							ci.why = "passed to a call in " + funcName(fn)
							return ci
						default:
							ci.why = fmt.Sprintf("used by %T in %s", ref, funcName(fn))
							return ci
						}
					}
				default:
					ci.why = fmt.Sprintf("its address is used by %T in %s", in, funcName(fn))
					return ci
				}
			}
		}
	}
	if nStores != 1 || made == nil {
		ci.why = fmt.Sprintf("%d assignments", nStores)
		return ci
	}
	var mm *ssa.MakeMap
	switch x := made.(type) {
	case *ssa.MakeMap:
		mm = x
	case *ssa.Call:
		// built by a helper of the module from constant tables: not followed here
		ci.why = "built by a call"
		return ci
	default:
		ci.why = fmt.Sprintf("assigned a %T", made)
		return ci
	}
	for _, ref := range *mm.Referrers() {
		switch r := ref.(type) {
		case *ssa.MapUpdate:
			k, ok1 := r.Key.(*ssa.Const)
			v, ok2 := r.Value.(*ssa.Const)
			if !ok1 || !ok2 || k.Value == nil {
				ci.why = "an entry is not a pair of constants"
				return ci
			}
			ci.entries[constKey(k.Value)] = cval{kind: cConst, c: v.Value}
			if k.Value.Kind() == constant.String {
				ci.keys[constant.StringVal(k.Value)] = true
			} else {
				ci.keys[k.Value.ExactString()] = true
			}
		case *ssa.Store, *ssa.DebugRef:
		default:
			ci.why = fmt.Sprintf("the fresh map is used by %T", ref)
			return ci
		}
	}
	return ci
}

// constMapLoad: v is a load of a package-level map that is a constant table.
func (w *World) constMapLoad(v ssa.Value) *constMapInfo {
	u, ok := v.(*ssa.UnOp)
	if !ok || u.Op != token.MUL {
		return nil
	}
	g, ok := u.X.(*ssa.Global)
	if !ok {
		return nil
	}
	ci := w.constMapOf(g)
	if ci.why != "" {
		return nil
	}
	return ci
}

// ---- interpreter ------------------------------------------------------------------------------------

type concrOutcome struct {
	status string // "return", "panic", "unknown"
	vals   []cval
	why    string
}

type concr struct {
	oracle      func(args []cval) (cval, bool)                       // answers of a cOracle function value
	intercept   func(callee *ssa.Function, args []cval) (cval, bool) // calls the asking rule takes over (not followed)
	interceptCall func(call *ssa.Call, args []cval) (cval, bool) // the same with the call in hand (function-valued arguments are read off its operands)
	w           *World
	steps       int
	globals     map[*ssa.Global]*ccell // package-level variables written during the interpretation (package initialisers)
	zeroGlobals bool                   // a package initialiser is being followed from the start: unassigned package-level variables of the module are zero
	heap        bool                   // follow stores, arrays, slices and maps (concrete interpretation of initialisers and string helpers)
}

func (ci *concr) globalCell(g *ssa.Global) *ccell {
	if ci.globals == nil {
		ci.globals = map[*ssa.Global]*ccell{}
	}
	c, ok := ci.globals[g]
	if !ok {
		c = &ccell{v: zeroCval(g.Type().(*types.Pointer).Elem(), false)}
		ci.globals[g] = c
	}
	return c
}

// concrFollowStd: an instance of a generic function of package slices (IndexFunc, Contains, …): pure code over its
// arguments whose body the SSA program has, followed like a function of the module.
func concrFollowStd(fn *ssa.Function) bool {
	o := fn
	if fn.Origin() != nil {
		o = fn.Origin()
	}
	return o.Pkg != nil && o.Pkg.Pkg.Path() == "slices" && fn.Blocks != nil
}

func intOf(v cval) (int, bool) {
	if v.kind != cConst || v.c.Kind() != constant.Int {
		return 0, false
	}
	i, ok := constant.Int64Val(v.c)
	return int(i), ok
}

func mkInt(i int) cval { return cval{kind: cConst, c: constant.MakeInt64(int64(i))} }

// bytesOf: a slice of known bytes / a constant string as a Go string.
func bytesOf(v cval) (string, bool) {
	switch v.kind {
	case cConst:
		if v.c.Kind() == constant.String {
			return constant.StringVal(v.c), true
		}
	case cSlice:
		var sb strings.Builder
		for i := v.lo; i < v.hi; i++ {
			b, ok := intOf(v.arr.e[i])
			if !ok {
				return "", false
			}
			sb.WriteByte(byte(b))
		}
		return sb.String(), true
	case cNilPtr:
		return "", true
	}
	return "", false
}

func sliceOfBytes(sv string) cval {
	a := &carray{}
	for i := 0; i < len(sv); i++ {
		a.e = append(a.e, mkInt(int(sv[i])))
	}
	return cval{kind: cSlice, arr: a, lo: 0, hi: len(sv)}
}

func (w *World) newConcr() *concr { return &concr{w: w} }

func (ci *concr) run(fn *ssa.Function, args []cval, depth int) concrOutcome {
	return ci.runB(fn, args, nil, depth)
}

// wrapInt: integer results are reduced to the width of their type (uint8 arithmetic wraps).
func wrapInt(v cval, t types.Type) cval {
	if v.kind != cConst || v.c.Kind() != constant.Int {
		return v
	}
	b, ok := t.Underlying().(*types.Basic)
	if !ok || b.Info()&types.IsInteger == 0 {
		return v
	}
	i, exact := constant.Int64Val(v.c)
	if !exact {
		if u, ok := constant.Uint64Val(v.c); ok {
			i = int64(u)
		} else {
			return cval{}
		}
	}
	switch b.Kind() {
	case types.Uint8:
		i = int64(uint8(i))
	case types.Int8:
		i = int64(int8(i))
	case types.Uint16:
		i = int64(uint16(i))
	case types.Int16:
		i = int64(int16(i))
	case types.Uint32:
		i = int64(uint32(i))
	case types.Int32:
		i = int64(int32(i))
	}
	return cval{kind: cConst, c: constant.MakeInt64(i)}
}

func (ci *concr) runB(fn *ssa.Function, args []cval, bindings []cval, depth int) concrOutcome {
	if fn.Blocks == nil || depth > 8 {
		return concrOutcome{status: "unknown", why: "no body / too deep: " + funcName(fn)}
	}
	env := map[ssa.Value]cval{}
	for i, p := range fn.Params {
		if i < len(args) {
			env[p] = args[i]
		}
	}
	for i, fv := range fn.FreeVars {
		if i < len(bindings) {
			env[fv] = bindings[i]
		}
	}
	get := func(v ssa.Value) cval {
		if c, ok := v.(*ssa.Const); ok {
			if c.Value == nil {
				return zeroCval(c.Type(), false)
			}
			return cval{kind: cConst, c: c.Value}
		}
		if f, ok := v.(*ssa.Function); ok {
			return cval{kind: cClosure, fn: f} // a function literal without captured variables, or a named function used as a value
		}
		if g, ok := v.(*ssa.Global); ok && ci.heap {
			_, have := ci.globals[g]
			if !have && !(ci.zeroGlobals && g.Pkg != nil && corePkg(g.Pkg.Pkg.Path())) {
				return cval{}
			}
			cell := ci.globalCell(g)
			if at, isArr := g.Type().(*types.Pointer).Elem().Underlying().(*types.Array); isArr {
				if cell.v.kind != cArr {
					a := &carray{e: make([]cval, at.Len())}
					for i := range a.e {
						a.e[i] = zeroCval(at.Elem(), false)
					}
					cell.v = cval{kind: cArr, arr: a}
				}
				return cell.v
			}
			return cval{kind: cRef, cell: cell}
		}
		if x, ok := env[v]; ok {
			return x
		}
		return cval{}
	}
	var prev *ssa.BasicBlock
	b := fn.Blocks[0]
	for {
		for _, in := range b.Instrs {
			ci.steps++
			if ci.steps > 200000 {
				return concrOutcome{status: "unknown", why: "step limit"}
			}
			switch x := in.(type) {
			case *ssa.Phi:
				for i, p := range b.Preds {
					if p == prev {
						env[x] = get(x.Edges[i])
					}
				}
			case *ssa.TypeAssert:
				v := get(x.X)
				if v.kind != cDyn {
					env[x] = cval{}
					continue
				}
				ok := ci.w.dynMatches(v.typ, x.AssertedType)
				if x.CommaOk {
					res := cval{}
					if ok {
						res = v
					}
					env[x] = cval{kind: cTuple, tuple: []cval{res, {kind: cConst, c: constant.MakeBool(ok)}}}
				} else if ok {
					env[x] = v
				} else {
					return concrOutcome{status: "panic", why: "failed type assertion"}
				}
			case *ssa.Extract:
				t := get(x.Tuple)
				if t.kind == cTuple && x.Index < len(t.tuple) {
					env[x] = t.tuple[x.Index]
				} else {
					env[x] = cval{}
				}
			case *ssa.FieldAddr:
				v := get(x.X)
				if v.kind == cDyn {
					vv := v
					env[x] = cval{kind: cField, dyn: &vv, field: fieldAddrName(x)}
				} else {
					env[x] = cval{}
				}
			case *ssa.UnOp:
				switch x.Op {
				case token.MUL:
					if g, ok := x.X.(*ssa.Global); ok {
						if c, have := ci.globals[g]; have {
							env[x] = c.v
							continue
						}
						if ci.zeroGlobals && g.Pkg != nil && corePkg(g.Pkg.Pkg.Path()) {
							env[x] = ci.globalCell(g).v // not yet assigned by the initialiser being followed: the zero value
							continue
						}
						if cm := ci.w.constMapOf(g); cm.why == "" {
							env[x] = cval{kind: cMap, m: cm.entries}
							continue
						}
						env[x] = cval{}
						continue
					}
					v := get(x.X)
					switch v.kind {
					case cField:
						if f, ok := v.dyn.fields[v.field]; ok {
							env[x] = f
							continue
						}
					case cRef:
						env[x] = v.cell.v
						continue
					case cElem:
						env[x] = v.arr.e[v.idx]
						continue
					case cArr:
						env[x] = v // an array value: the same storage (the tables followed are not modified after they are built)
						continue
					}
					env[x] = cval{}
				case token.NOT:
					v := get(x.X)
					if v.kind == cConst && v.c.Kind() == constant.Bool {
						env[x] = cval{kind: cConst, c: constant.MakeBool(!constant.BoolVal(v.c))}
					} else {
						env[x] = cval{}
					}
				case token.SUB, token.XOR:
					v := get(x.X)
					if v.kind == cConst && v.c.Kind() == constant.Int {
						env[x] = wrapInt(cval{kind: cConst, c: constant.UnaryOp(x.Op, v.c, 0)}, x.Type())
					} else {
						env[x] = cval{}
					}
				default:
					env[x] = cval{}
				}
			case *ssa.Lookup:
				m, k := get(x.X), get(x.Index)
				if m.kind == cMapV && k.kind == cConst {
					m = cval{kind: cMap, m: m.mv.e}
				}
				if m.kind == cMap && k.kind == cConst {
					e, ok := m.m[constKey(k.c)]
					if !ok {
						e = zeroCval(x.Type(), x.CommaOk)
					}
					if x.CommaOk {
						env[x] = cval{kind: cTuple, tuple: []cval{e, {kind: cConst, c: constant.MakeBool(ok)}}}
					} else {
						env[x] = e
					}
				} else {
					env[x] = cval{}
				}
			case *ssa.BinOp:
				env[x] = wrapInt(concrBinOp(x.Op, get(x.X), get(x.Y)), x.Type())
			case *ssa.ChangeType:
				env[x] = get(x.X)
			case *ssa.Convert:
				v := get(x.X)
				_, toSlice := x.Type().Underlying().(*types.Slice)
				switch {
				case toSlice && v.kind == cConst && v.c.Kind() == constant.String:
					env[x] = sliceOfBytes(constant.StringVal(v.c))
				case isStringType(x.Type()) && v.kind == cConst && v.c.Kind() == constant.Int && isIntType(x.X.Type()):
					// string(r): the UTF-8 encoding of the code point
					if i, ok := constant.Int64Val(v.c); ok {
						env[x] = cval{kind: cConst, c: constant.MakeString(string(rune(i)))}
					} else {
						env[x] = cval{}
					}
				case isStringType(x.Type()) && (v.kind == cSlice || v.kind == cNilPtr):
					if sv, ok := bytesOf(v); ok {
						env[x] = cval{kind: cConst, c: constant.MakeString(sv)}
					} else {
						env[x] = cval{}
					}
				case v.kind == cConst && v.c.Kind() == constant.Int && isIntType(x.Type()):
					// integer conversions: wrap to the width of the target
					if i, ok := constant.Int64Val(v.c); ok {
						switch intWidth(x.Type()) {
						case 8:
							if bt, _ := x.Type().Underlying().(*types.Basic); bt != nil && bt.Info()&types.IsUnsigned != 0 {
								i = int64(uint8(i))
							} else {
								i = int64(int8(i))
							}
						case 16:
							i = int64(int16(i))
						case 32:
							i = int64(int32(i))
						}
						env[x] = cval{kind: cConst, c: constant.MakeInt64(i)}
					} else {
						env[x] = v
					}
				default:
					env[x] = v
				}
			case *ssa.MakeInterface:
				env[x] = get(x.X)
			case *ssa.ChangeInterface:
				env[x] = get(x.X)
			case *ssa.Call:
				if bi, ok := x.Call.Value.(*ssa.Builtin); ok {
					var as []cval
					for _, a := range x.Call.Args {
						as = append(as, get(a))
					}
					switch bi.Name() {
					case "copy":
						// copy(dst, src): the elements are written into the destination's array
						n, okc := -1, false
						if len(as) == 2 && as[0].kind == cSlice {
							var src []cval
							switch as[1].kind {
							case cSlice:
								src, okc = as[1].arr.e[as[1].lo:as[1].hi], true
							case cConst:
								if sv, ok := bytesOf(as[1]); ok {
									for i := 0; i < len(sv); i++ {
										src = append(src, mkInt(int(sv[i])))
									}
									okc = true
								}
							case cNilPtr:
								okc = true
							}
							if okc {
								n = as[0].hi - as[0].lo
								if len(src) < n {
									n = len(src)
								}
								tmp := append([]cval{}, src[:n]...)
								copy(as[0].arr.e[as[0].lo:as[0].lo+n], tmp)
							}
						} else if len(as) == 2 && as[0].kind == cNilPtr {
							n, okc = 0, true
						}
						if !okc {
							return concrOutcome{status: "unknown", why: "copy that is not followed at " + ci.w.pos(x.Pos())}
						}
						env[x] = mkInt(n)
					case "len", "cap", "min", "max", "append":
						env[x] = concrBuiltin(bi.Name(), as, x.Type())
					case "print", "println":
					default:
						// a builtin with an effect the interpreter does not model (delete, clear, …): give up rather than go on with
						// a state that is no longer the program's
						return concrOutcome{status: "unknown", why: "builtin " + bi.Name() + " at " + ci.w.pos(x.Pos())}
					}
					continue
				}
				callee := x.Call.StaticCallee()
				if callee != nil && ci.interceptCall != nil && !x.Call.IsInvoke() {
					var as []cval
					for _, a := range x.Call.Args {
						as = append(as, get(a))
					}
					if res, taken := ci.interceptCall(x, as); taken {
						env[x] = res
						continue
					}
				}
				if callee != nil && ci.intercept != nil && !x.Call.IsInvoke() {
					var as []cval
					for _, a := range x.Call.Args {
						as = append(as, get(a))
					}
					if res, taken := ci.intercept(callee, as); taken {
						env[x] = res
						continue
					}
				}
				if callee == nil && !x.Call.IsInvoke() {
					// a function value: one made during the interpretation is followed, one supplied by the rule answers as told
					fv := get(x.Call.Value)
					var as []cval
					for _, a := range x.Call.Args {
						as = append(as, get(a))
					}
					switch fv.kind {
					case cClosure:
						out := ci.runB(fv.fn, as, fv.binds, depth+1)
						switch out.status {
						case "panic":
							return out
						case "unknown":
							return out
						}
						if len(out.vals) == 1 {
							env[x] = out.vals[0]
						} else {
							env[x] = cval{kind: cTuple, tuple: out.vals}
						}
						continue
					case cOracle:
						if ci.oracle != nil {
							if res, ok := ci.oracle(as); ok {
								env[x] = res
								continue
							}
						}
						return concrOutcome{status: "unknown", why: "call of a supplied function value that has no answer at " + ci.w.pos(x.Pos())}
					}
				}
				if callee != nil && callee.Blocks != nil && (corePkg(fnPkgPath(callee)) || concrFollowStd(callee)) && !x.Call.IsInvoke() {
					var as []cval
					for _, a := range x.Call.Args {
						as = append(as, get(a))
					}
					var binds []cval
					if mc, ok := x.Call.Value.(*ssa.MakeClosure); ok {
						for _, bv := range mc.Bindings {
							binds = append(binds, get(bv))
						}
					}
					out := ci.runB(callee, as, binds, depth+1)
					switch out.status {
					case "panic":
						return out
					case "unknown":
						if ci.heap {
							// the callee may have written part of the heap before it was given up: nothing after it is known
							return out
						}
						// the result is unknown, the caller may still not depend on it
						env[x] = unknownResult(x.Type())
					default:
						if len(out.vals) == 1 {
							env[x] = out.vals[0]
						} else {
							env[x] = cval{kind: cTuple, tuple: out.vals}
						}
					}
					continue
				}
				if ci.heap {
					// a call that is not followed must not be able to change what the interpreter tracks
					pure := false
					if callee != nil && callee.Pkg != nil {
						switch callee.Pkg.Pkg.Path() {
						case "strings", "bytes", "unicode", "unicode/utf8", "strconv", "fmt", "errors", "math", "math/bits":
							pure = true
						}
					}
					if !pure {
						for _, a := range x.Call.Args {
							switch get(a).kind {
							case cSlice, cRef, cArr, cElem, cMapV:
								return concrOutcome{status: "unknown", why: "a tracked value is handed to a call that is not followed at " + ci.w.pos(x.Pos())}
							}
						}
					}
				}
				env[x] = unknownResult(x.Type())
			case *ssa.Alloc:
				if !ci.heap {
					env[x] = cval{}
					continue
				}
				et := x.Type().(*types.Pointer).Elem()
				if at, ok := et.Underlying().(*types.Array); ok {
					a := &carray{e: make([]cval, at.Len())}
					for i := range a.e {
						a.e[i] = zeroCval(at.Elem(), false)
					}
					env[x] = cval{kind: cArr, arr: a}
				} else {
					env[x] = cval{kind: cRef, cell: &ccell{v: zeroCval(et, false)}}
				}
			case *ssa.IndexAddr:
				base, iv := get(x.X), get(x.Index)
				i, ok := intOf(iv)
				switch {
				case !ok:
					env[x] = cval{}
				case base.kind == cArr && i >= 0 && i < len(base.arr.e):
					env[x] = cval{kind: cElem, arr: base.arr, idx: i}
				case base.kind == cSlice && i >= 0 && base.lo+i < base.hi:
					env[x] = cval{kind: cElem, arr: base.arr, idx: base.lo + i}
				case base.kind == cArr || base.kind == cSlice:
					return concrOutcome{status: "panic", why: "index out of range at " + ci.w.pos(x.Pos())}
				default:
					env[x] = cval{}
				}
			case *ssa.Index:
				base, iv := get(x.X), get(x.Index)
				i, ok := intOf(iv)
				if sv, isS := bytesOf(base); isS && ok && base.kind == cConst {
					if i < 0 || i >= len(sv) {
						return concrOutcome{status: "panic", why: "index out of range at " + ci.w.pos(x.Pos())}
					}
					env[x] = mkInt(int(sv[i]))
				} else {
					env[x] = cval{}
				}
			case *ssa.Store:
				if !ci.heap {
					return concrOutcome{status: "unknown", why: "store in " + funcName(fn)}
				}
				if g, ok := x.Addr.(*ssa.Global); ok {
					ci.globalCell(g).v = get(x.Val)
					continue
				}
				a := get(x.Addr)
				switch a.kind {
				case cRef:
					a.cell.v = get(x.Val)
				case cElem:
					a.arr.e[a.idx] = get(x.Val)
				case cField:
					// a field of a struct the asking rule supplied (its field map is shared by every copy of the value)
					a.dyn.fields[a.field] = get(x.Val)
				case cArr:
					// a whole array is assigned: the zero value, or a copy of another array
					at, _ := x.Val.Type().Underlying().(*types.Array)
					v := get(x.Val)
					switch {
					case v.kind == cArr && len(v.arr.e) == len(a.arr.e):
						copy(a.arr.e, v.arr.e)
					case at != nil && isNilValuedConst(x.Val):
						for i := range a.arr.e {
							a.arr.e[i] = zeroCval(at.Elem(), false)
						}
					default:
						return concrOutcome{status: "unknown", why: "array assignment that is not followed at " + ci.w.pos(x.Pos())}
					}
				default:
					return concrOutcome{status: "unknown", why: "store through an address that is not followed at " + ci.w.pos(x.Pos())}
				}
			case *ssa.Slice:
				base := get(x.X)
				lo, hi := 0, -1
				okb := true
				if x.Low != nil {
					lo, okb = intOf(get(x.Low))
				}
				if x.High != nil && okb {
					hi, okb = intOf(get(x.High))
				}
				if !okb {
					env[x] = cval{}
					continue
				}
				switch base.kind {
				case cConst:
					if sv, ok := bytesOf(base); ok {
						if hi < 0 {
							hi = len(sv)
						}
						if lo < 0 || lo > hi || hi > len(sv) {
							return concrOutcome{status: "panic", why: "slice bounds out of range at " + ci.w.pos(x.Pos())}
						}
						env[x] = cval{kind: cConst, c: constant.MakeString(sv[lo:hi])}
						continue
					}
					env[x] = cval{}
				case cArr:
					if hi < 0 {
						hi = len(base.arr.e)
					}
					if lo < 0 || lo > hi || hi > len(base.arr.e) {
						return concrOutcome{status: "panic", why: "slice bounds out of range at " + ci.w.pos(x.Pos())}
					}
					env[x] = cval{kind: cSlice, arr: base.arr, lo: lo, hi: hi}
				case cSlice:
					if hi < 0 {
						hi = base.hi - base.lo
					}
					if lo < 0 || lo > hi || base.lo+hi > len(base.arr.e) {
						return concrOutcome{status: "panic", why: "slice bounds out of range at " + ci.w.pos(x.Pos())}
					}
					env[x] = cval{kind: cSlice, arr: base.arr, lo: base.lo + lo, hi: base.lo + hi}
				case cNilPtr:
					env[x] = base
				default:
					env[x] = cval{}
				}
			case *ssa.MakeSlice:
				n, ok := intOf(get(x.Len))
				if !ok || !ci.heap {
					env[x] = cval{}
					continue
				}
				a := &carray{e: make([]cval, n)}
				for i := range a.e {
					a.e[i] = zeroCval(x.Type().Underlying().(*types.Slice).Elem(), false)
				}
				env[x] = cval{kind: cSlice, arr: a, lo: 0, hi: n}
			case *ssa.MakeMap:
				if !ci.heap {
					env[x] = cval{}
					continue
				}
				env[x] = cval{kind: cMapV, mv: &cmapv{e: map[string]cval{}}}
			case *ssa.MapUpdate:
				m, k := get(x.Map), get(x.Key)
				if m.kind != cMapV || k.kind != cConst {
					return concrOutcome{status: "unknown", why: "map update that is not followed at " + ci.w.pos(x.Pos())}
				}
				if _, have := m.mv.e[constKey(k.c)]; !have {
					m.mv.keys = append(m.mv.keys, k)
				}
				m.mv.e[constKey(k.c)] = get(x.Value)
			case *ssa.MakeClosure:
				cl := cval{kind: cClosure, fn: x.Fn.(*ssa.Function)}
				for _, bv := range x.Bindings {
					cl.binds = append(cl.binds, get(bv))
				}
				env[x] = cl
			case *ssa.DebugRef:
			case *ssa.If:
				c := get(x.Cond)
				if c.kind != cConst || c.c.Kind() != constant.Bool {
					return concrOutcome{status: "unknown", why: "branch on a value that is not known at " + ci.w.pos(concrCondPos(x, b))}
				}
				prev = b
				if constant.BoolVal(c.c) {
					b = b.Succs[0]
				} else {
					b = b.Succs[1]
				}
				goto next
			case *ssa.Jump:
				prev = b
				b = b.Succs[0]
				goto next
			case *ssa.Return:
				var vs []cval
				for _, r := range x.Results {
					vs = append(vs, get(r))
				}
				return concrOutcome{status: "return", vals: vs}
			case *ssa.Panic:
				return concrOutcome{status: "panic", why: ci.w.pos(x.Pos())}
			default:
				if v, ok := in.(ssa.Value); ok {
					env[v] = cval{}
				} else {
					// stores, defers, sends: the table functions have none that matter; be safe
					return concrOutcome{status: "unknown", why: fmt.Sprintf("%T in %s", in, funcName(fn))}
				}
			}
		}
		return concrOutcome{status: "unknown", why: "fell off a block"}
	next:
	}
}

func concrCondPos(x *ssa.If, b *ssa.BasicBlock) token.Pos {
	if v, ok := x.Cond.(ssa.Instruction); ok && v.Pos().IsValid() {
		return v.Pos()
	}
	for i := len(b.Instrs) - 1; i >= 0; i-- {
		if b.Instrs[i].Pos().IsValid() {
			return b.Instrs[i].Pos()
		}
	}
	return token.NoPos
}

func isNilValuedConst(v ssa.Value) bool {
	c, ok := v.(*ssa.Const)
	return ok && c.Value == nil
}

func concrBuiltin(name string, as []cval, t types.Type) cval {
	switch name {
	case "cap":
		if len(as) == 1 && as[0].kind == cSlice {
			return mkInt(len(as[0].arr.e) - as[0].lo)
		}
	case "len":
		if len(as) == 1 {
			switch as[0].kind {
			case cConst:
				if as[0].c.Kind() == constant.String {
					return mkInt(len(constant.StringVal(as[0].c)))
				}
			case cSlice:
				return mkInt(as[0].hi - as[0].lo)
			case cNilPtr:
				return mkInt(0)
			case cMapV:
				return mkInt(len(as[0].mv.e))
			case cMap:
				return mkInt(len(as[0].m))
			}
		}
	case "min", "max":
		best, ok := 0, false
		for i, a := range as {
			v, isInt := intOf(a)
			if !isInt {
				return cval{}
			}
			if i == 0 || (name == "min" && v < best) || (name == "max" && v > best) {
				best = v
			}
			ok = true
		}
		if ok {
			return mkInt(best)
		}
	case "append":
		if len(as) == 2 {
			base, add := as[0], as[1]
			var elems []cval
			switch base.kind {
			case cSlice:
				elems = append(elems, base.arr.e[base.lo:base.hi]...)
			case cNilPtr:
			default:
				return cval{}
			}
			switch add.kind {
			case cSlice:
				elems = append(elems, add.arr.e[add.lo:add.hi]...)
			case cNilPtr:
			case cConst:
				if add.c.Kind() != constant.String {
					return cval{}
				}
				sv := constant.StringVal(add.c)
				for i := 0; i < len(sv); i++ {
					elems = append(elems, mkInt(int(sv[i])))
				}
			default:
				return cval{}
			}
			// a fresh array: aliasing between the old and the new slice is not modelled, the table code does not rely on it
			return cval{kind: cSlice, arr: &carray{e: elems}, lo: 0, hi: len(elems)}
		}
	}
	return unknownResult(t)
}

func unknownResult(t types.Type) cval {
	if b, ok := t.Underlying().(*types.Basic); ok && b.Info()&types.IsString != 0 {
		return cval{kind: cStr, parts: []string{"\x00?"}}
	}
	return cval{}
}

func zeroCval(t types.Type, commaOk bool) cval {
	if commaOk {
		if tup, ok := t.(*types.Tuple); ok {
			t = tup.At(0).Type()
		}
	}
	switch u := t.Underlying().(type) {
	case *types.Basic:
		switch {
		case u.Info()&types.IsString != 0:
			return cval{kind: cConst, c: constant.MakeString("")}
		case u.Info()&types.IsBoolean != 0:
			return cval{kind: cConst, c: constant.MakeBool(false)}
		case u.Info()&types.IsNumeric != 0:
			return cval{kind: cConst, c: constant.MakeInt64(0)}
		}
	case *types.Slice, *types.Pointer, *types.Map, *types.Interface:
		return cval{kind: cNilPtr}
	case *types.Struct:
		if u.NumFields() == 0 {
			return cval{kind: cZero}
		}
	case *types.Signature, *types.Chan:
		return cval{kind: cNilPtr}
	}
	return cval{}
}

func concrBinOp(op token.Token, a, b cval) cval {
	str := func(v cval) ([]string, bool) {
		switch v.kind {
		case cConst:
			if v.c.Kind() == constant.String {
				return []string{constant.StringVal(v.c)}, true
			}
		case cStr:
			return v.parts, true
		}
		return nil, false
	}
	isRef := func(v cval) bool {
		switch v.kind {
		case cSlice, cRef, cArr, cElem, cMapV, cMap, cDyn:
			return true
		}
		return false
	}
	if (op == token.EQL || op == token.NEQ) && (a.kind == cNilPtr || b.kind == cNilPtr) {
		switch {
		case a.kind == cNilPtr && b.kind == cNilPtr:
			return cval{kind: cConst, c: constant.MakeBool(op == token.EQL)}
		case isRef(a) || isRef(b):
			return cval{kind: cConst, c: constant.MakeBool(op == token.NEQ)}
		}
		return cval{}
	}
	if a.kind == cConst && b.kind == cConst {
		switch op {
		case token.EQL, token.NEQ, token.LSS, token.LEQ, token.GTR, token.GEQ:
			if a.c.Kind() == b.c.Kind() || (a.c.Kind() != constant.String && b.c.Kind() != constant.String && a.c.Kind() != constant.Bool && b.c.Kind() != constant.Bool) {
				return cval{kind: cConst, c: constant.MakeBool(constant.Compare(a.c, op, b.c))}
			}
			return cval{}
		case token.ADD, token.SUB, token.MUL, token.AND, token.OR, token.XOR, token.AND_NOT, token.LAND, token.LOR:
			defer func() { recover() }()
			if a.c.Kind() == b.c.Kind() {
				return cval{kind: cConst, c: constant.BinaryOp(a.c, op, b.c)}
			}
		case token.QUO, token.REM:
			defer func() { recover() }()
			if a.c.Kind() == constant.Int && b.c.Kind() == constant.Int && constant.Sign(b.c) != 0 {
				if op == token.QUO {
					return cval{kind: cConst, c: constant.BinaryOp(a.c, token.QUO_ASSIGN, b.c)}
				}
				return cval{kind: cConst, c: constant.BinaryOp(a.c, token.REM, b.c)}
			}
		case token.SHL, token.SHR:
			if s, ok := constant.Uint64Val(b.c); ok && a.c.Kind() == constant.Int {
				return cval{kind: cConst, c: constant.Shift(a.c, op, uint(s))}
			}
		}
		return cval{}
	}
	if op == token.ADD {
		pa, oka := str(a)
		pb, okb := str(b)
		if oka && okb {
			return cval{kind: cStr, parts: append(append([]string{}, pa...), pb...)}
		}
	}
	return cval{}
}

// dynMatches: does a value of dynamic type *ast.<name> satisfy a type assertion to t?
func (w *World) dynMatches(name string, t types.Type) bool {
	obj := w.Ast.Types.Scope().Lookup(name)
	if obj == nil {
		return false
	}
	pt := types.NewPointer(obj.Type())
	if ifc, ok := t.Underlying().(*types.Interface); ok {
		return types.Implements(pt, ifc)
	}
	return types.Identical(pt, t)
}

// constsOfType: the package-level constants of a named type of package ast, by name.
func (w *World) constsOfType(typeName string) map[string]constant.Value {
	out := map[string]constant.Value{}
	sc := w.Ast.Types.Scope()
	for _, n := range sc.Names() {
		c, ok := sc.Lookup(n).(*types.Const)
		if !ok {
			continue
		}
		if nt := namedOf(c.Type()); nt != nil && nt.Obj().Name() == typeName {
			out[n] = c.Val()
		}
	}
	return out
}

func sortedConstNames(m map[string]constant.Value) []string {
	var out []string
	for k := range m {
		out = append(out, k)
	}
	sort.Strings(out)
	return out
}
