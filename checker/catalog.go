package main

import (
	"go/ast"
	"go/token"
	"go/types"
	"regexp"
	"sort"
	"strings"
)

// NodeStruct is one struct type of package ast that implements ast.Node (through its pointer).
type NodeStruct struct {
	Name     string
	Named    *types.Named
	Struct   *types.Struct
	Spec     *ast.TypeSpec
	DeclPos  token.Pos
	PosSpec  string // text after "pos ="; "" when missing
	EndSpec  string
	PosExpr  PExpr // parsed by the checker's own POSLANG parser (nil + ParseErr on failure)
	EndExpr  PExpr
	ParseErr string
}

type Catalog struct {
	Structs []*NodeStruct // declaration order
	ByName  map[string]*NodeStruct
	NodeIfc *types.Interface
	PosType types.Type // token.Pos
}

var (
	rePos = regexp.MustCompile(`(?m)^\s*pos\s*=\s*(.*)`)
	reEnd = regexp.MustCompile(`(?m)^\s*end\s*=\s*(.*)`)
)

func (w *World) Catalog() *Catalog {
	if w.catalog != nil {
		return w.catalog
	}
	c := &Catalog{ByName: map[string]*NodeStruct{}}
	nodeObj := w.Ast.Types.Scope().Lookup("Node")
	if nodeObj != nil {
		c.NodeIfc, _ = nodeObj.Type().Underlying().(*types.Interface)
	}
	if po := w.Tok.Types.Scope().Lookup("Pos"); po != nil {
		c.PosType = po.Type()
	}
	for _, f := range w.Ast.Syntax {
		for _, d := range f.Decls {
			gd, ok := d.(*ast.GenDecl)
			if !ok || gd.Tok != token.TYPE {
				continue
			}
			for _, s := range gd.Specs {
				ts := s.(*ast.TypeSpec)
				st, ok := ts.Type.(*ast.StructType)
				if !ok {
					continue
				}
				obj, _ := w.Ast.TypesInfo.Defs[ts.Name].(*types.TypeName)
				if obj == nil {
					continue
				}
				named, _ := obj.Type().(*types.Named)
				if named == nil || c.NodeIfc == nil {
					continue
				}
				// A node struct is one whose pointer (or value) implements Node, or is meant to:
				// it is declared in ast.go next to the others. Types that do not implement Node
				// are reported by C19 (missing methods) only if they carry a pos/end spec.
				ns := &NodeStruct{Name: ts.Name.Name, Named: named, Spec: ts, DeclPos: ts.Pos()}
				ns.Struct, _ = named.Underlying().(*types.Struct)
				// first comment group inside the struct braces
				var inner *ast.CommentGroup
				for _, cg := range f.Comments {
					if cg.Pos() > st.Fields.Opening && cg.End() < st.Fields.Closing {
						inner = cg
						break
					}
				}
				if inner != nil {
					txt := inner.Text()
					if m := rePos.FindStringSubmatch(txt); m != nil {
						ns.PosSpec = strings.TrimSpace(m[1])
					}
					if m := reEnd.FindStringSubmatch(txt); m != nil {
						ns.EndSpec = strings.TrimSpace(m[1])
					}
				}
				implements := types.Implements(types.NewPointer(named), c.NodeIfc) || types.Implements(named, c.NodeIfc)
				if !implements && ns.PosSpec == "" && ns.EndSpec == "" {
					continue // not a node (e.g. stackItem)
				}
				if ns.PosSpec != "" {
					e, err := parsePosLang(ns.PosSpec)
					if err != nil {
						ns.ParseErr = "pos: " + err.Error()
					}
					ns.PosExpr = e
				}
				if ns.EndSpec != "" {
					e, err := parsePosLang(ns.EndSpec)
					if err != nil {
						ns.ParseErr += " end: " + err.Error()
					}
					ns.EndExpr = e
				}
				c.Structs = append(c.Structs, ns)
				c.ByName[ns.Name] = ns
			}
		}
	}
	sort.SliceStable(c.Structs, func(i, j int) bool {
		fi, fj := w.Fset.Position(c.Structs[i].DeclPos), w.Fset.Position(c.Structs[j].DeclPos)
		if fi.Filename != fj.Filename {
			return fi.Filename < fj.Filename
		}
		return fi.Offset < fj.Offset
	})
	w.catalog = c
	return c
}

func (c *Catalog) isNodeType(t types.Type) bool {
	if c.NodeIfc == nil {
		return false
	}
	if _, ok := t.Underlying().(*types.Interface); ok {
		return types.Implements(t, c.NodeIfc)
	}
	return types.Implements(t, c.NodeIfc)
}

func (c *Catalog) isPos(t types.Type) bool { return c.PosType != nil && types.Identical(t, c.PosType) }

// nodeFieldKind classifies a struct field for traversal purposes using go/types (not names):
// "single" = pointer to a node struct or a node interface; "slice" = slice of those; "" = not a node field.
func (c *Catalog) nodeFieldKind(t types.Type) string {
	if sl, ok := t.Underlying().(*types.Slice); ok {
		if c.isNodeType(sl.Elem()) {
			return "slice"
		}
		return ""
	}
	if c.isNodeType(t) {
		switch t.Underlying().(type) {
		case *types.Pointer, *types.Interface:
			return "single"
		}
	}
	return ""
}

// field looks up a field of a node struct by name.
func (ns *NodeStruct) field(name string) *types.Var {
	if ns.Struct == nil {
		return nil
	}
	for i := 0; i < ns.Struct.NumFields(); i++ {
		if ns.Struct.Field(i).Name() == name {
			return ns.Struct.Field(i)
		}
	}
	return nil
}

func (ns *NodeStruct) fieldIndex(name string) int {
	if ns.Struct == nil {
		return -1
	}
	for i := 0; i < ns.Struct.NumFields(); i++ {
		if ns.Struct.Field(i).Name() == name {
			return i
		}
	}
	return -1
}
