package main

import (
	"fmt"
	"sort"
	"strconv"
	"strings"
)

// LINFACTS — a small relational numeric domain: conjunctions of integer linear inequalities
//   Σ cᵢ·aᵢ + k ≥ 0
// over named atoms, optionally guarded by the truth value of a boolean atom. Entailment is
// decided by a bounded Fourier–Motzkin style search (sound, incomplete: "not entailed" means
// "not proved"). All arithmetic is over mathematical integers.

type atomID int32

type lterm struct {
	a atomID
	c int64
}

type lin struct {
	t []lterm // sorted by atom, no zero coefficients
	k int64
}

func linConst(k int64) lin { return lin{k: k} }
func linAtom(a atomID) lin { return lin{t: []lterm{{a, 1}}} }

func (x lin) add(y lin) lin { return x.addScaled(y, 1) }

func (x lin) addScaled(y lin, m int64) lin {
	out := lin{k: x.k + m*y.k, t: make([]lterm, 0, len(x.t)+len(y.t))}
	i, j := 0, 0
	for i < len(x.t) || j < len(y.t) {
		switch {
		case j >= len(y.t) || (i < len(x.t) && x.t[i].a < y.t[j].a):
			out.t = append(out.t, x.t[i])
			i++
		case i >= len(x.t) || y.t[j].a < x.t[i].a:
			out.t = append(out.t, lterm{y.t[j].a, m * y.t[j].c})
			j++
		default:
			if c := x.t[i].c + m*y.t[j].c; c != 0 {
				out.t = append(out.t, lterm{x.t[i].a, c})
			}
			i++
			j++
		}
	}
	return out
}

func (x lin) addOld(y lin) lin {
	out := lin{k: x.k + y.k}
	i, j := 0, 0
	for i < len(x.t) || j < len(y.t) {
		switch {
		case j >= len(y.t) || (i < len(x.t) && x.t[i].a < y.t[j].a):
			out.t = append(out.t, x.t[i])
			i++
		case i >= len(x.t) || y.t[j].a < x.t[i].a:
			out.t = append(out.t, y.t[j])
			j++
		default:
			if c := x.t[i].c + y.t[j].c; c != 0 {
				out.t = append(out.t, lterm{x.t[i].a, c})
			}
			i++
			j++
		}
	}
	return out
}

func (x lin) scale(m int64) lin {
	if m == 0 {
		return lin{}
	}
	out := lin{k: x.k * m}
	for _, t := range x.t {
		out.t = append(out.t, lterm{t.a, t.c * m})
	}
	return out
}

func (x lin) sub(y lin) lin { return x.addScaled(y, -1) }

func (x lin) coef(a atomID) int64 {
	for _, t := range x.t {
		if t.a == a {
			return t.c
		}
	}
	return 0
}

// subst replaces atom a by r.
func (x lin) subst(a atomID, r lin) lin {
	c := x.coef(a)
	if c == 0 {
		return x
	}
	rest := lin{k: x.k}
	for _, t := range x.t {
		if t.a != a {
			rest.t = append(rest.t, t)
		}
	}
	return rest.add(r.scale(c))
}

func (x lin) rename(from, to atomID) lin {
	if x.coef(from) == 0 {
		return x
	}
	return x.subst(from, linAtom(to))
}

func (x lin) isConst() bool { return len(x.t) == 0 }

func (x lin) key() string {
	buf := make([]byte, 0, 8*len(x.t)+8)
	for _, t := range x.t {
		buf = strconv.AppendInt(buf, t.c, 10)
		buf = append(buf, '*')
		buf = strconv.AppendInt(buf, int64(t.a), 10)
		buf = append(buf, ',')
	}
	buf = strconv.AppendInt(buf, x.k, 10)
	return string(buf)
}

func gcd64(a, b int64) int64 {
	if a < 0 {
		a = -a
	}
	if b < 0 {
		b = -b
	}
	for b != 0 {
		a, b = b, a%b
	}
	return a
}

func floorDiv(a, b int64) int64 {
	q := a / b
	if (a%b != 0) && ((a < 0) != (b < 0)) {
		q--
	}
	return q
}

// normGE normalises l ≥ 0 over the integers (divide by the gcd of the coefficients, round the constant down).
func normGE(l lin) lin {
	if len(l.t) == 0 {
		return l
	}
	g := int64(0)
	for _, t := range l.t {
		g = gcd64(g, t.c)
	}
	if g <= 1 {
		return l
	}
	out := lin{k: floorDiv(l.k, g)}
	for _, t := range l.t {
		out.t = append(out.t, lterm{t.a, t.c / g})
	}
	return out
}

type lfact struct {
	g  atomID // 0: unguarded
	gp bool
	l  lin // l >= 0
}

func (f lfact) key() string {
	if f.g == 0 {
		return f.l.key()
	}
	return fmt.Sprintf("%d=%v=>%s", f.g, f.gp, f.l.key())
}

// lstate: a conjunction of facts; nil means unreachable.
// Byte facts (only used by the LEXBOUNDS runs that switch them on): what is known about single bytes of the
// input buffer, which never changes during a lexer run. bfact: Buffer[idx] is one of the bytes in set; bval: the
// byte-typed SSA value v (an atom used as a name only) is Buffer[idx]. idx is a linear term like any other; it is
// rewritten when an atom it mentions is eliminated through an equality and the entry is dropped otherwise.
type bset [4]uint64

func (b bset) has(c byte) bool { return b[c>>6]&(1<<(c&63)) != 0 }
func (b *bset) add(c byte)     { b[c>>6] |= 1 << (c & 63) }
func (b *bset) del(c byte)     { b[c>>6] &^= 1 << (c & 63) }
func (b bset) empty() bool     { return b[0]|b[1]|b[2]|b[3] == 0 }

// single: the set has exactly one element.
func (b bset) single() (byte, bool) {
	n, at := 0, 0
	for c := 0; c < 256; c++ {
		if b.has(byte(c)) {
			n++
			at = c
		}
	}
	return byte(at), n == 1
}
func (b bset) union(o bset) bset {
	return bset{b[0] | o[0], b[1] | o[1], b[2] | o[2], b[3] | o[3]}
}
func (b bset) inter(o bset) bset {
	return bset{b[0] & o[0], b[1] & o[1], b[2] & o[2], b[3] & o[3]}
}
func (b bset) subsetOf(o bset) bool {
	return b[0]&^o[0] == 0 && b[1]&^o[1] == 0 && b[2]&^o[2] == 0 && b[3]&^o[3] == 0
}
func (b bset) complement() bset { return bset{^b[0], ^b[1], ^b[2], ^b[3]} }
func fullBset() bset            { return bset{^uint64(0), ^uint64(0), ^uint64(0), ^uint64(0)} }

type bfact struct {
	g   atomID // 0: unconditional; else the fact holds when the boolean value g is gp
	gp  bool
	idx lin
	set bset
}

func (b bfact) key() string {
	if b.g == 0 {
		return b.idx.key()
	}
	return fmt.Sprintf("[%d=%v]%s", b.g, b.gp, b.idx.key())
}

type bval struct {
	v   atomID
	idx lin
}

type lstate struct {
	bf      []bfact
	bv      []bval
	f       []lfact
	idx     map[string]bool
	lo, hi  map[atomID]int64
	hasLo   map[atomID]bool
	hasHi   map[atomID]bool
	bounds  bool
	nf      *normForm
	atomSet map[atomID]bool
	lb      map[string][2]int64
}

type atomTable struct {
	byKey map[any]atomID
	name  []string
	isLen []bool // implicit lower bound 0
	prio  []int8 // preference for being defined away by an equality (snapshots of the cursor: 1; pos, len(Buffer): -1)
}

func newAtomTable() *atomTable {
	return &atomTable{byKey: map[any]atomID{}, name: []string{"<none>"}, isLen: []bool{false}, prio: []int8{0}}
}

func (t *atomTable) get(key any, name string, isLen bool) atomID {
	if id, ok := t.byKey[key]; ok {
		return id
	}
	id := atomID(len(t.name))
	t.byKey[key] = id
	t.name = append(t.name, name)
	t.isLen = append(t.isLen, isLen)
	t.prio = append(t.prio, 0)
	return id
}

func (t *atomTable) show(l lin) string {
	var parts []string
	for _, x := range l.t {
		switch {
		case x.c == 1:
			parts = append(parts, "+"+t.name[x.a])
		case x.c == -1:
			parts = append(parts, "-"+t.name[x.a])
		default:
			parts = append(parts, fmt.Sprintf("%+d*%s", x.c, t.name[x.a]))
		}
	}
	if l.k != 0 || len(parts) == 0 {
		parts = append(parts, fmt.Sprintf("%+d", l.k))
	}
	return strings.TrimPrefix(strings.Join(parts, ""), "+")
}

func (t *atomTable) showFact(f lfact) string {
	s := t.show(f.l) + " >= 0"
	if f.g != 0 {
		s = fmt.Sprintf("[%s=%v] %s", t.name[f.g], f.gp, s)
	}
	return s
}

func (t *atomTable) showState(s *lstate) string {
	if s == nil {
		return "⊥"
	}
	var out []string
	for _, f := range s.f {
		out = append(out, t.showFact(f))
	}
	for _, b := range s.bf {
		var cs []byte
		n := 0
		for c := 0; c < 256; c++ {
			if b.set.has(byte(c)) {
				n++
				if len(cs) < 6 {
					cs = append(cs, byte(c))
				}
			}
		}
		gs := ""
		if b.g != 0 {
			gs = fmt.Sprintf("[%s=%v] ", t.name[b.g], b.gp)
		}
		out = append(out, fmt.Sprintf("%sBuffer[%s] in %q(%d)", gs, t.show(b.idx), cs, n))
	}
	for _, b := range s.bv {
		out = append(out, fmt.Sprintf("%s is Buffer[%s]", t.name[b.v], t.show(b.idx)))
	}
	return "{" + strings.Join(out, "; ") + "}"
}

func emptyState() *lstate { return &lstate{idx: map[string]bool{}} }

func (s *lstate) clone() *lstate {
	out := &lstate{f: append([]lfact{}, s.f...), idx: make(map[string]bool, len(s.idx)), bf: s.bf, bv: s.bv}
	for k := range s.idx {
		out.idx[k] = true
	}
	return out
}

// carry: the byte facts of from (the linear part of s was rebuilt from from's).
func (s *lstate) carry(from *lstate) *lstate {
	if s != nil && from != nil {
		s.bf, s.bv = from.bf, from.bv
	}
	return s
}

func (s *lstate) byteSet(idx lin) (bset, bool) {
	k := idx.key()
	for _, b := range s.bf {
		if b.g == 0 && b.idx.key() == k {
			return b.set, true
		}
	}
	return fullBset(), false
}

// guardedByte: the entry for idx under guard g = gp.
func (s *lstate) guardedByte(g atomID, gp bool, idx lin) (bset, bool) {
	k := idx.key()
	for _, b := range s.bf {
		if b.g == g && b.gp == gp && b.idx.key() == k {
			return b.set, true
		}
	}
	return fullBset(), false
}

// withGuardedByte: s ∧ (g = gp ⇒ Buffer[idx] ∈ set).
func (s *lstate) withGuardedByte(g atomID, gp bool, idx lin, set bset) *lstate {
	if s == nil || g == 0 {
		return s.withByte(idx, set)
	}
	if _, has := s.guardedByte(g, gp, idx); has {
		return s
	}
	out := s.clone()
	out.bf = append(append([]bfact{}, s.bf...), bfact{g, gp, idx, set})
	return out
}

// activateBytes: the guard is known to have the value gp.
func (s *lstate) activateBytes(g atomID, gp bool) *lstate {
	out := s
	for _, b := range s.bf {
		if b.g == g && b.gp == gp && out != nil {
			out = out.withByte(b.idx, b.set)
		}
	}
	return out
}

// withByte: s ∧ Buffer[idx] ∈ set (nil when that leaves no byte).
func (s *lstate) withByte(idx lin, set bset) *lstate {
	if s == nil {
		return nil
	}
	k := idx.key()
	out := s.clone()
	nbf := make([]bfact, 0, len(s.bf)+1)
	found := false
	for _, b := range s.bf {
		if b.g == 0 && b.idx.key() == k {
			found = true
			b.set = b.set.inter(set)
			if b.set.empty() {
				return nil
			}
		}
		nbf = append(nbf, b)
	}
	if !found {
		if set.empty() {
			return nil
		}
		nbf = append(nbf, bfact{idx: idx, set: set})
	}
	out.bf = nbf
	return out
}

func (s *lstate) valIdx(v atomID) (lin, bool) {
	for _, b := range s.bv {
		if b.v == v {
			return b.idx, true
		}
	}
	return lin{}, false
}

func (s *lstate) withVal(v atomID, idx lin) *lstate {
	if s == nil {
		return nil
	}
	out := s.clone()
	nbv := make([]bval, 0, len(s.bv)+1)
	for _, b := range s.bv {
		if b.v != v {
			nbv = append(nbv, b)
		}
	}
	out.bv = append(nbv, bval{v, idx})
	return out
}

// bytesContradict: two unconditional byte facts speak about the same index (provably equal index terms) and
// exclude each other.
func (s *lstate) bytesContradict(at *atomTable) bool {
	if s == nil {
		return true
	}
	for i := 0; i < len(s.bf); i++ {
		if s.bf[i].g != 0 {
			continue
		}
		for j := i + 1; j < len(s.bf); j++ {
			if s.bf[j].g != 0 {
				continue
			}
			if !s.bf[i].set.inter(s.bf[j].set).empty() {
				continue
			}
			d := s.bf[i].idx.sub(s.bf[j].idx)
			if s.proves(at, lfact{l: d}) && s.proves(at, lfact{l: d.scale(-1)}) {
				return true
			}
		}
	}
	return false
}

func (s *lstate) bytesKey() string {
	if len(s.bf) == 0 && len(s.bv) == 0 {
		return ""
	}
	var ks []string
	for _, b := range s.bf {
		ks = append(ks, fmt.Sprintf("B[%s]%x", b.key(), b.set))
	}
	for _, b := range s.bv {
		ks = append(ks, fmt.Sprintf("V%d=%s", b.v, b.idx.key()))
	}
	sort.Strings(ks)
	return "|" + strings.Join(ks, ";")
}

// with returns s ∧ facts (facts normalised; trivially true ones dropped). A trivially false
// unguarded fact makes the state unreachable.
func (s *lstate) with(facts ...lfact) *lstate {
	if s == nil {
		return nil
	}
	out := s
	cloned := false
	for _, f := range facts {
		f.l = normGE(f.l)
		if f.l.isConst() {
			if f.l.k >= 0 {
				continue
			}
			if f.g == 0 {
				return nil
			}
			continue // guarded falsity: the guard cannot hold; not used
		}
		unit := true
		for _, t := range f.l.t {
			if t.c > 1 || t.c < -1 {
				unit = false
				break
			}
		}
		if !unit {
			continue // the domain keeps unit-coefficient facts only
		}
		k := f.key()
		if out.idx[k] {
			continue
		}
		if !cloned {
			out = s.clone()
			cloned = true
		}
		out.idx[k] = true
		out.f = append(out.f, f)
	}
	if cloned {
		out.tighten()
	}
	return out
}

// tighten keeps, among unguarded facts that differ only in the constant, the strongest one.
func (s *lstate) tighten() {
	best := map[string]int{}
	var keep []lfact
	for _, f := range s.f {
		if f.g != 0 {
			keep = append(keep, f)
			continue
		}
		shape := lin{t: f.l.t}.key()
		if i, ok := best[shape]; ok {
			if f.l.k < keep[i].l.k {
				keep[i] = f
			}
			continue
		}
		best[shape] = len(keep)
		keep = append(keep, f)
	}
	s.f = keep
	s.idx = map[string]bool{}
	for _, f := range s.f {
		s.idx[f.key()] = true
	}
	s.bounds = false
	s.nf = nil
	s.atomSet = nil
	s.lb = nil
}

func (s *lstate) eq(a, b lin) *lstate {
	d := a.sub(b)
	return s.with(lfact{l: d}, lfact{l: d.scale(-1)})
}

func (s *lstate) ge(a, b lin) *lstate { return s.with(lfact{l: a.sub(b)}) }

func (s *lstate) key() string {
	if s == nil {
		return "⊥"
	}
	ks := make([]string, 0, len(s.f))
	for _, f := range s.f {
		ks = append(ks, f.key())
	}
	sort.Strings(ks)
	return strings.Join(ks, ";") + s.bytesKey()
}

func (s *lstate) computeBounds(at *atomTable) {
	if s.bounds {
		return
	}
	s.lo, s.hi = map[atomID]int64{}, map[atomID]int64{}
	s.hasLo, s.hasHi = map[atomID]bool{}, map[atomID]bool{}
	for _, f := range s.f {
		if f.g != 0 || len(f.l.t) != 1 {
			continue
		}
		a, c, k := f.l.t[0].a, f.l.t[0].c, f.l.k
		if c > 0 { // a >= ceil(-k/c)
			v := -floorDiv(k, c)
			if !s.hasLo[a] || v > s.lo[a] {
				s.lo[a], s.hasLo[a] = v, true
			}
		} else { // -|c| a + k >= 0 → a <= floor(k/|c|)
			v := floorDiv(k, -c)
			if !s.hasHi[a] || v < s.hi[a] {
				s.hi[a], s.hasHi[a] = v, true
			}
		}
	}
	s.bounds = true
}

func (s *lstate) loOf(at *atomTable, a atomID) (int64, bool) {
	s.computeBounds(at)
	v, ok := s.lo[a], s.hasLo[a]
	if at.isLen[a] && (!ok || v < 0) {
		return 0, true
	}
	return v, ok
}

func (s *lstate) hiOf(at *atomTable, a atomID) (int64, bool) {
	s.computeBounds(at)
	return s.hi[a], s.hasHi[a]
}

// minOf: a lower bound of l under the single-atom bounds of s.
func (s *lstate) minOf(at *atomTable, l lin) (int64, bool) {
	m := l.k
	for _, t := range l.t {
		if t.c > 0 {
			v, ok := s.loOf(at, t.a)
			if !ok {
				return 0, false
			}
			m += t.c * v
		} else {
			v, ok := s.hiOf(at, t.a)
			if !ok {
				return 0, false
			}
			m += t.c * v
		}
	}
	return m, true
}

const maxFactWidth = 5

// softRestrict: a restricted join keeps any candidate the previous state implies (instead of only its literal facts)
var softRestrict bool
var joinDebug, joinDumped bool

// proveBudgetInit: search steps allowed per entailment query (joins ask very many, most of them failing;
// obligations raise it)
var proveBudgetInit = 90
var joinDebug2 string
var elimDebug string
var proveBudget int
var joinCalls, joinPool, joinMaxPool, proveCalls int

// proves: s ⊢ (guard ⇒ l ≥ 0).
func (s *lstate) proves(at *atomTable, f lfact) bool {
	if s == nil {
		return true
	}
	l := normGE(f.l)
	proveCalls++
	if s.idx[lfact{g: f.g, gp: f.gp, l: l}.key()] {
		return true
	}
	if s.atomSet == nil {
		s.atomSet = s.atomsOf()
	}
	for _, t := range l.t {
		if !s.atomSet[t.a] && !at.isLen[t.a] {
			return false
		}
	}
	n := s.norm(at)
	for range n.defs {
		changed := false
		for _, d := range n.defs {
			if l.coef(d.x) != 0 {
				l = l.subst(d.x, d.r)
				changed = true
			}
		}
		if !changed {
			break
		}
	}
	l = normGE(l)
	proveBudget = proveBudgetInit
	return n.st.prove(at, l, f.g, f.gp, 3, map[string]bool{})
}

// canonical returns the equivalent normalised state.
func (s *lstate) canonical(at *atomTable) *lstate {
	if s == nil {
		return nil
	}
	n := s.norm(at)
	if n.st == nil {
		return s
	}
	return n.st
}

type linDef struct {
	x atomID
	r lin
}

type normForm struct {
	st   *lstate
	defs []linDef
}

func (s *lstate) norm(at *atomTable) *normForm {
	if s.nf != nil {
		return s.nf
	}
	st, defs := s.normalise(at)
	s.nf = &normForm{st: st, defs: defs}
	return s.nf
}

func (s *lstate) prove(at *atomTable, l lin, g atomID, gp bool, depth int, seen map[string]bool) bool {
	if l.isConst() {
		return l.k >= 0
	}
	if m, ok := s.minOf(at, l); ok && m >= 0 {
		return true
	}
	if depth == 0 || proveBudget <= 0 {
		return false
	}
	k := strconv.Itoa(depth) + "|" + l.key()
	if seen[k] {
		return false
	}
	seen[k] = true
	for _, p := range s.f {
		if p.g != 0 && !(p.g == g && p.gp == gp) {
			continue
		}
		if len(p.l.t) < 2 && len(l.t) > 1 {
			// single-atom facts are already used through the bounds
			continue
		}
		// p must cancel (part of) a term of l
		useful := false
		var m int64 = 1
		for _, t := range p.l.t {
			c := l.coef(t.a)
			if c != 0 && (c > 0) == (t.c > 0) {
				useful = true
				if q := c / t.c; q > 1 && c%t.c == 0 {
					m = q
				}
				break
			}
		}
		if !useful {
			continue
		}
		proveBudget--
		r := l.addScaled(p.l, -m)
		if len(r.t) > len(l.t)+1 {
			continue
		}
		if s.prove(at, r, g, gp, depth-1, seen) {
			return true
		}
		if m != 1 {
			if s.prove(at, l.sub(p.l), g, gp, depth-1, seen) {
				return true
			}
		}
	}
	return false
}

// prune removes unguarded facts implied by another single fact plus the single-atom bounds
// (or by the bounds alone). Equivalent to s.
func (s *lstate) prune(at *atomTable) *lstate {
	if s == nil || len(s.f) < 12 {
		return s
	}
	s.computeBounds(at)
	type ent struct {
		f    lfact
		dead bool
	}
	es := make([]ent, len(s.f))
	for i, f := range s.f {
		es[i].f = f
	}
	// wider facts first, so that they are removed in favour of narrower ones
	order := make([]int, len(es))
	for i := range order {
		order[i] = i
	}
	sort.SliceStable(order, func(a, b int) bool { return len(es[order[a]].f.l.t) > len(es[order[b]].f.l.t) })
	removed := 0
	for _, i := range order {
		f := es[i].f
		if f.g != 0 || len(f.l.t) < 2 {
			continue
		}
		if m, ok := s.minOf(at, f.l); ok && m >= 0 {
			es[i].dead = true
			removed++
			continue
		}
		for j := range es {
			g := es[j]
			if j == i || g.dead || g.f.g != 0 || len(g.f.l.t) > len(f.l.t) || len(g.f.l.t) < 2 {
				continue
			}
			// atoms of g must be among those of f with the same sign
			sub := true
			for _, t := range g.f.l.t {
				c := f.l.coef(t.a)
				if c == 0 || (c > 0) != (t.c > 0) {
					sub = false
					break
				}
			}
			if !sub {
				continue
			}
			d := f.l.sub(g.f.l)
			if len(d.t) == len(f.l.t) {
				continue
			}
			if d.isConst() {
				if d.k >= 0 && !(d.k == 0 && j > i) {
					es[i].dead = true
				}
			} else if m, ok := s.minOf(at, d); ok && m >= 0 {
				es[i].dead = true
			}
			if es[i].dead {
				removed++
				break
			}
		}
	}
	if removed == 0 {
		return s
	}
	var keep []lfact
	for _, e := range es {
		if !e.dead {
			keep = append(keep, e.f)
		}
	}
	return emptyState().with(keep...).carry(s)
}

// atomsOf returns the atoms occurring in the state (including guards).
func (s *lstate) atomsOf() map[atomID]bool {
	out := map[atomID]bool{}
	if s == nil {
		return out
	}
	for _, f := range s.f {
		if f.g != 0 {
			out[f.g] = true
		}
		for _, t := range f.l.t {
			out[t.a] = true
		}
	}
	for _, b := range s.bf {
		if b.g != 0 {
			out[b.g] = true
		}
		for _, t := range b.idx.t {
			out[t.a] = true
		}
	}
	for _, b := range s.bv {
		out[b.v] = true
		for _, t := range b.idx.t {
			out[t.a] = true
		}
	}
	return out
}

// eliminate projects the atoms away (Fourier–Motzkin; equalities with unit coefficient are used
// for substitution first). Sound: the result is implied by s.
func (s *lstate) eliminate(at *atomTable, drop map[atomID]bool) *lstate {
	if s == nil || len(drop) == 0 {
		return s
	}
	cur := s.f
	bfCur, bvCur := s.bf, s.bv
	// byte entries: rewritten through the equality used for the atom, dropped when there is none
	rewriteBytes := func(a atomID, eqR *lin) {
		touched := false
		for _, b := range bfCur {
			if b.idx.coef(a) != 0 || b.g == a {
				touched = true
			}
		}
		for _, b := range bvCur {
			if b.v == a || b.idx.coef(a) != 0 {
				touched = true
			}
		}
		if !touched {
			return
		}
		var nbf []bfact
		for _, b := range bfCur {
			if b.g == a {
				continue
			}
			if b.idx.coef(a) != 0 {
				if eqR == nil {
					continue
				}
				b.idx = b.idx.subst(a, *eqR)
			}
			// two entries may have become one
			merged := false
			for i := range nbf {
				if nbf[i].key() == b.key() {
					nbf[i].set = nbf[i].set.inter(b.set)
					merged = true
				}
			}
			if !merged {
				nbf = append(nbf, b)
			}
		}
		var nbv []bval
		for _, b := range bvCur {
			if b.v == a {
				continue
			}
			if b.idx.coef(a) != 0 {
				if eqR == nil {
					continue
				}
				b.idx = b.idx.subst(a, *eqR)
			}
			nbv = append(nbv, b)
		}
		bfCur, bvCur = nbf, nbv
	}
	var order []atomID
	for a := range drop {
		order = append(order, a)
	}
	sort.Slice(order, func(i, j int) bool { return order[i] < order[j] })
	for _, a := range order {
		occurs := false
		for _, f := range cur {
			if f.g == a || f.l.coef(a) != 0 {
				occurs = true
				break
			}
		}
		if !occurs {
			rewriteBytes(a, nil)
			continue
		}
		// facts guarded by a are dropped
		var rest, withA []lfact
		for _, f := range cur {
			switch {
			case f.g == a:
			case f.l.coef(a) != 0:
				withA = append(withA, f)
			default:
				rest = append(rest, f)
			}
		}
		// equality a = r (unguarded, unit coefficient)?
		var eqR *lin
		idxKeys := map[string]lfact{}
		for _, f := range withA {
			if f.g == 0 {
				idxKeys[f.l.key()] = f
			}
		}
		for _, f := range withA {
			if f.g != 0 {
				continue
			}
			c := f.l.coef(a)
			if c != 1 && c != -1 {
				continue
			}
			if _, ok := idxKeys[f.l.scale(-1).key()]; ok {
				// c*a + r >= 0 and its negation: a = -r/c; the shortest definition is used
				r := f.l.subst(a, lin{})
				rr := r.scale(-c)
				if eqR == nil || len(rr.t) < len(eqR.t) || (len(rr.t) == len(eqR.t) && rr.key() < eqR.key()) {
					eqR = &rr
				}
			}
		}
		if elimDebug != "" && strings.Contains(at.name[a], elimDebug) {
			fmt.Printf("ELIM %s: withA=%d eq=%v", at.name[a], len(withA), eqR != nil)
			if eqR != nil {
				fmt.Printf(" := %s", at.show(*eqR))
			}
			fmt.Println()
		}
		rewriteBytes(a, eqR)
		if eqR != nil {
			for _, f := range withA {
				nl := normGE(f.l.subst(a, *eqR))
				if nl.isConst() {
					continue
				}
				rest = append(rest, lfact{g: f.g, gp: f.gp, l: nl})
			}
			cur = rest
			continue
		}
		var lows, ups []lfact
		for _, f := range withA {
			if f.l.coef(a) > 0 {
				lows = append(lows, f)
			} else {
				ups = append(ups, f)
			}
		}
		if at.isLen[a] {
			lows = append(lows, lfact{l: linAtom(a)})
		}
		if len(lows)*len(ups) <= 48 {
			for _, lo := range lows {
				for _, up := range ups {
					if lo.g != 0 && up.g != 0 && !(lo.g == up.g && lo.gp == up.gp) {
						continue
					}
					cl, cu := lo.l.coef(a), -up.l.coef(a)
					comb := normGE(lo.l.scale(cu).add(up.l.scale(cl)))
					if comb.isConst() {
						continue
					}
					g, gp := lo.g, lo.gp
					if g == 0 {
						g, gp = up.g, up.gp
					}
					rest = append(rest, lfact{g: g, gp: gp, l: comb})
				}
			}
		}
		cur = rest
	}
	out := emptyState()
	res := out.with(cur...)
	if res != nil {
		res.bf, res.bv = bfCur, bvCur
	}
	return res.prune(at)
}

// rename atoms (simultaneously).
func (s *lstate) renameAll(m map[atomID]atomID) *lstate {
	if s == nil || len(m) == 0 {
		return s
	}
	out := emptyState()
	var fs []lfact
	for _, f := range s.f {
		nl := lin{k: f.l.k}
		for _, t := range f.l.t {
			a := t.a
			if b, ok := m[a]; ok {
				a = b
			}
			nl = nl.add(linAtom(a).scale(t.c))
		}
		g := f.g
		if b, ok := m[g]; ok && g != 0 {
			g = b
		}
		fs = append(fs, lfact{g: g, gp: f.gp, l: nl})
	}
	res := out.with(fs...)
	if res != nil && (len(s.bf) > 0 || len(s.bv) > 0) {
		ren := func(l lin) lin {
			nl := lin{k: l.k}
			for _, t := range l.t {
				a := t.a
				if b, ok := m[a]; ok {
					a = b
				}
				nl = nl.add(linAtom(a).scale(t.c))
			}
			return nl
		}
		for _, b := range s.bf {
			g := b.g
			if ng, ok := m[g]; ok && g != 0 {
				g = ng
			}
			res.bf = append(res.bf, bfact{g, b.gp, ren(b.idx), b.set})
		}
		for _, b := range s.bv {
			v := b.v
			if nv, ok := m[v]; ok {
				v = nv
			}
			res.bv = append(res.bv, bval{v, ren(b.idx)})
		}
	}
	return res
}

// generalise: variants of every unguarded fact of s with a multiple (±1) of a term known to be
// zero in s added (the zero terms are "phi - value assigned on this edge").
func (s *lstate) generalise(at *atomTable, zeros []lin) []lfact {
	if s == nil {
		return nil
	}
	var out []lfact
	base := s.f
	for _, z := range zeros {
		for _, t := range z.t {
			if at.isLen[t.a] {
				base = append(append([]lfact{}, base...), lfact{l: linAtom(t.a)})
			}
		}
	}
	// seeds: cursor facts with a bounded atom of an assigned value brought in through its bound
	// (G + (hi(x) - x) and G + (x - lo(x)) hold whenever G does)
	s.computeBounds(at)
	var seeds []lfact
	for _, z := range zeros {
		for _, t := range z.t {
			if t.c == 1 && len(z.t) > 1 && t.a == z.t[0].a && false {
				continue
			}
			x := t.a
			for _, f := range s.f {
				if f.g != 0 || f.l.coef(x) != 0 || !(f.l.coef(1) != 0 || f.l.coef(2) != 0) {
					continue
				}
				if hi, ok := s.hiOf(at, x); ok {
					seeds = append(seeds, lfact{l: f.l.add(linConst(hi)).sub(linAtom(x))})
				}
				if lo, ok := s.loOf(at, x); ok {
					seeds = append(seeds, lfact{l: f.l.add(linAtom(x)).add(linConst(-lo))})
				}
			}
		}
	}
	if len(seeds) > 0 {
		base = append(append([]lfact{}, base...), seeds...)
		out = append(out, seeds...)
	}
	for _, f := range base {
		if f.g != 0 || len(f.l.t) == 0 {
			continue
		}
		for _, z := range zeros {
			if len(z.t) == 0 {
				continue
			}
			// only facts about the cursor / the input length, or about what the phi is assigned from
			rel := f.l.coef(1) != 0 || f.l.coef(2) != 0
			if !rel {
				for _, t := range z.t {
					if t.c != 1 && f.l.coef(t.a) != 0 {
						rel = true
					}
				}
			}
			if !rel {
				continue
			}
			out = append(out, lfact{l: f.l.add(z)}, lfact{l: f.l.sub(z)})
			if len(out) > 1500 {
				return out
			}
		}
	}
	return out
}

// normalise rewrites the state so that every atom defined by an equality x = r (unit coefficient,
// x the newest atom of the equality) is replaced by r in all other facts. Equivalent to s.
func (s *lstate) normalise(at *atomTable) (*lstate, []linDef) {
	if s == nil {
		return nil, nil
	}
	var defs []linDef
	cur := append([]lfact{}, s.f...)
	used := map[atomID]bool{}
	for round := 0; round < 40; round++ {
		keys := map[string]bool{}
		for _, f := range cur {
			if f.g == 0 {
				keys[f.l.key()] = true
			}
		}
		var x atomID
		var r lin
		var defKey1, defKey2 string
		for _, f := range cur {
			if f.g != 0 || len(f.l.t) < 1 {
				continue
			}
			if !keys[f.l.scale(-1).key()] {
				continue
			}
			// the atom to define: a cursor snapshot if there is one, else the newest atom
			newest := atomID(0)
			bestPrio := int8(-100)
			for _, t := range f.l.t {
				p := at.prio[t.a]
				if p > bestPrio || (p == bestPrio && t.a > newest) {
					newest, bestPrio = t.a, p
				}
			}
			c := f.l.coef(newest)
			if used[newest] || (c != 1 && c != -1) || bestPrio < 0 {
				continue
			}
			rest := f.l.subst(newest, lin{})
			x, r = newest, rest.scale(-c)
			defKey1, defKey2 = f.l.key(), f.l.scale(-1).key()
			break
		}
		if x == 0 {
			break
		}
		used[x] = true
		defs = append(defs, linDef{x, r})
		for i, f := range cur {
			if f.g == 0 && (f.l.key() == defKey1 || f.l.key() == defKey2) {
				continue
			}
			if f.l.coef(x) != 0 {
				cur[i].l = normGE(f.l.subst(x, r))
			}
		}
	}
	out := emptyState().with(cur...).carry(s)
	if out == nil {
		out = s
		defs = nil
	}
	return out, defs
}

// joinLin: the facts (of any input, or generalised from one) that every input proves.
// lowerBound: the largest m (within the search range) such that s proves l >= m.
func (s *lstate) lowerBound(at *atomTable, l lin) (int64, bool) {
	l.k = 0
	key := l.key()
	if s.lb == nil {
		s.lb = map[string][2]int64{}
	}
	if v, ok := s.lb[key]; ok {
		return v[0], v[1] == 1
	}
	holds := func(m int64) bool { return s.proves(at, lfact{l: l.add(linConst(-m))}) }
	var m int64
	found := false
	// a literal fact of the same shape, or the interval bound, is the first guess
	for _, f := range s.f {
		if f.g == 0 && len(f.l.t) == len(l.t) && (lin{t: f.l.t}).key() == key {
			m, found = -f.l.k, true
			break
		}
	}
	if !found {
		if v, ok := s.minOf(at, l); ok {
			m, found = v, true
		}
	}
	if !found {
		if holds(-64) {
			m, found = -64, true
		}
	}
	if !found {
		s.lb[key] = [2]int64{0, 0}
		return 0, false
	}
	// climb
	step := int64(1)
	for step <= 64 && holds(m+step) {
		m += step
		step *= 2
	}
	for step /= 2; step >= 1; step /= 2 {
		if holds(m + step) {
			m += step
		}
	}
	s.lb[key] = [2]int64{m, 1}
	return m, true
}

// joinLin: for every candidate shape (the linear parts of the facts of the inputs, their
// generalisations through the phi assignments, and the standard shapes over the phis of the join)
// the weakest of the lower bounds the inputs prove. restrictTo (the previous state at a loop head)
// makes the result a weakening of it; with softRestrict off, a shape whose bound is still moving is
// dropped (widening).
// joinByteRefute: byte facts are in use; joins try to improve integer bounds by refutation over them.
var joinByteRefute bool

func joinLin(at *atomTable, in []*lstate, zeros [][]lin, restrictTo *lstate, extra ...atomID) *lstate {
	var live []*lstate
	var liveZ [][]lin
	for i, s := range in {
		if s != nil {
			live = append(live, s)
			if i < len(zeros) {
				liveZ = append(liveZ, zeros[i])
			} else {
				liveZ = append(liveZ, nil)
			}
		}
	}
	if len(live) == 0 {
		return nil
	}
	if len(live) == 1 && restrictTo == nil {
		return live[0]
	}
	shapes := map[string]lin{}
	addShape := func(l lin) {
		l = normGE(l)
		l.k = 0
		if len(l.t) == 0 || len(l.t) > maxFactWidth {
			return
		}
		for _, t := range l.t {
			if t.c > 1 || t.c < -1 {
				return
			}
		}
		shapes[l.key()] = l
	}
	guarded := map[string]lfact{}
	phiAtoms := map[atomID]bool{}
	for _, a := range extra {
		phiAtoms[a] = true
	}
	for _, zs := range liveZ {
		for _, z := range zs {
			for _, t := range z.t {
				if t.c == 1 {
					phiAtoms[t.a] = true
					break
				}
			}
		}
	}
	literal := restrictTo != nil && !softRestrict
	if literal {
		for _, f := range restrictTo.f {
			if f.g == 0 {
				addShape(f.l)
			} else {
				guarded[f.key()] = f
			}
		}
	} else {
		lens := map[atomID]bool{}
		for i, s := range live {
			for _, f := range s.f {
				if f.g != 0 {
					guarded[f.key()] = f
					continue
				}
				addShape(f.l)
				if f.l.coef(1) != 0 || f.l.coef(2) != 0 {
					for _, t := range f.l.t {
						if at.isLen[t.a] {
							lens[t.a] = true
						}
					}
				}
			}
			zs := liveZ[i]
			if len(zs) > 0 {
				n := s.norm(at)
				for _, z := range liveZ[i] {
					nz := z
					for range n.defs {
						changed := false
						for _, d := range n.defs {
							if at.prio[d.x] > 0 && nz.coef(d.x) != 0 {
								nz = nz.subst(d.x, d.r)
								changed = true
							}
						}
						if !changed {
							break
						}
					}
					if nz.key() != z.key() {
						zs = append(append([]lin{}, zs...), nz)
					}
				}
			}
			for _, f := range s.generalise(at, zs) {
				addShape(f.l)
			}
		}
		// standard shapes over the phis of this join
		var phis []atomID
		for a := range phiAtoms {
			phis = append(phis, a)
		}
		sort.Slice(phis, func(i, j int) bool { return phis[i] < phis[j] })
		avail := linAtom(2).sub(linAtom(1)) // len(Buffer) - pos
		addShape(avail)
		for i, a := range phis {
			addShape(linAtom(a))
			addShape(linAtom(a).scale(-1))
			addShape(avail.sub(linAtom(a)))
			for q := range lens {
				addShape(avail.sub(linAtom(a)).sub(linAtom(q)))
			}
			for _, b := range phis[i+1:] {
				addShape(avail.sub(linAtom(a)).sub(linAtom(b)))
				addShape(linAtom(a).sub(linAtom(b)))
				addShape(linAtom(b).sub(linAtom(a)))
			}
		}
		if restrictTo != nil {
			for _, f := range restrictTo.f {
				if f.g == 0 {
					addShape(f.l)
				}
			}
		}
	}
	joinCalls++
	joinPool += len(shapes)
	if len(shapes) > joinMaxPool {
		joinMaxPool = len(shapes)
	}
	keys := make([]string, 0, len(shapes))
	for k := range shapes {
		keys = append(keys, k)
	}
	sort.Strings(keys)
	var kept []lfact
	for _, k := range keys {
		l := shapes[k]
		var m int64
		ok := true
		for i, s := range live {
			v, has := s.lowerBound(at, l)
			if !has {
				ok = false
				break
			}
			if joinByteRefute && len(s.bf) >= 2 && len(l.t) <= 2 && (i == 0 || v < m) {
				// the bound may be improvable by one: l <= v contradicts what is known about two bytes that then coincide
				if s2 := s.with(lfact{l: l.scale(-1).add(linConst(v))}); s2 == nil || s2.bytesContradict(at) {
					v++
				}
			}
			if i == 0 || v < m {
				m = v
			}
		}
		if !ok {
			continue
		}
		if restrictTo != nil {
			pv, has := restrictTo.lowerBound(at, l)
			if !has {
				continue
			}
			if literal {
				if m < pv {
					// still moving: widen to the next threshold below, or give the shape up
					widened := false
					for _, th := range []int64{1, 0, -1, -2} {
						if th < pv && th <= m {
							m, widened = th, true
							break
						}
					}
					if !widened {
						continue
					}
				} else {
					m = pv
				}
			}
		}
		kept = append(kept, lfact{l: l.add(linConst(-m))})
	}
	gkeys := make([]string, 0, len(guarded))
	for k := range guarded {
		gkeys = append(gkeys, k)
	}
	sort.Strings(gkeys)
	for _, k := range gkeys {
		f := guarded[k]
		ok := true
		if restrictTo != nil && !restrictTo.proves(at, f) {
			ok = false
		}
		for _, s := range live {
			if !ok {
				break
			}
			if !s.proves(at, f) {
				ok = false
			}
		}
		if ok {
			kept = append(kept, f)
		}
	}
	if joinDebug2 != "" {
		hit := false
		for _, zs := range liveZ {
			for _, z := range zs {
				if strings.Contains(at.show(z), joinDebug2) {
					hit = true
				}
			}
		}
		if hit {
			fmt.Printf("JOIN2 shapes=%d live=%d\n", len(shapes), len(live))
			for i, s := range live {
				fmt.Printf(" state %d (%d facts): %s\n", i, len(s.f), at.showState(s))
				for _, z := range liveZ[i] {
					fmt.Printf("   zero: %s\n", at.show(z))
				}
			}
			fmt.Printf(" result: %s\n", at.showState(emptyState().with(kept...)))
		}
	}
	res := emptyState().with(kept...)
	if res != nil {
		// byte facts: entries with the same index term in every input; sets are united
		for _, b := range live[0].bf {
			set := b.set
			ok := true
			for _, o := range live[1:] {
				os, has := o.guardedByte(b.g, b.gp, b.idx)
				if !has && b.g != 0 {
					// an unconditional fact of the other input is at least as strong
					os, has = o.byteSet(b.idx)
				}
				if !has {
					ok = false
					break
				}
				set = set.union(os)
			}
			if ok {
				res.bf = append(res.bf, bfact{b.g, b.gp, b.idx, set})
			}
		}
		for _, b := range live[0].bv {
			ok := true
			for _, o := range live[1:] {
				oi, has := o.valIdx(b.v)
				if !has || oi.key() != b.idx.key() {
					ok = false
					break
				}
			}
			if ok {
				res.bv = append(res.bv, b)
			}
		}
	}
	for _, zs := range liveZ {
		if len(zs) > 0 {
			return res // a phi join: redundant facts may be the ones that survive the next iteration
		}
	}
	return res.prune(at)
}
