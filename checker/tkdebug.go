package main

import (
	"fmt"
	"sort"

	"golang.org/x/tools/go/ssa"
)

func init() {
	register(&propDef{ID: "TKDEBUG", Explanation: "debug", Rules: []ruleFn{func(w *World, r *Report) {
		tk := w.TKAI()
		fmt.Println("missing anchors:", tk.anchorsOK())
		for _, name := range []string{"(*Parser).expect", "(*Parser).expectKeywordLike", "(*Parser).tryParseHint", "(*Parser).parseExpr", "(*Parser).parseStatement", "(*Parser).lookaheadSubQuery", "(*Parser).tryParseSequenceParam", "(*Parser).parseIdent", "(*Parser).tryParseFrom", "(*Parser).parseQueryExpr", "(*Parser).parseType"} {
			fn := w.fn(w.Mem, name)
			if fn == nil {
				fmt.Println("no fn", name)
				continue
			}
			consts := map[int]string{}
			if name == "(*Parser).expect" {
				consts[1] = "SELECT"
			}
			if name == "(*Parser).expectKeywordLike" {
				consts[1] = "TABLE"
			}
			s := tk.summary(fn, kTop(), consts, false)
			fmt.Printf("%s: pass=%s passNil=%v first=%s exit=%s mayConsume=%v retFirstSnap=%v raisesNC=%s\n", name, s.pass, s.passNil, s.first, s.exit, s.mayConsume, s.retFirstSnap, s.raisesNC)
		}
		for k, s := range tk.sums {
			n := funcName(k.fn)
			if n == "(*Parser).parseQueryStatementInternal" || n == "(*Parser).parseStatementInternal" || (n == "(*Parser).parseQueryExpr" && len(k.entry) < 40) {
				fmt.Printf("CTX %s entry=%s rec=%v: pass=%s first=%s mayConsume=%v\n", n, k.entry, k.rec, s.pass, s.first, s.mayConsume)
			}
		}
		{
			fn := w.fn(w.Mem, "(*Parser).parseStatementInternal")
			ci := &ctxInfo{key: tkCtx{fn: fn, entry: "x"}, fn: fn, entry: kTop().Remove("@"), consts: map[int]string{}}
			res := tk.flow(ci, fn.Blocks[0], [2]*TState{newTState(ci.entry), nil}, nil, nil)
			for _, b := range fn.Blocks {
				in := res.in[b]
				a, c := "⊥", "⊥"
				if in[0] != nil {
					a = in[0].cur.String()
				}
				if in[1] != nil {
					c = in[1].cur.String()
				}
				fmt.Printf("BLK %d %s NC=%s C=%s\n", b.Index, b.Comment, a, c)
			}
		}
		for _, nm := range []string{"(*Parser).parseSelectItem", "(*Parser).parseExpr", "(*Parser).parseOr", "(*Parser).parseLit", "(*Parser).parseSelector", "(*Parser).parseUnary", "(*Parser).parseComparison"} {
			fn := w.fn(w.Mem, nm)
			s := tk.summaryMode(fn, kIn(";"), nil, false, true)
			fmt.Printf("CLEAN %s under {;}: pass=%s first=%s mayConsume=%v raisesNC=%s\n", nm, s.pass, s.first, s.mayConsume, s.raisesNC)
		}
		fmt.Println("contexts:", len(tk.sums), "flows:", tk.nflows)
		var ks []string
		for k := range tk.sums {
			ks = append(ks, funcName(k.fn))
		}
		sort.Strings(ks)
		r.ok("TKDEBUG", "x", "-", "dbg")
	}}})
}

func init() {
	register(&propDef{ID: "DUMP", Explanation: "debug: prints all obligations of a property given in $DUMP_PROP", Rules: []ruleFn{func(w *World, r *Report) {}}})
}

func init() {
	register(&propDef{ID: "VALDEBUG", Explanation: "debug", Rules: []ruleFn{func(w *World, r *Report) {
		v := w.Value()
		cat := w.Catalog()
		n := 0
		for _, ns := range cat.Structs {
			for i := 0; i < ns.Struct.NumFields(); i++ {
				f := ns.Struct.Field(i)
				if cat.nodeFieldKind(f.Type()) != "single" {
					continue
				}
				a := v.FieldAV(ns.Name, f.Name())
				if a.mayNil || a.top || a.bot {
					n++
					var sites []string
					for _, al := range v.sites {
						if v.nodeStructOf(al.Type()) == ns.Name {
							sa, _ := v.siteField(al, f.Name(), nil)
							if sa.mayNil || sa.top {
								sites = append(sites, w.pos(al.Pos()))
							}
						}
					}
					fmt.Printf("MAYNIL %s.%s top=%v bot=%v %v\n", ns.Name, f.Name(), a.top, a.bot, sites)
				}
			}
		}
		fmt.Println("maynil fields:", n, "sites:", len(v.sites))
		for _, k := range [][2]string{{"BinaryExpr", "Left"}, {"BinaryExpr", "Op"}, {"SelectorExpr", "Expr"}, {"Join", "Method"}, {"Path", "Idents"}, {"WithExpr", "Vars"}, {"CompoundQuery", "Queries"}} {
			fmt.Printf("FIELD %s.%s = %s\n", k[0], k[1], v.FieldAV(k[0], k[1]).key())
		}
		r.ok("VALDEBUG", "x", "-", "dbg")
	}}})
}

func init() {
	register(&propDef{ID: "VALDEBUG2", Explanation: "debug", Rules: []ruleFn{func(w *World, r *Report) {
		fn := w.fn(w.Ast, "exprPrec")
		a := w.consumerAV(fn.Params[0], map[ssa.Value]bool{})
		fmt.Println("exprPrec e:", a.key())
		pf := w.fn(w.Ast, "paren")
		a = w.consumerAV(pf.Params[1], map[ssa.Value]bool{})
		fmt.Println("paren e:", a.key())
		fmt.Println("callers of paren:", len(w.callersOf(pf)))
		for _, c := range w.callersOf(pf) {
			fmt.Println("  ", funcName(c.Parent()), c.Common().Args[1], w.consumerAV(c.Common().Args[1], map[ssa.Value]bool{}).key()[:80])
		}
		r.ok("VALDEBUG2", "x", "-", "dbg")
	}}})
}
