package main

import (
	"fmt"
	"sort"
)

func init() {
	register(&propDef{ID: "TKDEBUG", Explanation: "debug", Rules: []ruleFn{func(w *World, r *Report) {
		tk := w.TKAI()
		fmt.Println("missing anchors:", tk.anchorsOK())
		for _, name := range []string{"(*Parser).expect", "(*Parser).expectKeywordLike", "(*Parser).tryParseHint", "(*Parser).parseExpr", "(*Parser).parseStatement", "(*Parser).lookaheadSubQuery", "(*Parser).tryParseSequenceParam", "(*Parser).parseIdent", "(*Parser).tryParseFrom", "(*Parser).parseQueryExpr", "(*Parser).parseType"} {
			fn := w.fn(w.Mem, name)
			if fn == nil {
				fmt.Println("no fn", name)
				continue
			}
			consts := map[int]string{}
			if name == "(*Parser).expect" {
				consts[1] = "SELECT"
			}
			if name == "(*Parser).expectKeywordLike" {
				consts[1] = "TABLE"
			}
			s := tk.summary(fn, kTop(), consts, false)
			fmt.Printf("%s: pass=%s passNil=%v first=%s exit=%s mayConsume=%v retFirstSnap=%v raisesNC=%s\n", name, s.pass, s.passNil, s.first, s.exit, s.mayConsume, s.retFirstSnap, s.raisesNC)
		}
		for k, s := range tk.sums {
			n := funcName(k.fn)
			if n == "(*Parser).parseQueryStatementInternal" || n == "(*Parser).parseStatementInternal" || (n == "(*Parser).parseQueryExpr" && len(k.entry) < 40) {
				fmt.Printf("CTX %s entry=%s rec=%v: pass=%s first=%s mayConsume=%v\n", n, k.entry, k.rec, s.pass, s.first, s.mayConsume)
			}
		}
		{
			fn := w.fn(w.Mem, "(*Parser).parseStatementInternal")
			ci := &ctxInfo{key: tkCtx{fn: fn, entry: "x"}, fn: fn, entry: kTop().Remove("@"), consts: map[int]string{}}
			res := tk.flow(ci, fn.Blocks[0], [2]*TState{newTState(ci.entry), nil}, nil, nil)
			for _, b := range fn.Blocks {
				in := res.in[b]
				a, c := "⊥", "⊥"
				if in[0] != nil {
					a = in[0].cur.String()
				}
				if in[1] != nil {
					c = in[1].cur.String()
				}
				fmt.Printf("BLK %d %s NC=%s C=%s\n", b.Index, b.Comment, a, c)
			}
		}
		for _, nm := range []string{"(*Parser).parseSelectItem", "(*Parser).parseExpr", "(*Parser).parseOr", "(*Parser).parseLit", "(*Parser).parseSelector", "(*Parser).parseUnary", "(*Parser).parseComparison"} {
			fn := w.fn(w.Mem, nm)
			s := tk.summaryMode(fn, kIn(";"), nil, false, true)
			fmt.Printf("CLEAN %s under {;}: pass=%s first=%s mayConsume=%v raisesNC=%s\n", nm, s.pass, s.first, s.mayConsume, s.raisesNC)
		}
		fmt.Println("contexts:", len(tk.sums), "flows:", tk.nflows)
		var ks []string
		for k := range tk.sums {
			ks = append(ks, funcName(k.fn))
		}
		sort.Strings(ks)
		r.ok("TKDEBUG", "x", "-", "dbg")
	}}})
}

func init() {
	register(&propDef{ID: "DUMP", Explanation: "debug: prints all obligations of a property given in $DUMP_PROP", Rules: []ruleFn{func(w *World, r *Report) {}}})
}
