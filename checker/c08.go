package main

import (
	"fmt"
	"os"
	"regexp"
	"sort"
	"strings"

	"golang.org/x/tools/go/ssa"
)

func init() {
	register(&propDef{
		ID: "C08",
		Explanation: "Contradiction rules over the token-kind abstract interpreter (TKAI): " +
			"R1 guard/expect consistency — at every call site of a parse function the kind state established by the dispatching guards must overlap the set of first tokens under which the callee can succeed (computed with error recovery switched off); a call that can only raise is a dead production: a documented sentence is unparseable. " +
			"R2 keyword-class consistency — every constant compared with Token.Kind or given to expect() is a kind the lexer can produce (reserved keyword, operator, Token* constant); every constant given to IsKeywordLike/expectKeywordLike/IsIdent/expectIdent is identifier-shaped and not a reserved keyword; dead guard constants in productions are violations. " +
			"R3 dispatch agreement — the first-token set of parseDDL / parseDMLInternal / the query path is included in the guard under which parseStatementInternal routes to it, and the specific entry points reach the same internal productions as ParseStatement. " +
			"R4 the list entry points hand the generic parseStatements the same production their single-statement sibling calls. " +
			"Decides: contradictions between a guard and what it guards. Does not decide: acceptance of every sentence of the reference grammar.",
		Rules: []ruleFn{ruleC08R1, ruleC08R2, ruleC08R3, ruleC08R4, ruleC08R5, ruleC08R6, ruleC08R7, ruleC11R4, ruleC16R3, ruleC08R8, ruleC14R3, ruleC08R9, ruleC08R10, ruleC16R5},
	})
}

// isRecoveryHandler: a function called (transitively, only) from deferred recovering closures.
func (w *World) isRecoveryHandler(fn *ssa.Function) bool {
	// the function that calls recover(): a deferred closure, or a method that is only ever deferred directly
	recovers := func(f *ssa.Function) bool {
		if len(recoverCalls(f)) == 0 {
			return false
		}
		if f.Parent() != nil {
			return true
		}
		sites := w.callersOf(f)
		n := 0
		for _, s := range sites {
			if s.Parent() != nil && s.Parent().Synthetic != "" {
				continue
			}
			if _, isDefer := s.(*ssa.Defer); !isDefer {
				return false
			}
			n++
		}
		return n > 0
	}
	if recovers(fn) {
		return true
	}
	callers := w.callersOf(fn)
	if len(callers) == 0 {
		return false
	}
	for _, c := range callers {
		if !recovers(c.Parent()) {
			return false
		}
	}
	return true
}

func (w *World) isEntryPoint(fn *ssa.Function) bool {
	for _, e := range w.Raise().entryPoints() {
		if e == fn {
			return true
		}
	}
	return false
}

func ruleC08R1(w *World, r *Report) {
	const rule = "C08/R1"
	r.rule(rule, "at every call site of a function that consumes tokens, the kind state of the current token (from the guards on the path) overlaps the tokens under which the callee can return normally with error recovery switched off; otherwise the call can only raise and the branch is a dead production", 400)
	tk := w.TKAI()
	if miss := tk.anchorsOK(); len(miss) > 0 {
		r.errorf("TKAI anchors missing: %v", miss)
		return
	}
	nsites := 0
	for _, fn := range w.ModFns {
		if fnPkgPath(fn) != modRoot || !tk.touchesLexer(fn) {
			continue
		}
		if w.isRecoveryHandler(fn) {
			continue
		}
		res := tk.Intra(fn)
		counts := map[string]int{}
		for _, b := range fn.Blocks {
			ins := res.in[b]
			if ins[0] == nil && ins[1] == nil {
				continue
			}
			for _, in := range b.Instrs {
				call, ok := in.(ssa.CallInstruction)
				if !ok {
					continue
				}
				if _, isDefer := in.(*ssa.Defer); isDefer {
					continue
				}
				callees := w.Callees(call)
				for _, callee := range callees {
					if callee == tk.prim || callee.Blocks == nil || fnPkgPath(callee) != modRoot || !tk.touchesLexer(callee) {
						continue
					}
					st := tk.StateBefore(in)
					if st == nil || st.cur.IsEmpty() {
						continue
					}
					consts := map[int]string{}
					off := 0
					if call.Common().IsInvoke() {
						off = 1
					}
					for ai, a := range call.Common().Args {
						if s, ok := constString(a); ok {
							consts[ai+off] = s
						}
					}
					sum := tk.summaryMode(callee, st.cur, consts, false, true)
					nsites++
					name := funcName(callee)
					if len(consts) > 0 {
						var cs []string
						for _, v := range consts {
							cs = append(cs, v)
						}
						sort.Strings(cs)
						name += "(" + strings.Join(cs, ",") + ")"
					}
					counts[name]++
					construct := fmt.Sprintf("%s -> %s", funcName(fn), name)
					if counts[name] > 1 {
						construct += fmt.Sprintf(" (site %d)", counts[name])
					}
					canReturn := sum.mayConsume || (sum.pass.m != nil && !sum.pass.IsEmpty())
					if canReturn {
						r.ok(rule, construct, w.pos(in.Pos()), fmt.Sprintf("current token %s; callee can succeed (first tokens %s)", st.cur, sum.first))
					} else {
						r.bad(rule, construct, w.pos(in.Pos()), fmt.Sprintf("here the current token is %s, but under that state %s can only raise (it fails before accepting a first token): the branch leading here is a dead production", st.cur, name))
					}
				}
			}
		}
	}
	r.count("call sites of token-consuming functions", nsites)
}

var reIdentShape = regexp.MustCompile(`^[A-Za-z_][A-Za-z0-9_]*$`)

// lexerKinds: the kinds the lexer can assign: reserved keywords, operators/punctuation (reference list
// checked against the lexer by C14/R3) and the Token* constants.
func (w *World) lexerKinds() map[string]bool {
	out := map[string]bool{}
	kws, _, _ := w.keywordTable()
	for _, k := range kws {
		out[k] = true
	}
	for _, k := range refOperators {
		out[k] = true
	}
	for _, k := range []string{"<bad>", "<eof>", "<ident>", "<param>", "<int>", "<float>", "<string>", "<bytes>"} {
		out[k] = true
	}
	return out
}

func ruleC08R2(w *World, r *Report) {
	const rule = "C08/R2"
	r.rule(rule, "every constant compared with Token.Kind / passed to expect is producible by the lexer; every constant passed to IsKeywordLike/expectKeywordLike/IsIdent/expectIdent is identifier-shaped and not a reserved keyword (the lexer would deliver it as its own kind and the test could never succeed)", 300)
	tk := w.TKAI()
	kinds := w.lexerKinds()
	reserved := map[string]bool{}
	kws, _, ok := w.keywordTable()
	if !ok {
		r.errorf("token.Keywords not readable")
		return
	}
	for _, k := range kws {
		reserved[k] = true
	}
	expect := w.fn(w.Mem, "(*Parser).expect")
	expectKw := w.fn(w.Mem, "(*Parser).expectKeywordLike")
	expectId := w.fn(w.Mem, "(*Parser).expectIdent")
	if expect == nil || expectKw == nil || expectId == nil {
		r.errorf("expect/expectKeywordLike/expectIdent not found")
		return
	}
	type useKey struct{ fn, atom string }
	seen := map[useKey]bool{}
	check := func(fn *ssa.Function, atom string, isKind bool, pos string) {
		k := useKey{funcName(fn), atom}
		if seen[k] {
			return
		}
		seen[k] = true
		handler := w.isRecoveryHandler(fn)
		if isKind {
			construct := fmt.Sprintf("kind constant %q in %s", atom, funcName(fn))
			if kinds[atom] {
				r.ok(rule, construct, pos, "a kind the lexer produces")
			} else if handler {
				r.note("%s at %s: %q is never a Token.Kind (dead case in a recovery handler; changes only how much a Bad node swallows)", construct, pos, atom)
				r.trivial(rule, construct, pos, "dead case inside a recovery handler (noted)")
			} else {
				r.bad(rule, construct, pos, fmt.Sprintf("%q is compared with Token.Kind but the lexer never produces that kind (identifier-like text that is not reserved arrives as <ident>): the test is always false", atom))
			}
			return
		}
		construct := fmt.Sprintf("pseudo-keyword %q in %s", atom, funcName(fn))
		switch {
		case !reIdentShape.MatchString(atom):
			r.bad(rule, construct, pos, "not identifier-shaped: an identifier token can never spell it")
		case reserved[strings.ToUpper(atom)]:
			r.bad(rule, construct, pos, fmt.Sprintf("%q is a reserved keyword: the lexer delivers it with its own kind, never as an identifier, so this pseudo-keyword test can never succeed", atom))
		default:
			r.ok(rule, construct, pos, "identifier-shaped and not reserved")
		}
	}
	for _, fn := range w.ModFns {
		if fnPkgPath(fn) != modRoot {
			continue
		}
		if fn == expect || fn == expectKw || fn == expectId {
			continue
		}
		for _, b := range fn.Blocks {
			for _, in := range b.Instrs {
				switch in := in.(type) {
				case *ssa.BinOp:
					if t, _, ok := tk.tokenTest(nil, in); ok {
						check(fn, t.atom, true, w.pos(in.Pos()))
					}
				case *ssa.Call:
					callee := in.Call.StaticCallee()
					switch callee {
					case tk.isKwL, tk.isId:
						if s, ok := constString(in.Call.Args[1]); ok {
							check(fn, s, false, w.pos(in.Pos()))
						}
					case expect:
						if s, ok := constString(in.Call.Args[1]); ok {
							check(fn, s, true, w.pos(in.Pos()))
						}
					case expectKw, expectId:
						if s, ok := constString(in.Call.Args[1]); ok {
							check(fn, s, false, w.pos(in.Pos()))
						}
					}
				}
			}
		}
	}
	// keys of token.Keywords upper-case and unique: C14/R1
}

// cleanFirst: the tokens under which fn can accept a first token and return, error recovery off.
func (tk *TKAI) cleanFirst(fn *ssa.Function) KSet {
	s := tk.summaryMode(fn, kTop(), nil, false, true)
	return s.first
}

func ruleC08R3(w *World, r *Report) {
	const rule = "C08/R3"
	r.rule(rule, "dispatch agreement: every first token under which a statement-level production (parseDDL, parseDMLInternal, the query path, CALL) can succeed is routed to it by parseStatementInternal; ParseDDL/ParseDML/ParseQuery reach the same internal productions as ParseStatement", 3)
	tk := w.TKAI()
	psi := w.fn(w.Mem, "(*Parser).parseStatementInternal")
	if psi == nil {
		psi = w.fn(w.Mem, "(*Parser).parseStatement") // the dispatch written into parseStatement itself
	}
	if psi == nil {
		r.errorf("(*Parser).parseStatementInternal / parseStatement not found")
		return
	}
	routed := map[*ssa.Function]KSet{}
	var order []*ssa.Function
	for _, b := range psi.Blocks {
		for _, in := range b.Instrs {
			call, ok := in.(*ssa.Call)
			if !ok {
				continue
			}
			callee := call.Call.StaticCallee()
			if callee == nil || fnPkgPath(callee) != modRoot || !tk.touchesLexer(callee) || callee.Signature.Recv() == nil {
				continue
			}
			st := tk.StateBefore(in)
			if st == nil {
				continue
			}
			if _, ok := routed[callee]; !ok {
				order = append(order, callee)
			}
			routed[callee] = routed[callee].Join(st.cur)
		}
	}
	if len(order) < 3 {
		r.errorf("parseStatementInternal routes to %d productions, expected at least DDL, DML and query", len(order))
	}
	for _, callee := range order {
		guard := routed[callee]
		first := tk.cleanFirst(callee)
		construct := "parseStatementInternal -> " + funcName(callee)
		atoms, finite := first.Finite()
		if !finite {
			r.undecided(rule, construct, w.pos(callee.Pos()), "first-token set of the production is not finite: "+first.String())
			continue
		}
		var missing []string
		for _, a := range atoms {
			if guard.Excludes(a) {
				missing = append(missing, a)
			}
		}
		if len(missing) > 0 {
			r.bad(rule, construct, w.pos(callee.Pos()), fmt.Sprintf("%s accepts statements starting with %v, but parseStatementInternal routes to it only under %s: ParseStatement rejects what the specific entry point accepts", funcName(callee), missing, guard))
		} else {
			r.ok(rule, construct, w.pos(callee.Pos()), fmt.Sprintf("first tokens %s ⊆ routing guard %s", first, guard))
		}
	}
	// specific entry points reach the same internal productions
	ps := w.fn(w.Mem, "(*Parser).parseStatement")
	if ps == nil {
		r.errorf("(*Parser).parseStatement not found")
		return
	}
	stmtProds := map[*ssa.Function]bool{}
	for _, f := range []*ssa.Function{ps, psi} {
		for _, c := range w.directParseCallees(f) {
			stmtProds[c] = true
		}
	}
	for _, e := range w.parseEntryMethods() {
		if strings.HasSuffix(e.Name(), "s") || e.Name() == "ParseStatement" || e.Name() == "ParseExpr" || e.Name() == "ParseType" {
			continue
		}
		roots := w.directParseCallees(e)
		for _, root := range roots {
			construct := fmt.Sprintf("%s -> %s", funcName(e), funcName(root))
			if stmtProds[root] {
				r.ok(rule, construct, w.pos(e.Pos()), "the same production is called on ParseStatement's path")
				continue
			}
			var miss []string
			for _, c := range w.directParseCallees(root) {
				if !stmtProds[c] {
					miss = append(miss, funcName(c))
				}
			}
			if len(miss) == 0 {
				r.ok(rule, construct, w.pos(e.Pos()), "it calls only productions that ParseStatement's path calls as well")
			} else {
				r.bad(rule, construct, w.pos(e.Pos()), fmt.Sprintf("reaches productions %v that ParseStatement's path does not use: the two entry points can build different trees", miss))
			}
		}
	}
}

// directParseCallees: the token-consuming module functions (other than token primitives) called directly by fn.
func (w *World) directParseCallees(fn *ssa.Function) []*ssa.Function {
	tk := w.TKAI()
	seen := map[*ssa.Function]bool{}
	var out []*ssa.Function
	for _, b := range fn.Blocks {
		for _, in := range b.Instrs {
			call, ok := in.(ssa.CallInstruction)
			if !ok {
				continue
			}
			if _, isDefer := in.(*ssa.Defer); isDefer {
				continue
			}
			for _, c := range w.Callees(call) {
				if fnPkgPath(c) != modRoot || !tk.touchesLexer(c) || seen[c] {
					continue
				}
				switch c.Name() {
				case "nextToken", "nextTokenRecovering", "expect", "expectKeywordLike", "expectIdent":
					continue
				}
				if c == tk.prim || w.isRecoveryHandler(c) {
					continue
				}
				seen[c] = true
				out = append(out, c)
			}
		}
	}
	sort.Slice(out, func(i, j int) bool { return funcName(out[i]) < funcName(out[j]) })
	return out
}

func ruleC08R4(w *World, r *Report) {
	const rule = "C08/R4"
	r.rule(rule, "ParseStatements/ParseDDLs/ParseDMLs pass to the generic statement-list loop exactly the production that ParseStatement/ParseDDL/ParseDML call", 3)
	byName := map[string]*ssa.Function{}
	for _, e := range w.parseEntryMethods() {
		byName[e.Name()] = e
	}
	n := 0
	for name, list := range byName {
		if !strings.HasSuffix(name, "s") {
			continue
		}
		single := byName[strings.TrimSuffix(name, "s")]
		if single == nil {
			continue
		}
		n++
		construct := funcName(list) + " vs " + funcName(single)
		// productions called directly by the single entry point
		want := map[*ssa.Function]bool{}
		for _, c := range w.directParseCallees(single) {
			want[c] = true
		}
		// the function values handed to the list loop: callees of the dynamic call inside the generic instance
		got := map[*ssa.Function]bool{}
		for _, c := range w.directParseCallees(list) {
			// c is the generic loop instance: its dynamic callees are the productions
			for _, b := range c.Blocks {
				for _, in := range b.Instrs {
					call, ok := in.(*ssa.Call)
					if !ok || call.Call.StaticCallee() != nil {
						continue
					}
					if _, isB := call.Call.Value.(*ssa.Builtin); isB {
						continue
					}
					for _, d := range w.Callees(call) {
						// bound-method wrappers call the method itself
						if d.Synthetic != "" {
							for _, dd := range w.directParseCallees(d) {
								got[dd] = true
							}
						} else {
							got[d] = true
						}
					}
				}
			}
		}
		var gs, ws []string
		for f := range got {
			gs = append(gs, funcName(f))
		}
		for f := range want {
			ws = append(ws, funcName(f))
		}
		sort.Strings(gs)
		sort.Strings(ws)
		if strings.Join(gs, ",") == strings.Join(ws, ",") && len(gs) > 0 {
			r.ok(rule, construct, w.pos(list.Pos()), "both use "+strings.Join(gs, ","))
		} else {
			r.bad(rule, construct, w.pos(list.Pos()), fmt.Sprintf("the list entry point parses each statement with %v, the single-statement entry point with %v", gs, ws))
		}
	}
	if n < 3 {
		r.errorf("expected three list/single entry point pairs, found %d", n)
	}
}

// ruleC08R5: a token kind a production can start with is not rejected by the dispatch in front of it.
func ruleC08R5(w *World, r *Report) {
	const rule = "C08/R5"
	r.rule(rule, "no part of the grammar is cut off by a dispatching guard: when a token-consuming function can start with a token kind k (the kinds of the first token consumed on its normal returns, error recovery off) that none of its call sites admits, then at each such call site the caller, re-run from the block where k is still possible with the current token set to k, still reaches a normal return (k is taken by another alternative); if k can only raise there, the alternative of the callee that starts with k has become unreachable", 75)
	tk := w.TKAI()
	if miss := tk.anchorsOK(); len(miss) > 0 {
		r.errorf("TKAI anchors missing: %v", miss)
		return
	}
	for _, fn := range w.ModFns {
		if fnPkgPath(fn) != modRoot || fn.Parent() != nil || !tk.touchesLexer(fn) || fn == tk.prim || w.isRecoveryHandler(fn) {
			continue
		}
		if fn.TypeParams().Len() > 0 && len(fn.TypeArgs()) == 0 {
			continue
		}
		callers := w.callersOf(fn)
		if len(callers) == 0 {
			continue
		}
		sum := tk.summaryMode(fn, kTop(), nil, false, true)
		if sum == nil || !sum.mayConsume {
			continue
		}
		atoms, finite := sum.first.Finite()
		if !finite || len(atoms) == 0 {
			continue
		}
		e := tk.entryFact(fn)
		var dead []string
		for _, a := range atoms {
			if e.Excludes(a) {
				dead = append(dead, a)
			}
		}
		construct := "ways into " + funcName(fn)
		if len(dead) == 0 {
			r.ok(rule, construct, w.pos(fn.Pos()), fmt.Sprintf("starts with %s; callers admit %s", sum.first, e))
			continue
		}
		sort.Strings(dead)
		var cut []string
		for _, k := range dead {
			decided, accepted := 0, 0
			where := ""
			for _, c := range callers {
				g := c.Parent()
				if fnPkgPath(g) != modRoot {
					continue
				}
				res := tk.Intra(g)
				// the closest dominating block whose entry state still admits k
				var p *ssa.BasicBlock
				for b := c.Block(); b != nil; b = b.Idom() {
					ins := res.in[b]
					admits := false
					for _, st := range ins {
						if st != nil && !st.cur.Excludes(k) {
							admits = true
						}
					}
					if admits {
						p = b
						break
					}
				}
				// not in the middle of an `a || b` (a block that branches on a phi of its own): start before it
				for p != nil {
					iff, ok := p.Instrs[len(p.Instrs)-1].(*ssa.If)
					if !ok {
						break
					}
					phi, ok := iff.Cond.(*ssa.Phi)
					if !ok || phi.Block() != p {
						break
					}
					p = p.Idom()
				}
				if p == nil {
					continue // k is already excluded when g is entered: decided further up
				}
				decided++
				ci := &ctxInfo{key: tkCtx{fn: g, entry: kTop().Key(), clean: true}, fn: g, entry: kTop(), consts: map[int]string{}}
				var init [2]*TState
				for pi, st := range res.in[p] {
					if st != nil && !st.cur.Excludes(k) {
						cl := st.clone()
						cl.cur = kIn(k)
						init[pi] = cl
					}
				}
				fr := tk.flow(ci, p, init, nil, nil)
				if os.Getenv("VERIF_C08_DEBUG") != "" {
					fmt.Printf("C08R5 DEBUG %s k=%s in %s from block %d: rets=%d", funcName(fn), k, funcName(g), p.Index, len(fr.ret))
					for _, rs := range fr.ret {
						fmt.Printf(" ret@%s(cur=%s)", w.pos(rs.ret.Pos()), rs.st.cur)
					}
					fmt.Println()
					var bs []int
					for b, ins := range fr.in {
						if ins[0] != nil || ins[1] != nil {
							bs = append(bs, b.Index)
						}
					}
					sort.Ints(bs)
					fmt.Printf("   reached blocks %v\n", bs)
					for _, b := range g.Blocks {
						ins := fr.in[b]
						for pi, st := range ins {
							if st != nil {
								fmt.Printf("      b%d part%d cur=%s preds=%v last=%s\n", b.Index, pi, st.cur, b.Preds, b.Instrs[len(b.Instrs)-1])
							}
						}
					}
					for _, b := range g.Blocks {
						if b.Index == p.Index || (len(bs) > 1 && (b.Index == bs[0] || b.Index == bs[1])) {
							for _, in := range b.Instrs {
								fmt.Printf("      b%d: %s\n", b.Index, in.String())
							}
						}
					}
				}
				if len(fr.ret) > 0 {
					accepted++
				} else if where == "" {
					where = fmt.Sprintf("%s (%s)", funcName(g), w.pos(c.Pos()))
				}
			}
			if decided > 0 && accepted == 0 {
				cut = append(cut, fmt.Sprintf("%s is rejected at the dispatch in %s", k, where))
			}
		}
		if len(cut) == 0 {
			r.ok(rule, construct, w.pos(fn.Pos()), fmt.Sprintf("starts with %s; callers admit %s; %v are taken by other alternatives at the dispatch", sum.first, e, dead))
		} else {
			r.bad(rule, construct, w.pos(fn.Pos()), fmt.Sprintf("the function can start with %v but its call sites admit only %s, and %s: that alternative is unreachable", atoms, e, strings.Join(cut, "; ")))
		}
	}
}

// ruleC08R6: a pure look-ahead (a function whose deferred closure always rewinds the lexer to a clone taken at
// entry) answers a yes/no question about the upcoming tokens; it must not raise, because a raise is not a "no":
// it leaves through the enclosing production and the alternative the caller would have taken next is never tried.
func ruleC08R6(w *World, r *Report) {
	const rule = "C08/R6"
	r.rule(rule, "look-ahead functions (deferred unconditional rewind of Parser.Lexer to a clone taken at entry) cannot raise: under the token kinds admitted by their call sites, no raise point of the function or of anything it calls (in the callee's own token context, error recovery off) is reachable", 3)
	tk := w.TKAI()
	if miss := tk.anchorsOK(); len(miss) > 0 {
		r.errorf("TKAI anchors missing: %v", miss)
		return
	}
	for _, fn := range w.ModFns {
		if fnPkgPath(fn) != modRoot || fn.Parent() != nil || fn.Blocks == nil {
			continue
		}
		if _, ok := tk.deferredRestore(fn); !ok {
			continue
		}
		construct := "look-ahead " + funcName(fn)
		e := tk.entryFact(fn)
		ci := &ctxInfo{key: tkCtx{fn, e.Key(), "", false, true}, fn: fn, entry: e}
		tk.calleeRaise = false
		res := tk.flow(ci, fn.Blocks[0], [2]*TState{newTState(e), nil}, nil, nil)
		var where []string
		if len(res.rz) > 0 {
			where = append(where, "a raise point of its own")
		}
		// name the calls that can raise
		for _, b := range fn.Blocks {
			for _, in := range b.Instrs {
				c, ok := in.(*ssa.Call)
				if !ok {
					continue
				}
				callee := c.Call.StaticCallee()
				if callee == nil || fnPkgPath(callee) != modRoot || callee.Blocks == nil || !tk.touchesLexer(callee) || callee == tk.prim {
					continue
				}
				sts := tk.statesBefore(res, in)
				for _, st := range sts {
					if st == nil {
						continue
					}
					consts := map[int]string{}
					for ai, a := range c.Call.Args {
						if s, ok := constString(a); ok {
							consts[ai] = s
						}
					}
					if sum := tk.summaryMode(callee, st.cur, consts, false, true); sum.mayRaise {
						where = append(where, fmt.Sprintf("%s at %s with the current token in %s", funcName(callee), w.pos(c.Pos()), st.cur))
					}
				}
			}
		}
		if len(where) > 0 || tk.calleeRaise {
			if len(where) == 0 {
				where = append(where, "a callee")
			}
			r.bad(rule, construct, w.pos(fn.Pos()), "the look-ahead can raise instead of answering no: "+strings.Join(uniqSorted(where), "; "))
		} else {
			r.ok(rule, construct, w.pos(fn.Pos()), "no raise point reachable under "+e.String())
		}
	}
}

// ruleC08R7: predictor/parser agreement for parenthesised queries. lookaheadSubQuery answers "is this '(' the start of a
// sub-query?"; for "((...(SELECT ...)...) k" it answers yes only for some kinds k. parseQueryExpr is what then reads
// "(SELECT ...) k ...": every kind under which it goes on consuming after a simple query expression is a kind the
// predictor has to say yes to, otherwise "((SELECT ...) k ...)" is routed to the join / expression alternative and rejected.
func ruleC08R7(w *World, r *Report) {
	const rule = "C08/R7"
	r.rule(rule, "lookaheadSubQuery answers yes for every token kind under which parseQueryExpr continues to consume after a simple query expression (set operators and query suffixes): the predictor's table contains the parser's", 1)
	tk := w.TKAI()
	var la, pq, simple *ssa.Function
	for _, fn := range w.ModFns {
		if fnPkgPath(fn) != modRoot || fn.Parent() != nil {
			continue
		}
		switch funcName(fn) {
		case "(*Parser).lookaheadSubQuery":
			la = fn
		case "(*Parser).parseQueryExpr":
			pq = fn
		case "(*Parser).parseSimpleQueryExpr":
			simple = fn
		}
	}
	if la == nil || pq == nil || simple == nil {
		r.errorf("lookaheadSubQuery / parseQueryExpr / parseSimpleQueryExpr not found")
		return
	}
	construct := "lookaheadSubQuery vs parseQueryExpr"
	// the parser's side
	var cont KSet
	ncalls := 0
	ci := &ctxInfo{key: tkCtx{fn: pq, entry: kTop().Key(), clean: true}, fn: pq, entry: kTop(), consts: map[int]string{}}
	for _, b := range pq.Blocks {
		for _, in := range b.Instrs {
			c, ok := in.(*ssa.Call)
			if !ok || c.Call.StaticCallee() != simple {
				continue
			}
			if b.Index != 0 && !pq.Blocks[0].Dominates(b) {
				continue
			}
			// only the first call (the left operand): the one not inside the set-operator loop
			inLoop := false
			for _, l := range naturalLoops(pq) {
				if l.body[b] {
					inLoop = true
				}
			}
			if inLoop {
				continue
			}
			ncalls++
			res, _ := tk.flowAfter(ci, in, newTState(kTop()))
			for at, f := range res.consumedAt {
				if os.Getenv("VERIF_C08_DEBUG") != "" {
					fmt.Fprintf(os.Stderr, "R7 consumedAt %s: %s\n", w.pos(at.Pos()), f)
				}
				cont = cont.Join(f)
			}
		}
	}
	atoms, finite := cont.Finite()
	if ncalls != 1 || !finite || len(atoms) == 0 {
		r.undecided(rule, construct, w.pos(pq.Pos()), fmt.Sprintf("cannot determine the continuation kinds of parseQueryExpr (calls=%d, set=%s)", ncalls, cont))
		return
	}
	// the predictor's side
	var yes KSet
	lres := tk.Intra(la)
	for _, rs := range lres.ret {
		if len(rs.ret.Results) == 1 {
			if cb, ok := returnedConstBool(rs.ret); ok && !cb {
				continue
			}
		}
		yes = yes.Join(rs.st.cur)
	}
	var missing []string
	for _, a := range atoms {
		if yes.Excludes(a) {
			missing = append(missing, a)
		}
	}
	if len(missing) > 0 {
		r.bad(rule, construct, w.pos(la.Pos()), fmt.Sprintf("parseQueryExpr continues after a parenthesised query on %v, lookaheadSubQuery says yes only on %s: ((SELECT ...) %s ...) is not recognised as a sub-query", atoms, yes, missing[0]))
	} else {
		r.ok(rule, construct, w.pos(la.Pos()), fmt.Sprintf("continuation kinds %v all answered yes (%s)", atoms, yes))
	}
}

// returnedConstBool: the single result of the return is a boolean constant, directly or through the
// result cell go/ssa introduces in functions with defers (*r = c; rundefers; t = *r; return t).
func returnedConstBool(ret *ssa.Return) (bool, bool) {
	v := ret.Results[0]
	if cb, ok := constBool(v); ok {
		return cb, true
	}
	addr, ok := isLoad(v)
	if !ok {
		return false, false
	}
	var last ssa.Value
	for _, in := range ret.Block().Instrs {
		if st, ok := in.(*ssa.Store); ok && st.Addr == addr {
			last = st.Val
		}
	}
	if last == nil {
		return false, false
	}
	return constBool(last)
}

// ruleC08R8: a two-token decision must separate the alternatives. lookaheadSubQuery says "sub-query" as soon as the
// token after "(" is one of a few kinds; its callers (parenthesised expression, IN list) otherwise read "(" expr. A kind
// that can also start an expression ("WITH" of the WITH expression) cannot be decided on two tokens: the sub-query
// production is entered, raises at the third token, and the expression alternative is never tried.
func ruleC08R8(w *World, r *Report) {
	const rule = "C08/R8"
	r.rule(rule, "the kinds on which lookaheadSubQuery answers yes directly after '(' (before consuming anything else) are disjoint from the kinds that can start an expression (first-token set of parseExpr, error recovery off), for every caller that falls back to an expression", 1)
	tk := w.TKAI()
	var la, pe *ssa.Function
	for _, fn := range w.ModFns {
		if fnPkgPath(fn) != modRoot || fn.Parent() != nil {
			continue
		}
		switch funcName(fn) {
		case "(*Parser).lookaheadSubQuery":
			la = fn
		case "(*Parser).parseExpr":
			pe = fn
		}
	}
	if la == nil || pe == nil {
		r.errorf("lookaheadSubQuery / parseExpr not found")
		return
	}
	// the first consumption of the look-ahead (the "(" itself)
	var firstAdv ssa.Instruction
	for _, b := range la.Blocks {
		for _, in := range b.Instrs {
			if c, ok := in.(*ssa.Call); ok && firstAdv == nil {
				if cal := c.Call.StaticCallee(); cal != nil && tk.touchesLexer(cal) && cal != tk.lexCl {
					if b == la.Blocks[0] || la.Blocks[0].Dominates(b) {
						firstAdv = in
					}
				}
			}
		}
	}
	if firstAdv == nil {
		r.undecided(rule, "lookaheadSubQuery direct answers", w.pos(la.Pos()), "no first consumption found")
		return
	}
	ci := &ctxInfo{key: tkCtx{fn: la, entry: kTop().Key(), clean: true}, fn: la, entry: kTop(), consts: map[int]string{}}
	res, tail := tk.flowAfter(ci, firstAdv, newTState(kTop()))
	var direct KSet
	collect := func(rs *retState) {
		if rs.st.consumed || len(rs.ret.Results) != 1 {
			return
		}
		if cb, ok := returnedConstBool(rs.ret); ok && !cb {
			return
		}
		direct = direct.Join(rs.st.cur)
	}
	for _, rs := range res.ret {
		collect(rs)
	}
	_ = tail
	atoms, fin := direct.Finite()
	if !fin || len(atoms) == 0 {
		r.undecided(rule, "lookaheadSubQuery direct answers", w.pos(la.Pos()), fmt.Sprintf("cannot enumerate the kinds answered yes directly after '(' (%s)", direct))
		return
	}
	sum := tk.summaryMode(pe, kTop(), nil, false, true)
	construct := "lookaheadSubQuery direct answers vs expressions"
	var clash []string
	for _, a := range atoms {
		if !sum.first.Excludes(a) {
			clash = append(clash, a)
		}
	}
	ncallers := 0
	for _, cs := range w.callersOf(la) {
		// callers that can fall back to an expression
		for _, b := range cs.Parent().Blocks {
			for _, in := range b.Instrs {
				if c, ok := in.(*ssa.Call); ok && c.Call.StaticCallee() == pe {
					ncallers++
				}
			}
		}
	}
	switch {
	case ncallers == 0:
		r.ok(rule, construct, w.pos(la.Pos()), "no caller falls back to an expression")
	case len(clash) > 0:
		r.bad(rule, construct, w.pos(la.Pos()), fmt.Sprintf("'(' followed by %v is answered \"sub-query\" at once, but %v can also start an expression: the parenthesised expression / IN list that begins with it is sent to the query parser and rejected", atoms, clash))
	default:
		r.ok(rule, construct, w.pos(la.Pos()), fmt.Sprintf("direct answers %v; none can start an expression", atoms))
	}
}

// ruleC08R9: a sentence is accepted or rejected on its token kinds. The parser looks at the spelling of a token only
// to recognise a pseudo-keyword (case-insensitively, C16/R1) or to copy it into the tree; a raise that depends on the
// spelling in any other way (a range check on an integer literal, a length limit on a name) rejects sentences of the
// grammar — and usually sees only part of the picture: the sign of -9223372036854775808 is a separate token.
func ruleC08R9(w *World, r *Report) {
	const rule = "C08/R9"
	r.rule(rule, "no branch of the parser that leads straight to a raise depends on the spelling (Token.Raw / Token.AsString, or a string field of an ast node filled from it) of a token other than through char.EqualFold: acceptance is a matter of token kinds and pseudo-keywords", 1)
	eq := w.fn(w.Char, "EqualFold")
	if eq == nil {
		r.errorf("char.EqualFold not found")
		return
	}
	w.NoReturn()
	var srcs []ssa.Value
	for _, fn := range w.ModFns {
		if fnPkgPath(fn) != modRoot || fn.Blocks == nil {
			continue
		}
		if fn.Signature.Recv() != nil && w.isLexerPtr(fn.Signature.Recv().Type()) {
			continue
		}
		for _, b := range fn.Blocks {
			for _, in := range b.Instrs {
				v, ok := in.(ssa.Value)
				if !ok {
					continue
				}
				if ld, isL := isLoad(v); isL {
					if fa, ok := ld.(*ssa.FieldAddr); ok {
						if n := fieldAddrStruct(fa); n != nil && n.Obj().Pkg() != nil && n.Obj().Pkg().Path() == modRoot+"/token" && n.Obj().Name() == "Token" {
							switch fieldAddrName(fa) {
							case "Raw", "AsString":
								srcs = append(srcs, v)
							}
						}
					}
				}
			}
		}
	}
	if len(srcs) < 10 {
		r.errorf("only %d reads of Token.Raw/AsString found in the parser", len(srcs))
		return
	}
	sl := w.forwardSlice(srcs, func(f *ssa.Function) bool { return f == eq })
	raiseOnly := func(b *ssa.BasicBlock) bool {
		for steps := 0; steps < 3 && b != nil; steps++ {
			if w.deadAt(b) >= 0 {
				return true
			}
			if _, ok := b.Instrs[len(b.Instrs)-1].(*ssa.Panic); ok {
				return true
			}
			if len(b.Succs) != 1 || len(b.Instrs) > 6 {
				return false
			}
			b = b.Succs[0]
		}
		return false
	}
	nbad, nIf := 0, 0
	for v := range sl {
		for _, u := range referrers(v) {
			iff, ok := u.(*ssa.If)
			if !ok {
				continue
			}
			fn := iff.Parent()
			if fnPkgPath(fn) != modRoot || (fn.Signature.Recv() != nil && w.isLexerPtr(fn.Signature.Recv().Type())) {
				continue
			}
			nIf++
			b := iff.Block()
			if raiseOnly(b.Succs[0]) || raiseOnly(b.Succs[1]) {
				nbad++
				r.bad(rule, fmt.Sprintf("spelling-dependent raise in %s", funcName(fn)), w.pos(lastPos(b)), "a branch on a value computed from a token's spelling leads straight to a raise: the sentence is rejected for what a token says, not for what kind of token it is")
			}
		}
	}
	r.count("branches on spelling-derived values in the parser", nIf)
	if nbad == 0 {
		r.ok(rule, "spelling-dependent raises", "-", fmt.Sprintf("%d spelling reads followed, %d branches depend on them, none leads straight to a raise", len(srcs), nIf))
	}
}

// ruleC08R10: a backtracking alternative that answers "no" has consumed nothing. A function that saves the lexer
// (`lexer := p.Lexer.Clone()`) and puts it back on some path (`p.Lexer = lexer`) is an alternative tried in front of
// others; its "no" (every result nil / false) hands the input to the next alternative of the caller, which has to find
// the token the attempt started on. On every path from the clone to such a return, the last thing that touched the lexer
// is therefore the restore — `SELECT ON <table>` handed to parsePrivilegeOnTable with `SELECT ON` already consumed is
// rejected although it is a sentence.
func ruleC08R10(w *World, r *Report) {
	const rule = "C08/R10"
	r.rule(rule, "backtracking alternatives restore on every \"no\": in every parser function that clones Parser.Lexer into a local and stores that clone back on some path, no return of all-zero results (nil / false) is reached from the clone through a token-consuming call without the restore in between (look-aheads with a deferred rewind consume nothing and are C08/R6's subject)", 2)
	tk := w.TKAI()
	if miss := tk.anchorsOK(); len(miss) > 0 {
		r.errorf("TKAI anchors missing: %v", miss)
		return
	}
	for _, fn := range w.ModFns {
		if fnPkgPath(fn) != modRoot || fn.Parent() != nil || fn.Blocks == nil {
			continue
		}
		if _, ok := tk.deferredRestore(fn); ok {
			continue
		}
		clones := map[ssa.Value]bool{}
		for _, b := range fn.Blocks {
			for _, in := range b.Instrs {
				c, ok := in.(*ssa.Call)
				if !ok || len(c.Call.Args) != 1 {
					continue
				}
				callee := c.Call.StaticCallee()
				if callee == nil || callee.Name() != "Clone" {
					continue
				}
				if addr, isL := isLoad(c.Call.Args[0]); isL && w.parserFieldAddr(addr, "Lexer") {
					clones[c] = true
				}
			}
		}
		if len(clones) == 0 {
			continue
		}
		isRestore := func(in ssa.Instruction) bool {
			st, ok := in.(*ssa.Store)
			return ok && w.parserFieldAddr(st.Addr, "Lexer") && clones[st.Val]
		}
		nRestore := 0
		for _, b := range fn.Blocks {
			for _, in := range b.Instrs {
				if isRestore(in) {
					nRestore++
				}
			}
		}
		if nRestore == 0 {
			continue
		}
		consumes := func(in ssa.Instruction) bool {
			ci, ok := in.(ssa.CallInstruction)
			if !ok {
				return false
			}
			if _, isDefer := in.(*ssa.Defer); isDefer {
				return false
			}
			for _, callee := range w.Callees(ci) {
				if callee.Name() == "Clone" || !tk.touchesLexer(callee) {
					continue
				}
				if _, la := tk.deferredRestore(callee); la {
					continue
				}
				return true
			}
			return false
		}
		afterClone := func(in ssa.Instruction) bool {
			for c := range clones {
				cb, ib := c.(*ssa.Call).Block(), in.Block()
				if (cb == ib && indexOf(cb, c.(*ssa.Call)) < indexOf(ib, in)) || (cb != ib && cb.Dominates(ib)) {
					return true
				}
			}
			return false
		}
		// backward from a "no": the first lexer-touching instruction met on each path
		type start struct {
			b   *ssa.BasicBlock
			idx int // instructions [0, idx) of b are walked
		}
		search := func(s start) ssa.Instruction {
			seen := map[*ssa.BasicBlock]bool{}
			var walk func(b *ssa.BasicBlock, idx int) ssa.Instruction
			walk = func(b *ssa.BasicBlock, idx int) ssa.Instruction {
				for i := idx - 1; i >= 0; i-- {
					in := b.Instrs[i]
					if isRestore(in) {
						return nil
					}
					if v, ok := in.(ssa.Value); ok && clones[v] {
						return nil
					}
					if consumes(in) && afterClone(in) {
						return in
					}
				}
				for _, p := range b.Preds {
					if seen[p] {
						continue
					}
					seen[p] = true
					if bad := walk(p, len(p.Instrs)); bad != nil {
						return bad
					}
				}
				return nil
			}
			return walk(s.b, s.idx)
		}
		isZero := func(v ssa.Value) bool {
			c, ok := v.(*ssa.Const)
			if !ok {
				return false
			}
			if c.Value == nil {
				return true
			}
			bv, isB := constBool(c)
			return isB && !bv
		}
		nNo := 0
		var bad []string
		for _, b := range fn.Blocks {
			ret, ok := b.Instrs[len(b.Instrs)-1].(*ssa.Return)
			if !ok || len(ret.Results) == 0 {
				continue
			}
			var starts []start
			allConst := true
			for _, res := range ret.Results {
				if !isZero(res) {
					allConst = false
				}
			}
			if allConst {
				starts = append(starts, start{b, len(b.Instrs) - 1})
			} else if len(ret.Results) == 1 {
				if phi, isPhi := ret.Results[0].(*ssa.Phi); isPhi && phi.Block() == b {
					for i, e := range phi.Edges {
						if isZero(e) {
							starts = append(starts, start{b.Preds[i], len(b.Preds[i].Instrs)})
						}
					}
				}
			}
			for _, s := range starts {
				nNo++
				if in := search(s); in != nil {
					bad = append(bad, fmt.Sprintf("the \"no\" at %s is reached after %s at %s without Parser.Lexer being put back", w.pos(ret.Pos()), calleeText(w, in), w.pos(in.Pos())))
				}
			}
		}
		if nNo == 0 {
			continue
		}
		construct := "backtracking alternative " + funcName(fn)
		if len(bad) > 0 {
			r.bad(rule, construct, w.pos(fn.Pos()), strings.Join(uniqSorted(bad), "; ")+": the caller's next alternative starts in the middle of the attempt")
		} else {
			r.ok(rule, construct, w.pos(fn.Pos()), fmt.Sprintf("%d \"no\" return(s), each preceded by the restore or by no consumption since the clone", nNo))
		}
	}
}

func calleeText(w *World, in ssa.Instruction) string {
	if ci, ok := in.(ssa.CallInstruction); ok {
		if f := ci.Common().StaticCallee(); f != nil {
			return "a call of " + funcName(f)
		}
	}
	return "a consuming call"
}
