package main

import (
	"fmt"
	"go/token"
	"sort"
	"strings"

	"golang.org/x/tools/go/ssa"
)

// Loop progress (C03/R4, C13/R4): every cycle of every natural loop of the lexer, parser and
// splitter contains a progress event.

type natLoop struct {
	fn     *ssa.Function
	header *ssa.BasicBlock
	backs  []*ssa.BasicBlock // sources of back edges
	body   map[*ssa.BasicBlock]bool
}

func naturalLoops(fn *ssa.Function) []*natLoop {
	byHeader := map[*ssa.BasicBlock]*natLoop{}
	var order []*ssa.BasicBlock
	for _, b := range fn.Blocks {
		for _, s := range b.Succs {
			if s.Dominates(b) {
				l := byHeader[s]
				if l == nil {
					l = &natLoop{fn: fn, header: s, body: map[*ssa.BasicBlock]bool{s: true}}
					byHeader[s] = l
					order = append(order, s)
				}
				l.backs = append(l.backs, b)
				// body: blocks that reach b without passing the header
				var visit func(x *ssa.BasicBlock)
				visit = func(x *ssa.BasicBlock) {
					if l.body[x] {
						return
					}
					l.body[x] = true
					for _, p := range x.Preds {
						visit(p)
					}
				}
				visit(b)
			}
		}
	}
	sort.Slice(order, func(i, j int) bool { return order[i].Index < order[j].Index })
	var out []*natLoop
	for _, h := range order {
		out = append(out, byHeader[h])
	}
	return out
}

// strictlyGreater: v is provably > phi (phi + positive constants through inner phis), phi being a header phi.
func strictlyGreater(v ssa.Value, phi *ssa.Phi, seen map[ssa.Value]bool) bool {
	if seen[v] {
		return false
	}
	seen[v] = true
	defer delete(seen, v)
	switch x := v.(type) {
	case *ssa.BinOp:
		if x.Op == token.ADD {
			if c, ok := constInt(x.Y); ok && c > 0 && greaterEq(x.X, phi, seen) {
				return true
			}
			if c, ok := constInt(x.X); ok && c > 0 && greaterEq(x.Y, phi, seen) {
				return true
			}
			// + width returned by utf8.DecodeRune*(non-empty input) (>= 1) or + len(constant-length…) are
			// numeric facts; only the documented standard-library contract is used
			if positive(x.Y, 0) && greaterEq(x.X, phi, seen) {
				return true
			}
			if strictlyGreater(x.X, phi, seen) && nonNegative(x.Y) {
				return true
			}
		}
	case *ssa.Phi:
		if x == phi {
			return false
		}
		for _, e := range x.Edges {
			if !strictlyGreater(e, phi, seen) {
				return false
			}
		}
		return len(x.Edges) > 0
	}
	return false
}

func greaterEq(v ssa.Value, phi *ssa.Phi, seen map[ssa.Value]bool) bool {
	if v == ssa.Value(phi) {
		return true
	}
	if strictlyGreater(v, phi, seen) {
		return true
	}
	if x, ok := v.(*ssa.Phi); ok && x != phi && !seen[x] {
		seen[x] = true
		defer delete(seen, x)
		for _, e := range x.Edges {
			if !greaterEq(e, phi, seen) {
				return false
			}
		}
		return len(x.Edges) > 0
	}
	return false
}

// positive: a constant > 0, a phi of such, or the width result of utf8.DecodeRune* on non-empty input.
func positive(v ssa.Value, depth int) bool {
	if depth > 4 {
		return false
	}
	if c, ok := constInt(v); ok {
		return c > 0
	}
	if isDecodeWidth(v) {
		return true
	}
	// i + 1 with i the answer of a library search that the loop leaves when it is negative (`if i < 0 { break }`)
	if bo, ok := v.(*ssa.BinOp); ok && bo.Op == token.ADD {
		if (positive(bo.X, depth+1) && nonNegativeGuarded(bo.Y)) || (positive(bo.Y, depth+1) && nonNegativeGuarded(bo.X)) {
			return true
		}
	}
	if p, ok := v.(*ssa.Phi); ok {
		for _, e := range p.Edges {
			if !positive(e, depth+1) {
				return false
			}
		}
		return len(p.Edges) > 0
	}
	return false
}

// strictlyLess: v = phi - positive constant (a counter running down to an exit test).
func strictlyLess(v ssa.Value, phi *ssa.Phi) bool {
	bo, ok := v.(*ssa.BinOp)
	if !ok {
		return false
	}
	if bo.Op == token.SUB && bo.X == ssa.Value(phi) {
		return positive(bo.Y, 0)
	}
	if bo.Op == token.ADD && bo.X == ssa.Value(phi) {
		if c, ok := constInt(bo.Y); ok {
			return c < 0
		}
	}
	return false
}

// nonNegativeGuarded: nonNegative, or the result of a standard search (−1 or an index) that is compared with 0 by a
// branch of the function (the found side goes on, the other leaves).
func nonNegativeGuarded(v ssa.Value) bool {
	if nonNegative(v) {
		return true
	}
	call, ok := v.(*ssa.Call)
	if !ok || call.Call.StaticCallee() == nil {
		return false
	}
	if _, isSearch := lbSearchFns[call.Call.StaticCallee().String()]; !isSearch {
		return false
	}
	for _, u := range referrers(call) {
		bo, ok := u.(*ssa.BinOp)
		if !ok || bo.X != ssa.Value(call) {
			continue
		}
		if k, isC := constInt(bo.Y); isC && ((k == 0 && (bo.Op == token.LSS || bo.Op == token.GEQ)) || (k == -1 && (bo.Op == token.EQL || bo.Op == token.NEQ || bo.Op == token.GTR || bo.Op == token.LEQ))) {
			for _, uu := range referrers(bo) {
				if _, isIf := uu.(*ssa.If); isIf {
					return true
				}
			}
		}
	}
	return false
}

func nonNegative(v ssa.Value) bool {
	if c, ok := constInt(v); ok {
		return c >= 0
	}
	if call, ok := v.(*ssa.Call); ok {
		if bi, ok := call.Call.Value.(*ssa.Builtin); ok && bi.Name() == "len" {
			return true
		}
	}
	return false
}

// isDecodeWidth: the size result of utf8.DecodeRuneInString / utf8.DecodeRune (>= 1 for non-empty input).
func isDecodeWidth(v ssa.Value) bool {
	ex, ok := v.(*ssa.Extract)
	if !ok || ex.Index != 1 {
		return false
	}
	call, ok := ex.Tuple.(*ssa.Call)
	if !ok {
		return false
	}
	c := call.Call.StaticCallee()
	return c != nil && c.Pkg != nil && c.Pkg.Pkg.Path() == "unicode/utf8" && strings.HasPrefix(c.Name(), "DecodeRune")
}

// isCursorAdvance: a call of (*Lexer).skip / (*Lexer).skipN — the only writers of Lexer.pos (C13/R1).
func (w *World) isCursorAdvance(in ssa.Instruction) bool {
	if st, ok := in.(*ssa.Store); ok {
		// l.pos = l.pos + k (k > 0), e.g. `l.pos++` written without the helper
		if fa, ok := st.Addr.(*ssa.FieldAddr); ok && fieldAddrName(fa) == "pos" && w.isLexerPtr(fa.X.Type()) {
			if bo, ok := st.Val.(*ssa.BinOp); ok && bo.Op == token.ADD {
				if f, _, ok := w.lexerField(bo.X); ok && f == "pos" {
					if k, ok := constInt(bo.Y); ok && k > 0 {
						return true
					}
				}
			}
		}
		return false
	}
	call, ok := in.(*ssa.Call)
	if !ok {
		return false
	}
	c := call.Call.StaticCallee()
	if c == nil || c.Signature.Recv() == nil || !w.isLexerPtr(c.Signature.Recv().Type()) {
		return false
	}
	return c.Name() == "skip" || c.Name() == "skipN"
}

// cursorMovedEdge: the If compares Lexer.pos with a value loaded from Lexer.pos earlier in the same
// loop iteration; returns the successor index on which the cursor is known to have moved.
func (w *World) cursorMovedEdge(iff *ssa.If, l *natLoop) (int, bool) {
	bo, ok := iff.Cond.(*ssa.BinOp)
	if !ok || (bo.Op != token.EQL && bo.Op != token.NEQ) {
		return 0, false
	}
	isPosLoad := func(v ssa.Value) bool {
		f, _, ok := w.lexerField(v)
		return ok && f == "pos"
	}
	var other ssa.Value
	switch {
	case isPosLoad(bo.X):
		other = bo.Y
	case isPosLoad(bo.Y):
		other = bo.X
	default:
		return 0, false
	}
	// other: a phi/value that is a load of pos made inside the loop body (through phis)
	var fromBody func(v ssa.Value, depth int) bool
	fromBody = func(v ssa.Value, depth int) bool {
		if depth > 4 {
			return false
		}
		if isPosLoad(v) {
			in, _ := v.(ssa.Instruction)
			return in != nil && l.body[in.Block()]
		}
		if p, ok := v.(*ssa.Phi); ok {
			for _, e := range p.Edges {
				if !fromBody(e, depth+1) {
					return false
				}
			}
			return len(p.Edges) > 0
		}
		return false
	}
	if !fromBody(other, 0) {
		return 0, false
	}
	if bo.Op == token.EQL {
		return 1, true
	}
	return 0, true
}

type loopVerdict struct {
	ok     bool
	how    string
	detail string
}

func (w *World) checkLoop(l *natLoop) loopVerdict {
	tk := w.TKAI()
	h := l.header
	// back edges that strictly increase a header phi which takes part in an exit decision
	incBack := map[*ssa.BasicBlock]bool{}
	var incNames []string
	for _, in := range h.Instrs {
		phi, ok := in.(*ssa.Phi)
		if !ok {
			continue
		}
		if !w.phiControlsExit(phi, l) {
			continue
		}
		for pi, pred := range h.Preds {
			if isBackPred(l, pred) {
				if strictlyGreater(phi.Edges[pi], phi, map[ssa.Value]bool{}) || strictlyLess(phi.Edges[pi], phi) {
					incBack[pred] = true
					incNames = append(incNames, phi.Comment)
				}
			}
		}
	}
	// range loops: the header executes a Next on an iterator created outside the loop
	for _, in := range h.Instrs {
		if nx, ok := in.(*ssa.Next); ok {
			if it, ok := nx.Iter.(*ssa.Range); ok && !l.body[it.Block()] {
				return loopVerdict{true, "range", "range over " + it.X.Type().String() + ": bounded by the ranged value"}
			}
		}
	}
	allInc := true
	for _, bk := range l.backs {
		if !incBack[bk] {
			allInc = false
		}
	}
	if allInc {
		return loopVerdict{true, "counted", "every back edge strictly increases " + strings.Join(uniqSorted(incNames), ",") + ", which controls an exit test"}
	}
	// token / cursor progress: explore the loop body from the header with "nothing consumed yet";
	// blocks with a cursor advance and `pos != saved pos` edges end a path (progress).
	in := tk.Intra(l.fn).in[h]
	var cur KSet
	for _, st := range in {
		if st != nil {
			cur = cur.Join(st.cur)
		}
	}
	if cur.m == nil {
		return loopVerdict{true, "dead", "loop header unreachable"}
	}
	start := newTState(cur)
	// carry over knowledge about saved lexer clones and snapshots valid at the header
	for _, st := range in {
		if st != nil {
			for k, v := range st.saved {
				start.saved[k] = v
			}
		}
	}
	var leak []string
	advanceBlock := map[*ssa.BasicBlock]bool{}
	for b := range l.body {
		for _, ins := range b.Instrs {
			if w.isCursorAdvance(ins) {
				advanceBlock[b] = true
			}
		}
	}
	cut := func(from, to *ssa.BasicBlock) bool {
		if advanceBlock[from] {
			return true
		}
		if iff, ok := from.Instrs[len(from.Instrs)-1].(*ssa.If); ok {
			if si, ok := w.cursorMovedEdge(iff, l); ok && from.Succs[si] == to {
				return true
			}
		}
		if to == h {
			return true // handled below from the out-states of the back-edge sources
		}
		return false
	}
	ci := tk.Intra(l.fn).ci
	res := tk.flow(ci, h, [2]*TState{start, nil}, l.body, cut)
	for _, bk := range l.backs {
		if incBack[bk] || advanceBlock[bk] {
			continue
		}
		ins := res.in[bk]
		if ins[0] == nil {
			continue
		}
		// push the not-consumed state through the block and across the edge to the header
		outs := tk.runBlock(ci, bk, ins[0], nil)
		for _, st := range outs {
			if st.consumed {
				continue
			}
			e := st
			if iff, ok := bk.Instrs[len(bk.Instrs)-1].(*ssa.If); ok {
				if si, ok2 := w.cursorMovedEdge(iff, l); ok2 && bk.Succs[si] == h {
					continue
				}
				for si, s := range bk.Succs {
					if s == h {
						e = tk.refine(ci, st, iff.Cond, si == 0)
					}
				}
			}
			if e == nil || e.cur.IsEmpty() {
				continue
			}
			// the header's own exit test may make this state leave at once; re-entering the header with
			// the same fact is what matters: feasible iff the fact is compatible with staying in the loop
			leak = append(leak, fmt.Sprintf("back edge from block %d (%s) with current token %s and nothing consumed", bk.Index, w.pos(lastPos(bk)), e.cur))
		}
	}
	if len(leak) == 0 {
		how := "token"
		if len(advanceBlock) > 0 {
			how = "cursor"
		}
		return loopVerdict{true, how, "every cycle consumes a token while the kind state excludes <eof>, advances the byte cursor, or increases a tested counter"}
	}
	return loopVerdict{false, "", strings.Join(leak, "; ")}
}

func isBackPred(l *natLoop, b *ssa.BasicBlock) bool {
	for _, x := range l.backs {
		if x == b {
			return true
		}
	}
	return false
}

func lastPos(b *ssa.BasicBlock) token.Pos {
	for i := len(b.Instrs) - 1; i >= 0; i-- {
		if p := b.Instrs[i].Pos(); p.IsValid() {
			return p
		}
	}
	return token.NoPos
}

func uniqSorted(s []string) []string {
	sort.Strings(s)
	return uniqStrings(s)
}

// phiControlsExit: the phi (or a value computed from it) is used by a comparison or a bounds
// predicate call that decides an If with a successor outside the loop.
func (w *World) phiControlsExit(phi *ssa.Phi, l *natLoop) bool {
	derived := map[ssa.Value]bool{phi: true}
	// one level of arithmetic
	for _, u := range referrers(phi) {
		if bo, ok := u.(*ssa.BinOp); ok && (bo.Op == token.ADD || bo.Op == token.SUB) {
			derived[bo] = true
		}
	}
	for b := range l.body {
		iff, ok := b.Instrs[len(b.Instrs)-1].(*ssa.If)
		if !ok {
			continue
		}
		exits := !l.body[b.Succs[0]] || !l.body[b.Succs[1]]
		if !exits {
			// `for a && b` puts the first operand's test in a block whose false edge leaves the loop; also accept
			// tests that lead to a return/break further on: any If inside the body counts when it uses the phi
		}
		var usesPhi func(v ssa.Value, depth int) bool
		usesPhi = func(v ssa.Value, depth int) bool {
			if depth > 3 {
				return false
			}
			if derived[v] {
				return true
			}
			switch x := v.(type) {
			case *ssa.BinOp:
				return usesPhi(x.X, depth+1) || usesPhi(x.Y, depth+1)
			case *ssa.UnOp:
				return usesPhi(x.X, depth+1)
			case *ssa.Call:
				for _, a := range x.Call.Args {
					if usesPhi(a, depth+1) {
						return true
					}
				}
			case *ssa.Slice:
				return (x.Low != nil && usesPhi(x.Low, depth+1)) || (x.High != nil && usesPhi(x.High, depth+1)) || usesPhi(x.X, depth+1)
			case *ssa.Phi:
				for _, e := range x.Edges {
					if derived[e] {
						return true
					}
				}
			}
			return false
		}
		if exits && usesPhi(iff.Cond, 0) {
			return true
		}
	}
	return false
}

func ruleC03R4(w *World, r *Report) {
	const rule = "C03/R4"
	r.rule(rule, "every natural loop of the lexer, parser, splitter and quoting code has a progress event on each feasible cycle: a token consumption at a point whose kind state excludes <eof> (nextToken at end of input is a no-op), a call summarised as must-consume for the kind state of the cycle, a byte-cursor advance (skip/skipN) or a `pos != saved pos` edge, a strictly increasing counter that controls an exit test, or a range over a finite value", 28)
	tk := w.TKAI()
	if miss := tk.anchorsOK(); len(miss) > 0 {
		r.errorf("TKAI anchors missing: %v", miss)
		return
	}
	n := 0
	for _, fn := range w.ModFns {
		p := fnPkgPath(fn)
		if p != modRoot && p != modRoot+"/token" && p != modRoot+"/char" {
			continue
		}
		for i, l := range naturalLoops(fn) {
			n++
			construct := fmt.Sprintf("loop %d of %s", i+1, funcName(fn))
			where := w.pos(lastPos(l.header))
			if where == "-" {
				where = w.pos(fn.Pos())
			}
			v := w.checkLoop(l)
			if !v.ok && fn.Signature.Recv() != nil && w.isLexerPtr(fn.Signature.Recv().Type()) {
				// a loop of the byte-level code whose progress is not visible as an event (it is reported by a callee's
				// flag, say): the strict-progress proof of C03/R7 in the linear domain decides
				if found, proved := w.lexLoopProgress(fn, l.header); found && proved {
					v = loopVerdict{true, "cursor", "on every back edge Lexer.pos is at least one byte further than at the start of the iteration (proved in the linear domain, C03/R7)"}
				}
			}
			if v.ok {
				r.ok(rule, construct, where, v.how+": "+v.detail)
			} else {
				r.bad(rule, construct, where, "a cycle of this loop has no progress event: "+v.detail+" — the parser/lexer can spin forever on such input")
			}
		}
	}
	r.count("natural loops analysed", n)
}
