package main

import (
	"fmt"
	"sort"
	"strings"

	"golang.org/x/tools/go/ssa"
)

func init() {
	register(&propDef{
		ID: "C01",
		Explanation: "A round trip is a language-level fact; what is decided is the agreement of printer and parser per node type on finite things, each a necessary condition: " +
			"R1 vocabulary inclusion printer ⊆ parser: every word/punctuation mark in the constant text of SQL(N) is a token that the productions of N (the functions allocating N, their non-allocating helpers, their callers up to the dispatch) test or expect; " +
			"R2 required parser tokens ⊆ printer: every expect(K)/expectKeywordLike(S) with a constant keyword or punctuation that dominates an allocation of N in the same function occurs in the constant text of SQL(N); " +
			"R3 list-separator agreement: for every sqlJoin(x.F, sep) the separator tokens consumed between two elements by the loop that builds N.F are {','} iff trim(sep) == ',', {'.'} iff '.', nothing iff sep is non-empty white space; " +
			"R4 dangling separator: a constant piece beginning or ending with ',' next to sqlJoin(x.F, …) is guarded when N.F may be empty; " +
			"R5 token gluing: an operator printed directly in front of an operand whose SQL may start with the same character ('-' '-') forms a different token. " +
			"C04 (SQL() total), C07 (parentheses) and C15 (quoting) cover other necessary conditions. Does not decide: ordering of the printed pieces, nested interactions, equality of the two trees.",
		Rules: []ruleFn{ruleC01R1, ruleC01R2, ruleC01R3, ruleC01R4, ruleC01R5, ruleC01R6, ruleC02R4, ruleC15R1, ruleC07R2, ruleC07R4, ruleC14R2, ruleC01R7, ruleC05R6, ruleC14R11, ruleC01R8, ruleC16R2, ruleC15R3, ruleC15R4, ruleC15R6, ruleC02R1, ruleC02R3},
	})
}

// funcVocab: kind atoms tested or expected in a function (as upper-case words / punctuation).
func (w *World) funcVocab(fn *ssa.Function) map[string]bool {
	if w.vocab == nil {
		w.vocab = map[*ssa.Function]map[string]bool{}
	}
	if v, ok := w.vocab[fn]; ok {
		return v
	}
	tk := w.TKAI()
	out := map[string]bool{}
	add := func(atom string) {
		if i := strings.IndexAny(atom, ":~"); i >= 0 && strings.HasPrefix(atom, identAtom) {
			atom = atom[i+1:]
		}
		out[strings.ToUpper(atom)] = true
	}
	for _, b := range fn.Blocks {
		for _, in := range b.Instrs {
			switch x := in.(type) {
			case *ssa.BinOp:
				if t, _, ok := tk.tokenTest(nil, x); ok {
					add(t.atom)
				}
			case *ssa.Call:
				callee := x.Call.StaticCallee()
				if callee == nil {
					continue
				}
				switch callee.Name() {
				case "IsKeywordLike", "IsIdent", "expect", "expectKeywordLike", "expectIdent":
					if len(x.Call.Args) == 2 {
						if s, ok := constString(x.Call.Args[1]); ok {
							add(s)
						}
					}
				}
			}
		}
	}
	w.vocab[fn] = out
	return out
}

// allocatesNode: the function allocates some ast node struct.
func (w *World) allocatesNode(fn *ssa.Function) bool {
	v := w.Value()
	for _, b := range fn.Blocks {
		for _, in := range b.Instrs {
			if al, ok := in.(*ssa.Alloc); ok && v.nodeStructOf(al.Type()) != "" {
				return true
			}
		}
	}
	return false
}

// productionVocab: the over-approximated set of tokens the productions of a node type consume.
func (w *World) productionVocab(ns *NodeStruct, sites []*siteInfo) map[string]bool {
	out := map[string]bool{}
	seen := map[*ssa.Function]bool{}
	var addFn func(fn *ssa.Function, down bool)
	addFn = func(fn *ssa.Function, down bool) {
		if seen[fn] || fn.Blocks == nil || fnPkgPath(fn) != modRoot {
			return
		}
		seen[fn] = true
		for k := range w.funcVocab(fn) {
			out[k] = true
		}
		if !down {
			return
		}
		// helpers that allocate no node (parseIfNotExists, tryParseDirection, …)
		for _, b := range fn.Blocks {
			for _, in := range b.Instrs {
				if ci, ok := in.(ssa.CallInstruction); ok {
					for _, c := range w.Callees(ci) {
						if fnPkgPath(c) == modRoot && c.Blocks != nil && !w.allocatesNode(c) {
							addFn(c, true)
						}
					}
				}
			}
		}
	}
	for _, si := range sites {
		fn := si.al.Parent()
		addFn(fn, true)
		// callers: the dispatch consumes the first words
		level := []*ssa.Function{fn}
		for depth := 0; depth < 3; depth++ {
			var next []*ssa.Function
			for _, f := range level {
				for _, c := range w.callersOf(f) {
					p := c.Parent()
					if fnPkgPath(p) == modRoot && !seen[p] {
						addFn(p, true)
						next = append(next, p)
					}
				}
			}
			level = next
		}
	}
	return out
}

func (w *World) sitesByType() map[string][]*siteInfo {
	m := map[string][]*siteInfo{}
	for _, si := range w.sites() {
		m[si.ns.Name] = append(m[si.ns.Name], si)
	}
	return m
}

func ruleC01R1(w *World, r *Report) {
	const rule = "C01/R1"
	r.rule(rule, "every word and punctuation mark in the constant text of SQL(N) is a token that the productions of N test or expect (the parser side is over-approximated, so a printed word that is really accepted cannot be reported)", 100)
	cat := w.Catalog()
	by := w.sitesByType()
	for _, ns := range cat.Structs {
		sites := by[ns.Name]
		if len(sites) == 0 || strings.HasPrefix(ns.Name, "Bad") {
			continue
		}
		pm := w.PrintModel(ns)
		if pm == nil {
			continue
		}
		vocab := w.productionVocab(ns, sites)
		// child types printed as fixed text contribute their own production words
		for i := 0; i < ns.Struct.NumFields(); i++ {
			a := w.Value().FieldAV(ns.Name, ns.Struct.Field(i).Name())
			for t := range a.types {
				if !pm.reads[ns.Struct.Field(i).Name()] || true {
					for k := range w.productionVocab(cat.ByName[t], by[t]) {
						_ = k
					}
				}
			}
		}
		// children printed as fixed text (null/true/false in OptionsDef, SET NO SKIP RANGE): the
		// productions of the child types belong to the vocabulary as well
		for i := 0; i < ns.Struct.NumFields(); i++ {
			a := w.Value().FieldAV(ns.Name, ns.Struct.Field(i).Name())
			ts := a.types
			if a.elem != nil {
				ts = a.elem.types
			}
			for t := range ts {
				if ct := cat.ByName[t]; ct != nil {
					for _, si := range by[t] {
						for k := range w.funcVocab(si.al.Parent()) {
							vocab[k] = true
						}
					}
				}
			}
		}
		if vocab["<PARAM>"] {
			vocab["@"] = true // the '@' is part of the parameter token
		}
		var missing []string
		nwords := 0
		for wd := range pm.printedWords() {
			nwords++
			if !vocab[wd] {
				missing = append(missing, wd)
			}
		}
		construct := "constant text of (*" + ns.Name + ").SQL"
		if len(missing) > 0 {
			r.bad(rule, construct, w.pos(pm.fn.Pos()), fmt.Sprintf("SQL() prints %q, which no production of %s consumes: the printed text cannot parse back", uniqSorted(missing), ns.Name))
		} else if nwords == 0 {
			r.trivial(rule, construct, w.pos(pm.fn.Pos()), "prints no constant text")
		} else {
			r.ok(rule, construct, w.pos(pm.fn.Pos()), fmt.Sprintf("%d printed words/marks are all consumed by the productions of %s", nwords, ns.Name))
		}
	}
}

func ruleC01R2(w *World, r *Report) {
	const rule = "C01/R2"
	r.rule(rule, "every constant keyword or punctuation that a production must consume before it allocates N (an expect call dominating the allocation in the same function) occurs in the constant text of SQL(N)", 100)
	cat := w.Catalog()
	by := w.sitesByType()
	kinds := w.lexerKinds()
	for _, ns := range cat.Structs {
		sites := by[ns.Name]
		if len(sites) == 0 || strings.HasPrefix(ns.Name, "Bad") {
			continue
		}
		pm := w.PrintModel(ns)
		if pm == nil {
			continue
		}
		printed := map[string]bool{}
		addPrinted := func(t *NodeStruct) {
			tpm := w.PrintModel(t)
			if tpm == nil {
				return
			}
			for wd := range tpm.printedWords() {
				printed[wd] = true
			}
			// constants printed through const-typed fields (string(x.Op)) count as well
			for i := 0; i < t.Struct.NumFields(); i++ {
				a := w.Value().FieldAV(t.Name, t.Struct.Field(i).Name())
				for c := range a.consts {
					for _, wd := range sqlWords(c) {
						printed[wd] = true
					}
				}
			}
		}
		addPrinted(ns)
		// a token consumed in the function may belong to the text of a node allocated next to N: the
		// other node types allocated in the same function, in its direct callers and direct callees
		for _, si := range sites {
			for _, nb := range w.neighbourTypes(si.al.Parent()) {
				if t := cat.ByName[nb]; t != nil {
					addPrinted(t)
				}
			}
		}
		var missing []string
		n := 0
		for _, si := range sites {
			fn := si.al.Parent()
			for _, b := range fn.Blocks {
				for i, in := range b.Instrs {
					call, ok := in.(*ssa.Call)
					if !ok {
						continue
					}
					callee := call.Call.StaticCallee()
					if callee == nil || fnPkgPath(callee) != modRoot || len(call.Call.Args) != 2 {
						continue
					}
					if callee.Name() != "expect" && callee.Name() != "expectKeywordLike" {
						continue
					}
					s, ok := constString(call.Call.Args[1])
					if !ok {
						continue
					}
					if callee.Name() == "expect" && (!kinds[s] || strings.HasPrefix(s, "<") && strings.HasSuffix(s, ">") && len(s) > 2 && s != "<>") {
						continue // <ident>, <int>, …: recorded through a child node
					}
					// dominates the allocation?
					ab := si.al.Block()
					dom := (b == ab && i < indexOf(ab, si.al)) || (b != ab && b.Dominates(ab))
					if !dom {
						continue
					}
					n++
					if !printed[strings.ToUpper(s)] {
						missing = append(missing, fmt.Sprintf("%s (required at %s)", s, w.pos(call.Pos())))
					}
				}
			}
		}
		construct := "required tokens of ast." + ns.Name
		if len(missing) > 0 {
			r.bad(rule, construct, w.pos(pm.fn.Pos()), fmt.Sprintf("every %s consumed %v, but (*%s).SQL never prints it", ns.Name, uniqSorted(missing), ns.Name))
		} else if n == 0 {
			r.trivial(rule, construct, w.pos(pm.fn.Pos()), "no required constant token in the allocating functions")
		} else {
			r.ok(rule, construct, w.pos(pm.fn.Pos()), fmt.Sprintf("%d required tokens all occur in the printed text", n))
		}
	}
}

// separatorsOf: the token kinds consumed between two elements of the list stored in a field.
func (w *World) separatorsOf(si *siteInfo, field string) (seps map[string]bool, ok bool) {
	tk := w.TKAI()
	v := si.val[field]
	if v == nil {
		return nil, false
	}
	seps = map[string]bool{}
	found := false
	seen := map[ssa.Value]bool{}
	var walk func(x ssa.Value)
	walk = func(x ssa.Value) {
		if x == nil || seen[x] {
			return
		}
		seen[x] = true
		switch y := x.(type) {
		case *ssa.Phi:
			for _, e := range y.Edges {
				walk(e)
			}
		case *ssa.MakeInterface:
			walk(y.X)
		case *ssa.Slice:
			walk(y.X)
		case *ssa.Extract:
			walk(y.Tuple)
		case *ssa.Parameter:
			// the list is built by the caller
			fn := y.Parent()
			idx := -1
			for i, p := range fn.Params {
				if p == y {
					idx = i
				}
			}
			for _, c := range w.callersOf(fn) {
				if idx >= 0 && idx < len(c.Common().Args) {
					walk(c.Common().Args[idx])
				}
			}
		case *ssa.Call:
			if bi, isB := y.Call.Value.(*ssa.Builtin); isB && bi.Name() == "append" {
				found = true
				// the loop around this append: direct consumptions in the loop body outside the element parser
				fn := y.Parent()
				for _, l := range naturalLoops(fn) {
					if !l.body[y.Block()] {
						continue
					}
					for b := range l.body {
						for _, in := range b.Instrs {
							c, ok := in.(*ssa.Call)
							if !ok {
								continue
							}
							callee := c.Call.StaticCallee()
							if callee == nil || fnPkgPath(callee) != modRoot {
								continue
							}
							if callee.Name() == "expect" && len(referrers(c)) == 0 {
								if k, ok := constString(c.Call.Args[1]); ok {
									seps[k] = true
									continue
								}
							}
							if callee.Name() == "nextToken" || callee == tk.prim || ((callee.Name() == "expect") && len(referrers(c)) == 0) {
								st := tk.StateBefore(c)
								if st != nil {
									if as, fin := st.cur.Finite(); fin {
										for _, a := range as {
											seps[a] = true
										}
									} else {
										seps["?"] = true
									}
								}
							}
						}
					}
				}
				for _, a := range y.Call.Args {
					walk(a)
				}
				// `append([]T{first}, rest...)` after an explicit separator: the expect between the two
				if len(naturalLoopsContaining(fn, y.Block())) == 0 {
					for _, b := range fn.Blocks {
						for _, in := range b.Instrs {
							if c, ok := in.(*ssa.Call); ok && c.Call.StaticCallee() != nil && c.Call.StaticCallee().Name() == "expect" && len(referrers(c)) == 0 && (b == y.Block() || b.Dominates(y.Block())) {
								if k, ok := constString(c.Call.Args[1]); ok && k == "," {
									seps[k] = true
								}
							}
						}
					}
				}
				return
			}
			for _, callee := range w.Callees(y) {
				if fnPkgPath(callee) != modRoot || callee.Blocks == nil {
					continue
				}
				// a list-building helper: look at what it returns
				for _, b := range callee.Blocks {
					if ret, ok := b.Instrs[len(b.Instrs)-1].(*ssa.Return); ok {
						for _, rv := range ret.Results {
							if _, isSlice := rv.Type().Underlying().(interface{ Elem() interface{} }); isSlice {
							}
							walk(rv)
						}
					}
				}
			}
		}
	}
	walk(v)
	return seps, found
}

func ruleC01R3(w *World, r *Report) {
	const rule = "C01/R3"
	r.rule(rule, "list separators agree: for sqlJoin(x.F, sep) in SQL(N), the tokens the parser consumes between two elements of N.F are {','} iff trim(sep) is ',', {'.'} iff '.', none iff sep is non-empty white space", 25)
	cat := w.Catalog()
	by := w.sitesByType()
	for _, ns := range cat.Structs {
		sites := by[ns.Name]
		pm := w.PrintModel(ns)
		if pm == nil || len(sites) == 0 {
			continue
		}
		recv := ssa.Value(pm.fn.Params[0])
		for _, jc := range pm.joins {
			f, ok := fieldOfRecv(jc.Call.Args[0], recv)
			if !ok {
				continue
			}
			construct := fmt.Sprintf("sqlJoin(%s.%s)", ns.Name, f)
			sep, isConst := constString(jc.Call.Args[1])
			if !isConst {
				r.trivial(rule, construct, w.pos(jc.Pos()), "separator is computed from fields (compound query operator): covered by R1/R2 of the fields")
				continue
			}
			parserSeps := map[string]bool{}
			found := false
			for _, si := range sites {
				s, ok := w.separatorsOf(si, f)
				if ok {
					found = true
				}
				for k := range s {
					parserSeps[k] = true
				}
			}
			if !found {
				r.trivial(rule, construct, w.pos(jc.Pos()), "the parser never builds this list by appending (at most a fixed literal)")
				continue
			}
			ps := sortedKeys(parserSeps)
			trim := strings.TrimSpace(sep)
			okSep := false
			switch {
			case len(ps) == 1 && ps[0] == ",":
				okSep = trim == ","
			case len(ps) == 1 && ps[0] == ".":
				okSep = trim == "."
			case len(ps) == 0:
				okSep = trim == "" && sep != ""
			default:
				// optional separators (',' or nothing) print ','; anything else is unknown
				if parserSeps[","] && len(ps) == 1 {
					okSep = trim == ","
				}
			}
			if okSep {
				r.ok(rule, construct, w.pos(jc.Pos()), fmt.Sprintf("parser separators %v, printed %q", ps, sep))
			} else {
				r.bad(rule, construct, w.pos(jc.Pos()), fmt.Sprintf("the parser consumes %v between two elements of %s.%s, but SQL() joins them with %q: the printed list does not parse back to the same list", ps, ns.Name, f, sep))
			}
		}
	}
}

func ruleC01R4(w *World, r *Report) {
	const rule = "C01/R4"
	r.rule(rule, "a constant piece that starts or ends with ',' directly next to sqlJoin(x.F, …) is printed only when the list is non-empty, if the parser can leave N.F empty", 3)
	cat := w.Catalog()
	by := w.sitesByType()
	n := 0
	doneR4 := map[string]bool{}
	for _, ns := range cat.Structs {
		sites := by[ns.Name]
		pm := w.PrintModel(ns)
		if pm == nil || len(sites) == 0 {
			continue
		}
		for _, seq := range pm.seqs {
			for i, p := range seq {
				if p.kind != "join" || p.field == "" {
					continue
				}
				a := w.Value().FieldAV(ns.Name, p.field)
				mayEmpty := false
				for _, si := range sites {
					if e := si.env[p.field]; e.mayEmpty || e.bot {
						mayEmpty = true
					}
				}
				_ = a
				seq := withoutAbsent(seq, &i)
				var dangling string
				if i > 0 && seq[i-1].kind == "const" && strings.HasSuffix(strings.TrimRight(seq[i-1].text, " "), ",") {
					dangling = seq[i-1].text
				}
				if i+1 < len(seq) && seq[i+1].kind == "const" && strings.HasPrefix(strings.TrimLeft(seq[i+1].text, " "), ",") {
					dangling = seq[i+1].text
				}
				if dangling == "" {
					continue
				}
				var dp Piece
				if i > 0 && seq[i-1].kind == "const" && seq[i-1].text == dangling {
					dp = seq[i-1]
				} else {
					dp = seq[i+1]
				}
				construct := fmt.Sprintf("separator %q next to sqlJoin(%s.%s)", dangling, ns.Name, p.field)
				if doneR4[construct] {
					continue
				}
				doneR4[construct] = true
				n++
				if dp.guard != nil && guardImpliesNonEmpty(dp.guard, p.field, ssa.Value(pm.fn.Params[0])) {
					r.ok(rule, construct, w.pos(pm.fn.Pos()), "printed only under a condition on len("+p.field+")")
					continue
				}
				if mayEmpty {
					r.bad(rule, construct, w.pos(pm.fn.Pos()), fmt.Sprintf("the parser can leave %s.%s empty, and then SQL() prints the separator %q with nothing to separate", ns.Name, p.field, dangling))
				} else {
					r.ok(rule, construct, w.pos(pm.fn.Pos()), "the list is never empty at any allocation site")
				}
			}
		}
	}
	r.count("comma-adjacent sqlJoin pieces", n)
}

// ---- R5: token gluing ----------------------------------------------------------------------

// firstChars: the characters the SQL of a value of the given node type may start with (only the
// cases needed for operator gluing are modelled: constants, const-typed fields, sign folded into a
// numeric literal; everything else yields '?').
func (w *World) firstCharsOfType(t string, seen map[string]bool) map[byte]bool {
	out := map[byte]bool{}
	if seen[t] {
		return out
	}
	seen[t] = true
	cat := w.Catalog()
	ns := cat.ByName[t]
	if ns == nil {
		out['?'] = true
		return out
	}
	pm := w.PrintModel(ns)
	if pm == nil || len(pm.seqs) == 0 {
		out['?'] = true
		return out
	}
	v := w.Value()
	for _, seq := range pm.seqs {
		// the first non-empty piece
		done := false
		for _, p := range seq {
			if done {
				break
			}
			switch p.kind {
			case "const":
				if p.text != "" {
					out[p.text[0]] = true
					done = true
				}
			case "conv":
				a := v.FieldAV(t, p.field)
				if len(a.consts) == 0 || a.consts["?"] {
					out['?'] = true
				}
				for c := range a.consts {
					if c != "" {
						out[c[0]] = true
					}
				}
				done = true
			case "field-sql", "paren":
				a := v.FieldAV(t, p.field)
				for ct := range a.types {
					for c := range w.firstCharsOfType(ct, seen) {
						out[c] = true
					}
				}
				done = true
			case "other":
				// a plain field load (IntLiteral.Value): constants known to VALUE
				if f, ok := fieldOfRecv(p.val, ssa.Value(pm.fn.Params[0])); ok {
					a := v.FieldAV(t, f)
					for c := range a.consts {
						if c == "?" {
							out['?'] = true
						} else if c != "" {
							out[c[0]] = true
						}
					}
					if len(a.consts) == 0 {
						out['?'] = true
					}
				} else {
					out['?'] = true
				}
				done = true
			default:
				out['?'] = true
				done = true
			}
		}
	}
	return out
}

func ruleC01R5(w *World, r *Report) {
	const rule = "C01/R5"
	r.rule(rule, "an operator printed from a const-typed field directly in front of an operand (no white space in between) cannot glue with the operand's first character into another token or a comment opener ('-' '-' -> '--', '/' '*', '/' '/', '<' '<', '|' '|', …)", 1)
	cat := w.Catalog()
	v := w.Value()
	n := 0
	doneR5 := map[string]bool{}
	glue := func(a, b byte) string {
		two := string([]byte{a, b})
		for _, op := range append([]string{"--", "/*", "//"}, refOperators...) {
			if len(op) == 2 && op == two {
				return op
			}
		}
		return ""
	}
	for _, ns := range cat.Structs {
		pm := w.PrintModel(ns)
		if pm == nil {
			continue
		}
		for _, seq := range pm.seqs {
			for i := 0; i+1 < len(seq); i++ {
				p, q := seq[i], seq[i+1]
				if p.kind != "conv" {
					continue
				}
				// a separator that is printed depending on the operand's own text
				if q.kind == "absent" && i+2 < len(seq) && (seq[i+2].kind == "field-sql" || seq[i+2].kind == "paren") && q.guard != nil && dependsOnDeep(q.guard, seq[i+2].val) {
					key := fmt.Sprintf("%s: string(%s) directly before %s", ns.Name, p.field, seq[i+2].field)
					if !doneR5[key] {
						doneR5[key] = true
						n++
						r.ok(rule, key, w.pos(pm.fn.Pos()), "a separator is inserted by a condition on the operand's own first character")
					}
					continue
				}
				if q.kind != "field-sql" && q.kind != "paren" {
					continue
				}
				if doneR5[fmt.Sprintf("%s: string(%s) directly before %s", ns.Name, p.field, q.field)] {
					continue
				}
				doneR5[fmt.Sprintf("%s: string(%s) directly before %s", ns.Name, p.field, q.field)] = true
				n++
				ops := v.FieldAV(ns.Name, p.field)
				firsts := map[byte]bool{}
				qa := v.FieldAV(ns.Name, q.field)
				for t := range qa.types {
					for c := range w.firstCharsOfType(t, map[string]bool{}) {
						firsts[c] = true
					}
				}
				construct := fmt.Sprintf("%s: string(%s) directly before %s", ns.Name, p.field, q.field)
				var bad []string
				for op := range ops.consts {
					if op == "" || op == "?" {
						continue
					}
					last := op[len(op)-1]
					for c := range firsts {
						if g := glue(last, c); g != "" {
							bad = append(bad, fmt.Sprintf("%q followed by an operand starting with %q reads as %q", op, string(c), g))
						}
					}
				}
				if len(bad) > 0 {
					r.bad(rule, construct, w.pos(pm.fn.Pos()), strings.Join(uniqSorted(bad), "; "))
				} else {
					r.ok(rule, construct, w.pos(pm.fn.Pos()), fmt.Sprintf("operators %v, operand first characters %q: no pair forms another token", sortedKeys(ops.consts), byteKeys(firsts)))
				}
			}
		}
	}
	if n == 0 {
		r.errorf("no operator-before-operand concatenation found in the SQL() methods")
	}
}

func byteKeys(m map[byte]bool) string {
	var bs []byte
	for b := range m {
		bs = append(bs, b)
	}
	sort.Slice(bs, func(i, j int) bool { return bs[i] < bs[j] })
	return string(bs)
}

// neighbourTypes: node types allocated in fn, its direct callers and its direct callees.
func (w *World) neighbourTypes(fn *ssa.Function) []string {
	v := w.Value()
	seen := map[string]bool{}
	addAllocs := func(f *ssa.Function) {
		if f == nil || f.Blocks == nil || fnPkgPath(f) != modRoot {
			return
		}
		for _, b := range f.Blocks {
			for _, in := range b.Instrs {
				if al, ok := in.(*ssa.Alloc); ok {
					if n := v.nodeStructOf(al.Type()); n != "" {
						seen[n] = true
					}
				}
			}
		}
	}
	addAllocs(fn)
	for _, c := range w.callersOf(fn) {
		addAllocs(c.Parent())
	}
	for _, b := range fn.Blocks {
		for _, in := range b.Instrs {
			if ci, ok := in.(ssa.CallInstruction); ok {
				for _, c := range w.Callees(ci) {
					addAllocs(c)
				}
			}
		}
	}
	return sortedKeys(seen)
}

func naturalLoopsContaining(fn *ssa.Function, b *ssa.BasicBlock) []*natLoop {
	var out []*natLoop
	for _, l := range naturalLoops(fn) {
		if l.body[b] {
			out = append(out, l)
		}
	}
	return out
}

// guardImpliesNonEmpty: the condition value depends on len(recv.<field>) (a `len(x.F) > 0` conjunct).
func guardImpliesNonEmpty(g ssa.Value, field string, recv ssa.Value) bool {
	seen := map[ssa.Value]bool{}
	var dep func(x ssa.Value, d int) bool
	dep = func(x ssa.Value, d int) bool {
		if d > 8 || seen[x] {
			return false
		}
		seen[x] = true
		switch y := x.(type) {
		case *ssa.Call:
			if bi, ok := y.Call.Value.(*ssa.Builtin); ok && bi.Name() == "len" {
				if f, ok := fieldOfRecv(y.Call.Args[0], recv); ok && f == field {
					return true
				}
			}
		case *ssa.BinOp:
			return dep(y.X, d+1) || dep(y.Y, d+1)
		case *ssa.UnOp:
			return dep(y.X, d+1)
		case *ssa.Phi:
			// a && b lowered to control flow: the conditions of the branching predecessors count too
			for _, e := range y.Edges {
				if dep(e, d+1) {
					return true
				}
			}
			for _, p := range y.Block().Preds {
				for q := p; q != nil; q = q.Idom() {
					if iff, ok := q.Instrs[len(q.Instrs)-1].(*ssa.If); ok {
						if dep(iff.Cond, d+1) {
							return true
						}
					}
					if q == y.Block().Idom() {
						break
					}
				}
			}
		}
		return false
	}
	return dep(g, 0)
}

// withoutAbsent drops the zero-width "absent" markers from a sequence, adjusting index i.
func withoutAbsent(seq []Piece, i *int) []Piece {
	var out []Piece
	ni := *i
	for k, p := range seq {
		if p.kind == "absent" {
			if k < *i {
				ni--
			}
			continue
		}
		out = append(out, p)
	}
	*i = ni
	return out
}

// dependsOnDeep: value x is computed from value y, looking through phis, indexing and branch conditions
// that select the phi's value.
func dependsOnDeep(x, y ssa.Value) bool {
	seen := map[ssa.Value]bool{}
	var dep func(v ssa.Value, d int) bool
	dep = func(v ssa.Value, d int) bool {
		if v == y {
			return true
		}
		if d > 10 || seen[v] {
			return false
		}
		seen[v] = true
		switch z := v.(type) {
		case *ssa.UnOp:
			return dep(z.X, d+1)
		case *ssa.BinOp:
			return dep(z.X, d+1) || dep(z.Y, d+1)
		case *ssa.Convert:
			return dep(z.X, d+1)
		case *ssa.Index:
			return dep(z.X, d+1)
		case *ssa.IndexAddr:
			return dep(z.X, d+1)
		case *ssa.Lookup:
			return dep(z.X, d+1)
		case *ssa.Call:
			for _, a := range z.Call.Args {
				if dep(a, d+1) {
					return true
				}
			}
		case *ssa.Phi:
			for _, e := range z.Edges {
				if dep(e, d+1) {
					return true
				}
			}
			for _, p := range z.Block().Preds {
				for q := p; q != nil; q = q.Idom() {
					if iff, ok := q.Instrs[len(q.Instrs)-1].(*ssa.If); ok && dep(iff.Cond, d+1) {
						return true
					}
				}
			}
		}
		return false
	}
	return dep(x, 0)
}

// guardField: the receiver field a strOpt/if guard tests (x.F, !x.F.Invalid(), x.F != nil, x.F != "").
func guardField(g ssa.Value, recv ssa.Value, depth int) string {
	if g == nil || depth > 5 {
		return ""
	}
	if f, ok := fieldOfRecv(g, recv); ok {
		return f
	}
	switch x := g.(type) {
	case *ssa.UnOp:
		return guardField(x.X, recv, depth+1)
	case *ssa.BinOp:
		if f := guardField(x.X, recv, depth+1); f != "" {
			return f
		}
		return guardField(x.Y, recv, depth+1)
	case *ssa.Call:
		for _, a := range x.Call.Args {
			if f := guardField(a, recv, depth+1); f != "" {
				return f
			}
		}
		if x.Call.IsInvoke() {
			return guardField(x.Call.Value, recv, depth+1)
		}
	case *ssa.ChangeType:
		return guardField(x.X, recv, depth+1)
	case *ssa.Convert:
		return guardField(x.X, recv, depth+1)
	case *ssa.MakeInterface:
		return guardField(x.X, recv, depth+1)
	}
	return ""
}

// ruleC01R6: SQL() prints the fields in the order the parser consumed them.
func ruleC01R6(w *World, r *Report) {
	const rule = "C01/R6"
	r.rule(rule, "SQL() prints the parts of a node in source order: whenever a SQL() method prints field F before field G (in some flattened return sequence), no production that can fill both parses G entirely before F — printing in another order moves tokens and usually no longer re-parses", 40)
	cat := w.Catalog()
	sitesByType := map[string][]*siteInfo{}
	for _, si := range w.sites() {
		if w.copiesFromSameType(si) {
			continue
		}
		sitesByType[si.ns.Name] = append(sitesByType[si.ns.Name], si)
	}
	for _, ns := range cat.Structs {
		m := w.PrintModel(ns)
		if m == nil || len(m.seqs) == 0 || len(sitesByType[ns.Name]) == 0 || ns.Name == "CreateTable" {
			continue
		}
		recv := ssa.Value(m.fn.Params[0])
		type pair struct{ f, g string }
		printed := map[pair]bool{}
		for _, seq := range m.seqs {
			var order []string
			for _, p := range seq {
				f := p.field
				if f == "" {
					f = guardField(p.guard, recv, 0)
				}
				if f == "" || ns.field(f) == nil {
					continue
				}
				if len(order) == 0 || order[len(order)-1] != f {
					order = append(order, f)
				}
			}
			for i := 0; i < len(order); i++ {
				for j := i + 1; j < len(order); j++ {
					if order[i] != order[j] {
						printed[pair{order[i], order[j]}] = true
					}
				}
			}
		}
		var bad []string
		checked := 0
		var keys []pair
		for p := range printed {
			keys = append(keys, p)
		}
		sort.Slice(keys, func(i, j int) bool {
			if keys[i].f != keys[j].f {
				return keys[i].f < keys[j].f
			}
			return keys[i].g < keys[j].g
		})
		for _, p := range keys {
			if printed[pair{p.g, p.f}] {
				continue // printed in both orders by different sequences: no claim
			}
			for _, si := range sitesByType[ns.Name] {
				if !w.fieldPresent(si, p.f) || !w.fieldPresent(si, p.g) {
					continue
				}
				ef, eg := w.fieldEvents(si, p.f), w.fieldEvents(si, p.g)
				checked++
				if allBefore(eg, ef) {
					bad = append(bad, fmt.Sprintf("SQL() prints %s before %s, but %s parses %s first (site %s)", p.f, p.g, funcName(si.al.Parent()), p.g, w.pos(si.al.Pos())))
				}
			}
		}
		if checked == 0 {
			continue
		}
		construct := "ast." + ns.Name + ".SQL order"
		if len(bad) > 0 {
			r.bad(rule, construct, w.pos(m.fn.Pos()), strings.Join(uniqSorted(bad), "; "))
		} else {
			r.ok(rule, construct, w.pos(m.fn.Pos()), fmt.Sprintf("%d printed field pairs agree with the parse order at every site", checked))
		}
	}
}

// ---- C01/R7: a decimal integer directly in front of '.' -------------------------------------------

// intTokenTypes: node types the parser allocates only while the current token is an <int>: their text is the
// spelling of a number token.
func (w *World) intTokenTypes() map[string]bool {
	tk := w.TKAI()
	v := w.Value()
	count := map[string][2]int{}
	for _, fn := range w.ModFns {
		if fnPkgPath(fn) != modRoot || fn.Blocks == nil {
			continue
		}
		for _, b := range fn.Blocks {
			for _, in := range b.Instrs {
				al, ok := in.(*ssa.Alloc)
				if !ok {
					continue
				}
				n := v.nodeStructOf(al.Type())
				if n == "" {
					continue
				}
				c := count[n]
				c[0]++
				isInt := func(f KSet) bool {
					atoms, fin := f.Finite()
					return fin && len(atoms) == 1 && atoms[0] == "<int>"
				}
				if st := tk.StateBefore(al); st != nil && isInt(st.cur) {
					c[1]++
				} else {
					// a field holds the spelling of an <int> token fetched earlier (i := p.expect(TokenInt); Value: i.Raw)
					for _, val := range allocFieldStores(al) {
						ld, ok := isLoad(stripConv(val))
						if !ok {
							continue
						}
						fa, ok := ld.(*ssa.FieldAddr)
						if !ok || !(w.isTokenPtr(fa.X.Type())) || (fieldAddrName(fa) != "Raw" && fieldAddrName(fa) != "AsString") {
							continue
						}
						at, _ := stripConv(val).(ssa.Instruction)
						if at == nil {
							continue
						}
						cur, srcs := tk.tokenSources(fa.X)
						if cur {
							if st := tk.StateBefore(at); st != nil && isInt(st.cur) {
								c[1]++
							}
						}
						for _, src := range srcs {
							if isInt(tk.FactOf(src, at)) {
								c[1]++
							}
						}
					}
				}
				count[n] = c
			}
		}
	}
	out := map[string]bool{}
	for n, c := range count {
		if c[1] > 0 {
			out[n] = true
		}
	}
	return out
}

// lastTypesOf: the node types whose own text can be the last thing printed by SQL() of t (t itself when its
// last piece is a plain string field; the operand types when it ends with an operand).
func (w *World) lastTypesOf(t string, seen map[string]bool, out map[string]bool) {
	if seen[t] {
		return
	}
	seen[t] = true
	ns := w.Catalog().ByName[t]
	if ns == nil {
		return
	}
	pm := w.PrintModel(ns)
	if pm == nil || len(pm.seqs) == 0 {
		out[t] = true
		return
	}
	v := w.Value()
	for _, seq := range pm.seqs {
		done := false
		for i := len(seq) - 1; i >= 0 && !done; i-- {
			p := seq[i]
			switch p.kind {
			case "const":
				if p.text != "" {
					done = true
				}
			case "field-sql", "paren":
				a := v.FieldAV(t, p.field)
				for ct := range a.types {
					w.lastTypesOf(ct, seen, out)
				}
				done = true
			case "absent", "opt", "stropt":
				// may print nothing: look further left as well
				if p.kind != "absent" {
					out[t] = true
				}
			default:
				out[t] = true
				done = true
			}
		}
	}
}

func ruleC01R7(w *World, r *Report) {
	const rule = "C01/R7"
	r.rule(rule, "an operand whose text can end with a decimal integer token (a node type allocated only under an <int> token, possibly as the last operand of another expression) is never printed directly in front of a piece that starts with '.': \"1\" + \".x\" is lexed as the float \"1.\" followed by x; a separator computed from the operand's own text is accepted", 2)
	ints := w.intTokenTypes()
	if len(ints) == 0 {
		r.errorf("no node type allocated under an <int> token found")
		return
	}
	cat := w.Catalog()
	v := w.Value()
	n := 0
	done := map[string]bool{}
	for _, ns := range cat.Structs {
		pm := w.PrintModel(ns)
		if pm == nil {
			continue
		}
		for _, seq := range pm.seqs {
			for i := 0; i+1 < len(seq); i++ {
				p := seq[i]
				if p.kind != "field-sql" && p.kind != "paren" {
					continue
				}
				j := i + 1
				sepFromOperand := false
				for j < len(seq) && seq[j].kind != "const" {
					if seq[j].val != nil && p.val != nil && dependsOnDeep(seq[j].val, p.val) {
						sepFromOperand = true
					}
					if seq[j].guard != nil && p.val != nil && dependsOnDeep(seq[j].guard, p.val) {
						sepFromOperand = true
					}
					if seq[j].kind == "field-sql" || seq[j].kind == "paren" || seq[j].kind == "join" {
						break
					}
					j++
				}
				if j >= len(seq) || seq[j].kind != "const" || !strings.HasPrefix(seq[j].text, ".") {
					continue
				}
				construct := fmt.Sprintf("%s: %s directly before %q", ns.Name, p.field, seq[j].text)
				if done[construct] {
					continue
				}
				done[construct] = true
				n++
				last := map[string]bool{}
				a := v.FieldAV(ns.Name, p.field)
				for t := range a.types {
					w.lastTypesOf(t, map[string]bool{}, last)
				}
				var hit []string
				for t := range last {
					if ints[t] {
						hit = append(hit, t)
					}
				}
				sort.Strings(hit)
				switch {
				case len(hit) == 0:
					r.ok(rule, construct, w.pos(pm.fn.Pos()), fmt.Sprintf("the operand never ends with an integer token (last printed types %v)", sortedKeys(last)))
				case sepFromOperand:
					r.ok(rule, construct, w.pos(pm.fn.Pos()), fmt.Sprintf("the operand can end with %v, a separator computed from the operand's text is printed in between", hit))
				default:
					r.bad(rule, construct, w.pos(pm.fn.Pos()), fmt.Sprintf("the operand can end with the integer token of %v and the '.' follows without a separator: \"1 .x\" is printed as \"1.x\", which the lexer reads as the float \"1.\" glued to an identifier", hit))
				}
			}
		}
	}
	if n == 0 {
		r.errorf("no operand printed directly before a '.' piece found (SelectorExpr, DotStar expected)")
	}
}

// ruleC01R8: a token that every production of N has to consume is printed by N on all of its printed forms or on
// none of them (then a neighbour prints it, C01/R2). Printing it on some forms only — "the colon is optional in front
// of a sub-message" — yields text that the parser reads with another production: name {…} is not name: {…}.
func ruleC01R8(w *World, r *Report) {
	const rule = "C01/R8"
	r.rule(rule, "a constant keyword/punctuation consumed by an expect call that dominates every allocation of N is contained in the constant text of every printed form of SQL(N), or of none", 50)
	cat := w.Catalog()
	by := w.sitesByType()
	kinds := w.lexerKinds()
	for _, ns := range cat.Structs {
		sites := by[ns.Name]
		if len(sites) == 0 || strings.HasPrefix(ns.Name, "Bad") {
			continue
		}
		pm := w.PrintModel(ns)
		if pm == nil || len(pm.seqs) == 0 || pm.opaque {
			continue
		}
		// tokens required at every site
		var req map[string]bool
		for _, si := range sites {
			here := map[string]bool{}
			fn := si.al.Parent()
			for _, b := range fn.Blocks {
				for i, in := range b.Instrs {
					call, ok := in.(*ssa.Call)
					if !ok {
						continue
					}
					callee := call.Call.StaticCallee()
					if callee == nil || fnPkgPath(callee) != modRoot || len(call.Call.Args) != 2 || (callee.Name() != "expect" && callee.Name() != "expectKeywordLike") {
						continue
					}
					s, ok := constString(call.Call.Args[1])
					if !ok || (callee.Name() == "expect" && (!kinds[s] || strings.HasPrefix(s, "<") && strings.HasSuffix(s, ">") && len(s) > 2 && s != "<>")) {
						continue
					}
					ab := si.al.Block()
					if (b == ab && i < indexOf(ab, si.al)) || (b != ab && b.Dominates(ab)) {
						here[strings.ToUpper(s)] = true
					}
				}
			}
			if req == nil {
				req = here
			} else {
				for k := range req {
					if !here[k] {
						delete(req, k)
					}
				}
			}
		}
		construct := "required tokens of ast." + ns.Name + " on every printed form"
		if len(req) == 0 {
			continue
		}
		// words of each printed form (constant pieces only)
		var partial []string
		for tok := range req {
			with, without := 0, 0
			for _, seq := range pm.seqs {
				has := false
				for _, p := range seq {
					if p.kind != "const" && p.kind != "opt" && p.kind != "stropt" {
						continue
					}
					for _, wd := range sqlWords(p.text) {
						if wd == tok {
							has = true
						}
					}
				}
				if has {
					with++
				} else {
					without++
				}
			}
			if with > 0 && without > 0 {
				partial = append(partial, fmt.Sprintf("%q is printed on %d of %d forms", tok, with, with+without))
			}
		}
		sort.Strings(partial)
		if len(partial) > 0 {
			r.bad(rule, construct, w.pos(pm.fn.Pos()), fmt.Sprintf("every %s is parsed after consuming the token, but (*%s).SQL prints it on some of its forms only (%s): the other forms are read by another production", ns.Name, ns.Name, strings.Join(partial, "; ")))
		} else {
			r.ok(rule, construct, w.pos(pm.fn.Pos()), fmt.Sprintf("%d required token(s), each on all printed forms or on none", len(req)))
		}
	}
}
