package main

import (
	"encoding/json"
	"fmt"
	"io"
	"os"
	"os/exec"
	"path/filepath"
	"sort"
	"strings"
)

// Sensitivity audit (thorough tier): every recorded mutant of the property
// (/verif/mutants/<prop>/{break,keep}-*.patch and the confirmed changes under /verif/seeded/*/ that
// name the property) is applied to a scratch copy of the current working tree of the repository
// (under $TMPDIR, removed at once), the quick check is run on it, and the outcome is compared
// with the expectation: `break` mutants must be reported, `keep` mutants (behaviour-preserving
// rewrites) must leave the check silent. The result goes into the evidence. It never changes the
// verdict about /repo itself; a patch that no longer applies is skipped.

type auditResult struct {
	Patch    string `json:"patch"`
	Expected string `json:"expected"`
	Outcome  string `json:"outcome"`
	Rules    string `json:"rules_reported,omitempty"`
	OK       bool   `json:"as_expected"`
}

func copyTree(src, dst string) error {
	return filepath.Walk(src, func(p string, info os.FileInfo, err error) error {
		if err != nil {
			return err
		}
		rel, _ := filepath.Rel(src, p)
		if info.IsDir() {
			switch info.Name() {
			case ".git", "testdata", "docs", "images":
				if rel != "." {
					return filepath.SkipDir
				}
			}
			return os.MkdirAll(filepath.Join(dst, rel), 0o755)
		}
		if !info.Mode().IsRegular() {
			return nil
		}
		in, err := os.Open(p)
		if err != nil {
			return err
		}
		defer in.Close()
		out, err := os.Create(filepath.Join(dst, rel))
		if err != nil {
			return err
		}
		defer out.Close()
		_, err = io.Copy(out, in)
		return err
	})
}

func auditMutants(verifDir, repo, prop string) []auditResult {
	var patches [][2]string // path, expectation
	ms, _ := filepath.Glob(filepath.Join(verifDir, "mutants", prop, "*.patch"))
	sort.Strings(ms)
	for _, m := range ms {
		exp := "break"
		if strings.HasPrefix(filepath.Base(m), "keep-") {
			exp = "keep"
		}
		patches = append(patches, [2]string{m, exp})
	}
	seeded, _ := filepath.Glob(filepath.Join(verifDir, "seeded", "*", "meta.json"))
	sort.Strings(seeded)
	for _, meta := range seeded {
		b, err := os.ReadFile(meta)
		if err != nil {
			continue
		}
		var m struct {
			Property   string              `json:"property"`
			DetectedBy map[string][]string `json:"detected_by"`
		}
		if json.Unmarshal(b, &m) != nil {
			continue
		}
		exp := ""
		switch {
		case len(m.DetectedBy[prop]) > 0:
			exp = "break"
		case m.Property == prop:
			exp = "miss" // a documented miss of this property's check (DESIGN.md §7): expected to stay silent
		default:
			continue
		}
		p := filepath.Join(filepath.Dir(meta), "patch.diff")
		if _, err := os.Stat(p); err == nil {
			patches = append(patches, [2]string{p, exp})
		}
	}
	// the behaviour-preserving changes of the keep round written against this property (DESIGN.md §3.3): silence is
	// expected, except for the documented limits (meta.json lists the checks that still report)
	keeps, _ := filepath.Glob(filepath.Join(verifDir, "keeps", prop+"-k*", "meta.json"))
	sort.Strings(keeps)
	for _, meta := range keeps {
		b, err := os.ReadFile(meta)
		if err != nil {
			continue
		}
		var m struct {
			Alarms []string `json:"alarms"`
		}
		if json.Unmarshal(b, &m) != nil {
			continue
		}
		exp := "keep"
		for _, a := range m.Alarms {
			if a == prop {
				exp = "limit" // a false alarm that remains (DESIGN.md §6): recorded, not counted against the audit
			}
		}
		p := filepath.Join(filepath.Dir(meta), "patch.diff")
		if _, err := os.Stat(p); err == nil {
			patches = append(patches, [2]string{p, exp})
		}
	}
	exe, _ := os.Executable()
	var out []auditResult
	for _, pe := range patches {
		res := auditResult{Patch: strings.TrimPrefix(pe[0], verifDir+"/"), Expected: pe[1]}
		tmp, err := os.MkdirTemp("", "memecheck-audit-")
		if err != nil {
			res.Outcome = "skipped: " + err.Error()
			out = append(out, res)
			continue
		}
		func() {
			defer os.RemoveAll(tmp)
			scratch := filepath.Join(tmp, "repo")
			if err := copyTree(repo, scratch); err != nil {
				res.Outcome = "skipped: copy failed: " + err.Error()
				return
			}
			cmd := exec.Command("patch", "-p1", "-s", "--batch", "-i", pe[0])
			cmd.Dir = scratch
			if b, err := cmd.CombinedOutput(); err != nil {
				res.Outcome = "skipped: patch does not apply (" + strings.TrimSpace(strings.Split(string(b), "\n")[0]) + ")"
				return
			}
			outDir := filepath.Join(tmp, "out")
			os.MkdirAll(outDir, 0o755)
			c := exec.Command(exe, "-prop", prop, "-tier", "quick", "-repo", scratch)
			c.Env = append(os.Environ(), "VERIF_OUT="+outDir, "VERIF_DIR="+verifDir, "VERIF_VERBOSE=")
			b, err := c.CombinedOutput()
			code := 0
			if ee, ok := err.(*exec.ExitError); ok {
				code = ee.ExitCode()
			} else if err != nil {
				code = -1
			}
			rules := map[string]bool{}
			for _, line := range strings.Split(string(b), "\n") {
				if strings.HasPrefix(line, "VIOLATED ") || strings.HasPrefix(line, "UNDECIDED ") {
					f := strings.Fields(line)
					if len(f) > 1 {
						rules[f[1]] = true
					}
				}
				if strings.HasPrefix(line, "CHECKER-ERROR") {
					rules["checker-error"] = true
				}
			}
			res.Rules = strings.Join(sortedKeys(rules), ",")
			switch code {
			case 0:
				res.Outcome = "silent"
			case 1:
				res.Outcome = "reported"
			default:
				res.Outcome = fmt.Sprintf("checker exit %d", code)
			}
			res.OK = (pe[1] == "break" && code == 1) || (pe[1] == "keep" && code == 0) || (pe[1] == "miss" && code == 0) || pe[1] == "limit"
			if pe[1] == "miss" && code == 1 {
				res.Outcome += " (now reported: update meta.json with tools/seedmatrix.py)"
			}
		}()
		out = append(out, res)
	}
	return out
}
