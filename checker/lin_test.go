package main

import "testing"

func TestLinAssign(t *testing.T) {
	at := newAtomTable()
	P := at.get("P", "pos", false)
	N := at.get("N", "N", false)
	t1 := at.get("t1", "t1", false)
	i := at.get("i", "i", false)
	pp := at.get("P'", "pos'", false)
	s := emptyState().ge(linAtom(P), linConst(0)).ge(linAtom(N), linAtom(P).add(linAtom(i)))
	s = s.eq(linAtom(t1), linAtom(P))
	t.Log(at.showState(s))
	s = s.eq(linAtom(pp), linAtom(t1).add(linAtom(i)))
	t.Log(at.showState(s))
	s = s.eliminate(at, map[atomID]bool{P: true})
	t.Log(at.showState(s))
	s = s.renameAll(map[atomID]atomID{pp: P})
	t.Log(at.showState(s))
	if !s.proves(at, lfact{l: linAtom(N).sub(linAtom(P))}) {
		t.Fatal("N-P>=0 not proved")
	}
}
