package main

import (
	"fmt"
	"go/ast"
	"go/token"
	"go/types"
	"os"
	"path/filepath"
	"sort"
	"strings"

	"golang.org/x/tools/go/callgraph"
	"golang.org/x/tools/go/callgraph/cha"
	"golang.org/x/tools/go/callgraph/vta"
	"golang.org/x/tools/go/packages"
	"golang.org/x/tools/go/ssa"
	"golang.org/x/tools/go/ssa/ssautil"
)

const modRoot = "github.com/cloudspannerecosystem/memefish"

// World is the resolved program every rule works on: the type-checked packages of the
// repository's working tree, their syntax, the SSA form (generics instantiated) and a
// VTA call graph. Nothing of the repository is executed.
type World struct {
	RepoDir string
	Fset    *token.FileSet
	Pkgs    map[string]*packages.Package // by import path
	Prog    *ssa.Program
	SSAPkg  map[string]*ssa.Package
	AllFns  map[*ssa.Function]bool
	ModFns  []*ssa.Function // functions (incl. closures, instances) of the four core packages, sorted
	cg      *callgraph.Graph
	chaCG   *callgraph.Graph

	Mem, Ast, Tok, Char *packages.Package

	noret                map[*ssa.Function]bool
	catalog              *Catalog
	raise                *Raise
	tkai                 *TKAI
	value                *Value
	deref                *Deref
	posflow              *PosFlow
	printModels          map[string]*PrintModel
	vocab                map[*ssa.Function]map[string]bool
	siteCache            []*siteInfo
	recording, mayRecord map[*ssa.Function]bool
	advancing            map[*ssa.Function]bool
	lexDeep              *lbEngine
	tier                 string
	delimDone            bool
	delimCtx             int
	delimFail            []string
	mustAdv              map[*ssa.Function]bool
	mustAdvLeak          map[*ssa.Function]*ssa.BasicBlock
	constMaps            map[*ssa.Global]*constMapInfo
	cursorStores         map[string][2]int
	posSum               []resolvedArg
	openers              []commentForm
	openersDone          bool
	parenF               *ssa.Function
	parenExprIdx         int
	parenDone            bool
	lexProg              []*lbOb
	lexProgDone          bool
	posSumDone           bool
	posEndRaw            bool // (*File).Position stores its `end` parameter unchanged in Position.End
	tableDepth           int
	synonyms             map[string]string
	pkgInits             map[string]*concr
	pkgInitErr           map[string]string
}

func corePkg(path string) bool {
	switch path {
	case modRoot, modRoot + "/ast", modRoot + "/token", modRoot + "/char":
		return true
	}
	return false
}

func loadWorld(repo string) (*World, error) {
	env := append(os.Environ(), "GOFLAGS=-mod=mod", "GOPROXY=off", "GOSUMDB=off", "GOWORK=off", "GOTOOLCHAIN=local")
	cfg := &packages.Config{
		Mode: packages.LoadAllSyntax,
		Dir:  repo,
		Env:  env,
	}
	pkgs, err := packages.Load(cfg, "./...")
	if err != nil {
		return nil, fmt.Errorf("packages.Load: %v", err)
	}
	if len(pkgs) == 0 {
		return nil, fmt.Errorf("no packages loaded from %s", repo)
	}
	var errs []string
	packages.Visit(pkgs, nil, func(p *packages.Package) {
		for _, e := range p.Errors {
			errs = append(errs, e.Error())
		}
	})
	if len(errs) > 0 {
		return nil, fmt.Errorf("load/type-check errors: %s", strings.Join(errs, "; "))
	}
	w := &World{RepoDir: repo, Pkgs: map[string]*packages.Package{}, SSAPkg: map[string]*ssa.Package{}}
	packages.Visit(pkgs, nil, func(p *packages.Package) { w.Pkgs[p.PkgPath] = p })
	w.Fset = pkgs[0].Fset
	w.Mem, w.Ast, w.Tok, w.Char = w.Pkgs[modRoot], w.Pkgs[modRoot+"/ast"], w.Pkgs[modRoot+"/token"], w.Pkgs[modRoot+"/char"]
	for _, p := range []*packages.Package{w.Mem, w.Ast, w.Tok, w.Char} {
		if p == nil || p.Types == nil || len(p.Syntax) == 0 {
			return nil, fmt.Errorf("core package missing from load (need %s{,/ast,/token,/char})", modRoot)
		}
	}
	prog, _ := ssautil.AllPackages(pkgs, ssa.InstantiateGenerics)
	prog.Build()
	w.Prog = prog
	for _, sp := range prog.AllPackages() {
		w.SSAPkg[sp.Pkg.Path()] = sp
	}
	w.AllFns = ssautil.AllFunctions(prog)
	for fn := range w.AllFns {
		if fn.Blocks != nil && corePkg(fnPkgPath(fn)) {
			w.ModFns = append(w.ModFns, fn)
		}
	}
	sort.Slice(w.ModFns, func(i, j int) bool {
		a, b := w.ModFns[i], w.ModFns[j]
		if a.String() != b.String() {
			return a.String() < b.String()
		}
		return a.Pos() < b.Pos()
	})
	return w, nil
}

// fnPkgPath returns the import path of the package a function (or closure, or generic
// instance, or bound-method wrapper) belongs to.
func fnPkgPath(fn *ssa.Function) string {
	for f := fn; f != nil; f = f.Parent() {
		if f.Pkg != nil {
			return f.Pkg.Pkg.Path()
		}
		if o := f.Origin(); o != nil && o.Pkg != nil {
			return o.Pkg.Pkg.Path()
		}
		if obj := f.Object(); obj != nil && obj.Pkg() != nil {
			return obj.Pkg().Path()
		}
	}
	return ""
}

func (w *World) CG() *callgraph.Graph {
	if w.cg == nil {
		w.chaCG = cha.CallGraph(w.Prog)
		w.cg = vta.CallGraph(w.AllFns, w.chaCG)
	}
	return w.cg
}

// Callees resolves the possible callees of a call instruction: the static callee when there
// is one, otherwise the VTA call-graph edges of that site.
func (w *World) Callees(in ssa.CallInstruction) []*ssa.Function {
	if c := in.Common().StaticCallee(); c != nil {
		return []*ssa.Function{c}
	}
	if _, ok := in.Common().Value.(*ssa.Builtin); ok {
		return nil
	}
	var out []*ssa.Function
	if n := w.CG().Nodes[in.Parent()]; n != nil {
		for _, e := range n.Out {
			if e.Site == in {
				out = append(out, e.Callee.Func)
			}
		}
	}
	sort.Slice(out, func(i, j int) bool { return out[i].String() < out[j].String() })
	return out
}

func (w *World) pos(p token.Pos) string {
	if !p.IsValid() {
		return "-"
	}
	pp := w.Fset.Position(p)
	rel, err := filepath.Rel(w.RepoDir, pp.Filename)
	if err != nil || strings.HasPrefix(rel, "..") {
		rel = pp.Filename
	}
	return fmt.Sprintf("%s:%d", rel, pp.Line)
}

func (w *World) fileOf(p token.Pos) string {
	if !p.IsValid() {
		return ""
	}
	pp := w.Fset.Position(p)
	rel, err := filepath.Rel(w.RepoDir, pp.Filename)
	if err != nil {
		return pp.Filename
	}
	return rel
}

// memFunc finds a package-level function or method of a core package by name
// ("(*Parser).expect", "SplitRawStatements"); nil when it does not exist (an unresolved anchor).
func (w *World) fn(pkg *packages.Package, name string) *ssa.Function {
	sp := w.SSAPkg[pkg.PkgPath]
	if sp == nil {
		return nil
	}
	if strings.HasPrefix(name, "(") {
		// (*T).m or (T).m
		i := strings.Index(name, ").")
		recv, m := name[1:i], name[i+2:]
		ptr := strings.HasPrefix(recv, "*")
		recv = strings.TrimPrefix(recv, "*")
		obj := pkg.Types.Scope().Lookup(recv)
		if obj == nil {
			return nil
		}
		var t types.Type = obj.Type()
		if ptr {
			t = types.NewPointer(t)
		}
		sel := w.Prog.MethodSets.MethodSet(t).Lookup(pkg.Types, m)
		if sel == nil {
			return nil
		}
		return w.Prog.MethodValue(sel)
	}
	return sp.Func(name)
}

// syntaxFile returns the parsed file with the given base name of a package.
func syntaxFile(w *World, pkg *packages.Package, base string) *ast.File {
	for _, f := range pkg.Syntax {
		if filepath.Base(w.Fset.Position(f.Pos()).Filename) == base {
			return f
		}
	}
	return nil
}

// funcDecls maps every function declaration of a package to its types.Func.
func funcDecls(pkg *packages.Package) map[*types.Func]*ast.FuncDecl {
	m := map[*types.Func]*ast.FuncDecl{}
	for _, f := range pkg.Syntax {
		for _, d := range f.Decls {
			if fd, ok := d.(*ast.FuncDecl); ok {
				if obj, ok := pkg.TypesInfo.Defs[fd.Name].(*types.Func); ok {
					m[obj] = fd
				}
			}
		}
	}
	return m
}

func isNamed(t types.Type, pkgPath, name string) bool {
	if p, ok := t.(*types.Pointer); ok {
		t = p.Elem()
	}
	n, ok := t.(*types.Named)
	return ok && n.Obj().Name() == name && n.Obj().Pkg() != nil && n.Obj().Pkg().Path() == pkgPath
}

func namedOf(t types.Type) *types.Named {
	if p, ok := t.(*types.Pointer); ok {
		t = p.Elem()
	}
	n, _ := t.(*types.Named)
	return n
}
