package main

import (
	"fmt"
	"go/ast"
	"go/constant"
	"go/token"
	"go/types"
	"os"
	"sort"
	"strconv"
	"strings"

	"golang.org/x/tools/go/packages"
	"golang.org/x/tools/go/ssa"
)

func init() {
	register(&propDef{
		ID: "C14",
		Explanation: "TABLES: the parts of the lexical specification that the lexer holds as finite tables are read out of the source on every run and compared with reference tables written in the checker from the Spanner GoogleSQL lexical-structure documentation: " +
			"R1 reserved keywords (token.Keywords == documented list; unique, upper-case; KeywordsMap is built from it in init; every lookup key is derived through char.ToUpper), " +
			"R2 the escape decode table of consumeQuotedContent (letter -> byte; \\x 2 hex, \\u 4, \\U 8 hex digits with the surrogate/max-code-point bounds and only for strings; \\0-\\3 three octal digits; everything else raises), " +
			"R3 operator/punctuation recognition (for every assignment of an operator kind the matched bytes equal the kind's spelling and the number of bytes skipped equals its length; the set of kinds equals the reference list; longest match first), " +
			"R4 comment openers/terminators, R5 the dot-identifier trigger set, R6 character classifiers of package char. " +
			"Decides: table agreement. Does not decide: the number automaton, the prefix x quote matrix, rejection of exactly the invalid inputs (control flow over bytes).",
		Rules: []ruleFn{ruleC14R1, ruleC14R2, ruleC14R3, ruleC14R4, ruleC14R5, ruleC14R6, ruleC14R7, ruleC14R8, ruleC14R9, ruleC14R11, ruleC14R12, ruleC14R13, ruleC15R6, ruleC14R14},
	})
}

var refKeywords = strings.Fields(`ALL AND ANY ARRAY AS ASC ASSERT_ROWS_MODIFIED AT BETWEEN BY CASE CAST COLLATE CONTAINS CREATE CROSS CUBE CURRENT
DEFAULT DEFINE DESC DISTINCT ELSE END ENUM ESCAPE EXCEPT EXCLUDE EXISTS EXTRACT FALSE FETCH FOLLOWING FOR FROM FULL GRAPH_TABLE GROUP GROUPING GROUPS
HASH HAVING IF IGNORE IN INNER INTERSECT INTERVAL INTO IS JOIN LATERAL LEFT LIKE LIMIT LOOKUP MERGE NATURAL NEW NO NOT NULL NULLS OF ON OR ORDER OUTER
OVER PARTITION PRECEDING PROTO RANGE RECURSIVE RESPECT RIGHT ROLLUP ROWS SELECT SET SOME STRUCT TABLESAMPLE THEN TO TREAT TRUE UNBOUNDED UNION UNNEST
USING WHEN WHERE WINDOW WITH WITHIN`)

func findFuncDecl(pkg *packages.Package, recv, name string) *ast.FuncDecl {
	for _, f := range pkg.Syntax {
		for _, d := range f.Decls {
			fd, ok := d.(*ast.FuncDecl)
			if !ok || fd.Name.Name != name {
				continue
			}
			if recv == "" && fd.Recv == nil {
				return fd
			}
			if recv != "" && fd.Recv != nil {
				obj, _ := pkg.TypesInfo.Defs[fd.Name].(*types.Func)
				if obj != nil {
					if n := namedOf(obj.Type().(*types.Signature).Recv().Type()); n != nil && n.Obj().Name() == recv {
						return fd
					}
				}
			}
		}
	}
	return nil
}

func constVal(info *types.Info, e ast.Expr) constant.Value {
	if tv, ok := info.Types[e]; ok {
		return tv.Value
	}
	return nil
}

func constByte(info *types.Info, e ast.Expr) (byte, bool) {
	v := constVal(info, e)
	if v == nil || v.Kind() != constant.Int {
		return 0, false
	}
	i, ok := constant.Int64Val(v)
	if !ok || i < 0 || i > 255 {
		return 0, false
	}
	return byte(i), true
}

func constStr(info *types.Info, e ast.Expr) (string, bool) {
	v := constVal(info, e)
	if v == nil || v.Kind() != constant.String {
		return "", false
	}
	return constant.StringVal(v), true
}

func constI(info *types.Info, e ast.Expr) (int64, bool) {
	v := constVal(info, e)
	if v == nil || v.Kind() != constant.Int {
		return 0, false
	}
	return constant.Int64Val(v)
}

// ---------------------------------------------------------------------------------------------

func (w *World) keywordTable() ([]string, token.Pos, bool) {
	for _, f := range w.Tok.Syntax {
		for _, d := range f.Decls {
			gd, ok := d.(*ast.GenDecl)
			if !ok || gd.Tok != token.VAR {
				continue
			}
			for _, s := range gd.Specs {
				vs := s.(*ast.ValueSpec)
				for i, n := range vs.Names {
					if n.Name == "Keywords" && i < len(vs.Values) {
						cl, ok := vs.Values[i].(*ast.CompositeLit)
						if !ok {
							return nil, n.Pos(), false
						}
						var out []string
						for _, el := range cl.Elts {
							s, ok := constStr(w.Tok.TypesInfo, el)
							if !ok {
								return nil, n.Pos(), false
							}
							out = append(out, s)
						}
						return out, n.Pos(), true
					}
				}
			}
		}
	}
	return nil, token.NoPos, false
}

func ruleC14R1(w *World, r *Report) {
	const rule = "C14/R1"
	r.rule(rule, "token.Keywords equals the documented reserved-keyword list (unique, upper-case); after the package initialiser (followed by interpretation) KeywordsMap holds exactly its elements, and nothing writes it later; every KeywordsMap lookup key is derived from a char.ToUpper call; every keyword classifier (IsKeyword and whatever the lexer calls) says yes only on a hit and, followed by interpretation, yes for every keyword in any letter case", 3)
	kws, pos, ok := w.keywordTable()
	if !ok {
		r.errorf("token.Keywords is not a composite literal of string constants")
		return
	}
	where := w.pos(pos)
	got := map[string]int{}
	for _, k := range kws {
		got[k]++
	}
	ref := map[string]bool{}
	for _, k := range refKeywords {
		ref[k] = true
	}
	var missing, extra, dup, lower []string
	for k, n := range got {
		if !ref[k] {
			extra = append(extra, k)
		}
		if n > 1 {
			dup = append(dup, k)
		}
		if k != strings.ToUpper(k) {
			lower = append(lower, k)
		}
	}
	for k := range ref {
		if got[k] == 0 {
			missing = append(missing, k)
		}
	}
	sort.Strings(missing)
	sort.Strings(extra)
	sort.Strings(dup)
	if len(missing)+len(extra)+len(dup)+len(lower) > 0 {
		r.bad(rule, "token.Keywords (set)", where, fmt.Sprintf("differs from the documented reserved keywords: missing %v, extra %v, duplicated %v, not upper-case %v", missing, extra, dup, lower))
	} else {
		r.ok(rule, "token.Keywords (set)", where, fmt.Sprintf("%d keywords == documented list", len(kws)))
	}
	w.keywordClassifierRules(r, rule, kws)
}

// tokenInit: the package initialiser of package token, followed by interpretation (CONCR with stores, arrays, slices
// and maps): what its package-level tables hold when it returns.
func (w *World) tokenInit() (*concr, string) { return w.pkgInit(modRoot + "/token") }

// pkgInit: the package initialiser of a core package followed by interpretation (once per package).
func (w *World) pkgInit(path string) (*concr, string) {
	if w.pkgInits == nil {
		w.pkgInits = map[string]*concr{}
		w.pkgInitErr = map[string]string{}
	}
	if ci, ok := w.pkgInits[path]; ok {
		return ci, w.pkgInitErr[path]
	}
	sp := w.SSAPkg[path]
	if sp == nil || sp.Func("init") == nil {
		w.pkgInits[path], w.pkgInitErr[path] = nil, "package initialiser of "+path+" not found"
		return nil, w.pkgInitErr[path]
	}
	ci := w.newConcr()
	ci.heap = true
	ci.zeroGlobals = true
	out := ci.run(sp.Func("init"), nil, 0)
	ci.zeroGlobals = false
	if out.status != "return" {
		w.pkgInits[path], w.pkgInitErr[path] = nil, "the package initialiser of "+path+" could not be followed: "+out.status+" "+out.why
		return nil, w.pkgInitErr[path]
	}
	w.pkgInits[path] = ci
	return ci, ""
}

// keywordClassifierRules: KeywordsMap holds exactly Keywords after initialisation and is not written later; every lookup
// key is upper-cased; every function that answers "is s a keyword" answers yes only on a table hit (structure) and does
// answer yes for every keyword in every letter case (interpretation) — fast paths, helpers and tables of lengths included.
func (w *World) keywordClassifierRules(r *Report, rule string, kws []string) {
	tsp := w.SSAPkg[modRoot+"/token"]
	var kmap *ssa.Global
	if tsp != nil {
		kmap, _ = tsp.Members["KeywordsMap"].(*ssa.Global)
	}
	if kmap == nil {
		r.errorf("token.KeywordsMap not found")
		return
	}
	ci, err := w.tokenInit()
	if ci == nil {
		r.undecided(rule, "KeywordsMap after initialisation", w.pos(kmap.Pos()), err)
		return
	}
	// (1) contents
	cell := ci.globals[kmap]
	if cell == nil || cell.v.kind != cMapV {
		r.bad(rule, "KeywordsMap after initialisation", w.pos(kmap.Pos()), "the package initialiser does not leave a map in token.KeywordsMap")
		return
	}
	have := map[string]bool{}
	for _, k := range cell.v.mv.keys {
		if k.kind == cConst && k.c.Kind() == constant.String {
			have[constant.StringVal(k.c)] = true
		}
	}
	var missing, extra []string
	want := map[string]bool{}
	for _, k := range kws {
		want[k] = true
		if !have[k] {
			missing = append(missing, k)
		}
	}
	for k := range have {
		if !want[k] {
			extra = append(extra, k)
		}
	}
	sort.Strings(missing)
	sort.Strings(extra)
	if len(missing)+len(extra) > 0 || len(have) != len(cell.v.mv.e) {
		r.bad(rule, "KeywordsMap after initialisation", w.pos(kmap.Pos()), fmt.Sprintf("KeywordsMap does not hold exactly the elements of Keywords after the package initialiser: missing %v, extra %v", missing, extra))
	} else {
		r.ok(rule, "KeywordsMap after initialisation", w.pos(kmap.Pos()), fmt.Sprintf("the package initialiser (followed by interpretation) leaves exactly the %d elements of Keywords in it", len(have)))
	}
	// (2) not written afterwards; (3) every lookup key is upper-cased
	lookups := 0
	for _, fn := range w.ModFns {
		for _, b := range fn.Blocks {
			for _, in := range b.Instrs {
				switch in := in.(type) {
				case *ssa.MapUpdate:
					if ld, ok := isLoad(in.Map); ok && ld == ssa.Value(kmap) && !isInitFunc(fn) {
						r.bad(rule, "KeywordsMap written in "+funcName(fn), w.pos(in.Pos()), "KeywordsMap is updated outside the package initialiser")
					}
				case *ssa.Store:
					if in.Addr == ssa.Value(kmap) && !isInitFunc(fn) {
						r.bad(rule, "KeywordsMap assigned in "+funcName(fn), w.pos(in.Pos()), "KeywordsMap is replaced outside the package initialiser")
					}
				case *ssa.Lookup:
					if ld, ok := isLoad(in.X); ok && ld == ssa.Value(kmap) {
						lookups++
						if w.derivesFromCall(in.Index, modRoot+"/char", "ToUpper") {
							r.ok(rule, "KeywordsMap lookup in "+funcName(fn), w.pos(in.Pos()), "key derives from char.ToUpper(...)")
						} else {
							r.bad(rule, "KeywordsMap lookup in "+funcName(fn), w.pos(in.Pos()), "keyword lookup key is not normalised through char.ToUpper: reserved words would be case-sensitive")
						}
					}
				}
			}
		}
	}
	if lookups == 0 {
		r.errorf("no lookup in token.KeywordsMap found")
		return
	}
	// (4) the classifiers
	cls := w.keywordClassifiers(kmap)
	ik := w.fn(w.Tok, "IsKeyword")
	if ik == nil {
		r.errorf("token.IsKeyword not found")
		return
	}
	if !cls[ik] {
		r.bad(rule, "token.IsKeyword", w.pos(ik.Pos()), "IsKeyword neither looks its argument up in KeywordsMap nor asks a function that does")
	}
	var fns []*ssa.Function
	for f := range cls {
		fns = append(fns, f)
	}
	sort.Slice(fns, func(i, j int) bool { return funcName(fns[i]) < funcName(fns[j]) })
	for _, f := range fns {
		construct := "keyword classifier " + funcName(f)
		if why := w.classifierSound(f, kmap, cls); why != "" {
			r.bad(rule, construct, w.pos(f.Pos()), why+": QuoteSQLIdent and the lexer can disagree about what is reserved")
			continue
		}
		bad, und := w.classifierComplete(ci, f, kws)
		switch {
		case und != "":
			r.undecided(rule, construct, w.pos(f.Pos()), und)
		case bad != "":
			r.bad(rule, construct, w.pos(f.Pos()), bad)
		default:
			r.ok(rule, construct, w.pos(f.Pos()), fmt.Sprintf("answers yes only on a KeywordsMap hit of char.ToUpper(s) (structure), and — followed by interpretation with the initialised tables — yes for all %d keywords in upper, lower and mixed case and no for %d near-misses", len(kws), 3*len(kws)+1))
		}
	}
	// (5) the lexer classifies through the same table
	sites := 0
	for _, fn := range w.ModFns {
		if fnPkgPath(fn) != modRoot || !strings.HasSuffix(w.fileOf(fn.Pos()), "lexer.go") {
			continue
		}
		for _, b := range fn.Blocks {
			for _, in := range b.Instrs {
				switch in := in.(type) {
				case *ssa.Lookup:
					if ld, ok := isLoad(in.X); ok && ld == ssa.Value(kmap) {
						sites++
					}
				case *ssa.Call:
					if c := in.Call.StaticCallee(); c != nil && cls[c] {
						sites++
					}
				}
			}
		}
	}
	if sites == 0 {
		r.bad(rule, "keyword classification of the lexer", "lexer.go", "the lexer neither looks identifiers up in token.KeywordsMap nor calls a function that does: reserved words are not recognised from the table IsKeyword uses")
	} else {
		r.ok(rule, "keyword classification of the lexer", "lexer.go", fmt.Sprintf("%d site(s) use KeywordsMap or a classifier that does", sites))
	}
}

// keywordClassifiers: functions with a string parameter and a boolean result that look up KeywordsMap or call one that does.
func (w *World) keywordClassifiers(kmap *ssa.Global) map[*ssa.Function]bool {
	cls := map[*ssa.Function]bool{}
	shape := func(fn *ssa.Function) bool {
		if fn.Signature.Recv() != nil || fn.Parent() != nil {
			return false
		}
		hasStr, hasBool := false, false
		for _, p := range fn.Params {
			if isStringType(p.Type()) {
				hasStr = true
			}
		}
		res := fn.Signature.Results()
		for i := 0; i < res.Len(); i++ {
			if isBoolType(res.At(i).Type()) {
				hasBool = true
			}
		}
		return hasStr && hasBool
	}
	for changed := true; changed; {
		changed = false
		for _, fn := range w.ModFns {
			if cls[fn] || !shape(fn) {
				continue
			}
			for _, b := range fn.Blocks {
				for _, in := range b.Instrs {
					switch in := in.(type) {
					case *ssa.Lookup:
						if ld, ok := isLoad(in.X); ok && ld == ssa.Value(kmap) {
							cls[fn], changed = true, true
						}
					case *ssa.Call:
						// a function that only relays the verdict of a classifier (IsKeyword calling LookupKeyword); one that
						// combines it with other conditions (needQuoteSQLIdent) is a user, not a classifier
						if c := in.Call.StaticCallee(); c != nil && cls[c] && !cls[fn] {
							cls[fn] = true
							if w.classifierSound(fn, kmap, cls) == "" {
								changed = true
							} else {
								delete(cls, fn)
							}
						}
					}
				}
			}
		}
	}
	return cls
}

// classifierSound: every way for the boolean result to be true goes through a hit of KeywordsMap[char.ToUpper(param)]
// (or the yes of another classifier asked about the same parameter).
func (w *World) classifierSound(fn *ssa.Function, kmap *ssa.Global, cls map[*ssa.Function]bool) string {
	var param *ssa.Parameter
	for _, p := range fn.Params {
		if isStringType(p.Type()) {
			if param != nil {
				return "two string parameters"
			}
			param = p
		}
	}
	bi := -1
	res := fn.Signature.Results()
	for i := 0; i < res.Len(); i++ {
		if isBoolType(res.At(i).Type()) {
			bi = i
		}
	}
	aboutParam := func(v ssa.Value) bool {
		// char.ToUpper(param), possibly converted
		c := stripToCall(v)
		return c != nil && len(c.Call.Args) == 1 && c.Call.Args[0] == ssa.Value(param) && w.derivesFromCall(v, modRoot+"/char", "ToUpper")
	}
	// hit values: Extract #1 of a KeywordsMap lookup about the parameter, or the boolean result of a classifier call on the parameter
	isHit := func(v ssa.Value) bool {
		ex, ok := v.(*ssa.Extract)
		if !ok {
			if c, ok := v.(*ssa.Call); ok {
				if cc := c.Call.StaticCallee(); cc != nil && cls[cc] && len(c.Call.Args) == 1 && c.Call.Args[0] == ssa.Value(param) {
					return true
				}
			}
			return false
		}
		switch t := ex.Tuple.(type) {
		case *ssa.Lookup:
			ld, ok := isLoad(t.X)
			return ok && ld == ssa.Value(kmap) && ex.Index == 1 && aboutParam(t.Index)
		case *ssa.Call:
			cc := t.Call.StaticCallee()
			if cc == nil || !cls[cc] || len(t.Call.Args) != 1 || t.Call.Args[0] != ssa.Value(param) {
				return false
			}
			return isBoolType(ex.Type())
		}
		return false
	}
	// blocks reached only under a hit
	underHit := func(b *ssa.BasicBlock) bool {
		for d := b; d != nil; d = d.Idom() {
			p := d.Idom()
			if p == nil {
				return false
			}
			iff, ok := p.Instrs[len(p.Instrs)-1].(*ssa.If)
			if !ok {
				continue
			}
			if isHit(iff.Cond) && p.Succs[0] == d && len(d.Preds) == 1 {
				return true
			}
			if u, ok := iff.Cond.(*ssa.UnOp); ok && u.Op == token.NOT && isHit(u.X) && p.Succs[1] == d && len(d.Preds) == 1 {
				return true
			}
		}
		return false
	}
	var trueOnlyOnHit func(v ssa.Value, at *ssa.BasicBlock, seen map[ssa.Value]bool) bool
	trueOnlyOnHit = func(v ssa.Value, at *ssa.BasicBlock, seen map[ssa.Value]bool) bool {
		if b, ok := constBool(v); ok {
			return !b || underHit(at)
		}
		if isHit(v) {
			return true
		}
		if underHit(at) {
			return true
		}
		if phi, ok := v.(*ssa.Phi); ok {
			if seen[v] {
				return true
			}
			seen[v] = true
			for i, e := range phi.Edges {
				if !trueOnlyOnHit(e, phi.Block().Preds[i], seen) {
					return false
				}
			}
			return true
		}
		return false
	}
	n := 0
	for _, b := range fn.Blocks {
		ret, ok := b.Instrs[len(b.Instrs)-1].(*ssa.Return)
		if !ok || bi >= len(ret.Results) {
			continue
		}
		n++
		if !trueOnlyOnHit(ret.Results[bi], b, map[ssa.Value]bool{}) {
			return "the answer returned at " + w.pos(ret.Pos()) + " can be yes without a hit of KeywordsMap[char.ToUpper(" + param.Name() + ")]"
		}
	}
	if n == 0 {
		return "no return found"
	}
	return ""
}

func mixedCase(s string) string {
	b := []byte(strings.ToLower(s))
	for i := 0; i < len(b); i += 2 {
		if 'a' <= b[i] && b[i] <= 'z' {
			b[i] -= 'a' - 'A'
		}
	}
	return string(b)
}

// classifierComplete: followed by interpretation with the tables the package initialiser built, the function says yes for
// every keyword in three spellings (and returns the keyword's kind when it returns one) and no for near-misses.
func (w *World) classifierComplete(init *concr, fn *ssa.Function, kws []string) (bad, undecided string) {
	call := func(sv string) (yes bool, kind string, hasKind bool, und string) {
		ci := w.newConcr()
		ci.heap = true
		ci.globals = init.globals
		var args []cval
		for _, p := range fn.Params {
			if isStringType(p.Type()) {
				args = append(args, cval{kind: cConst, c: constant.MakeString(sv)})
			} else {
				args = append(args, cval{})
			}
		}
		out := ci.run(fn, args, 0)
		if out.status == "panic" {
			return false, "", false, ""
		}
		if out.status != "return" {
			return false, "", false, fmt.Sprintf("%s(%q) could not be followed: %s", funcName(fn), sv, out.why)
		}
		found := false
		for _, v := range out.vals {
			if v.kind == cConst && v.c.Kind() == constant.Bool {
				yes, found = constant.BoolVal(v.c), true
			}
			if v.kind == cConst && v.c.Kind() == constant.String {
				kind, hasKind = constant.StringVal(v.c), true
			}
		}
		if !found {
			return false, "", false, fmt.Sprintf("%s(%q) does not return a known boolean", funcName(fn), sv)
		}
		return
	}
	isKw := map[string]bool{}
	for _, k := range kws {
		isKw[k] = true
	}
	for _, k := range kws {
		for _, sp := range []string{k, strings.ToLower(k), mixedCase(k)} {
			yes, kind, hasKind, und := call(sp)
			if und != "" {
				return "", und
			}
			if !yes {
				return fmt.Sprintf("%s(%q) says no (followed by interpretation: a fast path, a length table or a helper rejects the keyword %s)", funcName(fn), sp, k), ""
			}
			if hasKind && kind != k {
				return fmt.Sprintf("%s(%q) returns the kind %q, not %s", funcName(fn), sp, kind, k), ""
			}
		}
		for _, sp := range []string{k + "X", "X" + k, k[:len(k)-1]} {
			if isKw[strings.ToUpper(sp)] {
				continue
			}
			yes, _, _, und := call(sp)
			if und != "" {
				return "", und
			}
			if yes {
				return fmt.Sprintf("%s(%q) says yes for a word that is not reserved", funcName(fn), sp), ""
			}
		}
	}
	if yes, _, _, und := call(""); und != "" {
		return "", und
	} else if yes {
		return funcName(fn) + `("") says yes`, ""
	}
	return "", ""
}

// derivesFromCall: v is (a conversion of) the result of a call to pkg.name.
func (w *World) derivesFromCall(v ssa.Value, pkg, name string) bool {
	for {
		switch x := v.(type) {
		case *ssa.ChangeType:
			v = x.X
		case *ssa.Convert:
			v = x.X
		case *ssa.Call:
			c := x.Call.StaticCallee()
			return c != nil && c.Pkg != nil && c.Pkg.Pkg.Path() == pkg && c.Name() == name
		default:
			return false
		}
	}
}

// ---------------------------------------------------------------------------------------------
// R2 escape table

type escFacts struct {
	simple  map[byte]string // escape letter -> decoded byte (as string) ; "=" means the letter itself
	complex map[byte]string // escape letter -> description of the numeric form
	deflt   string
}

func ruleC14R2(w *World, r *Report) {
	const rule = "C14/R2"
	r.rule(rule, "escape decode table of the lexer == specification: \\a\\b\\f\\n\\r\\t\\v -> control bytes; \\\\ \\? \\\" \\' \\` -> themselves; \\x/\\X 2 hex digits (8 bit); \\u 4 / \\U 8 hex digits (32 bit), strings and identifiers only, surrogates and > 0x10FFFF rejected; \\0-\\3 + 2 octal digits (8 bit); any other escape raises", 10)
	fd := findFuncDecl(w.Mem, "Lexer", "consumeQuotedContent")
	if fd == nil {
		r.errorf("(*Lexer).consumeQuotedContent not found")
		return
	}
	info := w.Mem.TypesInfo
	// the escape switch: a switch with a byte-typed tag whose clauses list character constants incl. 'a' and 'n'
	var sw *ast.SwitchStmt
	ast.Inspect(fd.Body, func(n ast.Node) bool {
		s, ok := n.(*ast.SwitchStmt)
		if !ok || s.Tag == nil {
			return true
		}
		has := map[byte]bool{}
		for _, cc := range s.Body.List {
			for _, e := range cc.(*ast.CaseClause).List {
				if b, ok := constByte(info, e); ok {
					has[b] = true
				}
			}
		}
		if has['n'] && has['t'] && has['\\'] {
			sw = s
		}
		return true
	})
	if sw == nil {
		r.errorf("escape switch not found in consumeQuotedContent")
		return
	}
	tagObj := types.Object(nil)
	if id, ok := sw.Tag.(*ast.Ident); ok {
		tagObj = info.Uses[id]
	}
	wantSimple := map[byte]byte{'a': '\a', 'b': '\b', 'f': '\f', 'n': '\n', 'r': '\r', 't': '\t', 'v': '\v', '\\': '\\', '?': '?', '"': '"', '\'': '\'', '`': '`'}
	seen := map[byte]bool{}
	hasDefault := false
	for _, c := range sw.Body.List {
		cc := c.(*ast.CaseClause)
		if cc.List == nil {
			hasDefault = true
			if raisesOnly(info, cc.Body) {
				r.ok(rule, "escape default", w.pos(cc.Pos()), "unknown escapes raise (or set hasError in recovery mode)")
			} else {
				r.bad(rule, "escape default", w.pos(cc.Pos()), "the default arm of the escape switch accepts unknown escape letters")
			}
			continue
		}
		var letters []byte
		for _, e := range cc.List {
			b, ok := constByte(info, e)
			if !ok {
				r.undecided(rule, "escape case "+exprText(w.Fset, e), w.pos(e.Pos()), "case value is not a character constant")
				continue
			}
			letters = append(letters, b)
		}
		for _, b := range letters {
			construct := fmt.Sprintf("escape \\%s", printable(b))
			if seen[b] {
				r.bad(rule, construct, w.pos(cc.Pos()), "escape letter listed twice")
				continue
			}
			seen[b] = true
			if want, ok := wantSimple[b]; ok {
				got, how := simpleAppend(info, cc.Body, tagObj, b)
				switch {
				case how != "":
					r.bad(rule, construct, w.pos(cc.Pos()), "arm is not a single append of the decoded byte: "+how)
				case got != want:
					r.bad(rule, construct, w.pos(cc.Pos()), fmt.Sprintf("decodes to %q, the specification says %q", got, want))
				default:
					r.ok(rule, construct, w.pos(cc.Pos()), fmt.Sprintf("decodes to %q", got))
				}
				continue
			}
			switch b {
			case 'x', 'X':
				checkNumericEscape(w, r, rule, construct, cc, 2, 16, 8, 0, false)
			case 'u':
				checkNumericEscape(w, r, rule, construct, cc, 4, 16, 32, 0, true)
			case 'U':
				checkNumericEscape(w, r, rule, construct, cc, 8, 16, 32, 0, true)
			case '0', '1', '2', '3':
				checkNumericEscape(w, r, rule, construct, cc, 2, 8, 8, 1, false)
			default:
				r.bad(rule, construct, w.pos(cc.Pos()), "escape letter is not part of the specification")
			}
		}
	}
	for _, b := range []byte("abfnrtv\\?\"'`xXuU0123") {
		if !seen[b] {
			r.bad(rule, fmt.Sprintf("escape \\%s", printable(b)), w.pos(sw.Pos()), "escape required by the specification has no arm in the lexer")
		}
	}
	if !hasDefault {
		r.bad(rule, "escape default", w.pos(sw.Pos()), "escape switch has no default arm: unknown escapes are silently dropped")
	}
}

func printable(b byte) string {
	if b >= 0x21 && b < 0x7f {
		return string(b)
	}
	return fmt.Sprintf("0x%02x", b)
}

// raisesOnly: statement list consists of `if noPanic { hasError = true; continue }` style recovery and a raise.
func raisesOnly(info *types.Info, body []ast.Stmt) bool {
	if len(body) == 0 {
		return false
	}
	last := body[len(body)-1]
	es, ok := last.(*ast.ExprStmt)
	if !ok {
		return false
	}
	call, ok := es.X.(*ast.CallExpr)
	if !ok {
		return false
	}
	name := ""
	switch f := call.Fun.(type) {
	case *ast.SelectorExpr:
		name = f.Sel.Name
	case *ast.Ident:
		name = f.Name
	}
	return strings.HasPrefix(name, "panic")
}

// simpleAppend: body is `content = append(content, K)`; returns K.
func simpleAppend(info *types.Info, body []ast.Stmt, tag types.Object, letter byte) (byte, string) {
	if len(body) != 1 {
		return 0, fmt.Sprintf("%d statements", len(body))
	}
	as, ok := body[0].(*ast.AssignStmt)
	if !ok || len(as.Rhs) != 1 {
		return 0, "not an assignment"
	}
	call, ok := as.Rhs[0].(*ast.CallExpr)
	if !ok || len(call.Args) != 2 {
		return 0, "not append(content, byte)"
	}
	if id, ok := call.Fun.(*ast.Ident); !ok || info.Uses[id] != types.Universe.Lookup("append") {
		return 0, "not append"
	}
	if id, ok := call.Args[1].(*ast.Ident); ok && tag != nil && info.Uses[id] == tag {
		return letter, ""
	}
	b, ok := constByte(info, call.Args[1])
	if !ok {
		return 0, "appended value is not a constant"
	}
	return b, ""
}

// checkNumericEscape verifies digit count, base, bit size and cursor advance of a numeric escape arm.
func checkNumericEscape(w *World, r *Report, rule, construct string, cc *ast.CaseClause, digits int64, base, bits int64, back int64, unicodeOnly bool) {
	info := w.Mem.TypesInfo
	var loopBounds []int64
	var parseArgs [][2]int64
	var advances []int64
	var sliceWidths []string
	surrogate, surrLo, surrHi := false, false, false
	maxCP := false
	unicodeGuard := false
	sizeVals := map[int64]bool{}
	nAppend, rawByteAppend, encodes := 0, false, false
	// then-branches of `x < 0x80` / `x <= 0x7f`: a single-byte append is the UTF-8 encoding there
	var asciiGuarded [][2]token.Pos
	ast.Inspect(cc, func(n ast.Node) bool {
		if is, ok := n.(*ast.IfStmt); ok {
			if be, ok := is.Cond.(*ast.BinaryExpr); ok {
				if v, ok := constI(info, be.Y); ok && ((be.Op == token.LSS && v == 0x80) || (be.Op == token.LEQ && v == 0x7f)) {
					asciiGuarded = append(asciiGuarded, [2]token.Pos{is.Body.Pos(), is.Body.End()})
				}
			}
		}
		return true
	})
	ast.Inspect(cc, func(n ast.Node) bool {
		switch n := n.(type) {
		case *ast.ForStmt:
			if be, ok := n.Cond.(*ast.BinaryExpr); ok && be.Op == token.LSS {
				if v, ok := constI(info, be.Y); ok {
					loopBounds = append(loopBounds, v)
				} else {
					loopBounds = append(loopBounds, -1) // variable bound (size)
				}
			}
		case *ast.CallExpr:
			// the digit loop in a helper of the lexer: l.countDigits(i, N, char.IsHexDigit) with `for j < n && … { j++ }` inside
			if sel, ok := n.Fun.(*ast.SelectorExpr); ok {
				if fobj, ok := info.Uses[sel.Sel].(*types.Func); ok && fobj.Pkg() == w.Mem.Types {
					if hd := findFuncDecl(w.Mem, "Lexer", fobj.Name()); hd != nil && hd.Body != nil {
						var pnames []string
						for _, f := range hd.Type.Params.List {
							for _, nm := range f.Names {
								pnames = append(pnames, nm.Name)
							}
						}
						bounded := map[string]bool{}
						ast.Inspect(hd.Body, func(m ast.Node) bool {
							if fs, ok := m.(*ast.ForStmt); ok && fs.Cond != nil {
								ast.Inspect(fs.Cond, func(c ast.Node) bool {
									if be, ok := c.(*ast.BinaryExpr); ok && be.Op == token.LSS {
										if id, ok := ast.Unparen(be.Y).(*ast.Ident); ok {
											bounded[id.Name] = true
										}
									}
									return true
								})
							}
							return true
						})
						hasPred := false
						for _, a := range n.Args {
							if tv, ok := info.Types[a]; ok {
								if _, isFn := tv.Type.Underlying().(*types.Signature); isFn {
									hasPred = true
								}
							}
						}
						for i, a := range n.Args {
							if i < len(pnames) && bounded[pnames[i]] && hasPred {
								if v, ok := constI(info, a); ok {
									loopBounds = append(loopBounds, v)
								} else {
									loopBounds = append(loopBounds, -1)
								}
							}
						}
					}
				}
			}
			if id, ok := n.Fun.(*ast.Ident); ok && id.Name == "append" && bits == 32 {
				if _, isBuiltin := info.Uses[id].(*types.Builtin); isBuiltin {
					nAppend++
					asciiOnly := false
					for _, g := range asciiGuarded {
						if g[0] <= n.Pos() && n.End() <= g[1] {
							asciiOnly = true
						}
					}
					if asciiOnly {
						// below utf8.RuneSelf the encoding is the byte itself
					} else if !n.Ellipsis.IsValid() {
						rawByteAppend = true
					} else if len(n.Args) == 2 {
						if sl, ok := n.Args[1].(*ast.SliceExpr); !ok || sl.Low != nil {
							rawByteAppend = true
						}
					}
				}
			}
			if sel, ok := n.Fun.(*ast.SelectorExpr); ok && sel.Sel.Name == "EncodeRune" || ok && sel.Sel.Name == "AppendRune" {
				encodes = true
				if sel.Sel.Name == "AppendRune" && bits == 32 {
					nAppend++ // utf8.AppendRune(content, r) encodes and appends in one step
				}
			}
			if sel, ok := n.Fun.(*ast.SelectorExpr); ok && sel.Sel.Name == "ParseUint" && len(n.Args) == 3 {
				b, _ := constI(info, n.Args[1])
				s, _ := constI(info, n.Args[2])
				parseArgs = append(parseArgs, [2]int64{b, s})
				if inner, ok := n.Args[0].(*ast.CallExpr); ok && len(inner.Args) == 2 {
					sliceWidths = append(sliceWidths, exprText(w.Fset, inner.Args[0])+".."+exprText(w.Fset, inner.Args[1]))
				}
			}
		case *ast.AssignStmt:
			if n.Tok == token.ADD_ASSIGN && len(n.Rhs) == 1 {
				if v, ok := constI(info, n.Rhs[0]); ok {
					advances = append(advances, v)
				} else {
					advances = append(advances, -1)
				}
			}
			if (n.Tok == token.DEFINE || n.Tok == token.ASSIGN) && len(n.Lhs) == 1 && len(n.Rhs) == 1 {
				if id, ok := n.Lhs[0].(*ast.Ident); ok && id.Name == "size" {
					if v, ok := constI(info, n.Rhs[0]); ok {
						sizeVals[v] = true
					}
				}
			}
		case *ast.BinaryExpr:
			if v, ok := constI(info, n.X); ok && v == 0xD800 && n.Op == token.LEQ {
				surrLo = true
			}
			if v, ok := constI(info, n.Y); ok && v == 0xDFFF && n.Op == token.LEQ {
				surrHi = true
			}
			surrogate = surrLo && surrHi
			if v, ok := constI(info, n.X); ok && v == 0x10FFFF && n.Op == token.LSS {
				maxCP = true
			}
			if v, ok := constI(info, n.Y); ok && v == 0x10FFFF && n.Op == token.GTR {
				maxCP = true
			}
		case *ast.IfStmt:
			if un, ok := n.Cond.(*ast.UnaryExpr); ok && un.Op == token.NOT {
				if id, ok := un.X.(*ast.Ident); ok {
					if v, ok := info.Uses[id].(*types.Var); ok && v.Name() == "unicode" {
						unicodeGuard = raisesOnly(info, n.Body.List)
					}
				}
			}
		}
		return true
	})
	var problems []string
	if bits == 32 {
		switch {
		case !encodes:
			problems = append(problems, "the code point is not UTF-8 encoded (no utf8.EncodeRune / AppendRune in the arm)")
		case rawByteAppend:
			problems = append(problems, "some path appends the code point as a single byte instead of the bytes utf8.EncodeRune produced: \\u0080..\\u00ff decode to invalid UTF-8, while the quoting functions emit exactly these escapes for the non-printable characters of that range")
		case nAppend == 0:
			problems = append(problems, "nothing is appended in the arm")
		}
	}
	// digit loop
	okLoop := false
	for _, b := range loopBounds {
		if b == digits || (b == -1 && sizeVals[digits]) {
			okLoop = true
		}
	}
	if !okLoop {
		problems = append(problems, fmt.Sprintf("no digit-checking loop over %d digits (bounds %v, size values %v)", digits, loopBounds, keysOf(sizeVals)))
	}
	okParse := false
	for _, p := range parseArgs {
		if p[0] == base && p[1] == bits {
			okParse = true
		}
	}
	if !okParse {
		problems = append(problems, fmt.Sprintf("no strconv.ParseUint(_, %d, %d) (found %v)", base, bits, parseArgs))
	}
	okAdv := false
	for _, a := range advances {
		if a == digits || (a == -1 && sizeVals[digits]) {
			okAdv = true
		}
	}
	if !okAdv {
		problems = append(problems, fmt.Sprintf("cursor is not advanced by %d after the digits (advances %v)", digits, advances))
	}
	if unicodeOnly {
		if !surrogate || !maxCP {
			problems = append(problems, "surrogate range 0xD800-0xDFFF / maximum 0x10FFFF is not rejected")
		}
		if !unicodeGuard {
			problems = append(problems, "not restricted to string/identifier literals (`if !unicode { raise }` missing)")
		}
		if len(sizeVals) > 0 && !(sizeVals[4] && sizeVals[8]) {
			problems = append(problems, fmt.Sprintf("digit counts for \\u/\\U are %v, want 4 and 8", keysOf(sizeVals)))
		}
	}
	if back == 1 {
		found := false
		for _, s := range sliceWidths {
			if strings.Contains(s, "i - 1") || strings.Contains(s, "i-1") {
				found = true
			}
		}
		if !found {
			problems = append(problems, "octal value is not parsed from the escape letter itself plus two digits (slice "+strings.Join(sliceWidths, ",")+")")
		}
	}
	if len(problems) > 0 {
		r.bad(rule, construct, w.pos(cc.Pos()), strings.Join(problems, "; "))
	} else {
		r.ok(rule, construct, w.pos(cc.Pos()), fmt.Sprintf("%d digits, base %d, %d bits", digits+back, base, bits))
	}
}

func keysOf(m map[int64]bool) []int64 {
	var out []int64
	for k := range m {
		out = append(out, k)
	}
	sort.Slice(out, func(i, j int) bool { return out[i] < out[j] })
	return out
}

// ---------------------------------------------------------------------------------------------
// R3 operators

var refOperators = []string{"<<", "<=", "<>", ">>", ">=", "+=", "-=", "->", "=>", "|>", "||", "!=", "@@",
	"(", ")", "{", "}", ";", ",", "[", "]", "~", "*", "/", "&", "^", "%", ":", "?", "\\", "$", ".", "<", ">", "+", "-", "=", "|", "!", "@"}

type opState struct {
	matched map[int]byte // byte offsets known on this path
	skipped int
}

func ruleC14R3(w *World, r *Report) {
	const rule = "C14/R3"
	r.rule(rule, "in consumeToken every assignment of an operator/punctuation kind happens on a path whose matched bytes spell that kind and that has skipped exactly len(kind) bytes; two-byte tests precede the one-byte fall-back; the set of kinds equals the reference operator list", 15)
	fd := findFuncDecl(w.Mem, "Lexer", "consumeToken")
	if fd == nil {
		r.errorf("(*Lexer).consumeToken not found")
		return
	}
	info := w.Mem.TypesInfo
	named := map[string]bool{}
	for _, n := range w.Tok.Types.Scope().Names() {
		if c, ok := w.Tok.Types.Scope().Lookup(n).(*types.Const); ok && strings.HasPrefix(n, "Token") && c.Val().Kind() == constant.String {
			named[constant.StringVal(c.Val())] = true
		}
	}
	// find the switch over peek(0)
	var sw *ast.SwitchStmt
	for _, st := range fd.Body.List {
		if s, ok := st.(*ast.SwitchStmt); ok && s.Tag != nil {
			if call, ok := s.Tag.(*ast.CallExpr); ok {
				if sel, ok := call.Fun.(*ast.SelectorExpr); ok && sel.Sel.Name == "peek" {
					sw = s
				}
			}
		}
	}
	if sw == nil {
		r.errorf("switch l.peek(0) not found in consumeToken")
		return
	}
	gotKinds := map[string]bool{}
	var walk func(stmts []ast.Stmt, st opState, first byte)
	assign := func(pos token.Pos, kind string, st opState) {
		if named[kind] && kind != "<>" {
			return
		}
		gotKinds[kind] = true
		construct := fmt.Sprintf("kind %q", kind)
		spelled := make([]byte, 0, len(kind))
		okSpell := true
		for i := 0; i < len(kind); i++ {
			b, known := st.matched[i]
			if !known || b != kind[i] {
				okSpell = false
			}
			spelled = append(spelled, b)
		}
		switch {
		case !okSpell:
			r.bad(rule, construct, w.pos(pos), fmt.Sprintf("kind %q is assigned on a path whose matched bytes are %q", kind, matchedString(st.matched)))
		case st.skipped != len(kind):
			r.bad(rule, construct, w.pos(pos), fmt.Sprintf("kind %q is assigned after skipping %d byte(s)", kind, st.skipped))
		case len(st.matched) > len(kind):
			r.bad(rule, construct, w.pos(pos), fmt.Sprintf("kind %q is assigned although a longer match %q was established", kind, matchedString(st.matched)))
		default:
			r.ok(rule, construct, w.pos(pos), fmt.Sprintf("matched %q, skipped %d", string(spelled), st.skipped))
		}
	}
	cloneSt := func(s opState) opState {
		m := map[int]byte{}
		for k, v := range s.matched {
			m[k] = v
		}
		return opState{m, s.skipped}
	}
	// condition l.peekIs(i, c)
	peekIs := func(e ast.Expr) (int, byte, bool) {
		call, ok := e.(*ast.CallExpr)
		if !ok || len(call.Args) != 2 {
			return 0, 0, false
		}
		sel, ok := call.Fun.(*ast.SelectorExpr)
		if !ok || sel.Sel.Name != "peekIs" {
			return 0, 0, false
		}
		i, ok1 := constI(info, call.Args[0])
		c, ok2 := constByte(info, call.Args[1])
		return int(i), c, ok1 && ok2
	}
	walk = func(stmts []ast.Stmt, st opState, first byte) {
		for _, s := range stmts {
			switch s := s.(type) {
			case *ast.ExprStmt:
				if call, ok := s.X.(*ast.CallExpr); ok {
					if sel, ok := call.Fun.(*ast.SelectorExpr); ok {
						switch sel.Sel.Name {
						case "skip":
							st.skipped++
						case "skipN":
							if n, ok := constI(info, call.Args[0]); ok {
								st.skipped += int(n)
							} else {
								st.skipped = -1000
							}
						}
					}
				}
			case *ast.AssignStmt:
				if len(s.Lhs) == 1 && len(s.Rhs) == 1 {
					if sel, ok := s.Lhs[0].(*ast.SelectorExpr); ok && sel.Sel.Name == "Kind" {
						if k, ok := constStr(info, s.Rhs[0]); ok {
							assign(s.Pos(), k, st)
						} else if conv, ok := s.Rhs[0].(*ast.CallExpr); ok && strings.Contains(exprText(w.Fset, conv), "skip()") {
							// TokenKind([]byte{l.skip()}): the single-byte punctuation list
							st2 := cloneSt(st)
							st2.skipped++
							assign(s.Pos(), string(first), st2)
						}
					}
				}
			case *ast.IfStmt:
				if i, c, ok := peekIs(s.Cond); ok {
					st2 := cloneSt(st)
					st2.matched[i] = c
					walk(s.Body.List, st2, first)
				} else {
					walk(s.Body.List, cloneSt(st), first)
				}
				if s.Else != nil {
					if blk, ok := s.Else.(*ast.BlockStmt); ok {
						walk(blk.List, cloneSt(st), first)
					}
				}
				// if the body ends in return, the code after is the else side: nothing to add to state
			case *ast.SwitchStmt:
				if s.Tag == nil {
					// longest match first: every clause with a peekIs precedes the default
					sawDefault := false
					for _, c := range s.Body.List {
						cc := c.(*ast.CaseClause)
						if cc.List == nil {
							sawDefault = true
							walk(cc.Body, cloneSt(st), first)
							continue
						}
						if sawDefault {
							r.bad(rule, fmt.Sprintf("order of cases after %q", string(first)), w.pos(cc.Pos()), "a two-byte test follows the one-byte default")
						}
						st2 := cloneSt(st)
						if len(cc.List) == 1 {
							if i, c, ok := peekIs(cc.List[0]); ok {
								st2.matched[i] = c
							}
						}
						walk(cc.Body, st2, first)
					}
				}
			case *ast.ReturnStmt:
				return
			}
		}
	}
	for _, c := range sw.Body.List {
		cc := c.(*ast.CaseClause)
		if cc.List == nil {
			continue
		}
		for _, e := range cc.List {
			b, ok := constByte(info, e)
			if !ok {
				continue
			}
			walk(cc.Body, opState{matched: map[int]byte{0: b}}, b)
		}
	}
	delete(gotKinds, "")
	var missing, extra []string
	ref := map[string]bool{}
	for _, k := range refOperators {
		ref[k] = true
		if !gotKinds[k] {
			missing = append(missing, k)
		}
	}
	for k := range gotKinds {
		if !ref[k] {
			extra = append(extra, k)
		}
	}
	sort.Strings(missing)
	sort.Strings(extra)
	if len(missing)+len(extra) > 0 {
		r.bad(rule, "operator kind set", w.pos(sw.Pos()), fmt.Sprintf("operator/punctuation kinds differ from the reference list: missing %q, extra %q", missing, extra))
	} else {
		r.ok(rule, "operator kind set", w.pos(sw.Pos()), fmt.Sprintf("%d operator/punctuation kinds == reference list", len(gotKinds)))
	}
}

func matchedString(m map[int]byte) string {
	var b []byte
	for i := 0; i < len(m); i++ {
		if c, ok := m[i]; ok {
			b = append(b, c)
		} else {
			b = append(b, '?')
		}
	}
	return string(b)
}

// ---------------------------------------------------------------------------------------------
// R4 comments

type commentForm struct {
	opener, term string
	mustEnd      bool
}

// commentOpeners: the (opener, terminator, must be closed) triples read off the case clauses of (*Lexer).skipComment:
// each condition is a disjunction of `r == 'c'` [&& l.peekIs(1, 'd')], each body returns skipCommentUntil(…) with a
// constant string (the terminator) and a constant bool among its arguments.
func (w *World) commentOpeners() []commentForm {
	if w.openersDone {
		return w.openers
	}
	w.openersDone = true
	w.openers = w.commentOpenersByFacts()
	if w.openers == nil {
		w.openers = w.commentOpenersAST()
	}
	return w.openers
}

// commentOpenersByFacts: (*Lexer).skipComment interpreted in the LEXBOUNDS byte domain, whatever it looks like (a rune
// switch, byte peeks, prefix tests): at every call that hands over to a cursor-moving method of the lexer, the bytes known
// at the cursor are the opener, the constant string and bool among the arguments the terminator and "must be closed".
// nil when the interpretation learns nothing (the AST reading is used then).
func (w *World) commentOpenersByFacts() []commentForm {
	root := w.fn(w.Mem, "(*Lexer).skipComment")
	if root == nil {
		return nil
	}
	e := w.newLexBounds()
	e.bytes, e.shallow, e.shallowLeaf = true, true, true
	e.openerRoot = root
	seen := map[string]bool{}
	var got []commentForm
	bad := false
	e.openerProbe = func(call *ssa.Call, cf commentForm) {
		if os.Getenv("VERIF_OPENER_DEBUG") != "" {
			fmt.Printf("OPENER %s: %q term %q mustEnd %v\n", w.pos(call.Pos()), cf.opener, cf.term, cf.mustEnd)
		}
		if cf.opener == "" || cf.term == "\x00?" {
			bad = true
			return
		}
		k := fmt.Sprintf("%q %q %v", cf.opener, cf.term, cf.mustEnd)
		if !seen[k] {
			seen[k] = true
			got = append(got, cf)
		}
	}
	e.runRoot(root, map[string]bool{"noPanic": false})
	e.runRoot(root, map[string]bool{"noPanic": true})
	if bad || len(got) == 0 {
		return nil
	}
	sort.Slice(got, func(i, j int) bool { return got[i].opener < got[j].opener })
	return got
}

func (w *World) commentOpenersAST() []commentForm {
	fd := findFuncDecl(w.Mem, "Lexer", "skipComment")
	if fd == nil {
		return nil
	}
	info := w.Mem.TypesInfo
	var got []commentForm
	var disj func(e ast.Expr) []string
	disj = func(e ast.Expr) []string {
		e = ast.Unparen(e)
		if be, ok := e.(*ast.BinaryExpr); ok {
			switch be.Op {
			case token.LOR:
				return append(disj(be.X), disj(be.Y)...)
			case token.LAND:
				l, rr := disj(be.X), disj(be.Y)
				if len(l) == 1 && len(rr) == 1 {
					return []string{l[0] + rr[0]}
				}
				return []string{"?"}
			case token.EQL:
				if v, ok := constI(info, be.Y); ok {
					return []string{string(rune(v))}
				}
			}
		}
		if call, ok := e.(*ast.CallExpr); ok && len(call.Args) == 2 {
			if sel, ok := call.Fun.(*ast.SelectorExpr); ok && sel.Sel.Name == "peekIs" {
				if c, ok := constByte(info, call.Args[1]); ok {
					return []string{string(c)}
				}
			}
		}
		return []string{"?"}
	}
	ast.Inspect(fd.Body, func(n ast.Node) bool {
		cc, ok := n.(*ast.CaseClause)
		if !ok || cc.List == nil {
			return true
		}
		var term string
		mustEnd := false
		found := false
		for _, st := range cc.Body {
			if ret, ok := st.(*ast.ReturnStmt); ok && len(ret.Results) == 1 {
				if call, ok := ret.Results[0].(*ast.CallExpr); ok && len(call.Args) >= 2 {
					// the terminator is the constant string argument, "must be closed" the first constant bool
					sawBool := false
					for _, a := range call.Args {
						if t, ok := constStr(info, a); ok && !found {
							term = t
							found = true
						}
						if v := constVal(info, a); v != nil && v.Kind() == constant.Bool && !sawBool {
							mustEnd = constant.BoolVal(v)
							sawBool = true
						}
					}
				}
			}
		}
		if !found {
			return true
		}
		for _, e := range cc.List {
			for _, op := range disj(e) {
				got = append(got, commentForm{op, term, mustEnd})
			}
		}
		return true
	})
	return got
}

func ruleC14R4(w *World, r *Report) {
	const rule = "C14/R4"
	r.rule(rule, "comment openers and terminators: '#', '--', '//' run to end of line (may end at end of input); '/*' must be closed by '*/'", 2)
	fd := findFuncDecl(w.Mem, "Lexer", "skipComment")
	if fd == nil {
		r.errorf("(*Lexer).skipComment not found")
		return
	}
	type com = commentForm
	got := w.commentOpeners()
	want := map[string]com{"#": {"#", "\n", false}, "//": {"//", "\n", false}, "--": {"--", "\n", false}, "/*": {"/*", "*/", true}}
	seen := map[string]bool{}
	for _, g := range got {
		construct := fmt.Sprintf("comment opener %q", g.opener)
		wnt, ok := want[g.opener]
		seen[g.opener] = true
		switch {
		case !ok:
			r.bad(rule, construct, w.pos(fd.Pos()), "not a comment opener of the specification")
		case wnt != g:
			r.bad(rule, construct, w.pos(fd.Pos()), fmt.Sprintf("terminator %q mustEnd=%v, specification: %q mustEnd=%v", g.term, g.mustEnd, wnt.term, wnt.mustEnd))
		default:
			r.ok(rule, construct, w.pos(fd.Pos()), fmt.Sprintf("runs to %q, must be closed: %v", g.term, g.mustEnd))
		}
	}
	for op := range want {
		if !seen[op] {
			r.bad(rule, fmt.Sprintf("comment opener %q", op), w.pos(fd.Pos()), "comment form of the specification is not recognised")
		}
	}
	// skipCommentUntil raises only when mustEnd
	fd2 := findFuncDecl(w.Mem, "Lexer", "skipCommentUntil")
	if fd2 == nil {
		r.errorf("(*Lexer).skipCommentUntil not found")
	}
}

// ---------------------------------------------------------------------------------------------
// R5 dot-identifier trigger set (SSA: which constants make the predicate return true)

func (w *World) kindPredicateTrueSet(fn *ssa.Function) ([]string, bool) {
	if fn == nil || len(fn.Params) != 1 {
		return nil, false
	}
	p := fn.Params[0]
	var out []string
	ok := true
	// walk: at each block, an If on p == const; true edge leads (eventually) to return true
	var retConst func(b *ssa.BasicBlock, seen map[*ssa.BasicBlock]bool) (bool, bool)
	retConst = func(b *ssa.BasicBlock, seen map[*ssa.BasicBlock]bool) (val bool, known bool) {
		if seen[b] {
			return false, false
		}
		seen[b] = true
		if ret, isRet := b.Instrs[len(b.Instrs)-1].(*ssa.Return); isRet && len(b.Instrs) <= 2 {
			if v, isC := constBool(ret.Results[0]); isC {
				return v, true
			}
		}
		if _, isJump := b.Instrs[len(b.Instrs)-1].(*ssa.Jump); isJump && len(b.Instrs) == 1 {
			return retConst(b.Succs[0], seen)
		}
		return false, false
	}
	b := fn.Blocks[0]
	for steps := 0; steps < 200; steps++ {
		last := b.Instrs[len(b.Instrs)-1]
		iff, isIf := last.(*ssa.If)
		if !isIf {
			v, known := retConst(b, map[*ssa.BasicBlock]bool{})
			if !known || v {
				ok = false
			}
			return out, ok
		}
		bo, isBin := iff.Cond.(*ssa.BinOp)
		if !isBin || bo.Op != token.EQL || bo.X != ssa.Value(p) {
			return out, false
		}
		k, isC := constString(bo.Y)
		if !isC {
			return out, false
		}
		v, known := retConst(b.Succs[0], map[*ssa.BasicBlock]bool{})
		if !known {
			return out, false
		}
		if v {
			out = append(out, k)
		}
		b = b.Succs[1]
	}
	return out, false
}

func ruleC14R5(w *World, r *Report) {
	const rule = "C14/R5"
	r.rule(rule, "the dot-identifier mode (after '.', an identifier-like run, even digits or a keyword, is an identifier) is entered exactly after <ident>, <param>, ')' and ']': every value stored to Lexer.dotIdent is the constant false or — followed back through parameters, fields of the lexer written only in nextToken, and one kind predicate whose true set is exactly those four kinds — the kind the current token had when nextToken was entered, read before the token is reset", 2)
	want := []string{")", "<ident>", "<param>", "]"}
	nt := w.fn(w.Mem, "(*Lexer).nextToken")
	if nt == nil {
		r.errorf("(*Lexer).nextToken not found")
		return
	}
	// stores to a field of the lexer, by field
	stores := map[string][]*ssa.Store{}
	for _, f := range w.ModFns {
		for _, b := range f.Blocks {
			for _, in := range b.Instrs {
				if st, ok := in.(*ssa.Store); ok {
					if fa, ok := st.Addr.(*ssa.FieldAddr); ok && w.isLexerPtr(fa.X.Type()) {
						stores[fieldAddrName(fa)] = append(stores[fieldAddrName(fa)], st)
					}
				}
			}
		}
	}
	// the reset of the current token in nextToken's entry block
	resetIdx := -1
	if len(nt.Blocks) > 0 {
		for i, in := range nt.Blocks[0].Instrs {
			if st, ok := in.(*ssa.Store); ok {
				if fa, ok := st.Addr.(*ssa.FieldAddr); ok && w.isLexerPtr(fa.X.Type()) && fieldAddrName(fa) == "Token" {
					resetIdx = i
					break
				}
			}
		}
	}
	predChecked := map[*ssa.Function]string{}
	predOK := func(fn *ssa.Function) string {
		if why, ok := predChecked[fn]; ok {
			return why
		}
		set, ok := w.kindPredicateTrueSet(fn)
		sort.Strings(set)
		why := ""
		switch {
		case !ok:
			why = funcName(fn) + " is not a chain of kind == constant tests returning constants"
		case strings.Join(set, " ") != strings.Join(want, " "):
			why = fmt.Sprintf("%s returns true for %q, specification: %q", funcName(fn), set, want)
		}
		predChecked[fn] = why
		if why == "" {
			r.ok(rule, funcName(fn), w.pos(fn.Pos()), fmt.Sprintf("true exactly for %q", set))
		} else if ok {
			r.bad(rule, funcName(fn), w.pos(fn.Pos()), why)
		} else {
			r.undecided(rule, funcName(fn), w.pos(fn.Pos()), why)
		}
		return why
	}
	isKindType := func(t types.Type) bool { return isNamed(t, modRoot+"/token", "TokenKind") }
	var traceKind func(v ssa.Value, depth int) string
	var traceFlag func(v ssa.Value, depth int) string
	// traceKind: v is the kind the current token had at the entry of nextToken ("" = yes)
	traceKind = func(v ssa.Value, depth int) string {
		if depth > 6 {
			return "too deep"
		}
		switch x := v.(type) {
		case *ssa.Parameter:
			sites := w.callersOf(x.Parent())
			idx := -1
			for i, p := range x.Parent().Params {
				if p == x {
					idx = i
				}
			}
			if len(sites) == 0 || idx < 0 {
				return "parameter " + x.Name() + " of " + funcName(x.Parent()) + " has no call site"
			}
			for _, s := range sites {
				if s.Parent() != nil && s.Parent().Synthetic != "" && len(w.callersOf(s.Parent())) == 0 {
					continue // the promoted-method wrapper of an embedding type that nothing calls
				}
				if idx >= len(s.Common().Args) {
					return "call site of " + funcName(x.Parent()) + " not resolved"
				}
				if why := traceKind(s.Common().Args[idx], depth+1); why != "" {
					return why
				}
			}
			return ""
		case *ssa.Phi:
			for _, e := range x.Edges {
				if why := traceKind(e, depth+1); why != "" {
					return why
				}
			}
			return ""
		}
		addr, ok := isLoad(v)
		if !ok {
			return "a kind that is " + v.String()
		}
		fa, ok := addr.(*ssa.FieldAddr)
		if !ok {
			return "a kind loaded from " + addr.String()
		}
		if w.isLexerPtr(fa.X.Type()) {
			// a field of the lexer that carries the kind over (lastTokenKind): every store to it is in nextToken and stores that kind
			name := fieldAddrName(fa)
			if len(stores[name]) == 0 {
				return "Lexer." + name + " is never written"
			}
			for _, st := range stores[name] {
				if st.Parent() != nt {
					return "Lexer." + name + " is also written in " + funcName(st.Parent())
				}
				if why := traceKind(st.Val, depth+1); why != "" {
					return why
				}
			}
			return ""
		}
		if fieldAddrName(fa) == "Kind" {
			if tfa, ok := fa.X.(*ssa.FieldAddr); ok && fieldAddrName(tfa) == "Token" && w.isLexerPtr(tfa.X.Type()) {
				ld := v.(ssa.Instruction)
				if ld.Parent() != nt || ld.Block() != nt.Blocks[0] || resetIdx < 0 {
					return "Token.Kind is read at " + w.pos(ld.Pos()) + ", not at the entry of nextToken before the token is reset"
				}
				for i, in := range nt.Blocks[0].Instrs {
					if in == ld {
						if i < resetIdx {
							return ""
						}
						return "Token.Kind is read after the token was reset"
					}
				}
			}
		}
		return "a kind loaded from " + addr.String()
	}
	// traceFlag: v is false, or pred(kind at entry of nextToken)
	traceFlag = func(v ssa.Value, depth int) string {
		if depth > 6 {
			return "too deep"
		}
		if b, isC := constBool(v); isC {
			if !b && depth == 0 {
				return "" // a reset of the flag
			}
			if !b {
				// false on one path and the predicate on another: the mode is not entered after some identifier, `)` or `]`
				return "the constant false on some path where the predicate is stored on others: the mode is not entered every time the previous token asks for it"
			}
			return "the constant true"
		}
		switch x := v.(type) {
		case *ssa.Call:
			callee := x.Call.StaticCallee()
			if callee != nil && len(callee.Params) == 1 && len(x.Call.Args) == 1 && isKindType(callee.Params[0].Type()) && isBoolType(x.Type()) {
				if why := predOK(callee); why != "" {
					return why
				}
				return traceKind(x.Call.Args[0], depth+1)
			}
			return "the result of " + x.String()
		case *ssa.Parameter:
			sites := w.callersOf(x.Parent())
			idx := -1
			for i, p := range x.Parent().Params {
				if p == x {
					idx = i
				}
			}
			if len(sites) == 0 || idx < 0 {
				return "parameter " + x.Name() + " of " + funcName(x.Parent()) + " has no call site"
			}
			for _, s := range sites {
				if s.Parent() != nil && s.Parent().Synthetic != "" && len(w.callersOf(s.Parent())) == 0 {
					continue
				}
				if idx >= len(s.Common().Args) {
					return "call site of " + funcName(x.Parent()) + " not resolved"
				}
				if why := traceFlag(s.Common().Args[idx], depth+1); why != "" {
					return why
				}
			}
			return ""
		case *ssa.Phi:
			for _, e := range x.Edges {
				if why := traceFlag(e, depth+1); why != "" {
					return why
				}
			}
			return ""
		}
		if addr, ok := isLoad(v); ok {
			if fa, ok := addr.(*ssa.FieldAddr); ok && w.isLexerPtr(fa.X.Type()) && fieldAddrName(fa) != "dotIdent" {
				name := fieldAddrName(fa)
				if len(stores[name]) == 0 {
					return "Lexer." + name + " is never written"
				}
				for _, st := range stores[name] {
					if st.Parent() != nt {
						return "Lexer." + name + " is also written in " + funcName(st.Parent())
					}
					if why := traceFlag(st.Val, depth+1); why != "" {
						return why
					}
				}
				return ""
			}
		}
		return v.String()
	}
	n := 0
	for _, st := range stores["dotIdent"] {
		n++
		construct := fmt.Sprintf("store to Lexer.dotIdent in %s (%d)", funcName(st.Parent()), n)
		if v, isC := constBool(st.Val); isC && !v {
			r.ok(rule, construct, w.pos(st.Pos()), "reset to false")
			continue
		}
		if why := traceFlag(st.Val, 0); why != "" {
			r.bad(rule, construct, w.pos(st.Pos()), "dot-identifier flag set from something other than false or the kind predicate applied to the kind of the previous token: "+why)
		} else {
			r.ok(rule, construct, w.pos(st.Pos()), "set from the kind predicate applied to the kind the token had at the entry of nextToken")
		}
	}
	if n < 2 {
		r.errorf("expected at least two stores to Lexer.dotIdent, found %d", n)
	}
	if len(predChecked) == 0 {
		r.errorf("no store to Lexer.dotIdent goes through a kind predicate")
	}
}

// lexerField: v is a load of L.<field> for a *Lexer value L.
func (w *World) lexerField(v ssa.Value) (string, ssa.Value, bool) {
	addr, ok := isLoad(v)
	if !ok {
		return "", nil, false
	}
	fa, ok := addr.(*ssa.FieldAddr)
	if !ok || !w.isLexerPtr(fa.X.Type()) {
		return "", nil, false
	}
	return fieldAddrName(fa), fa.X, true
}

// ---------------------------------------------------------------------------------------------
// R6 character classes: a forward dataflow analysis over the SSA of the byte predicates of package
// char with the (finite, exact) abstract domain "set of byte values the parameter may have here":
// every If on a comparison of the parameter with a constant splits the set; the set of values for
// which the predicate returns true is read off the Return instructions. No loop, no call allowed.

type byteSet [256]bool

func satCmp(op token.Token, k int64, paramLeft bool) (s byteSet) {
	for c := 0; c < 256; c++ {
		x, y := constant.MakeInt64(int64(c)), constant.MakeInt64(k)
		if !paramLeft {
			x, y = y, x
		}
		s[c] = constant.Compare(x, op, y)
	}
	return
}

func (a byteSet) and(b byteSet) (r byteSet) {
	for i := range a {
		r[i] = a[i] && b[i]
	}
	return
}
func (a byteSet) or(b byteSet) (r byteSet) {
	for i := range a {
		r[i] = a[i] || b[i]
	}
	return
}
func (a byteSet) not() (r byteSet) {
	for i := range a {
		r[i] = !a[i]
	}
	return
}

// predicateTrueSet computes {c | fn(c) == true} or ok=false when fn is not a comparison-only predicate.
// predicateTrueSet: the bytes for which a one-parameter predicate answers true. The function is followed by
// interpretation for each of the 256 values (its package initialised first: lookup tables count), whatever its shape;
// when the interpreter cannot follow it, the exact set-domain dataflow over comparison-only predicates is tried.
func (w *World) predicateTrueSet(fn *ssa.Function) (res byteSet, ok bool) {
	if fn == nil || len(fn.Params) != 1 || fn.Blocks == nil {
		return res, false
	}
	if fn.Pkg != nil {
		if init, _ := w.pkgInit(fn.Pkg.Pkg.Path()); init != nil {
			all := true
			for c := 0; c < 256 && all; c++ {
				ci := w.newConcr()
				ci.heap = true
				ci.globals = init.globals
				out := ci.run(fn, []cval{mkInt(c)}, 0)
				if out.status != "return" || len(out.vals) != 1 || out.vals[0].kind != cConst || out.vals[0].c.Kind() != constant.Bool {
					all = false
					break
				}
				res[c] = constant.BoolVal(out.vals[0].c)
			}
			if all {
				return res, true
			}
			res = byteSet{}
		}
	}
	return w.predicateTrueSetFlow(fn)
}

func (w *World) predicateTrueSetFlow(fn *ssa.Function) (res byteSet, ok bool) {
	if fn == nil || len(fn.Params) != 1 || fn.Blocks == nil {
		return res, false
	}
	p := ssa.Value(fn.Params[0])
	// condition value -> set of parameter values making it true
	var condSet func(v ssa.Value, depth int) (byteSet, bool)
	type edge struct{ from, to *ssa.BasicBlock }
	edgeSet := map[edge]byteSet{}
	condSet = func(v ssa.Value, depth int) (byteSet, bool) {
		var zero byteSet
		if depth > 50 {
			return zero, false
		}
		switch v := v.(type) {
		case *ssa.Const:
			if b, isB := constBool(v); isB {
				if b {
					return zero.not(), true
				}
				return zero, true
			}
		case *ssa.BinOp:
			switch v.Op {
			case token.EQL, token.NEQ, token.LSS, token.LEQ, token.GTR, token.GEQ:
				if k, isC := constInt(v.Y); isC && v.X == p {
					return satCmp(v.Op, k, true), true
				}
				if k, isC := constInt(v.X); isC && v.Y == p {
					return satCmp(v.Op, k, false), true
				}
			}
		case *ssa.UnOp:
			if v.Op == token.NOT {
				s, ok := condSet(v.X, depth+1)
				return s.not(), ok
			}
		case *ssa.Phi:
			var out byteSet
			for i, pred := range v.Block().Preds {
				es, has := edgeSet[edge{pred, v.Block()}]
				if !has {
					return zero, false
				}
				cs, ok := condSet(v.Edges[i], depth+1)
				if !ok {
					return zero, false
				}
				out = out.or(es.and(cs))
			}
			return out, true
		}
		return zero, false
	}
	// forward propagation in reverse post-order; loops make the predicate undecided
	in := map[*ssa.BasicBlock]byteSet{}
	var all byteSet
	in[fn.Blocks[0]] = all.not()
	order := fn.DomPreorder()
	done := map[*ssa.BasicBlock]bool{}
	for _, b := range order {
		for _, pred := range b.Preds {
			if !done[pred] && pred != b {
				// a predecessor not yet processed in dominator preorder is fine only if it is dominated later; detect loops
				if b.Dominates(pred) {
					return res, false
				}
			}
		}
	}
	// simple iterative propagation (acyclic): repeat until stable
	for iter := 0; iter < len(fn.Blocks)+2; iter++ {
		for _, b := range fn.Blocks {
			var cur byteSet
			if b == fn.Blocks[0] {
				cur = all.not()
			}
			for _, pred := range b.Preds {
				cur = cur.or(edgeSet[edge{pred, b}])
			}
			in[b] = cur
			for _, instr := range b.Instrs {
				switch instr.(type) {
				case *ssa.Call, *ssa.Store, *ssa.Alloc, *ssa.Go, *ssa.Defer, *ssa.Panic:
					return res, false
				}
			}
			switch last := b.Instrs[len(b.Instrs)-1].(type) {
			case *ssa.If:
				cs, ok := condSet(last.Cond, 0)
				if !ok {
					return res, false
				}
				edgeSet[edge{b, b.Succs[0]}] = cur.and(cs)
				edgeSet[edge{b, b.Succs[1]}] = cur.and(cs.not())
			case *ssa.Jump:
				edgeSet[edge{b, b.Succs[0]}] = cur
			}
			done[b] = true
		}
	}
	for _, b := range fn.Blocks {
		if ret, isRet := b.Instrs[len(b.Instrs)-1].(*ssa.Return); isRet {
			cs, ok := condSet(ret.Results[0], 0)
			if !ok {
				return res, false
			}
			res = res.or(in[b].and(cs))
		}
	}
	return res, true
}

func ruleC14R6(w *World, r *Report) {
	const rule = "C14/R6"
	r.rule(rule, "the byte classifiers of package char denote the specification's character classes for all 256 byte values (forward dataflow over their SSA with the exact domain 'set of byte values of the parameter'; only comparisons with constants allowed)", 3)
	want := map[string]func(c byte) bool{
		"IsDigit":      func(c byte) bool { return c >= '0' && c <= '9' },
		"IsHexDigit":   func(c byte) bool { return c >= '0' && c <= '9' || c >= 'a' && c <= 'f' || c >= 'A' && c <= 'F' },
		"IsOctalDigit": func(c byte) bool { return c >= '0' && c <= '7' },
		"IsIdentStart": func(c byte) bool { return c >= 'a' && c <= 'z' || c >= 'A' && c <= 'Z' || c == '_' },
		"IsIdentPart": func(c byte) bool {
			return c >= 'a' && c <= 'z' || c >= 'A' && c <= 'Z' || c == '_' || c >= '0' && c <= '9'
		},
		"IsPrint": func(c byte) bool { return c >= 0x20 && c <= 0x7e },
	}
	names := []string{"IsDigit", "IsHexDigit", "IsIdentPart", "IsIdentStart", "IsOctalDigit", "IsPrint"}
	for _, name := range names {
		fn := w.fn(w.Char, name)
		if fn == nil {
			r.errorf("char.%s not found", name)
			continue
		}
		var diff []string
		set, okSet := w.predicateTrueSet(fn)
		undec := !okSet
		for c := 0; c < 256 && okSet; c++ {
			if set[c] != want[name](byte(c)) {
				diff = append(diff, strconv.QuoteRuneToASCII(rune(c)))
			}
		}
		switch {
		case undec:
			r.undecided(rule, "char."+name, w.pos(fn.Pos()), "not a pure comparison predicate over its byte parameter")
		case len(diff) > 0:
			r.bad(rule, "char."+name, w.pos(fn.Pos()), "differs from the specification's class on bytes "+strings.Join(diff, " "))
		default:
			r.ok(rule, "char."+name, w.pos(fn.Pos()), "agrees with the specification on all 256 byte values")
		}
	}
}

// ruleC14R7: the dot-identifier reader and the raw-literal arm.
func ruleC14R7(w *World, r *Report) {
	const rule = "C14/R7"
	r.rule(rule, "after '.', the field-token reader turns every run of identifier-part characters (letters, digits, '_' — keywords and digits included) into one <ident> token whose name is exactly that run; in raw literals a backslash keeps itself and the next character and both are skipped, so an escaped quote does not end the literal (the keyword classifiers moved to C14/R1)", 2)
	// --- consumeFieldToken ---
	cf := w.fn(w.Mem, "(*Lexer).consumeFieldToken")
	isPart := w.fn(w.Char, "IsIdentPart")
	if cf == nil || isPart == nil {
		r.errorf("(*Lexer).consumeFieldToken / char.IsIdentPart not found")
	} else {
		// every classifier call in the function is char.IsIdentPart on peek(i); the ident arm sets Kind = <ident>
		// and AsString = Buffer[pos : pos+i] and skips i
		var classifiers []string
		kindIdent, skipN, asString := false, false, false
		// the string a helper of the lexer returns is a slice of the input when every return of it is one
		var inputSlice func(v ssa.Value, depth int) bool
		inputSlice = func(v ssa.Value, depth int) bool {
			if depth > 4 {
				return false
			}
			switch x := v.(type) {
			case *ssa.Slice:
				return true
			case *ssa.Phi:
				for _, e := range x.Edges {
					if !inputSlice(e, depth+1) {
						return false
					}
				}
				return true
			case *ssa.Call:
				h := x.Call.StaticCallee()
				if h == nil || h.Blocks == nil || h.Signature.Recv() == nil || !w.isLexerPtr(h.Signature.Recv().Type()) {
					return false
				}
				n := 0
				for _, hb := range h.Blocks {
					if ret, ok := hb.Instrs[len(hb.Instrs)-1].(*ssa.Return); ok && len(ret.Results) == 1 {
						n++
						if !inputSlice(ret.Results[0], depth+1) {
							return false
						}
					}
				}
				return n > 0
			}
			return false
		}
		for _, sf := range w.withOwnHelpers(cf, "consumeToken", "consumeNumber", "consumeQuotedContent") {
			for _, b := range sf.Blocks {
				for _, in := range b.Instrs {
					switch x := in.(type) {
					case *ssa.Call:
						c := x.Call.StaticCallee()
						if c == nil {
							continue
						}
						if c.Pkg != nil && c.Pkg.Pkg.Path() == modRoot+"/char" {
							classifiers = append(classifiers, c.Name())
						}
						if c.Name() == "skipN" {
							skipN = true
						}
					case *ssa.Store:
						if fa, ok := x.Addr.(*ssa.FieldAddr); ok {
							if _, isCur := w.curTokenAddr(fa.X); isCur {
								switch fieldAddrName(fa) {
								case "Kind":
									if k, ok := constString(x.Val); ok && k == "<ident>" {
										kindIdent = true
									}
								case "AsString":
									if sl, ok := x.Val.(*ssa.Slice); ok {
										lo, hi := w.posLoadOf(sl.Low), sl.High
										if bo, ok := hi.(*ssa.BinOp); ok && bo.Op == token.ADD && lo != nil && w.posLoadOf(bo.X) != nil {
											asString = true
										}
									} else if inputSlice(x.Val, 0) {
										asString = true // the run a helper of the lexer cut out of the input and skipped
									}
								}
							}
						}
					}
				}
			}
		}
		sort.Strings(classifiers)
		okCls := len(classifiers) >= 1
		for _, c := range classifiers {
			if c != "IsIdentPart" {
				okCls = false
			}
		}
		if okCls && kindIdent && skipN && asString {
			r.ok(rule, "consumeFieldToken", w.pos(cf.Pos()), "identifier-part run -> <ident> with AsString = Buffer[pos:pos+i], skipN(i)")
		} else {
			r.bad(rule, "consumeFieldToken", w.pos(cf.Pos()), fmt.Sprintf("the field-token reader does not accept exactly the identifier-part runs (classifiers used: %v, Kind=<ident>: %v, AsString slice: %v, skipN: %v): after '.', a keyword or a digit run is no longer an identifier", classifiers, kindIdent, asString, skipN))
		}
	}
	// --- raw arm of consumeQuotedContent ---
	fd := findFuncDecl(w.Mem, "Lexer", "consumeQuotedContent")
	if fd == nil {
		r.errorf("(*Lexer).consumeQuotedContent not found")
	} else {
		info := w.Mem.TypesInfo
		found := false
		ast.Inspect(fd.Body, func(n ast.Node) bool {
			ifs, ok := n.(*ast.IfStmt)
			if !ok {
				return true
			}
			id, ok := ifs.Cond.(*ast.Ident)
			if !ok {
				return true
			}
			v, ok := info.Uses[id].(*types.Var)
			if !ok || v.Name() != "raw" {
				return true
			}
			found = true
			// body: content = append(content, '\\', c); continue — and c was read with the cursor advanced past it
			okAppend, okContinue := false, false
			for _, st := range ifs.Body.List {
				switch s := st.(type) {
				case *ast.AssignStmt:
					if call, ok := s.Rhs[0].(*ast.CallExpr); ok && len(call.Args) == 3 {
						if b, ok := constByte(info, call.Args[1]); ok && b == '\\' {
							if _, isId := call.Args[2].(*ast.Ident); isId {
								okAppend = true
							}
						}
					}
				case *ast.BranchStmt:
					if s.Tok == token.CONTINUE {
						okContinue = true
					}
				}
			}
			// the two statements before the `if raw`: c := l.peek(i); i++
			advanced := false
			ast.Inspect(fd.Body, func(m ast.Node) bool {
				blk, ok := m.(*ast.BlockStmt)
				if !ok {
					return true
				}
				for k, st := range blk.List {
					if st == ast.Stmt(ifs) && k >= 2 {
						if inc, ok := blk.List[k-1].(*ast.IncDecStmt); ok && inc.Tok == token.INC {
							if as, ok := blk.List[k-2].(*ast.AssignStmt); ok && strings.Contains(exprText(w.Fset, as.Rhs[0]), "peek(") {
								advanced = true
							}
						}
					}
				}
				return true
			})
			if okAppend && okContinue && advanced {
				r.ok(rule, "raw literal arm", w.pos(ifs.Pos()), "backslash + next character are kept verbatim and skipped together")
			} else {
				r.bad(rule, "raw literal arm", w.pos(ifs.Pos()), fmt.Sprintf("in a raw literal the character after a backslash is not consumed together with it (append of both: %v, continue: %v, cursor past the escaped character: %v): r'\\'' ends at the escaped quote", okAppend, okContinue, advanced))
			}
			return false
		})
		if !found {
			r.bad(rule, "raw literal arm", w.pos(fd.Pos()), "consumeQuotedContent has no `if raw` arm")
		}
	}
}

func stripToCall(v ssa.Value) *ssa.Call {
	for {
		switch x := v.(type) {
		case *ssa.ChangeType:
			v = x.X
		case *ssa.Convert:
			v = x.X
		case *ssa.Call:
			return x
		default:
			return nil
		}
	}
}

// ruleC14R9: rune discipline. A byte is not a rune: unicode.IsSpace(rune(b)) is true for 0x85 and 0xA0, which in
// UTF-8 are continuation bytes of other characters; and a rune that was classified has to be consumed whole.
func ruleC14R9(w *World, r *Report) {
	const rule = "C14/R9"
	r.rule(rule, "every rune handed to a unicode.* predicate in the core packages is the first result of utf8.DecodeRune*/DecodeLastRune* or a range-over-string value (never a converted byte); in *Lexer methods, the cursor advances that follow such a predicate advance by exactly the size returned by the same decode call", 1)
	isDecode := func(v ssa.Value) *ssa.Call {
		c, ok := v.(*ssa.Call)
		if !ok {
			return nil
		}
		sc := c.Call.StaticCallee()
		if sc == nil || sc.Pkg == nil || sc.Pkg.Pkg.Path() != "unicode/utf8" || !strings.HasPrefix(sc.Name(), "Decode") {
			return nil
		}
		return c
	}
	var origin func(v ssa.Value, seen map[ssa.Value]bool) (string, *ssa.Call)
	origin = func(v ssa.Value, seen map[ssa.Value]bool) (string, *ssa.Call) {
		if seen[v] {
			return "", nil
		}
		seen[v] = true
		switch x := v.(type) {
		case *ssa.Extract:
			if c := isDecode(x.Tuple); c != nil && x.Index == 0 {
				return "", c
			}
			if nx, ok := x.Tuple.(*ssa.Next); ok && nx.IsString && x.Index == 2 {
				return "", nil
			}
			return "a value that is not a decoded rune (" + x.String() + ")", nil
		case *ssa.Const:
			return "", nil
		case *ssa.Phi:
			var dc *ssa.Call
			for i, e := range x.Edges {
				// an ASCII fast path: `r := rune(s[i]); if r >= utf8.RuneSelf { r, size = utf8.DecodeRune…(…) }` — below 0x80
				// the byte is the rune; the edge that carries the converted byte is the "< 0x80" side of a test on it
				if cv, ok := e.(*ssa.Convert); ok && i < len(x.Block().Preds) {
					if bt, ok := cv.X.Type().Underlying().(*types.Basic); ok && bt.Kind() == types.Uint8 {
						pred := x.Block().Preds[i]
						if iff, ok := pred.Instrs[len(pred.Instrs)-1].(*ssa.If); ok {
							if bo, ok := iff.Cond.(*ssa.BinOp); ok && (bo.X == ssa.Value(cv) || bo.X == cv.X) {
								if k, isC := constInt(bo.Y); isC {
									ascii := (bo.Op == token.GEQ && k == 0x80 && pred.Succs[1] == x.Block()) ||
										(bo.Op == token.GTR && k == 0x7f && pred.Succs[1] == x.Block()) ||
										(bo.Op == token.LSS && k == 0x80 && pred.Succs[0] == x.Block()) ||
										(bo.Op == token.LEQ && k == 0x7f && pred.Succs[0] == x.Block())
									if ascii {
										continue
									}
								}
							}
						}
					}
				}
				why, c := origin(e, seen)
				if why != "" {
					return why, nil
				}
				if c != nil {
					dc = c
				}
			}
			return "", dc
		case *ssa.Convert:
			if b, ok := x.X.Type().Underlying().(*types.Basic); ok && (b.Kind() == types.Uint8 || b.Kind() == types.Int8) {
				return "a byte converted to rune: bytes >= 0x80 are UTF-8 lead/continuation bytes, not the Latin-1 characters U+0080..U+00FF the predicate takes them for", nil
			}
			return origin(x.X, seen)
		case *ssa.Parameter:
			fn := x.Parent()
			idx := -1
			for i, p := range fn.Params {
				if p == x {
					idx = i
				}
			}
			callers := w.callersOf(fn)
			if len(callers) == 0 {
				return "", nil // exported helper taking a rune: the caller's concern
			}
			for _, cs := range callers {
				com := cs.Common()
				off := 0
				if com.IsInvoke() {
					off = 1
				}
				if idx-off >= 0 && idx-off < len(com.Args) {
					if why, _ := origin(com.Args[idx-off], seen); why != "" {
						return why, nil
					}
				}
			}
			return "", nil
		}
		return "a value of unknown origin (" + v.String() + ")", nil
	}
	n := 0
	for _, fn := range w.ModFns {
		if !corePkg(fnPkgPath(fn)) || fn.Blocks == nil {
			continue
		}
		for _, b := range fn.Blocks {
			for _, in := range b.Instrs {
				c, ok := in.(*ssa.Call)
				if !ok {
					continue
				}
				sc := c.Call.StaticCallee()
				if sc == nil || sc.Pkg == nil || sc.Pkg.Pkg.Path() != "unicode" || len(c.Call.Args) == 0 {
					continue
				}
				if bt, ok := c.Call.Args[0].Type().Underlying().(*types.Basic); !ok || bt.Kind() != types.Int32 {
					continue
				}
				n++
				construct := fmt.Sprintf("unicode.%s in %s", sc.Name(), funcName(fn))
				why, dc := origin(c.Call.Args[0], map[ssa.Value]bool{})
				if why != "" {
					r.bad(rule, construct, w.pos(c.Pos()), "the predicate is applied to "+why)
					continue
				}
				r.ok(rule, construct, w.pos(c.Pos()), "applied to a decoded rune")
				// the advance that follows, in *Lexer methods
				if dc == nil || fn.Signature.Recv() == nil || !w.isLexerPtr(fn.Signature.Recv().Type()) {
					continue
				}
				var yes *ssa.BasicBlock
				for _, u := range referrers(c) {
					if iff, ok := u.(*ssa.If); ok {
						yes = iff.Block().Succs[0]
					}
				}
				cons2 := construct + ": advance"
				if yes == nil || len(yes.Preds) != 1 {
					r.undecided(rule, cons2, w.pos(c.Pos()), "the predicate's result is not used directly as a branch condition with a private yes-successor")
					continue
				}
				var problems []string
				nadv := 0
				for _, bb := range fn.Blocks {
					if !(bb == yes || yes.Dominates(bb)) {
						continue
					}
					for _, x := range bb.Instrs {
						if !w.isCursorAdvance(x) {
							continue
						}
						nadv++
						call := x.(*ssa.Call)
						okSize := false
						if len(call.Call.Args) == 2 {
							if ex, ok := call.Call.Args[1].(*ssa.Extract); ok && ex.Tuple == ssa.Value(dc) && ex.Index == 1 {
								okSize = true
							}
						}
						if !okSize {
							problems = append(problems, fmt.Sprintf("the advance at %s is not skipN(size) with the size of the decoded rune: a multi-byte character is consumed in part and its remaining bytes are lexed as something else", w.pos(call.Pos())))
						}
					}
				}
				if nadv == 0 {
					problems = append(problems, "no cursor advance follows the positive classification")
				}
				if len(problems) > 0 {
					r.bad(rule, cons2, w.pos(c.Pos()), strings.Join(problems, "; "))
				} else {
					r.ok(rule, cons2, w.pos(c.Pos()), "advance by the decoded size")
				}
			}
		}
	}
	if n < 1 {
		r.errorf("expected at least one unicode.* predicate calls (skipSpaces, quote), found %d", n)
	}
}

// ruleC14R13: a byte that begins an operator or a punctuation of the reference list never leads to a lexical error
// inside consumeToken. The first byte is followed through the function with the exact domain "set of byte values"
// (every comparison of it with a constant splits the set; other conditions do not); at each raise — a call that does
// not return, or Kind = <bad> — the set must not contain the first byte of a reference operator. A well-meant
// diagnostic ("stray */") in the arm of '*' rejects `2*/* c */3`.
func ruleC14R13(w *World, r *Report) {
	const rule = "C14/R13"
	r.rule(rule, "in (*Lexer).consumeToken no raise (no-return call or Kind = <bad>) is reachable with the first byte of the token being the first byte of an operator/punctuation of the reference list: such a byte always yields a token; the fall-through that reports an illegal character is reached by none of them", 1)
	fn := w.fn(w.Mem, "(*Lexer).consumeToken")
	if fn == nil {
		r.errorf("(*Lexer).consumeToken not found")
		return
	}
	noret := w.NoReturn()
	// the tested value: the result of a peek(0)-like call compared with the most constants
	cmpCount := map[ssa.Value]int{}
	for _, b := range fn.Blocks {
		for _, in := range b.Instrs {
			if bo, ok := in.(*ssa.BinOp); ok && (bo.Op == token.EQL || bo.Op == token.NEQ) && isByteType(bo.X.Type()) {
				if _, isC := constInt(bo.Y); isC {
					cmpCount[bo.X]++
				}
			}
		}
	}
	var tag ssa.Value
	for v, n := range cmpCount {
		if tag == nil || n > cmpCount[tag] || (n == cmpCount[tag] && v.Name() < tag.Name()) {
			tag = v
		}
	}
	if tag == nil || cmpCount[tag] < 10 {
		r.errorf("the dispatch on the first byte of the token was not found in consumeToken")
		return
	}
	tb := tag.(ssa.Instruction).Block()
	// forward propagation of the set of values of tag
	type edge struct{ from, to *ssa.BasicBlock }
	var full byteSet
	full = full.not()
	in := map[*ssa.BasicBlock]byteSet{}
	reached := map[*ssa.BasicBlock]bool{tb: true}
	in[tb] = full
	for changed := true; changed; {
		changed = false
		for _, b := range fn.Blocks {
			if !reached[b] {
				continue
			}
			cur := in[b]
			outs := make([]byteSet, len(b.Succs))
			for i := range outs {
				outs[i] = cur
			}
			if iff, ok := b.Instrs[len(b.Instrs)-1].(*ssa.If); ok {
				if bo, ok := iff.Cond.(*ssa.BinOp); ok && bo.X == tag {
					if k, isC := constInt(bo.Y); isC {
						switch bo.Op {
						case token.EQL, token.NEQ, token.LSS, token.LEQ, token.GTR, token.GEQ:
							cs := satCmp(bo.Op, k, true)
							outs[0], outs[1] = cur.and(cs), cur.and(cs.not())
						}
					}
				}
			}
			for i, s := range b.Succs {
				if s == tb {
					continue
				}
				n := in[s].or(outs[i])
				if !reached[s] || n != in[s] {
					var zero byteSet
					if outs[i] == zero && reached[s] {
						continue
					}
					if outs[i] == zero && !reached[s] {
						continue
					}
					in[s], reached[s], changed = n, true, true
				}
			}
		}
	}
	first := map[byte]string{}
	for _, op := range refOperators {
		if _, dup := first[op[0]]; !dup {
			first[op[0]] = op
		}
	}
	n := 0
	for _, b := range fn.Blocks {
		if !reached[b] || b == tb {
			continue
		}
		for _, instr := range b.Instrs {
			what := ""
			switch x := instr.(type) {
			case *ssa.Call:
				if c := x.Call.StaticCallee(); c != nil && noret[c] {
					what = "the raise " + c.Name() + "(…)"
				}
			case *ssa.Panic:
				what = "the panic"
			case *ssa.Store:
				if isKindBadStore(x) {
					what = "Kind = <bad>"
				}
			}
			if what == "" {
				continue
			}
			n++
			construct := fmt.Sprintf("raise %d in consumeToken", n)
			var hit []string
			for c := 0; c < 256; c++ {
				if in[b][c] {
					if op, isOp := first[byte(c)]; isOp {
						hit = append(hit, fmt.Sprintf("%q (begins %q)", string(rune(c)), op))
					}
				}
			}
			if len(hit) > 0 {
				r.bad(rule, construct, w.pos(instr.Pos()), what+" is reachable when the token begins with "+strings.Join(hit, ", ")+": a valid operator or punctuation is rejected depending on what follows it")
			} else {
				r.ok(rule, construct, w.pos(instr.Pos()), what+" is reached only with first bytes that begin no operator or punctuation")
			}
		}
	}
	if n == 0 {
		r.errorf("no raise found in consumeToken (the illegal-character report is expected)")
	}
}
