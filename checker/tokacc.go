package main

import (
	"go/token"
	"go/types"

	"golang.org/x/tools/go/ssa"
)

// Recognition of accesses to the lexer's current token and to Parser state on SSA values.
// Everything is resolved through types (struct type + field), never through variable names.

func (w *World) isLexerPtr(t types.Type) bool {
	p, ok := t.(*types.Pointer)
	return ok && isNamed(p.Elem(), modRoot, "Lexer")
}
func (w *World) isParserPtr(t types.Type) bool {
	p, ok := t.(*types.Pointer)
	return ok && isNamed(p.Elem(), modRoot, "Parser")
}
func (w *World) isTokenStruct(t types.Type) bool {
	_, isPtr := t.(*types.Pointer)
	return !isPtr && isNamed(t, modRoot+"/token", "Token")
}
func (w *World) isTokenPtr(t types.Type) bool {
	p, ok := t.(*types.Pointer)
	return ok && isNamed(p.Elem(), modRoot+"/token", "Token")
}

// lexerOf: if v is an address of the form &L.Token (L a *Lexer value: a parameter, a load of
// p.Lexer, a local), it returns L.
func (w *World) curTokenAddr(v ssa.Value) (lexer ssa.Value, ok bool) {
	fa, isFA := v.(*ssa.FieldAddr)
	if !isFA || fieldAddrName(fa) != "Token" || !w.isLexerPtr(fa.X.Type()) {
		return nil, false
	}
	return fa.X, true
}

// curTokenField: v is a load of <current token>.<field>; returns the field name.
func (w *World) curTokenField(v ssa.Value) (field string, lexer ssa.Value, ok bool) {
	addr, isLoad := isLoad(v)
	if !isLoad {
		return "", nil, false
	}
	fa, isFA := addr.(*ssa.FieldAddr)
	if !isFA {
		return "", nil, false
	}
	lx, ok := w.curTokenAddr(fa.X)
	if !ok {
		return "", nil, false
	}
	return fieldAddrName(fa), lx, true
}

// parserFieldAddr: v is &P.<name> for a *Parser value P.
func (w *World) parserFieldAddr(v ssa.Value, name string) bool {
	fa, ok := v.(*ssa.FieldAddr)
	return ok && w.isParserPtr(fa.X.Type()) && fieldAddrName(fa) == name
}

// isAppendOfSameField: v is append(<load of the same field address expression>, ...).
func (w *World) isAppendOfField(v ssa.Value, name string) bool {
	call, ok := v.(*ssa.Call)
	if !ok {
		return false
	}
	bi, ok := call.Call.Value.(*ssa.Builtin)
	if !ok || bi.Name() != "append" || len(call.Call.Args) < 1 {
		return false
	}
	addr, ok := isLoad(call.Call.Args[0])
	return ok && w.parserFieldAddr(addr, name)
}

// recordsError: the instruction is `P.errors = append(P.errors, …)`.
func (w *World) recordsError(in ssa.Instruction) bool {
	st, ok := in.(*ssa.Store)
	return ok && w.parserFieldAddr(st.Addr, "errors") && w.isAppendOfField(st.Val, "errors")
}

// Recording computes the functions every normal return of which has recorded an error in
// Parser.errors (directly or through a callee with the same property): handleError and the
// handleParse*Error functions.
func (w *World) Recording() map[*ssa.Function]bool {
	if w.recording != nil {
		return w.recording
	}
	w.NoReturn()
	rec := map[*ssa.Function]bool{}
	for changed := true; changed; {
		changed = false
		for _, fn := range w.ModFns {
			if rec[fn] || fn.Blocks == nil {
				continue
			}
			hasRec := false
			target := func(in ssa.Instruction) bool {
				if w.recordsError(in) {
					hasRec = true
					return true
				}
				if c, ok := in.(*ssa.Call); ok {
					if callee := c.Call.StaticCallee(); callee != nil && rec[callee] {
						hasRec = true
						return true
					}
				}
				return false
			}
			if ok, _ := w.mustPassThrough(fn, target); ok && hasRec {
				rec[fn] = true
				changed = true
			}
		}
	}
	w.recording = rec
	return rec
}

// MayRecord: functions from which a store appending to Parser.errors is reachable in the call graph.
func (w *World) MayRecord() map[*ssa.Function]bool {
	if w.mayRecord != nil {
		return w.mayRecord
	}
	direct := map[*ssa.Function]bool{}
	for _, fn := range w.ModFns {
		for _, b := range fn.Blocks {
			for _, in := range b.Instrs {
				if st, ok := in.(*ssa.Store); ok && w.parserFieldAddr(st.Addr, "errors") {
					direct[fn] = true
				}
			}
		}
	}
	// backwards closure over call edges (static + VTA), including deferred closures of a function
	may := map[*ssa.Function]bool{}
	for f := range direct {
		may[f] = true
	}
	for changed := true; changed; {
		changed = false
		for _, fn := range w.ModFns {
			if may[fn] {
				continue
			}
			for _, b := range fn.Blocks {
				for _, in := range b.Instrs {
					ci, ok := in.(ssa.CallInstruction)
					if !ok {
						continue
					}
					for _, callee := range w.Callees(ci) {
						if may[callee] {
							may[fn] = true
							changed = true
						}
					}
				}
			}
		}
	}
	w.mayRecord = may
	return may
}

// eofConst reports whether v is the constant token.TokenEOF ("<eof>").
func isKindConst(v ssa.Value) (string, bool) {
	s, ok := constString(v)
	if !ok {
		return "", false
	}
	if n := namedOf(v.Type()); n != nil && n.Obj().Name() == "TokenKind" {
		return s, true
	}
	return "", false
}

// kindTest: the If condition compares the current token's kind with a constant; returns the kind and
// whether the true edge means "equal".
func (w *World) kindTest(cond ssa.Value) (kind string, eqOnTrue bool, lexer ssa.Value, ok bool) {
	bo, isBin := cond.(*ssa.BinOp)
	if !isBin || (bo.Op != token.EQL && bo.Op != token.NEQ) {
		return "", false, nil, false
	}
	x, y := bo.X, bo.Y
	if _, isC := isKindConst(x); isC {
		x, y = y, x
	}
	k, isC := isKindConst(y)
	if !isC {
		return "", false, nil, false
	}
	f, lx, isTok := w.curTokenField(x)
	if !isTok || f != "Kind" {
		return "", false, nil, false
	}
	return k, bo.Op == token.EQL, lx, true
}
