package main

import (
	"bytes"
	"fmt"
	"go/ast"
	"go/constant"
	"go/printer"
	"go/token"
	"go/types"
	"os"
	"runtime/debug"
	"runtime/pprof"
	"sort"
	"strings"
	"time"

	"golang.org/x/tools/go/packages"
	"golang.org/x/tools/go/ssa"
)

// LEXBOUNDS — an abstract interpreter over LINFACTS for the byte-level code: the methods of *Lexer
// (inlined context-sensitively from (*Lexer).nextToken, once per value of the noPanic flag) and
// the string helpers of token/quote.go and char/. Two mutable symbolic quantities describe the
// lexer: P (Lexer.pos) and N (len(Lexer.Buffer)); every other atom is an immutable SSA value or
// the length of one.
//
// Obligations, checked in the fixpoint state at every site:
//   index    s[i]            0 <= i < len(s)
//   slice    s[a:b]          0 <= a <= b <= len(s)
//   cursor   Lexer.pos = e   0 <= e <= len(Buffer)
//   errpos   File.Position(pos, end) is only called with pos <= len(Buffer) and end <= len(Buffer)
//            (contract read off token/file.go: lines has a sentinel len(Buffer)+1; a larger
//            position resolves to the sentinel line and Position then indexes lines[line+1])

type lbFrame struct {
	fn   *ssa.Function
	call ssa.CallInstruction // in the parent frame
}

type lbInst struct {
	fn       *ssa.Function
	bindLin  map[*ssa.Parameter]lin
	bindLen  map[*ssa.Parameter]lin
	bindBool map[*ssa.Parameter]bool
	bindStr  map[*ssa.Parameter]string // constant string arguments
	bindByte map[*ssa.Parameter]byte   // constant byte arguments
	alias    map[ssa.Value]string      // "lexer", "file"
	parent   *lbInst
}

type lbOb struct {
	rule, construct, where string
	total, failed          int
	details                map[string]bool
	note                   string
}

type lbEngine struct {
	w           *World
	at          *atomTable
	P, N        atomID
	frames      []lbFrame
	record      bool
	obs         map[string]*lbOb
	obOrder     []string
	text        map[token.Pos]string // source text of call/index/slice expressions by their ( or [ position
	textSeq     map[token.Pos]int    // occurrence number among identical texts in the same function
	notes       []string
	steps       int
	trace       bool
	visited     map[*ssa.Function]bool
	memo        map[string]*lstate
	lostDumped  bool
	recorded    map[string]bool
	scanNeed    map[string]int64 // C14/R10: terminator -> bytes of the opener the search must have left behind
	searchCalls map[*ssa.Function][]*ssa.Call
	prefixTests map[*ssa.Function]int // terminator tests made through a HasPrefix helper at offset 0, per function
	clsSets     map[*ssa.Function]*bset
	paramStart  bool                                 // C14/R14: what is known about the first two bytes where Kind = <param> is stored
	posProbe    map[*ssa.Call]bool                   // summary run over File.Position: is the argument of this ResolvePos call proved <= len(Buffer)?
	scanFns     map[string]bool                      // functions whose loops are byte scans: checked for unit steps and exhaustive exits
	progress    bool                                 // C03/R7: every loop iteration advances the cursor or a counter
	tiling      bool                                 // C13/R4: track the Space/Raw/Pos/End stores of tokens and comments
	tokProg     bool                                 // C13/R6: every return of the token readers has consumed at least one byte (or is at <eof>)
	numFollow   bool                                 // C14/R11: what consumeNumber rejects / accepts right behind a number
	cutEdges    map[[2]*ssa.BasicBlock]bool          // trace partition: CFG edges that are not taken in this run
	hexDigits   bool                                 // C14/R12: in the hex partition of consumeNumber every skipN has seen a digit behind "0x"
	identPart   bset                                 // the bytes char.IsIdentPart accepts (C14/R6)
	bytes       bool                                 // C03/R9: track what is known about single bytes of the buffer
	openerProbe func(call *ssa.Call, cf commentForm) // C14/R4: what is known about the bytes at the cursor where skipComment hands over to a scanner
	openerRoot  *ssa.Function
	tableLoops  map[*ssa.BasicBlock]*tableLoop
	edgeIns     map[*ssa.BasicBlock][]*lstate // openerProbe: the states on the incoming edges of the blocks of openerRoot (a disjunction `a || b` in front of a call is one opener per edge)
	inlineAlso  map[string]bool               // with shallow: cursor-moving methods that are followed all the same
	foldEq      bool                          // C16/R3: char.EqualFold returns true only for equal lengths, after the last index
	split       bool                          // C12/R5: SplitRawStatements over the contract of Lexer.NextToken (token fields as atoms)
	tokLen      bool                          // C06/R3: track Token.Kind / Token.AsString stores of the token reader; <param> spans '@' + its name
	shallow     bool                          // calls to lexer methods only move the cursor forward (not followed)
	shallowLeaf bool                          // ... except loop-free leaf helpers (skip, skipN, peek*), which are still inlined
	astScope    bool                          // C04/R3: the consumer functions of package ast (read-only by C18/R7: loads of one field path are one value)
	rootPre     []string
	owner       map[atomID]ssa.Value
	live        map[*ssa.Function]map[*ssa.BasicBlock]map[ssa.Value]bool
	moves       map[*ssa.Function]int
	loops       map[*ssa.Function][]*natLoop
}

// lbRootPre: preconditions of roots that are interpreted without a calling context.
var lbRootPre = map[string]struct {
	minLen int64
	why    string
}{
	"QuoteSQLIdent.s": {1, "identifier names are non-empty: the lexer rejects `` (\"invalid empty identifier\") and the quoting contract (C15) is stated for non-empty names"},
}

type ghostKey struct{ b *ssa.BasicBlock }
type ghostFieldKey struct {
	owner any
	name  string
}

type lenKey struct{ v any }
type primeKey struct{ a atomID }
type tupleKey struct {
	v ssa.Value
	i int
}

func (w *World) newLexBounds() *lbEngine {
	e := &lbEngine{w: w, at: newAtomTable(), obs: map[string]*lbOb{}, text: map[token.Pos]string{}, textSeq: map[token.Pos]int{}}
	e.P = e.at.get("P", "pos", false)
	e.N = e.at.get("N", "len(Buffer)", false)
	e.at.prio[e.P], e.at.prio[e.N] = -1, -1
	for _, pkg := range []*types.Package{w.Mem.Types, w.Tok.Types, w.Char.Types} {
		pkg := pkg
		e.indexText(w.Pkgs[pkg.Path()], func(fname string) bool {
			return strings.HasSuffix(fname, "lexer.go") || strings.HasSuffix(fname, "quote.go") || pkg == w.Char.Types
		})
	}
	return e
}

// indexText: the source text of the call/index/slice expressions of the accepted files, for naming obligations.
func (e *lbEngine) indexText(p *packages.Package, accept func(fname string) bool) {
	w := e.w
	for _, f := range p.Syntax {
		if !accept(w.Fset.Position(f.Pos()).Filename) {
			continue
		}
		for _, d := range f.Decls {
			fd, ok := d.(*ast.FuncDecl)
			if !ok || fd.Body == nil {
				continue
			}
			counts := map[string]int{}
			ast.Inspect(fd.Body, func(n ast.Node) bool {
				var pos token.Pos
				switch x := n.(type) {
				case *ast.CallExpr:
					pos = x.Lparen
				case *ast.IndexExpr:
					pos = x.Lbrack
				case *ast.SliceExpr:
					pos = x.Lbrack
				default:
					return true
				}
				var buf bytes.Buffer
				printer.Fprint(&buf, w.Fset, n)
				s := strings.Join(strings.Fields(buf.String()), " ")
				if len(s) > 90 {
					s = s[:87] + "..."
				}
				counts[s]++
				e.text[pos] = s
				e.textSeq[pos] = counts[s]
				return true
			})
		}
	}
}

// ---- atoms and terms ----------------------------------------------------------------------------

func (e *lbEngine) valName(v ssa.Value) string {
	fn := ""
	if in, ok := v.(ssa.Instruction); ok && in.Parent() != nil {
		fn = in.Parent().Name() + "."
	} else if p, ok := v.(*ssa.Parameter); ok && p.Parent() != nil {
		fn = p.Parent().Name() + "."
	}
	n := v.Name()
	if c, ok := v.(interface{ Comment() string }); ok {
		_ = c
	}
	if phi, ok := v.(*ssa.Phi); ok && phi.Comment != "" {
		n = phi.Comment + "(" + n + ")"
	}
	return fn + n
}

func (e *lbEngine) own(a atomID, v ssa.Value) atomID {
	if e.owner == nil {
		e.owner = map[atomID]ssa.Value{}
	}
	if _, ok := e.owner[a]; !ok {
		e.owner[a] = v
	}
	return a
}

func (e *lbEngine) atom(v ssa.Value) atomID {
	return e.own(e.at.get(v, e.valName(v), false), v)
}

func (e *lbEngine) lenAtom(v ssa.Value) atomID {
	return e.own(e.at.get(lenKey{v}, "len("+e.valName(v)+")", true), v)
}

func (e *lbEngine) prime(a atomID) atomID {
	return e.at.get(primeKey{a}, e.at.name[a]+"'", e.at.isLen[a])
}

func isIntType(t types.Type) bool {
	b, ok := t.Underlying().(*types.Basic)
	return ok && b.Info()&types.IsInteger != 0
}

// isCountType: int and named int types (token.Pos) — the types positions, lengths and counters have;
// bytes, runes and parsed numbers are not tracked.
func isCountType(t types.Type) bool {
	b, ok := t.Underlying().(*types.Basic)
	return ok && b.Kind() == types.Int
}

func isStringish(t types.Type) bool {
	switch u := t.Underlying().(type) {
	case *types.Basic:
		return u.Info()&types.IsString != 0
	case *types.Slice:
		return true
	case *types.Array:
		return true
	case *types.Pointer:
		_, ok := u.Elem().Underlying().(*types.Array)
		return ok
	}
	return false
}

func (e *lbEngine) aliasOf(in *lbInst, v ssa.Value) string {
	switch x := v.(type) {
	case *ssa.Parameter:
		return in.alias[x]
	case *ssa.Alloc:
		if e.split {
			if isNamed(x.Type(), modRoot, "Lexer") {
				return "lexer"
			}
			if isNamed(x.Type(), modRoot+"/token", "File") {
				return "file"
			}
		}
	case *ssa.UnOp:
		if x.Op == token.MUL {
			if fa, ok := x.X.(*ssa.FieldAddr); ok {
				switch {
				case e.aliasOf(in, fa.X) == "lexer" && fieldAddrName(fa) == "File":
					return "file"
				case e.aliasOf(in, fa.X) == "file" && fieldAddrName(fa) == "Buffer":
					return "buffer"
				}
			}
		}
	}
	return ""
}

func (e *lbEngine) isPosAddr(in *lbInst, v ssa.Value) bool {
	fa, ok := v.(*ssa.FieldAddr)
	return ok && e.aliasOf(in, fa.X) == "lexer" && fieldAddrName(fa) == "pos"
}

// linear: the value as a linear term over atoms.
func (e *lbEngine) linear(in *lbInst, v ssa.Value) (lin, bool) {
	if !isIntType(v.Type()) {
		return lin{}, false
	}
	switch x := v.(type) {
	case *ssa.Const:
		if k, ok := constInt(x); ok {
			return linConst(k), true
		}
		return lin{}, false
	case *ssa.Parameter:
		if l, ok := in.bindLin[x]; ok {
			return l, true
		}
		return linAtom(e.atom(x)), true
	case *ssa.BinOp:
		switch x.Op {
		case token.ADD, token.SUB:
			a, ok1 := e.linear(in, x.X)
			b, ok2 := e.linear(in, x.Y)
			if ok1 && ok2 {
				if x.Op == token.ADD {
					return a.add(b), true
				}
				return a.sub(b), true
			}
		case token.MUL:
			a, ok1 := e.linear(in, x.X)
			b, ok2 := e.linear(in, x.Y)
			if ok1 && ok2 && a.isConst() {
				return b.scale(a.k), true
			}
			if ok1 && ok2 && b.isConst() {
				return a.scale(b.k), true
			}
		}
		return linAtom(e.atom(x)), true
	case *ssa.Convert:
		if isIntType(x.X.Type()) && intWidth(x.X.Type()) <= intWidth(x.Type()) {
			return e.linear(in, x.X)
		}
		return linAtom(e.atom(x)), true
	case *ssa.ChangeType:
		return e.linear(in, x.X)
	case *ssa.Call:
		if isLenCall(x) {
			return e.lenLin(in, x.Call.Args[0]), true
		}
		return linAtom(e.atom(x)), true
	case *ssa.Extract:
		return linAtom(e.own(e.at.get(tupleKey{x.Tuple, x.Index}, e.valName(x), false), x)), true
	}
	return linAtom(e.atom(v)), true
}

func intWidth(t types.Type) int {
	b, ok := t.Underlying().(*types.Basic)
	if !ok {
		return 64
	}
	switch b.Kind() {
	case types.Int8, types.Uint8:
		return 8
	case types.Int16, types.Uint16:
		return 16
	case types.Int32, types.Uint32:
		return 32
	}
	return 64
}

// lenLin: the length of a string / slice / array value.
func (e *lbEngine) lenLin(in *lbInst, v ssa.Value) lin {
	if e.aliasOf(in, v) == "buffer" {
		return linAtom(e.N)
	}
	switch t := v.Type().Underlying().(type) {
	case *types.Array:
		return linConst(t.Len())
	case *types.Pointer:
		if a, ok := t.Elem().Underlying().(*types.Array); ok {
			return linConst(a.Len())
		}
	}
	switch x := v.(type) {
	case *ssa.Const:
		if s, ok := constString(x); ok {
			return linConst(int64(len(s)))
		}
		if x.Value == nil {
			return linConst(0)
		}
	case *ssa.Parameter:
		if l, ok := in.bindLen[x]; ok {
			return l
		}
	case *ssa.Slice:
		base := e.lenLin(in, x.X)
		lo, hi := linConst(0), base
		if x.Low != nil {
			if l, ok := e.linear(in, x.Low); ok {
				lo = l
			}
		}
		if x.High != nil {
			if l, ok := e.linear(in, x.High); ok {
				hi = l
			}
		}
		return hi.sub(lo)
	case *ssa.Convert:
		// string <-> []byte keep the byte length
		if isStringish(x.X.Type()) && !isIntType(x.X.Type()) {
			if _, isRunes := x.X.Type().Underlying().(*types.Slice); isRunes {
				if el, ok := x.X.Type().Underlying().(*types.Slice).Elem().Underlying().(*types.Basic); ok && el.Kind() != types.Uint8 {
					break
				}
			}
			if sl, ok := x.Type().Underlying().(*types.Slice); ok {
				if el, ok := sl.Elem().Underlying().(*types.Basic); ok && el.Kind() != types.Uint8 {
					break
				}
			}
			return e.lenLin(in, x.X)
		}
	case *ssa.ChangeType:
		return e.lenLin(in, x.X)
	case *ssa.MakeSlice:
		if l, ok := e.linear(in, x.Len); ok {
			return l
		}
	case *ssa.BinOp:
		if x.Op == token.ADD {
			return e.lenLin(in, x.X).add(e.lenLin(in, x.Y))
		}
	case *ssa.Extract:
		return linAtom(e.own(e.at.get(lenKey{tupleKey{x.Tuple, x.Index}}, "len("+e.valName(x)+")", true), x))
	}
	if e.astScope {
		if k, name, ok := fieldPathOf(v); ok {
			return linAtom(e.at.get(lenKey{k}, "len("+name+")", true)) // no owner: a later load of the same path finds it again
		}
	}
	return linAtom(e.lenAtom(v))
}

type fieldPathKey struct {
	root ssa.Value
	path string
}

// fieldPathOf: v is a load x.F.G of a field path rooted at a parameter or another value; in code that does not write
// the structures it reads, two such loads are the same value.
func fieldPathOf(v ssa.Value) (fieldPathKey, string, bool) {
	path := ""
	cur := v
	for {
		u, ok := cur.(*ssa.UnOp)
		if !ok || u.Op != token.MUL {
			break
		}
		fa, ok := u.X.(*ssa.FieldAddr)
		if !ok {
			break
		}
		path = "." + fieldAddrName(fa) + path
		cur = fa.X
	}
	if path == "" {
		return fieldPathKey{}, "", false
	}
	return fieldPathKey{cur, path}, cur.Name() + path, true
}

// ---- obligations --------------------------------------------------------------------------------

func (e *lbEngine) isLeafHelper(fn *ssa.Function) bool {
	if len(fn.Blocks) > 3 || len(naturalLoops(fn)) > 0 {
		return false
	}
	if fn.Signature.Recv() == nil {
		// the error constructor shared with the parser (see inScope): reported at the place that asks for the error
		if fnPkgPath(fn) != modRoot || e.astScope {
			return false
		}
		for _, p := range fn.Params {
			if isNamed(p.Type(), modRoot+"/token", "File") {
				return true
			}
		}
		return false
	}
	n := namedOf(fn.Signature.Recv().Type())
	return n != nil && n.Obj().Name() == "Lexer"
}

// site: where an obligation is reported — the innermost frame that is not a leaf helper.
func (e *lbEngine) site(instr ssa.Instruction) (fn *ssa.Function, text, where string) {
	fi := len(e.frames) - 1
	pos := instr.Pos()
	for fi > 0 && e.isLeafHelper(e.frames[fi].fn) {
		pos = e.frames[fi].call.Pos()
		fi--
	}
	fn = e.frames[fi].fn
	text = e.text[pos]
	if text == "" {
		text = strings.TrimSpace(instr.String())
		if st, ok := instr.(*ssa.Store); ok {
			// told apart by their order in the function (`l.pos++` in a for clause and `l.pos = len(l.Buffer)` behind the
			// loop are two obligations)
			n := 0
		count:
			for _, b := range st.Parent().Blocks {
				for _, in2 := range b.Instrs {
					if s2, ok := in2.(*ssa.Store); ok {
						if fa, ok := s2.Addr.(*ssa.FieldAddr); ok && fieldAddrName(fa) == "pos" {
							n++
						}
						if s2 == st {
							break count
						}
					}
				}
			}
			text = "assignment to Lexer.pos"
			if n > 1 {
				text = fmt.Sprintf("assignment to Lexer.pos #%d", n)
			}
		}
	} else if n := e.textSeq[pos]; n > 1 {
		text = fmt.Sprintf("%s #%d", text, n)
	}
	return fn, text, e.w.pos(pos)
}

func (e *lbEngine) context() string {
	var parts []string
	for _, f := range e.frames {
		parts = append(parts, f.fn.Name())
	}
	return strings.Join(parts, " > ")
}

func (e *lbEngine) require(in *lbInst, st *lstate, instr ssa.Instruction, rule, kind string, what []string, need []lin) {
	if !e.record || st == nil {
		return
	}
	fn, text, where := e.site(instr)
	construct := fmt.Sprintf("%s: %s — %s", funcName(fn), text, kind)
	key := rule + " " + construct
	ob := e.obs[key]
	if ob == nil {
		ob = &lbOb{rule: rule, construct: construct, where: where, details: map[string]bool{}}
		e.obs[key] = ob
		e.obOrder = append(e.obOrder, key)
	}
	ob.total++
	var failed []string
	proveBudgetInit = 3000
	jst := e.typeRanges(st, need)
	for i, l := range need {
		if jst != nil && !jst.proves(e.at, lfact{l: l}) {
			failed = append(failed, fmt.Sprintf("%s (needs %s >= 0)", what[i], e.at.show(normGE(l))))
		}
	}
	proveBudgetInit = 90
	if len(failed) > 0 {
		ob.failed++
		mode := ""
		for p, b := range e.rootBools(in) {
			mode += fmt.Sprintf(" [%s=%v]", p, b)
		}
		d := fmt.Sprintf("not proved: %s; reached through %s%s", strings.Join(failed, ", "), e.context(), mode)
		if len(ob.details) < 3 {
			ob.details[d] = true
		}
		if e.trace {
			fmt.Printf("LB FAIL %s\n   %s\n   state %s\n", key, d, e.at.showState(st))
		}
	}
}

func (e *lbEngine) rootBools(in *lbInst) map[string]bool {
	out := map[string]bool{}
	for ; in != nil; in = in.parent {
		if in.parent == nil {
			for p, b := range in.bindBool {
				out[p.Name()] = b
			}
		}
	}
	return out
}

// ---- interpretation -----------------------------------------------------------------------------

type lbRet struct {
	st   *lstate
	vals []ssa.Value
	in   *lbInst
	ret  *ssa.Return
}

const lbMaxDepth = 12

func (e *lbEngine) run(in *lbInst, entry *lstate) []lbRet {
	fn := in.fn
	if len(fn.Blocks) == 0 {
		return nil
	}
	if e.visited == nil {
		e.visited = map[*ssa.Function]bool{}
	}
	e.visited[fn] = true
	inState := map[*ssa.BasicBlock]*lstate{}
	visits := map[*ssa.BasicBlock]int{}
	edge := map[[2]int]*lstate{} // (pred index, succ index) -> state
	var rets []lbRet
	saveRecord := e.record
	e.record = false
	// reverse post-order
	order := rpo(fn)
	rank := map[*ssa.BasicBlock]int{}
	for i, b := range order {
		rank[b] = i
	}
	inState[fn.Blocks[0]] = entry
	compute := func(b *ssa.BasicBlock) *lstate {
		if b == fn.Blocks[0] && len(b.Preds) == 0 {
			return entry
		}
		var ins []*lstate
		var zeros [][]lin
		for _, p := range b.Preds {
			s := edge[[2]int{p.Index, b.Index}]
			if e.cutEdges != nil && e.cutEdges[[2]*ssa.BasicBlock{p, b}] {
				s = nil
			}
			var z []lin
			if s != nil {
				s, z = e.phiAssign(in, b, p, s)
				s = e.boolPhiTransfer(in, b, p, s)
				s = e.dropDead(fn, b, s)
			}
			ins = append(ins, s)
			zeros = append(zeros, z)
		}
		if b == fn.Blocks[0] {
			ins = append(ins, entry)
			zeros = append(zeros, nil)
		}
		hasBack := false
		for _, p := range b.Preds {
			if b.Dominates(p) {
				hasBack = true
			}
		}
		var restrict *lstate
		if hasBack && visits[b] >= 6 {
			restrict = inState[b]
			if restrict == nil {
				restrict = emptyState()
			}
		}
		if restrict != nil {
			// widening with thresholds: the bounds the loop itself tests (`i < len(ps)`, `j < n`) are kept when every
			// incoming state satisfies them in their non-strict form — a loop over a slice of constant length is not
			// unrolled past the widening point with its bound forgotten
			for _, c := range e.loopThresholds(in, fn, b) {
				holds := true
				for _, s := range ins {
					if s != nil && !s.proves(e.at, lfact{l: c}) {
						holds = false
						break
					}
				}
				if holds {
					restrict = restrict.with(lfact{l: c})
				}
			}
		}
		res := joinLin(e.at, ins, zeros, restrict)
		if e.openerProbe != nil && fn == e.openerRoot {
			if e.edgeIns == nil {
				e.edgeIns = map[*ssa.BasicBlock][]*lstate{}
			}
			e.edgeIns[b] = append([]*lstate{}, ins...)
		}
		if !hasBack {
			res = res.prune(e.at) // only loop heads keep redundant facts (they may be what survives the next iteration)
		}
		if w := os.Getenv("VERIF_LB_WATCH"); w != "" && fmt.Sprintf("%s.b%d", fn.Name(), b.Index) == w && strings.Contains(e.context(), os.Getenv("VERIF_LB_WATCHCTX")) {
			// watch the shape len(Buffer) - pos - (first int phi of the block)
			for _, instr := range b.Instrs {
				phi, ok := instr.(*ssa.Phi)
				if !ok {
					break
				}
				if !isIntType(phi.Type()) {
					continue
				}
				sh := linAtom(e.N).sub(linAtom(e.P)).sub(linAtom(e.atom(phi)))
				fmt.Printf("LB WATCH %s visits=%d restrict=%v shape %s\n", e.context(), visits[b], restrict != nil, e.at.show(sh))
				for i, s := range ins {
					if s == nil {
						fmt.Printf("    in %d (b%d): bottom\n", i, b.Preds[i].Index)
						continue
					}
					m, ok := s.lowerBound(e.at, sh)
					fmt.Printf("    in %d (b%d): lb=%d ok=%v\n", i, b.Preds[i].Index, m, ok)
					if !ok {
						fmt.Printf("        %s\n        raw edge: %s\n", e.at.showState(s), e.at.showState(edge[[2]int{b.Preds[i].Index, b.Index}]))
						fmt.Printf("        pred in-state: %s\n", e.at.showState(inState[b.Preds[i]]))
					}
				}
				if res != nil {
					m, ok := res.lowerBound(e.at, sh)
					fmt.Printf("    res: lb=%d ok=%v\n", m, ok)
				}
				break
			}
		}
		if os.Getenv("VERIF_LB_LIVEDEBUG") != "" && !e.lostDumped && res != nil {
			np := lfact{l: linAtom(e.N).sub(linAtom(e.P))}
			if !res.proves(e.at, np) {
				e.lostDumped = true
				fmt.Printf("LB LOSTJOIN in %s b%d visits=%d restrict=%v\n", fn.Name(), b.Index, visits[b], restrict != nil)
				for i, s := range ins {
					fmt.Printf("   in %d (pred b%d) proves=%v: %s\n", i, b.Preds[i].Index, s.proves(e.at, np), e.at.showState(s))
				}
				fmt.Printf("   res %s\n", e.at.showState(res))
			}
		}
		if e.trace && os.Getenv("VERIF_LB_LIVEDEBUG") != "" && fmt.Sprintf("%s.b%d", fn.Name(), b.Index) == os.Getenv("VERIF_LB_BLOCK") {
			fmt.Printf("LB JOINRES %s b%d visits=%d restrict=%v:\n", fn.Name(), b.Index, visits[b], restrict != nil)
			for i, s := range ins {
				fmt.Printf("    in %d: %s\n", i, e.at.showState(s))
			}
			fmt.Printf("    res: %s\n    dropped: %s\n", e.at.showState(res), e.at.showState(e.dropDead(fn, b, res)))
		}
		if res != nil {
			res = e.boolPhiGuards(in, b, ins, res)
		}
		res = e.dropDead(fn, b, res)
		if hasBack && res != nil && (e.scanFns[fn.Name()] || e.progress) {
			// ghost: the cursor at the start of this iteration
			g := e.at.get(ghostKey{b}, fmt.Sprintf("%s.iter%d.pos", fn.Name(), b.Index), false)
			res = res.eliminate(e.at, map[atomID]bool{g: true}).eq(linAtom(g), linAtom(e.P))
		}
		return res
	}
	// Recursive iteration strategy: blocks in reverse post-order; a natural loop is stabilised (its head
	// re-joined and its whole body re-interpreted, inner loops stabilised recursively) before anything
	// after it is looked at, and every time a loop is entered its back-edge states are cleared and its
	// widening sequence starts afresh — so the states joined at a head always belong to the same
	// generation.
	loops := e.loopsOf(fn)
	loopOf := map[*ssa.BasicBlock]*natLoop{}
	for _, l := range loops {
		loopOf[l.header] = l
	}
	process := func(b *ssa.BasicBlock) bool {
		st := compute(b)
		changed := visits[b] == 0 || st.key() != inState[b].key()
		visits[b]++
		inState[b] = st
		if !changed {
			return false
		}
		outs := e.execBlock(in, b, st, nil)
		outs = e.tableLoopExits(in, fn, b, outs)
		for si, s := range b.Succs {
			var ns *lstate
			if si < len(outs) {
				ns = outs[si]
			}
			edge[[2]int{b.Index, s.Index}] = ns
		}
		return true
	}
	var walk func(blocks []*ssa.BasicBlock)
	var stabilise func(l *natLoop)
	walk = func(blocks []*ssa.BasicBlock) {
		skip := map[*ssa.BasicBlock]bool{}
		for _, b := range blocks {
			if skip[b] {
				continue
			}
			if l := loopOf[b]; l != nil {
				stabilise(l)
				for x := range l.body {
					skip[x] = true
				}
				continue
			}
			visits[b] = 0 // straight-line code: always (re)interpreted from the current edge states
			process(b)
		}
	}
	stabilise = func(l *natLoop) {
		var body []*ssa.BasicBlock
		for _, b := range order {
			if l.body[b] && b != l.header {
				body = append(body, b)
			}
		}
		// fresh start: forget the back edges and the states of the previous entry
		for _, b := range order {
			if l.body[b] {
				visits[b] = 0
				for _, s := range b.Succs {
					if l.body[s] {
						delete(edge, [2]int{b.Index, s.Index})
					}
				}
			}
		}
		for it := 0; it < 60; it++ {
			if !process(l.header) && it > 0 {
				break
			}
			walk(body)
		}
	}
	walk(order)
	// final pass: record obligations, collect returns
	e.record = saveRecord
	for _, b := range order {
		st, ok := inState[b]
		if !ok || st == nil {
			continue
		}
		if e.trace && e.record && os.Getenv("VERIF_LB_LIVEDEBUG") != "" {
			fmt.Printf("LB FINAL %s b%d (visits %d): %s\n", fn.Name(), b.Index, visits[b], e.at.showState(st))
		}
		if e.numFollow && e.record && fn.Name() == "consumeNumber" {
			for _, p := range b.Preds {
				s := edge[[2]int{p.Index, b.Index}]
				if s == nil {
					continue
				}
				// `glued := a && b; if glued {…}`: the branch is on a boolean phi; what is known on each way into the
				// phi is looked at separately (the two ways of not being glued have nothing in common)
				if iff, ok := p.Instrs[len(p.Instrs)-1].(*ssa.If); ok {
					if phi, ok := iff.Cond.(*ssa.Phi); ok && phi.Block() == p && len(p.Succs) == 2 {
						pol := p.Succs[0] == b
						split := false
						for qi, q := range p.Preds {
							sq := edge[[2]int{q.Index, p.Index}]
							if sq == nil || qi >= len(phi.Edges) {
								continue
							}
							v := phi.Edges[qi]
							if cb, isC := constBool(v); isC {
								if cb == pol {
									e.numFollowEdge(in, b, p, sq)
									split = true
								}
								continue
							}
							if rs := e.refine(in, sq, v, pol); rs != nil {
								e.numFollowEdge(in, b, p, rs)
								split = true
							}
						}
						if split {
							continue
						}
					}
				}
				e.numFollowEdge(in, b, p, s)
			}
		}
		outs := e.execBlock(in, b, st, &rets)
		outs = e.tableLoopExits(in, fn, b, outs)
		if e.scanFns[fn.Name()] && e.record {
			e.scanObligations(in, fn, b, outs)
		}
		if e.progress && e.record {
			e.progressObligations(in, fn, b, outs)
		}
	}
	return rets
}

func edgeKey(s *lstate) string { return s.key() }

// tableLoop: `for _, q := range T { if strings.HasPrefix(hay, q) { <leave the loop> } }` over a constant table T of
// strings, hay computed before the loop: leaving the loop through its head means that no element of T is a prefix of hay.
type tableLoop struct {
	needles []string
	hay     ssa.Value
}

func (e *lbEngine) tableLoopOf(fn *ssa.Function, l *natLoop) *tableLoop {
	if e.tableLoops == nil {
		e.tableLoops = map[*ssa.BasicBlock]*tableLoop{}
	}
	if tl, ok := e.tableLoops[l.header]; ok {
		return tl
	}
	e.tableLoops[l.header] = nil
	h := l.header
	// the index: phi [-1, phi+1], tested `phi+1 < n`
	iff, ok := h.Instrs[len(h.Instrs)-1].(*ssa.If)
	if !ok {
		return nil
	}
	cmp, ok := iff.Cond.(*ssa.BinOp)
	if !ok || cmp.Op != token.LSS {
		return nil
	}
	n, ok := constInt(cmp.Y)
	var lenOf ssa.Value // `phi+1 < len(T)` for a slice
	if lc, isC := cmp.Y.(*ssa.Call); isC && !ok && isLenCall(lc) {
		lenOf, ok = lc.Call.Args[0], true
	}
	inc, ok2 := cmp.X.(*ssa.BinOp)
	if !ok || !ok2 || inc.Op != token.ADD {
		return nil
	}
	phi, ok := inc.X.(*ssa.Phi)
	if k, isK := constInt(inc.Y); !ok || !isK || k != 1 || phi.Block() != h {
		return nil
	}
	for _, ed := range phi.Edges {
		if k, isK := constInt(ed); isK && k == -1 {
			continue
		}
		if ed != ssa.Value(inc) {
			return nil
		}
	}
	if !l.body[h.Succs[0]] || l.body[h.Succs[1]] {
		return nil
	}
	// the body: one prefix test of a value from outside the loop against the element, leaving the loop when it holds;
	// nothing else leaves it, nothing else is called
	var hp *ssa.Call
	for b := range l.body {
		if b == h {
			continue
		}
		for _, in := range b.Instrs {
			switch x := in.(type) {
			case *ssa.Call:
				if bi, isB := x.Call.Value.(*ssa.Builtin); isB && bi.Name() == "len" {
					continue
				}
				c := x.Call.StaticCallee()
				if c == nil || (c.String() != "strings.HasPrefix" && c.String() != "bytes.HasPrefix") || hp != nil {
					return nil
				}
				hp = x
			case *ssa.Store, *ssa.Go, *ssa.Defer, *ssa.Send, *ssa.MapUpdate, *ssa.Panic:
				return nil
			}
		}
	}
	if hp == nil {
		return nil
	}
	if hi, isI := hp.Call.Args[0].(ssa.Instruction); isI && l.body[hi.Block()] {
		return nil
	}
	for b := range l.body {
		if b == h {
			continue
		}
		for si, sc := range b.Succs {
			if l.body[sc] {
				continue
			}
			bi, isIf := b.Instrs[len(b.Instrs)-1].(*ssa.If)
			if !isIf || bi.Cond != ssa.Value(hp) || si != 0 {
				return nil
			}
		}
	}
	// the element: T[phi+1]
	var table ssa.Value
	switch x := hp.Call.Args[1].(type) {
	case *ssa.Index:
		if x.Index == ssa.Value(inc) {
			table = x.X
		}
	case *ssa.UnOp:
		if ia, isIA := x.X.(*ssa.IndexAddr); isIA && x.Op == token.MUL && ia.Index == ssa.Value(inc) {
			table = ia.X
		}
	}
	if table == nil {
		return nil
	}
	strs, ok := e.w.constStringTable(table)
	if !ok || (lenOf == nil && int64(len(strs)) != n) || (lenOf != nil && lenOf != table) {
		return nil
	}
	tl := &tableLoop{needles: strs, hay: hp.Call.Args[0]}
	e.tableLoops[l.header] = tl
	return tl
}

// constStringTable: the strings of a table that is a package-level array/slice variable (as its package initialiser
// leaves it; C18/R1: nothing writes it later), a local copy of one, or a local literal of constants.
func (w *World) constStringTable(v ssa.Value) ([]string, bool) {
	fromCval := func(c cval) ([]string, bool) {
		var els []cval
		switch c.kind {
		case cArr:
			els = c.arr.e
		case cSlice:
			els = c.arr.e[c.lo:c.hi]
		default:
			return nil, false
		}
		var out []string
		for _, el := range els {
			if el.kind != cConst || el.c.Kind() != constant.String {
				return nil, false
			}
			out = append(out, constant.StringVal(el.c))
		}
		return out, len(out) > 0
	}
	for i := 0; i < 4; i++ {
		switch x := v.(type) {
		case *ssa.UnOp:
			if x.Op != token.MUL {
				return nil, false
			}
			if g, ok := x.X.(*ssa.Global); ok {
				if g.Pkg == nil {
					return nil, false
				}
				init, _ := w.pkgInit(g.Pkg.Pkg.Path())
				if init == nil {
					return nil, false
				}
				cell, ok := init.globals[g]
				if !ok {
					return nil, false
				}
				return fromCval(cell.v)
			}
			v = x.X
			continue
		case *ssa.Slice:
			if x.Low != nil || x.High != nil {
				return nil, false
			}
			v = x.X
			continue
		case *ssa.Alloc:
			at, ok := x.Type().(*types.Pointer).Elem().Underlying().(*types.Array)
			if !ok {
				return nil, false
			}
			out := make([]string, at.Len())
			set := make([]bool, at.Len())
			for _, u := range referrers(x) {
				switch y := u.(type) {
				case *ssa.IndexAddr:
					k, ok := constInt(y.Index)
					if !ok || k < 0 || k >= at.Len() {
						// an index by a variable: a read of the table (the loop), as long as nothing is stored through it
						for _, uu := range referrers(y) {
							if st, isS := uu.(*ssa.Store); isS && st.Addr == ssa.Value(y) {
								return nil, false
							}
						}
						continue
					}
					for _, uu := range referrers(y) {
						if st, isS := uu.(*ssa.Store); isS && st.Addr == ssa.Value(y) {
							sv, ok := constString(st.Val)
							if !ok || set[k] {
								return nil, false
							}
							out[k], set[k] = sv, true
						}
					}
				case *ssa.Store:
					// a copy of a package-level array
					if y.Addr == ssa.Value(x) {
						return w.constStringTable(y.Val)
					}
				case *ssa.Slice, *ssa.UnOp, *ssa.DebugRef:
				default:
					return nil, false
				}
			}
			for _, ok := range set {
				if !ok {
					return nil, false
				}
			}
			return out, true
		}
		return nil, false
	}
	return nil, false
}

// tableLoopExits: on the edge that leaves a table loop through its head, the bytes the one-byte elements of the table
// begin with are excluded for the first byte of the text tested (when that text is known not to be empty).
func (e *lbEngine) tableLoopExits(in *lbInst, fn *ssa.Function, b *ssa.BasicBlock, outs []*lstate) []*lstate {
	if !e.bytes || len(outs) != 2 {
		return outs
	}
	for _, l := range e.loopsOf(fn) {
		if l.header != b {
			continue
		}
		tl := e.tableLoopOf(fn, l)
		if tl == nil || outs[1] == nil {
			return outs
		}
		lo, hi, isBuf := e.bufSlice(in, tl.hay)
		st := outs[1]
		if !isBuf || !st.proves(e.at, lfact{l: hi.sub(lo).add(linConst(-1))}) {
			return outs
		}
		set, _ := e.byteSetAt(st, lo)
		for _, nd := range tl.needles {
			if len(nd) == 1 {
				set.del(nd[0])
			}
		}
		res := []*lstate{outs[0], nil}
		if !set.empty() {
			res[1] = st.withByte(lo, set)
		}
		return res
	}
	return outs
}

func rpo(fn *ssa.Function) []*ssa.BasicBlock {
	seen := map[*ssa.BasicBlock]bool{}
	var post []*ssa.BasicBlock
	var dfs func(b *ssa.BasicBlock)
	dfs = func(b *ssa.BasicBlock) {
		seen[b] = true
		for _, s := range b.Succs {
			if !seen[s] {
				dfs(s)
			}
		}
		post = append(post, b)
	}
	dfs(fn.Blocks[0])
	for i, j := 0, len(post)-1; i < j; i, j = i+1, j-1 {
		post[i], post[j] = post[j], post[i]
	}
	return post
}

// liveIn: classic backward liveness of SSA values per block.
func (e *lbEngine) liveIn(fn *ssa.Function) map[*ssa.BasicBlock]map[ssa.Value]bool {
	if e.live == nil {
		e.live = map[*ssa.Function]map[*ssa.BasicBlock]map[ssa.Value]bool{}
	}
	if l, ok := e.live[fn]; ok {
		return l
	}
	in := map[*ssa.BasicBlock]map[ssa.Value]bool{}
	for _, b := range fn.Blocks {
		in[b] = map[ssa.Value]bool{}
	}
	tracked := func(v ssa.Value) bool {
		switch v.(type) {
		case *ssa.Const, *ssa.Function, *ssa.Global, *ssa.Builtin:
			return false
		}
		return true
	}
	for changed := true; changed; {
		changed = false
		for i := len(fn.Blocks) - 1; i >= 0; i-- {
			b := fn.Blocks[i]
			live := map[ssa.Value]bool{}
			for _, s := range b.Succs {
				for v := range in[s] {
					live[v] = true
				}
				// phis of s: defined there, their operand from b is used on the edge
				pi := -1
				for k, p := range s.Preds {
					if p == b {
						pi = k
					}
				}
				for _, instr := range s.Instrs {
					phi, ok := instr.(*ssa.Phi)
					if !ok {
						break
					}
					delete(live, phi)
					_ = pi
				}
				for _, instr := range s.Instrs {
					phi, ok := instr.(*ssa.Phi)
					if !ok {
						break
					}
					if pi >= 0 && tracked(phi.Edges[pi]) {
						live[phi.Edges[pi]] = true
					}
				}
			}
			for k := len(b.Instrs) - 1; k >= 0; k-- {
				instr := b.Instrs[k]
				if v, ok := instr.(ssa.Value); ok {
					if _, isPhi := instr.(*ssa.Phi); !isPhi {
						delete(live, v)
					}
				}
				if _, isPhi := instr.(*ssa.Phi); isPhi {
					continue
				}
				for _, op := range instr.Operands(nil) {
					if *op != nil && tracked(*op) {
						live[*op] = true
					}
				}
			}
			// phis of b are live-in only in the sense of being defined at entry; keep them if used
			if len(live) != len(in[b]) {
				changed = true
			} else {
				for v := range live {
					if !in[b][v] {
						changed = true
						break
					}
				}
			}
			in[b] = live
		}
	}
	// values whose terms are built from other values keep those alive
	for _, b := range fn.Blocks {
		seen := map[ssa.Value]bool{}
		var walk func(v ssa.Value, depth int)
		walk = func(v ssa.Value, depth int) {
			if v == nil || seen[v] || depth > 12 {
				return
			}
			seen[v] = true
			in[b][v] = true
			switch x := v.(type) {
			case *ssa.BinOp:
				walk(x.X, depth+1)
				walk(x.Y, depth+1)
			case *ssa.Convert:
				walk(x.X, depth+1)
			case *ssa.ChangeType:
				walk(x.X, depth+1)
			case *ssa.Slice:
				walk(x.X, depth+1)
				walk(x.Low, depth+1)
				walk(x.High, depth+1)
			case *ssa.Extract:
				walk(x.Tuple, depth+1)
			case *ssa.Call:
				if isLenCall(x) {
					walk(x.Call.Args[0], depth+1)
				}
			}
		}
		var roots []ssa.Value
		for v := range in[b] {
			roots = append(roots, v)
		}
		for _, v := range roots {
			seen[v] = false
			walk(v, 0)
		}
	}
	e.live[fn] = in
	return in
}

// dropDead removes the atoms of values of fn that are not live at the entry of b.
func (e *lbEngine) dropDead(fn *ssa.Function, b *ssa.BasicBlock, s *lstate) *lstate {
	if s == nil {
		return nil
	}
	if e.foldEq {
		return s // a two-loop function whose returns are judged on values that are dead there
	}
	live := e.liveIn(fn)[b]
	drop := map[atomID]bool{}
	for a := range s.atomsOf() {
		v, ok := e.owner[a]
		if !ok {
			continue
		}
		var vfn *ssa.Function
		switch x := v.(type) {
		case ssa.Instruction:
			vfn = x.Parent()
		case *ssa.Parameter:
			vfn = x.Parent()
		}
		if vfn != fn {
			continue
		}
		if live[v] {
			continue
		}
		if ex, ok := v.(*ssa.Extract); ok {
			if _, isNext := ex.Tuple.(*ssa.Next); isNext {
				continue // index of a range loop: known from the loop test on, before the extract that names it
			}
		}
		if phi, ok := v.(*ssa.Phi); ok && phi.Block() == b {
			continue
		}
		if phi, ok := v.(*ssa.Phi); ok && e.progress && e.inLoopOf(fn, phi.Block(), b) {
			continue // the progress measure compares the new value with this one on the back edge
		}
		drop[a] = true
	}
	if e.trace && len(drop) > 0 && os.Getenv("VERIF_LB_LIVEDEBUG") != "" {
		var ns []string
		for a := range drop {
			ns = append(ns, e.at.name[a])
		}
		sort.Strings(ns)
		fmt.Printf("LB DROP at %s block %d: %v\n   before %s\n   after %s\n", fn.Name(), b.Index, ns, e.at.showState(s), e.at.showState(s.eliminate(e.at, drop)))
	}
	return s.eliminate(e.at, drop)
}

// inLoopOf: header is the head of a natural loop of fn whose body contains b.
func (e *lbEngine) inLoopOf(fn *ssa.Function, header, b *ssa.BasicBlock) bool {
	for _, l := range e.loopsOf(fn) {
		if l.header == header && l.body[b] {
			return true
		}
	}
	return false
}

func (e *lbEngine) loopsOf(fn *ssa.Function) []*natLoop {
	if e.loops == nil {
		e.loops = map[*ssa.Function][]*natLoop{}
	}
	if l, ok := e.loops[fn]; ok {
		return l
	}
	l := naturalLoops(fn)
	e.loops[fn] = l
	return l
}

// phiAssign: the parallel assignment of the integer phis of b along the edge from pred.
func (e *lbEngine) phiAssign(in *lbInst, b, pred *ssa.BasicBlock, s *lstate) (*lstate, []lin) {
	pi := -1
	for i, p := range b.Preds {
		if p == pred {
			pi = i
		}
	}
	drop := map[atomID]bool{}
	ren := map[atomID]atomID{}
	out := s
	for _, instr := range b.Instrs {
		phi, ok := instr.(*ssa.Phi)
		if !ok {
			break
		}
		switch {
		case isIntType(phi.Type()):
			a := e.atom(phi)
			l, ok := e.linear(in, phi.Edges[pi])
			drop[a] = true
			if ok {
				pa := e.prime(a)
				out = out.eq(linAtom(pa), l)
				ren[pa] = a
			}
		case isStringish(phi.Type()):
			a := e.lenAtom(phi)
			l := e.lenLin(in, phi.Edges[pi])
			drop[a] = true
			pa := e.prime(a)
			out = out.eq(linAtom(pa), l)
			ren[pa] = a
			if e.tiling && isStringType(phi.Type()) {
				plo, phi2, _ := e.bufSlice(in, phi)
				glo, ghi := plo.t[0].a, phi2.t[0].a
				drop[glo], drop[ghi] = true, true
				if lo, hi, ok := e.bufSlice(in, phi.Edges[pi]); ok {
					pl, ph := e.prime(glo), e.prime(ghi)
					out = out.eq(linAtom(pl), lo).eq(linAtom(ph), hi)
					ren[pl], ren[ph] = glo, ghi
				}
			}
		case isBoolType(phi.Type()):
			drop[e.atom(phi)] = true
		}
	}
	if out == nil {
		return nil, nil
	}
	if os.Getenv("VERIF_LB_PHIDEBUG") == fmt.Sprintf("%s.b%d.b%d", in.fn.Name(), pred.Index, b.Index) {
		var ds []string
		for a := range drop {
			ds = append(ds, e.at.name[a])
		}
		sort.Strings(ds)
		elimDebug = os.Getenv("VERIF_LB_ELIMDEBUG")
		defer func() { elimDebug = "" }()
		fmt.Printf("LB PHI %s\n   drop %v\n   with eqs %s\n   eliminated %s\n", os.Getenv("VERIF_LB_PHIDEBUG"), ds, e.at.showState(out), e.at.showState(out.eliminate(e.at, drop)))
	}
	out = out.eliminate(e.at, drop)
	out = out.renameAll(ren)
	// zero terms: phi - (value on this edge), where the value does not itself mention a phi of b
	var zeros []lin
	for _, instr := range b.Instrs {
		phi, ok := instr.(*ssa.Phi)
		if !ok {
			break
		}
		var a atomID
		var l lin
		switch {
		case isIntType(phi.Type()):
			a = e.atom(phi)
			l, _ = e.linear(in, phi.Edges[pi])
		default:
			continue
		}
		clean := true
		for _, t := range l.t {
			if drop[t.a] {
				clean = false
			}
		}
		if clean {
			zeros = append(zeros, linAtom(a).sub(l))
		}
	}
	return out, zeros
}

func isBoolType(t types.Type) bool {
	b, ok := t.Underlying().(*types.Basic)
	return ok && b.Info()&types.IsBoolean != 0
}

// boolPhiGuards: facts that hold whenever a boolean phi of b has a given constant value.
func (e *lbEngine) boolPhiGuards(in *lbInst, b *ssa.BasicBlock, ins []*lstate, res *lstate) *lstate {
	for _, instr := range b.Instrs {
		phi, ok := instr.(*ssa.Phi)
		if !ok {
			break
		}
		if !isBoolType(phi.Type()) {
			continue
		}
		for _, pol := range []bool{true, false} {
			var sel []*lstate
			okPol := true
			for i, ed := range phi.Edges {
				if i >= len(ins) || ins[i] == nil {
					continue
				}
				if c, isC := constBool(ed); isC {
					if c == pol {
						sel = append(sel, ins[i])
					}
					continue
				}
				// a computed edge: the state of that edge with the edge value assumed to be pol (what is known under
				// that value was handed over to the phi by boolPhiTransfer before the operand went out of scope)
				if rs := e.activate(ins[i], e.atom(phi), pol); rs != nil {
					sel = append(sel, rs)
				}
			}
			if !okPol || len(sel) == 0 {
				continue
			}
			j := joinLin(e.at, sel, nil, sel[0])
			if j == nil {
				continue
			}
			var add []lfact
			for _, f := range j.f {
				if f.g != 0 || res.idx[f.key()] {
					continue
				}
				add = append(add, lfact{g: e.atom(phi), gp: pol, l: f.l})
			}
			res = res.with(add...)
			for _, bb := range j.bf {
				if bb.g != 0 {
					continue
				}
				if cur, has := res.byteSet(bb.idx); has && cur == bb.set {
					continue
				}
				res = res.withGuardedByte(e.atom(phi), pol, bb.idx, bb.set)
			}
		}
	}
	return res
}

func isRuneType(t types.Type) bool {
	b, ok := t.Underlying().(*types.Basic)
	return ok && b.Kind() == types.Int32
}

func isByteType(t types.Type) bool {
	b, ok := t.Underlying().(*types.Basic)
	return ok && b.Kind() == types.Uint8
}

// byteConst: v is a byte constant, or a parameter bound to one in this frame.
func (e *lbEngine) byteConst(in *lbInst, v ssa.Value) (byte, bool) {
	if k, ok := constInt(v); ok && k >= 0 && k < 256 {
		return byte(k), true
	}
	if p, ok := v.(*ssa.Parameter); ok {
		if k, ok := in.bindByte[p]; ok {
			return k, true
		}
	}
	return 0, false
}

// refineByte: the comparison `val == c` (eq) / `val != c` of a byte of the buffer with a constant.
func (e *lbEngine) refineByte(in *lbInst, st *lstate, val, cv ssa.Value, eq bool) (*lstate, bool) {
	c, ok := e.byteConst(in, cv)
	if !ok {
		return st, false
	}
	aid, ok := e.at.byKey[val]
	if !ok {
		return st, false
	}
	idx, ok := st.valIdx(aid)
	if !ok {
		return st, false
	}
	var set bset
	if eq {
		set.add(c)
	} else {
		set = fullBset()
		set.del(c)
	}
	return st.withByte(idx, set), true
}

// boolPhiTransfer: on the edge p -> b, what is known under a value of a boolean phi operand is known under the same
// value of the phi (the operand itself is dead in b).
func (e *lbEngine) boolPhiTransfer(in *lbInst, b, p *ssa.BasicBlock, s *lstate) *lstate {
	if s == nil {
		return nil
	}
	pi := -1
	for k, q := range b.Preds {
		if q == p {
			pi = k
		}
	}
	if pi < 0 {
		return s
	}
	var add []lfact
	var addB []bfact
	for _, instr := range b.Instrs {
		phi, ok := instr.(*ssa.Phi)
		if !ok {
			break
		}
		if !isBoolType(phi.Type()) || pi >= len(phi.Edges) {
			continue
		}
		ed := phi.Edges[pi]
		if _, isC := constBool(ed); isC {
			continue
		}
		pa := e.atom(phi)
		if _, isCmp := ed.(*ssa.BinOp); isCmp && e.bytes {
			// a comparison evaluated in the predecessor: what it tells under either outcome is told under the same
			// value of the phi (the compared values are dead after the edge)
			for _, pol := range []bool{true, false} {
				rs := e.refine(in, s, ed, pol)
				if e.trace && os.Getenv("VERIF_LB_BYTEDEBUG") != "" {
					fmt.Printf("LB PHICMP %s.%s edge %s pol=%v\n   s  %s\n   rs %s\n", in.fn.Name(), phi.Name(), ed.String(), pol, e.at.showState(s), e.at.showState(rs))
				}
				if rs == nil {
					continue
				}
				for _, f := range rs.f {
					if f.g == 0 && !s.idx[f.key()] {
						add = append(add, lfact{g: pa, gp: pol, l: f.l})
					}
				}
				for _, bb := range rs.bf {
					if bb.g != 0 {
						continue
					}
					if cur, has := s.byteSet(bb.idx); has && cur == bb.set {
						continue
					}
					addB = append(addB, bfact{pa, pol, bb.idx, bb.set})
				}
			}
			continue
		}
		ga, ok := e.at.byKey[ed]
		if !ok {
			continue
		}
		for _, f := range s.f {
			if f.g == ga {
				add = append(add, lfact{g: pa, gp: f.gp, l: f.l})
			}
		}
		for _, b := range s.bf {
			if b.g == ga {
				addB = append(addB, bfact{pa, b.gp, b.idx, b.set})
			}
		}
	}
	if len(add) == 0 && len(addB) == 0 {
		return s
	}
	out := s.with(add...)
	for _, b := range addB {
		out = out.withGuardedByte(b.g, b.gp, b.idx, b.set)
	}
	return out
}

// refine: the state with cond assumed to be pol (nil when that is contradictory).
func (e *lbEngine) refine(in *lbInst, st *lstate, cond ssa.Value, pol bool) *lstate {
	if st == nil {
		return nil
	}
	switch x := cond.(type) {
	case *ssa.Const:
		if b, ok := constBool(x); ok && b != pol {
			return nil
		}
		return st
	case *ssa.Parameter:
		for i := in; i != nil; i = nil {
			if b, ok := i.bindBool[x]; ok {
				if b != pol {
					return nil
				}
				return st
			}
		}
		return e.activate(st, e.atom(x), pol)
	case *ssa.UnOp:
		if x.Op == token.NOT {
			return e.refine(in, st, x.X, !pol)
		}
	case *ssa.BinOp:
		op := x.Op
		if !pol {
			switch op {
			case token.EQL:
				op = token.NEQ
			case token.NEQ:
				op = token.EQL
			case token.LSS:
				op = token.GEQ
			case token.GEQ:
				op = token.LSS
			case token.GTR:
				op = token.LEQ
			case token.LEQ:
				op = token.GTR
			default:
				return st
			}
		}
		var a, b lin
		switch {
		case isIntType(x.X.Type()):
			if !isCountType(x.X.Type()) {
				if e.bytes && isRuneType(x.X.Type()) && (op == token.EQL || op == token.NEQ) {
					// a rune decoded from the input (registered at its DecodeRuneInString) against an ASCII constant
					for _, side := range [][2]ssa.Value{{x.X, x.Y}, {x.Y, x.X}} {
						if k, ok := constInt(side[1]); ok && k >= 0 && k < 0x80 {
							if ns, done := e.refineByte(in, st, side[0], side[1], op == token.EQL); done {
								st = ns // (what the comparison says about the length of the decoded text follows below)
								break
							}
						}
					}
				}
				if e.bytes && isByteType(x.X.Type()) && (op == token.EQL || op == token.NEQ) {
					if ns, done := e.refineByte(in, st, x.X, x.Y, op == token.EQL); done {
						return ns
					}
					if ns, done := e.refineByte(in, st, x.Y, x.X, op == token.EQL); done {
						return ns
					}
				}
				if e.bytes && isByteType(x.X.Type()) {
					// val OP c  /  c OP val
					holds := func(a, b int) bool {
						switch op {
						case token.LSS:
							return a < b
						case token.LEQ:
							return a <= b
						case token.GTR:
							return a > b
						case token.GEQ:
							return a >= b
						}
						return true
					}
					if op == token.LSS || op == token.LEQ || op == token.GTR || op == token.GEQ {
						if c, ok := e.byteConst(in, x.Y); ok {
							if aid, ok := e.at.byKey[x.X]; ok {
								if idx, ok := st.valIdx(aid); ok {
									var set bset
									for b := 0; b < 256; b++ {
										if holds(b, int(c)) {
											set.add(byte(b))
										}
									}
									return st.withByte(idx, set)
								}
							}
						}
						if c, ok := e.byteConst(in, x.X); ok {
							if aid, ok := e.at.byKey[x.Y]; ok {
								if idx, ok := st.valIdx(aid); ok {
									var set bset
									for b := 0; b < 256; b++ {
										if holds(int(c), b) {
											set.add(byte(b))
										}
									}
									return st.withByte(idx, set)
								}
							}
						}
					}
				}
				// a decoded rune that equals a constant other than utf8.RuneError was decoded from at least one
				// byte: utf8.DecodeRune*(s) returns (RuneError, 0) for an empty s
				if op == token.EQL {
					for _, side := range [][2]ssa.Value{{x.X, x.Y}, {x.Y, x.X}} {
						ex, ok := side[0].(*ssa.Extract)
						if !ok || ex.Index != 0 {
							continue
						}
						c, ok := ex.Tuple.(*ssa.Call)
						if !ok {
							continue
						}
						sc := c.Call.StaticCallee()
						if sc == nil || sc.Pkg == nil || sc.Pkg.Pkg.Path() != "unicode/utf8" || !strings.HasPrefix(sc.Name(), "DecodeRune") {
							continue
						}
						if k, isC := constInt(side[1]); isC && k != 0xFFFD {
							return st.ge(e.lenLin(in, c.Call.Args[0]), linConst(1))
						}
					}
				}
				return st
			}
			var ok1, ok2 bool
			a, ok1 = e.linear(in, x.X)
			b, ok2 = e.linear(in, x.Y)
			if !ok1 || !ok2 {
				return st
			}
		case isStringType(x.X.Type()):
			if op == token.NEQ {
				// s != "": at least one byte
				for _, side := range [][2]ssa.Value{{x.X, x.Y}, {x.Y, x.X}} {
					if c, ok := constString(side[1]); ok && c == "" {
						return st.ge(e.lenLin(in, side[0]), linConst(1))
					}
				}
				return st
			}
			if op != token.EQL {
				return st
			}
			a, b = e.lenLin(in, x.X), e.lenLin(in, x.Y)
		default:
			return st
		}
		var facts []lfact
		switch op {
		case token.NEQ:
			// a != b with a >= b (or b >= a) known: strictly greater
			switch {
			case isIntType(x.X.Type()) && st.proves(e.at, lfact{l: a.sub(b)}):
				facts = []lfact{{l: a.sub(b).add(linConst(-1))}}
			case isIntType(x.X.Type()) && st.proves(e.at, lfact{l: b.sub(a)}):
				facts = []lfact{{l: b.sub(a).add(linConst(-1))}}
			default:
				return st
			}
		case token.EQL:
			facts = []lfact{{l: a.sub(b)}, {l: b.sub(a)}}
		case token.LSS:
			facts = []lfact{{l: b.sub(a).add(linConst(-1))}}
		case token.LEQ:
			facts = []lfact{{l: b.sub(a)}}
		case token.GTR:
			facts = []lfact{{l: a.sub(b).add(linConst(-1))}}
		case token.GEQ:
			facts = []lfact{{l: a.sub(b)}}
		default:
			return st
		}
		for _, f := range facts {
			neg := f.l.scale(-1).add(linConst(-1))
			if st.proves(e.at, lfact{l: neg}) {
				return nil
			}
		}
		ns := st.with(facts...)
		if isIntType(x.X.Type()) {
			ns = e.searchFound(in, e.searchFound(in, ns, x.X), x.Y)
		}
		return ns
	case *ssa.Extract:
		// `for i, r := range s` over a string: inside the body 0 <= i < len(s)
		if nx, ok := x.Tuple.(*ssa.Next); ok && nx.IsString && x.Index == 0 && pol {
			if rg, ok := nx.Iter.(*ssa.Range); ok {
				k := linAtom(e.at.get(tupleKey{nx, 1}, e.valName(nx)+".index", false))
				return st.ge(k, linConst(0)).ge(e.lenLin(in, rg.X).add(linConst(-1)), k)
			}
		}
		if _, ok := x.Tuple.(*ssa.Call); ok {
			// a boolean component of a call's results: what the callee established where it returns it true (false)
			return e.activate(st, e.atom(cond), pol)
		}
		return st
	case *ssa.Call, *ssa.Phi:
		return e.activate(st, e.atom(cond), pol)
	}
	return st
}

func isStringType(t types.Type) bool {
	b, ok := t.Underlying().(*types.Basic)
	return ok && b.Info()&types.IsString != 0
}

// activate: the guard is known; its facts become unconditional. If the opposite value is
// impossible... (guarded falsities are not recorded, so no pruning here).
func (e *lbEngine) activate(st *lstate, g atomID, pol bool) *lstate {
	var add []lfact
	for _, f := range st.f {
		if f.g == g && f.gp == pol {
			add = append(add, lfact{l: f.l})
		}
	}
	for _, f := range add {
		neg := f.l.scale(-1).add(linConst(-1))
		if st.proves(e.at, lfact{l: neg}) {
			return nil
		}
	}
	return st.with(add...).activateBytes(g, pol)
}

// execBlock interprets the instructions of b from st and returns the state on each outgoing edge.
func (e *lbEngine) execBlock(in *lbInst, b *ssa.BasicBlock, st *lstate, rets *[]lbRet) []*lstate {
	for _, instr := range b.Instrs {
		if st == nil {
			break
		}
		e.steps++
		switch x := instr.(type) {
		case *ssa.Phi:
		case *ssa.BinOp:
			if x.Op == token.AND && isIntType(x.Type()) {
				// x & k for a constant k >= 0 lies in [0, k] (a nibble mask in front of a digit table)
				for _, side := range []ssa.Value{x.X, x.Y} {
					if k, ok := constInt(side); ok && k >= 0 {
						a := linAtom(e.atom(x))
						st = st.eliminate(e.at, map[atomID]bool{e.atom(x): true}).ge(a, linConst(0)).ge(linConst(k), a)
						break
					}
				}
			}
			// C14/R10: the window compared with a comment terminator does not overlap the opener
			if e.scanNeed != nil && e.record && e.scanFns[in.fn.Name()] && x.Op == token.EQL && isStringType(x.X.Type()) {
				for _, side := range []ssa.Value{x.X, x.Y} {
					if p, ok := side.(*ssa.Parameter); ok {
						if term, ok := in.bindStr[p]; ok {
							need := e.scanNeed[term]
							g := e.at.get("entryPos", "cursor at entry", false)
							e.requireAt(st, in.fn, x, "C14/R10", fmt.Sprintf("%s: the search for %q starts behind the comment opener", funcName(in.fn), term),
								[]string{fmt.Sprintf("cursor - start of the comment >= %d", need)}, []lin{linAtom(e.P).sub(linAtom(g)).add(linConst(-need))})
						}
					}
				}
			}
		case *ssa.UnOp:
			if e.split && x.Op == token.MUL {
				if g, ok := e.splitTokenAtom(in, x.X); ok {
					a := e.atom(x)
					st = st.eliminate(e.at, map[atomID]bool{a: true}).eq(linAtom(a), linAtom(g))
				}
			}
			if x.Op == token.MUL && e.isPosAddr(in, x.X) {
				a := e.atom(x)
				e.at.prio[a] = 1
				st = st.eliminate(e.at, map[atomID]bool{a: true})
				// the snapshot equals the cursor now: everything known about the cursor is stated for it as well,
				// so that it stays known when the cursor moves on
				var copies []lfact
				for _, f := range st.f {
					if f.g == 0 && f.l.coef(e.P) != 0 {
						copies = append(copies, lfact{l: f.l.subst(e.P, linAtom(a))})
					}
				}
				st = st.with(copies...).eq(linAtom(a), linAtom(e.P))
			}
		case *ssa.Store:
			if e.isPosAddr(in, x.Addr) {
				l, ok := e.linear(in, x.Val)
				pp := e.prime(e.P)
				if ok {
					e.require(in, st, x, "C13/R1", "the cursor only moves forward", []string{"new pos >= old pos"}, []lin{l.sub(linAtom(e.P))})
				} else {
					e.require(in, st, x, "C13/R1", "the cursor only moves forward", []string{"the new cursor is a linear term"}, []lin{linConst(-1)})
				}
				// facts that only improve when the cursor moves forward
				var grow []lfact
				if ok && st.proves(e.at, lfact{l: l.sub(linAtom(e.P))}) {
					for _, f := range st.f {
						if f.g == 0 && f.l.coef(e.P) > 0 {
							grow = append(grow, f)
						}
					}
				}
				if e.trace && e.record {
					fmt.Printf("LB STORE pos := %s (ok=%v) in %s\n   before %s\n", e.at.show(l), ok, e.context(), e.at.showState(st))
				}
				// the snapshot the new value is computed from (pos = snapshot + n): rewrite the old facts
				// through it, so that they come back in terms of the cursor when the snapshot is dropped
				var via atomID
				if ok {
					for _, t := range l.t {
						if e.at.prio[t.a] > 0 && t.c == 1 && st.proves(e.at, lfact{l: linAtom(t.a).sub(linAtom(e.P))}) && st.proves(e.at, lfact{l: linAtom(e.P).sub(linAtom(t.a))}) {
							via = t.a
							break
						}
					}
				}
				if via != 0 {
					var fs []lfact
					for _, f := range st.f {
						fs = append(fs, lfact{g: f.g, gp: f.gp, l: f.l.subst(e.P, linAtom(via))})
					}
					old := st
					st = emptyState().with(fs...)
					if st != nil {
						for _, b := range old.bf {
							st.bf = append(st.bf, bfact{b.g, b.gp, b.idx.subst(e.P, linAtom(via)), b.set})
						}
						for _, b := range old.bv {
							st.bv = append(st.bv, bval{b.v, b.idx.subst(e.P, linAtom(via))})
						}
					}
					st = st.eq(linAtom(e.P), l)
				} else {
					if ok {
						st = st.eq(linAtom(pp), l)
					}
					st = st.eliminate(e.at, map[atomID]bool{e.P: true}).renameAll(map[atomID]atomID{pp: e.P})
				}
				if e.trace && e.record {
					fmt.Printf("   after %s\n", e.at.showState(st))
				}
				st = st.with(grow...)
				e.require(in, st, x, "C03/R6", "the cursor stays within the input", []string{"pos >= 0", "pos <= len(Buffer)"},
					[]lin{linAtom(e.P), linAtom(e.N).sub(linAtom(e.P))})
				for _, l := range []lin{linAtom(e.P), linAtom(e.N).sub(linAtom(e.P))} {
					if st.proves(e.at, lfact{l: l}) {
						st = st.with(lfact{l: l})
					}
				}
			} else if e.numFollow && e.record && in.fn.Name() == "consumeNumber" && isKindBadStore(x) {
				e.numFollowReject(in, st, x)
			} else if e.tiling && e.tilingStore(in, &st, x) {
			} else if e.tokLen && e.tokLenStore(in, &st, x) {
			} else if fa, ok := x.Addr.(*ssa.FieldAddr); ok && e.split && fieldAddrName(fa) == "Buffer" && e.aliasOf(in, fa.X) == "file" {
				st = st.eliminate(e.at, map[atomID]bool{e.N: true}).eq(linAtom(e.N), e.lenLin(in, x.Val))
			} else if e.split && e.splitPieceStore(in, &st, x) {
			} else if fa, ok := x.Addr.(*ssa.FieldAddr); ok && fieldAddrName(fa) == "Buffer" && e.aliasOf(in, fa.X) == "file" {
				st = st.eliminate(e.at, map[atomID]bool{e.N: true})
				e.notes = append(e.notes, "Buffer reassigned in "+funcName(in.fn))
			}
		case *ssa.Next:
			if x.IsString {
				if id, ok := e.at.byKey[tupleKey{x, 1}]; ok {
					st = st.eliminate(e.at, map[atomID]bool{id: true})
				}
			}
		case *ssa.Alloc:
			if e.tiling && isNamed(x.Type().(*types.Pointer).Elem(), modRoot+"/token", "TokenComment") {
				st = e.dropGhosts(st, x)
			}
			if e.split && isNamed(x.Type(), modRoot, "Lexer") {
				// a fresh Lexer: the zero Token
				tp, te, c0 := e.splitAtoms()
				st = st.eliminate(e.at, map[atomID]bool{tp: true, te: true, c0: true}).eq(linAtom(tp), linConst(0)).eq(linAtom(te), linConst(0))
			}
		case *ssa.Lookup:
			if isStringType(x.X.Type()) {
				e.indexOb(in, st, x, x.X, x.Index)
				if e.trace && os.Getenv("VERIF_LB_BYTEDEBUG") != "" {
					fmt.Printf("LB LOOKUP %s in %s bytes=%v alias=%q\n", x.Name(), in.fn.Name(), e.bytes, e.aliasOf(in, x.X))
				}
				if e.bytes && e.aliasOf(in, x.X) == "buffer" {
					if idx, ok := e.linear(in, x.Index); ok {
						a := e.atom(x)
						st = st.eliminate(e.at, map[atomID]bool{a: true}).withVal(a, idx)
					}
				}
			}
		case *ssa.Index:
			e.indexOb(in, st, x, x.X, x.Index)
			if e.bytes && isStringType(x.X.Type()) && e.aliasOf(in, x.X) == "buffer" {
				if idx, ok := e.linear(in, x.Index); ok {
					a := e.atom(x)
					st = st.eliminate(e.at, map[atomID]bool{a: true}).withVal(a, idx)
				}
			}
		case *ssa.IndexAddr:
			e.indexOb(in, st, x, x.X, x.Index)
		case *ssa.Slice:
			e.sliceOb(in, st, x)
		case *ssa.Call:
			if e.hexDigits && e.record && in.fn.Name() == "consumeNumber" {
				badArm := false
				for _, y := range b.Instrs {
					if sy, ok := y.(*ssa.Store); ok && isKindBadStore(sy) {
						badArm = true // the malformed prefix is consumed as a <bad> token in recovering mode
					}
				}
				if sc := x.Call.StaticCallee(); sc != nil && sc.Name() == "skipN" && len(x.Call.Args) == 2 && !badArm {
					if l, ok := e.linear(in, x.Call.Args[1]); ok {
						e.requireAt(st, in.fn, x, "C14/R12", "consumeNumber: a hex literal is consumed only with at least one digit behind its prefix", []string{"bytes consumed >= 3 (\"0x\" and a digit)"}, []lin{l.add(linConst(-3))})
					}
				}
			}
			if e.numFollow && e.record && in.fn.Name() == "consumeNumber" {
				if sc := x.Call.StaticCallee(); sc != nil && strings.HasPrefix(sc.Name(), "panicf") {
					e.numFollowReject(in, st, x)
				}
			}
			if os.Getenv("VERIF_LB_IFDEBUG") != "" && in.fn.Name() == "skipComment" {
				fmt.Printf("LB BEFORECALL %s b%d %s record=%v\n", in.fn.Name(), b.Index, x.Name(), e.record)
			}
			if e.scanNeed != nil && e.record && e.scanFns[in.fn.Name()] {
				if off, p, isT := e.prefixTest(in, x); isT {
					if term, ok := in.bindStr[p]; ok {
						need := e.scanNeed[term]
						g := e.at.get("entryPos", "cursor at entry", false)
						e.requireAt(st, in.fn, x, "C14/R10", fmt.Sprintf("%s: the search for %q starts behind the comment opener", funcName(in.fn), term),
							[]string{fmt.Sprintf("cursor - start of the comment >= %d", need)}, []lin{linAtom(e.P).add(off).sub(linAtom(g)).add(linConst(-need))})
						if e.prefixTests == nil {
							e.prefixTests = map[*ssa.Function]int{}
						}
						if off.isConst() && off.k == 0 {
							e.prefixTests[in.fn]++
						}
					}
				}
			}
			var searchLo atomID
			var searchLoVal lin
			if e.scanNeed != nil && e.scanFns[in.fn.Name()] {
				// the terminator found by a library search (strings.Index(l.Buffer[l.pos:], end)) instead of a loop
				if sc := x.Call.StaticCallee(); sc != nil && lbSearchFns[sc.String()] && len(x.Call.Args) == 2 {
					if p, ok := x.Call.Args[1].(*ssa.Parameter); ok {
						if term, ok := in.bindStr[p]; ok {
							lo, hi, isBuf := e.bufSlice(in, x.Call.Args[0])
							if !isBuf {
								e.requireAt(st, in.fn, x, "C14/R8", funcName(in.fn)+": the library search for the terminator looks at the input from the cursor to its end", []string{"the text searched is a slice of the input"}, []lin{linConst(-1)})
							} else {
								need := e.scanNeed[term]
								g := e.at.get("entryPos", "cursor at entry", false)
								e.requireAt(st, in.fn, x, "C14/R10", fmt.Sprintf("%s: the search for %q starts behind the comment opener", funcName(in.fn), term),
									[]string{fmt.Sprintf("start of the searched text - start of the comment >= %d", need)}, []lin{lo.sub(linAtom(g)).add(linConst(-need))})
								e.requireAt(st, in.fn, x, "C14/R8", funcName(in.fn)+": the library search for the terminator looks at the input from the cursor to its end",
									[]string{"searched text starts at the cursor (>=)", "searched text starts at the cursor (<=)", "searched text ends at the end of the input (>=)", "searched text ends at the end of the input (<=)"},
									[]lin{lo.sub(linAtom(e.P)), linAtom(e.P).sub(lo), hi.sub(linAtom(e.N)), linAtom(e.N).sub(hi)})
								searchLo = e.at.get(ghostFieldKey{x, "searchLo"}, e.valName(x)+".from", false)
								searchLoVal = lo
								if e.searchCalls == nil {
									e.searchCalls = map[*ssa.Function][]*ssa.Call{}
								}
								dup := false
								for _, c := range e.searchCalls[in.fn] {
									if c == x {
										dup = true
									}
								}
								if !dup {
									e.searchCalls[in.fn] = append(e.searchCalls[in.fn], x)
								}
							}
						}
					}
				}
			}
			if e.openerProbe != nil && e.record && in.fn == e.openerRoot && len(e.frames) <= 1 {
				if callee := x.Call.StaticCallee(); callee != nil && callee.Signature.Recv() != nil && len(x.Call.Args) > 0 && e.aliasOf(in, x.Call.Args[0]) == "lexer" && e.movesCursor(callee) {
					// the states to read: the one at the call, or — when the call opens its block, reached from the arms
					// of a disjunction — each incoming edge on its own
					states := []*lstate{st}
					first := true
					for _, pi := range b.Instrs {
						if pi == ssa.Instruction(x) {
							break
						}
						switch pi.(type) {
						case *ssa.Call, *ssa.Store:
							first = false
						}
					}
					if os.Getenv("VERIF_OPENER_DEBUG") == "2" {
						fmt.Printf("OPENER EDGES b%d: %d\n", b.Index, len(e.edgeIns[b]))
						for _, s3 := range e.edgeIns[b] {
							fmt.Printf("    %s\n", e.at.showState(s3))
						}
					}
					if ins := e.edgeIns[b]; first && len(ins) > 1 {
						states = nil
						for _, s2 := range ins {
							if s2 != nil {
								states = append(states, s2)
							}
						}
					} else if first && len(b.Preds) == 1 {
						// `case a && b || c && d:` compiled to a boolean phi that is tested at once: one state per operand of
						// the phi that can be true
						p := b.Preds[0]
						if iff, ok := p.Instrs[len(p.Instrs)-1].(*ssa.If); ok && p.Succs[0] == b && len(p.Instrs) == 2 {
							if phi, ok := iff.Cond.(*ssa.Phi); ok && phi.Block() == p && len(e.edgeIns[p]) == len(phi.Edges) {
								var alt []*lstate
								for i, ed := range phi.Edges {
									s2 := e.edgeIns[p][i]
									if s2 == nil {
										continue
									}
									if cb, isC := constBool(ed); isC {
										if !cb {
											continue
										}
									} else {
										// on this edge what was known under the operand is known under the phi (boolPhiTransfer)
										s2 = e.activate(s2, e.atom(phi), true)
									}
									if s2 != nil {
										alt = append(alt, s2)
									}
								}
								if len(alt) > 0 {
									states = alt
								}
							}
						}
					}
					for _, s2 := range states {
						if os.Getenv("VERIF_OPENER_DEBUG") == "2" {
							fmt.Printf("OPENER STATE b%d first=%v nstates=%d: %s\n", b.Index, first, len(states), e.at.showState(s2))
						}
						op := ""
						for i := int64(0); i < 3; i++ {
							set, known := e.byteSetAt(s2, linAtom(e.P).add(linConst(i)))
							c, single := set.single()
							if !known || !single {
								break
							}
							op += string(rune(c))
						}
						cf := commentForm{opener: op}
						sawStr, sawBool := false, false
						for _, a := range x.Call.Args[1:] {
							if sv, ok := constString(a); ok && !sawStr {
								cf.term, sawStr = sv, true
							}
							if bv, ok := constBool(a); ok && !sawBool {
								cf.mustEnd, sawBool = bv, true
							}
						}
						if !sawStr {
							cf.term = "\x00?" // the scanner is not told its terminator by the call
						}
						e.openerProbe(x, cf)
					}
				}
			}
			st = e.execCall(in, st, x)
			if searchLo != 0 && st != nil {
				// ghosts (no owner: they survive the result's last use): where the search started and what it answered
				gr := e.at.get(ghostFieldKey{x, "searchRes"}, e.valName(x)+".answer", false)
				st = st.eliminate(e.at, map[atomID]bool{searchLo: true, gr: true}).eq(linAtom(searchLo), searchLoVal).eq(linAtom(gr), linAtom(e.atom(x)))
			}
			if os.Getenv("VERIF_LB_IFDEBUG") == fmt.Sprintf("%s.b%d", in.fn.Name(), b.Index) {
				fmt.Printf("LB AFTERCALL %s b%d %s: %s\n", in.fn.Name(), b.Index, x.Name(), e.at.showState(st))
			}
		case *ssa.Return:
			if e.trace && e.record {
				fmt.Printf("LB RET %s: %s\n", e.context(), e.at.showState(st))
			}
			if e.scanNeed != nil && e.record {
				for _, c := range e.searchCalls[in.fn] {
					from, ok := e.at.byKey[ghostFieldKey{c, "searchLo"}]
					if !ok || !e.present(st, from) {
						continue
					}
					res := linAtom(e.at.get(ghostFieldKey{c, "searchRes"}, e.valName(c)+".answer", false))
					switch {
					case st.proves(e.at, lfact{l: res}):
						want := linAtom(from).add(res).add(e.lenLin(in, c.Call.Args[1]))
						e.requireAt(st, in.fn, x, "C14/R8", funcName(in.fn)+": after a hit the cursor is right behind the first terminator", []string{"cursor >= start of the search + index + len(terminator)", "cursor <= start of the search + index + len(terminator)"},
							[]lin{linAtom(e.P).sub(want), want.sub(linAtom(e.P))})
					case st.proves(e.at, lfact{l: res.scale(-1).add(linConst(-1))}):
						e.requireAt(st, in.fn, x, "C14/R8", funcName(in.fn)+": without a hit the comment runs to the end of the input", []string{"cursor >= len(Buffer)"}, []lin{linAtom(e.P).sub(linAtom(e.N))})
					default:
						e.requireAt(st, in.fn, x, "C14/R8", funcName(in.fn)+": the result of the library search is tested before the function returns", []string{"hit or miss is known on this return"}, []lin{linConst(-1)})
					}
				}
			}
			if e.tiling && e.record && len(e.frames) == 1 {
				le := linAtom(e.at.get("lastEnd", "end of the last token/comment", false))
				e.requireAt(st, in.fn, x, "C13/R4", funcName(in.fn)+": on return the cursor is where the last token or comment ended",
					[]string{"pos <= last End", "pos >= last End"}, []lin{le.sub(linAtom(e.P)), linAtom(e.P).sub(le)})
				// the token has its position on every return, and its texts unless it is marked <bad>
				has := func(name string) bool {
					id, ok := e.at.byKey[ghostFieldKey{"Token", name}]
					return ok && e.present(st, id)
				}
				bad := false
				if id, ok := e.at.byKey[ghostFieldKey{"Token", "isBad"}]; ok {
					bad = st.proves(e.at, lfact{l: linAtom(id).add(linConst(-1))})
				}
				for _, f := range []string{"Pos", "End", "RawLo", "SpaceLo"} {
					if (f == "RawLo" || f == "SpaceLo") && bad {
						continue
					}
					need := linConst(0)
					if !has(f) {
						need = linConst(-1)
					}
					e.requireAt(st, in.fn, x, "C13/R4", funcName(in.fn)+": on return Token."+strings.TrimSuffix(strings.TrimSuffix(f, "Lo"), "Hi")+" has been recorded (Space and Raw unless the token is <bad>)",
						[]string{"the field is stored on this path"}, []lin{need})
				}
			}
			if e.foldEq && e.record && len(e.frames) == 1 && len(x.Results) == 1 {
				if cb, isC := constBool(x.Results[0]); !isC || cb {
					var strs []*ssa.Parameter
					for _, p := range in.fn.Params {
						if isStringType(p.Type()) {
							strs = append(strs, p)
						}
					}
					if len(strs) == 2 {
						a, b := e.lenLin(in, strs[0]), e.lenLin(in, strs[1])
						e.requireAt(st, in.fn, x, "C16/R3", funcName(in.fn)+": true is returned only for strings of equal length", []string{"len(s) <= len(t)", "len(s) >= len(t)"}, []lin{b.sub(a), a.sub(b)})
						// every index was looked at: some integer loop variable of the function has reached len(s)
						reached := false
						for _, bb := range in.fn.Blocks {
							for _, ins := range bb.Instrs {
								if phi, ok := ins.(*ssa.Phi); ok && isCountType(phi.Type()) {
									if l, ok := e.linear(in, phi); ok && st.proves(e.at, lfact{l: l.sub(a)}) {
										reached = true
									}
								}
							}
						}
						need := linConst(-1)
						if reached || st.proves(e.at, lfact{l: a.scale(-1)}) {
							need = linConst(0)
						}
						e.requireAt(st, in.fn, x, "C16/R3", funcName(in.fn)+": true is returned only after the last index was compared", []string{"the loop counter has reached len(s)"}, []lin{need})
					}
				}
			}
			if e.tokLen && e.record && len(e.frames) == 1 {
				k := e.at.get(ghostFieldKey{"Token", "kindIsParam"}, "Token.kindIsParam", false)
				a := e.at.get(ghostFieldKey{"Token", "asStringLen"}, "len(Token.AsString)", false)
				g := e.at.get("entryPos", "cursor at entry", false)
				if !e.present(st, k) || !st.proves(e.at, lfact{l: linAtom(k).scale(-1)}) {
					// the kind on this return may be <param>
					span := linAtom(e.P).sub(linAtom(g))
					want := linAtom(a).add(linConst(1))
					need := []lin{span.sub(want), want.sub(span)}
					if !e.present(st, a) {
						need = []lin{linConst(-1), linConst(-1)}
					}
					if !e.present(st, k) {
						// kind unknown on this path: only an obligation when it can be <param>; a path that never stores Kind is not a token
						need = nil
					}
					if need != nil {
						e.requireAt(st, in.fn, x, "C06/R3", funcName(in.fn)+": a <param> token spans '@' and exactly the bytes of its name (Param.end = Atmark + 1 + len(Name))",
							[]string{"bytes consumed >= 1 + len(AsString)", "bytes consumed <= 1 + len(AsString)"}, need)
					}
				}
			}
			if rets != nil {
				*rets = append(*rets, lbRet{st: st, vals: x.Results, in: in, ret: x})
			}
			return nil
		case *ssa.Panic:
			if e.bytes && e.record && in.fn.Name() == "peekDelimiter" {
				e.requireAt(st, in.fn, x, "C03/R9", "peekDelimiter: the byte under the cursor is a quote (the delimiter panic is unreachable)", []string{"every byte value is excluded on the way to the panic"}, []lin{linConst(-1)})
			}
			return nil
		case *ssa.Jump:
			return []*lstate{st}
		case *ssa.If:
			if e.trace && e.record && os.Getenv("VERIF_LB_IFDEBUG") == fmt.Sprintf("%s.b%d", in.fn.Name(), b.Index) {
				fmt.Printf("LB IF %s b%d cond %s: %s\n   true: %s\n", in.fn.Name(), b.Index, x.Cond.Name(), e.at.showState(st), e.at.showState(e.refine(in, st, x.Cond, true)))
			}
			return []*lstate{e.refine(in, st, x.Cond, true), e.refine(in, st, x.Cond, false)}
		}
	}
	if st == nil {
		return make([]*lstate, len(b.Succs))
	}
	out := make([]*lstate, len(b.Succs))
	for i := range out {
		out[i] = st
	}
	return out
}

func (e *lbEngine) indexOb(in *lbInst, st *lstate, instr ssa.Instruction, x, idx ssa.Value) {
	if _, isMap := x.Type().Underlying().(*types.Map); isMap {
		return
	}
	i, ok := e.linear(in, idx)
	if !ok {
		return
	}
	n := e.lenLin(in, x)
	if i.isConst() && n.isConst() && i.k >= 0 && i.k < n.k {
		return // a constant index into an array of constant length (compiler-generated literals)
	}
	e.require(in, st, instr, "C03/R6", "index within bounds", []string{"index >= 0", "index < length"},
		[]lin{i, n.sub(i).add(linConst(-1))})
}

func (e *lbEngine) sliceOb(in *lbInst, st *lstate, x *ssa.Slice) {
	n := e.lenLin(in, x.X)
	lo, hi := linConst(0), n
	if x.Low != nil {
		if l, ok := e.linear(in, x.Low); ok {
			lo = l
		}
	}
	if x.High != nil {
		if l, ok := e.linear(in, x.High); ok {
			hi = l
		}
	}
	if x.Low == nil && x.High == nil {
		return
	}
	e.require(in, st, x, "C03/R6", "slice bounds within the operand", []string{"low >= 0", "low <= high", "high <= length"},
		[]lin{lo, hi.sub(lo), n.sub(hi)})
}

func (e *lbEngine) execCall(in *lbInst, st *lstate, call *ssa.Call) *lstate {
	com := call.Common()
	callee := com.StaticCallee()
	// drop stale facts about the result
	drop := map[atomID]bool{}
	if id, ok := e.at.byKey[ssa.Value(call)]; ok {
		drop[id] = true
	}
	if id, ok := e.at.byKey[lenKey{call}]; ok {
		drop[id] = true
	}
	for i := 0; i < 4; i++ {
		if id, ok := e.at.byKey[tupleKey{call, i}]; ok {
			drop[id] = true
		}
		if id, ok := e.at.byKey[lenKey{tupleKey{call, i}}]; ok {
			drop[id] = true
		}
	}
	st = st.eliminate(e.at, drop)
	if bi, ok := com.Value.(*ssa.Builtin); ok && (bi.Name() == "min" || bi.Name() == "max") && len(com.Args) == 2 && isIntType(call.Type()) {
		a, ok1 := e.linear(in, com.Args[0])
		b, ok2 := e.linear(in, com.Args[1])
		if ok1 && ok2 {
			v := linAtom(e.atom(call))
			// v = a when a <= b (min) / a >= b (max), else v = b: the join of the two cases
			d := b.sub(a)
			if bi.Name() == "max" {
				d = a.sub(b)
			}
			s1 := st.with(lfact{l: d}).eq(v, a)
			s2 := st.with(lfact{l: d.scale(-1)}).eq(v, b)
			j := joinLin(e.at, []*lstate{s1, s2}, [][]lin{{v.sub(a)}, {v.sub(b)}}, nil).prune(e.at)
			if e.trace && (e.record || (os.Getenv("VERIF_LB_MINDEBUG") != "" && strings.Contains(e.at.show(a), os.Getenv("VERIF_LB_MINDEBUG")))) {
				fmt.Printf("LB MIN in %s\n   before %s\n   s1 %s\n   s2 %s\n   after %s\n", e.context(), e.at.showState(st), e.at.showState(s1), e.at.showState(s2), e.at.showState(j))
			}
			return j
		}
	}
	if callee == nil {
		if _, isBuiltin := com.Value.(*ssa.Builtin); !isBuiltin {
			for _, a := range com.Args {
				if e.aliasOf(in, a) == "lexer" {
					e.notes = append(e.notes, "lexer passed to a dynamic call in "+funcName(in.fn))
					return st.eliminate(e.at, map[atomID]bool{e.P: true})
				}
			}
		}
		return st
	}
	full := callee.String()
	if o := callee.Origin(); o != nil {
		full = o.String() // an instance of a generic function (slices.IndexFunc[[]Node, Node]) by the name of the generic
	}
	switch full {
	case "unicode/utf8.DecodeRuneInString", "unicode/utf8.DecodeRune", "unicode/utf8.DecodeLastRuneInString":
		size := linAtom(e.at.get(tupleKey{call, 1}, e.valName(call)+".size", false))
		n := e.lenLin(in, com.Args[0])
		st = st.ge(size, linConst(0)).ge(n, size)
		if st.proves(e.at, lfact{l: n.add(linConst(-1))}) {
			st = st.ge(size, linConst(1))
		}
		if e.bytes && full != "unicode/utf8.DecodeLastRuneInString" && call.Referrers() != nil {
			// the rune decoded at Buffer[lo:]: comparing it with an ASCII constant is a statement about the byte at lo
			if lo, _, isBuf := e.bufSlice(in, com.Args[0]); isBuf {
				for _, u := range *call.Referrers() {
					if ex, ok := u.(*ssa.Extract); ok && ex.Index == 0 {
						a := e.atom(ex)
						st = st.eliminate(e.at, map[atomID]bool{a: true}).withVal(a, lo)
					}
				}
			}
		}
		return st
	case "unicode/utf8.EncodeRune":
		r := linAtom(e.atom(call))
		return st.ge(r, linConst(1)).ge(linConst(4), r)
	case "unicode/utf8.RuneLen":
		r := linAtom(e.atom(call))
		return st.ge(r, linConst(-1)).ge(linConst(4), r)
	}
	switch full {
	case "strings.TrimLeftFunc", "strings.TrimRightFunc", "strings.TrimFunc", "strings.TrimLeft", "strings.TrimRight", "strings.Trim", "strings.TrimSpace", "strings.TrimPrefix", "strings.TrimSuffix",
		"bytes.TrimLeftFunc", "bytes.TrimRightFunc", "bytes.TrimFunc", "bytes.TrimLeft", "bytes.TrimRight", "bytes.Trim", "bytes.TrimSpace", "bytes.TrimPrefix", "bytes.TrimSuffix":
		if len(com.Args) >= 1 {
			// a trimmed string is not longer than the string
			return st.ge(e.lenLin(in, com.Args[0]), linAtom(e.lenAtom(call)))
		}
	case "strings.HasPrefix", "strings.HasSuffix", "bytes.HasPrefix", "bytes.HasSuffix":
		if len(com.Args) == 2 {
			// true only when the second operand fits into the first
			g := e.atom(call)
			st = st.with(lfact{g: g, gp: true, l: e.lenLin(in, com.Args[0]).sub(e.lenLin(in, com.Args[1]))})
			if e.bytes && (full == "strings.HasPrefix" || full == "bytes.HasPrefix") {
				// a constant prefix of the input at lo: the bytes at lo, lo+1, … are its bytes
				if sv, ok := constString(com.Args[1]); ok && len(sv) > 0 && len(sv) <= 4 {
					if lo, _, isBuf := e.bufSlice(in, com.Args[0]); isBuf {
						for i := 0; i < len(sv); i++ {
							st = st.withGuardedByte(g, true, lo.add(linConst(int64(i))), bsetOf(sv[i]))
						}
						if len(sv) == 1 {
							st = st.withGuardedByte(g, false, lo, bsetOf(sv[0]).complement())
						}
					}
				}
			}
			return st
		}
	}
	if _, ok := lbSearchFns[full]; ok && len(com.Args) == 2 {
		// -1 <= r <= len(s); on the found side (r >= 0, see refine) r + len(needle) <= len(s)
		r := linAtom(e.atom(call))
		return st.ge(r, linConst(-1)).ge(e.lenLin(in, com.Args[0]), r)
	}
	if e.split && callee.Name() == "NextToken" && callee.Signature.Recv() != nil && len(com.Args) == 1 && e.aliasOf(in, com.Args[0]) == "lexer" {
		// contract of Lexer.NextToken on a nil error (C13/R1 + R4: the cursor moves only inside nextToken and is at
		// the End last recorded on return; Space starts there; comments and token follow in order):
		//   Pos' >= End,  End' >= Pos',  End' <= len(Buffer),  End <= Comments[0].Pos' <= Pos'
		tp, te, c0 := e.splitAtoms()
		ntp, nte := e.prime(tp), e.prime(te)
		st = st.eliminate(e.at, map[atomID]bool{c0: true})
		st = st.ge(linAtom(ntp), linAtom(te)).ge(linAtom(nte), linAtom(ntp)).ge(linAtom(e.N), linAtom(nte)).
			ge(linAtom(c0), linAtom(te)).ge(linAtom(ntp), linAtom(c0))
		st = st.eliminate(e.at, map[atomID]bool{tp: true, te: true}).renameAll(map[atomID]atomID{ntp: tp, nte: te})
		return st
	}
	// File.Position contract: what it hands to File.ResolvePos must lie within the input, in ascending order. The
	// arguments of those calls are read off Position itself (a clamp of `end` to len(Buffer) inside it counts).
	if callee.Name() == "Position" && callee.Signature.Recv() != nil && fnPkgPath(callee) == modRoot+"/token" && len(com.Args) == 3 {
		if e.aliasOf(in, com.Args[0]) == "file" {
			p, ok1 := e.linear(in, com.Args[1])
			q, ok2 := e.linear(in, com.Args[2])
			sum := e.w.positionSummary()
			if ok1 && ok2 {
				if sum == nil {
					e.require(in, st, call, "C03/R6", "error position within the input", []string{"File.Position resolves its arguments (or values clamped from them) with File.ResolvePos"}, []lin{linConst(-1)})
					return st
				}
				term := func(o string) lin {
					switch o {
					case "pos":
						return p
					case "end":
						return q
					}
					return linAtom(e.N)
				}
				var what1, what2 []string
				var need1, need2 []lin
				for k, ra := range sum {
					for _, o := range ra.origins {
						if !ra.clamped && o != "N" {
							what1 = append(what1, o+" <= len(Buffer)")
							need1 = append(need1, linAtom(e.N).sub(term(o)))
						}
						if k == 0 {
							what2 = append(what2, "0 <= "+o)
							need2 = append(need2, term(o))
							continue
						}
						for _, po := range sum[k-1].origins {
							if po == o {
								continue
							}
							what2 = append(what2, po+" <= "+map[string]string{"pos": "pos", "end": "end", "N": "len(Buffer) (the clamped end)"}[o])
							need2 = append(need2, term(o).sub(term(po)))
						}
					}
				}
				if len(need1) > 0 {
					e.require(in, st, call, "C03/R6", "error position within the input", what1, need1)
				} else {
					e.require(in, st, call, "C03/R6", "error position within the input", []string{"clamped inside File.Position"}, []lin{linConst(0)})
				}
				if e.w.posEndRaw {
					what2 = append(what2, "end <= len(Buffer) (Position.End is the argument as it came)")
					need2 = append(need2, linAtom(e.N).sub(q))
				}
				e.require(in, st, call, "C09/R5", "error range is ordered", what2, need2)
			}
		}
		return st
	}
	if e.posProbe != nil && callee.Name() == "ResolvePos" && callee.Signature.Recv() != nil && fnPkgPath(callee) == modRoot+"/token" && len(com.Args) == 2 && e.record {
		if x, ok := e.linear(in, com.Args[1]); ok {
			proved := st.proves(e.at, lfact{l: linAtom(e.N).sub(x)})
			if old, seen := e.posProbe[call]; seen {
				proved = proved && old
			}
			e.posProbe[call] = proved
		}
		return st
	}
	if e.shallow && callee.Signature.Recv() != nil && len(com.Args) > 0 && e.aliasOf(in, com.Args[0]) == "lexer" && e.movesCursor(callee) && !(e.shallowLeaf && e.isLeafHelper(callee)) && !e.inlineAlso[callee.Name()] && !(e.tiling && e.recordsTrivia(callee)) {
		// the callee only moves the cursor forward (it has no other access to Lexer.pos than skip/skipN)
		var grow []lfact
		for _, f := range st.f {
			if f.g == 0 && f.l.coef(e.P) > 0 {
				grow = append(grow, f)
			}
		}
		pp := e.prime(e.P)
		st = st.ge(linAtom(pp), linAtom(e.P)).eliminate(e.at, map[atomID]bool{e.P: true}).renameAll(map[atomID]atomID{pp: e.P})
		if e.tokProg {
			h := e.at.get("havoc", "a reader moved the cursor", false)
			st = st.eliminate(e.at, map[atomID]bool{h: true}).eq(linAtom(h), linConst(1))
		}
		return st.with(grow...)
	}
	if e.bytes && callee.Signature.Recv() == nil && len(com.Args) == 1 && isByteType(com.Args[0].Type()) && isBoolType(call.Type()) && corePkg(fnPkgPath(callee)) {
		// a byte classifier (char.IsIdentPart, …) asked about a byte of the input: its truth set, read by interpretation
		// over all 256 values (C14/R6), guards what is known about that byte — whatever the classifier looks like inside
		if aid, ok := e.at.byKey[com.Args[0]]; ok {
			if idx, ok := st.valIdx(aid); ok {
				if set, ok := e.classifierSet(callee); ok {
					g := e.atom(call)
					return st.withGuardedByte(g, true, idx, set).withGuardedByte(g, false, idx, set.complement())
				}
			}
		}
	}
	inlinable := callee.Blocks != nil && len(e.frames) < lbMaxDepth && corePkg(fnPkgPath(callee)) && e.inScope(callee)
	if !inlinable {
		for _, a := range com.Args {
			if e.aliasOf(in, a) == "lexer" {
				e.notes = append(e.notes, fmt.Sprintf("lexer passed to %s (not followed) in %s", full, funcName(in.fn)))
				return st.eliminate(e.at, map[atomID]bool{e.P: true})
			}
		}
		return st
	}
	for _, f := range e.frames {
		if f.fn == callee {
			e.notes = append(e.notes, "recursion through "+full+" (not followed)")
			return st.eliminate(e.at, map[atomID]bool{e.P: true})
		}
	}
	return e.inline(in, st, call, callee)
}

// lbSearchFns: standard-library searches whose result is -1 or an index at which the needle fits (value: the needle is
// a string/slice whose whole length fits; false: one byte/rune of at least one byte).
var lbSearchFns = map[string]bool{
	"strings.Index": true, "strings.LastIndex": true, "bytes.Index": true, "bytes.LastIndex": true,
	"strings.IndexByte": false, "strings.LastIndexByte": false, "bytes.IndexByte": false, "bytes.LastIndexByte": false,
	"strings.IndexRune": false, "bytes.IndexRune": false, "strings.IndexAny": false, "strings.LastIndexAny": false, "bytes.IndexAny": false,
	"slices.Index": false, "slices.IndexFunc": false,
}

// searchFound: v is the result of a search call and is known to be >= 0 in st: the needle fits at that index.
func (e *lbEngine) searchFound(in *lbInst, st *lstate, v ssa.Value) *lstate {
	call, ok := v.(*ssa.Call)
	if !ok || st == nil {
		return st
	}
	callee := call.Call.StaticCallee()
	if callee == nil || len(call.Call.Args) != 2 {
		return st
	}
	cname := callee.String()
	if o := callee.Origin(); o != nil {
		cname = o.String()
	}
	whole, ok := lbSearchFns[cname]
	if !ok {
		return st
	}
	r := linAtom(e.atom(call))
	if !st.proves(e.at, lfact{l: r}) {
		return st
	}
	need := linConst(1)
	if whole {
		need = e.lenLin(in, call.Call.Args[1])
	}
	return st.ge(e.lenLin(in, call.Call.Args[0]), r.add(need))
}

// byteSetAt: what is known about Buffer[idx], the index compared modulo the equalities of the state.
func (e *lbEngine) byteSetAt(st *lstate, idx lin) (bset, bool) {
	out, known := fullBset(), false
	for _, b := range st.bf {
		if b.g != 0 {
			continue
		}
		d := idx.sub(b.idx)
		if b.idx.key() == idx.key() || (st.proves(e.at, lfact{l: d}) && st.proves(e.at, lfact{l: d.scale(-1)})) {
			out, known = out.inter(b.set), true
		}
	}
	return out, known
}

func (e *lbEngine) classifierSetByName(name string) (bset, bool) {
	fn := e.w.fn(e.w.Char, name)
	if fn == nil {
		return bset{}, false
	}
	return e.classifierSet(fn)
}

func bsetOf(cs ...byte) bset {
	var b bset
	for _, c := range cs {
		b.add(c)
	}
	return b
}

func (e *lbEngine) classifierSet(fn *ssa.Function) (bset, bool) {
	if e.clsSets == nil {
		e.clsSets = map[*ssa.Function]*bset{}
	}
	if s, ok := e.clsSets[fn]; ok {
		if s == nil {
			return bset{}, false
		}
		return *s, true
	}
	ts, ok := e.w.predicateTrueSet(fn)
	if !ok {
		e.clsSets[fn] = nil
		return bset{}, false
	}
	var out bset
	for c := 0; c < 256; c++ {
		if ts[c] {
			out.add(byte(c))
		}
	}
	e.clsSets[fn] = &out
	return out, true
}

type resolvedArg struct {
	origins []string // "pos", "end" (parameters of Position), "N" (len(f.Buffer))
	clamped bool     // Position itself establishes arg <= len(Buffer)
}

// positionSummary: the arguments of the File.ResolvePos calls of File.Position, in order, as the parameters they come
// from; nil when Position does not have that shape.
func (w *World) positionSummary() []resolvedArg {
	if w.posSumDone {
		return w.posSum
	}
	w.posSumDone = true
	fn := w.fn(w.Tok, "(*File).Position")
	if fn == nil || len(fn.Params) != 3 {
		return nil
	}
	var calls []*ssa.Call
	for _, b := range fn.DomPreorder() {
		for _, in := range b.Instrs {
			if c, ok := in.(*ssa.Call); ok {
				if cc := c.Call.StaticCallee(); cc != nil && cc.Name() == "ResolvePos" && fnPkgPath(cc) == modRoot+"/token" && len(c.Call.Args) == 2 {
					calls = append(calls, c)
				}
			}
		}
	}
	if len(calls) < 2 {
		return nil
	}
	e := w.newLexBounds()
	e.posProbe = map[*ssa.Call]bool{}
	in := &lbInst{fn: fn, bindLin: map[*ssa.Parameter]lin{}, bindLen: map[*ssa.Parameter]lin{}, bindBool: map[*ssa.Parameter]bool{}, alias: map[ssa.Value]string{fn.Params[0]: "file"}}
	e.frames = []lbFrame{{fn: fn}}
	e.record = true
	e.run(in, emptyState())
	e.frames = nil
	isBufLen := func(v ssa.Value) bool {
		for {
			switch x := v.(type) {
			case *ssa.Convert:
				v = x.X
				continue
			case *ssa.ChangeType:
				v = x.X
				continue
			case *ssa.Call:
				if isLenCall(x) {
					if ld, ok := isLoad(x.Call.Args[0]); ok {
						if fa, ok := ld.(*ssa.FieldAddr); ok && fa.X == ssa.Value(fn.Params[0]) && fieldAddrName(fa) == "Buffer" {
							return true
						}
					}
				}
			}
			return false
		}
	}
	// the values an argument can be: through phis and through the builtin min (a clamp written as min(end, len(Buffer)))
	var origins func(v ssa.Value, seen map[ssa.Value]bool) []ssa.Value
	origins = func(v ssa.Value, seen map[ssa.Value]bool) []ssa.Value {
		var res []ssa.Value
		for _, o := range phiOrigins(v) {
			if seen[o] {
				continue
			}
			seen[o] = true
			if c, ok := o.(*ssa.Call); ok {
				if bi, ok := c.Call.Value.(*ssa.Builtin); ok && bi.Name() == "min" {
					for _, a := range c.Call.Args {
						res = append(res, origins(a, seen)...)
					}
					continue
				}
			}
			res = append(res, o)
		}
		return res
	}
	minOfBufLen := func(v ssa.Value) bool {
		c, ok := v.(*ssa.Call)
		if !ok {
			return false
		}
		if bi, ok := c.Call.Value.(*ssa.Builtin); !ok || bi.Name() != "min" {
			return false
		}
		for _, a := range c.Call.Args {
			if isBufLen(a) {
				return true
			}
		}
		return false
	}
	// what is stored as Position.End: the raw `end` parameter is returned to the caller as it came
	w.posEndRaw = false
	for _, b := range fn.Blocks {
		for _, in := range b.Instrs {
			st, ok := in.(*ssa.Store)
			if !ok {
				continue
			}
			if fa, ok := st.Addr.(*ssa.FieldAddr); ok && fieldAddrName(fa) == "End" {
				if _, isAlloc := fa.X.(*ssa.Alloc); isAlloc {
					// the parameter itself, on every path: a phi of the parameter and len(Buffer) is a clamp (judged where it is
					// handed to ResolvePos)
					v := st.Val
					for {
						if cv, ok := v.(*ssa.Convert); ok {
							v = cv.X
							continue
						}
						if ct, ok := v.(*ssa.ChangeType); ok {
							v = ct.X
							continue
						}
						break
					}
					if v == ssa.Value(fn.Params[2]) {
						w.posEndRaw = true
					}
				}
			}
		}
	}
	var out []resolvedArg
	for _, c := range calls {
		ra := resolvedArg{clamped: e.posProbe[c] || minOfBufLen(c.Call.Args[1])}
		for _, o := range origins(c.Call.Args[1], map[ssa.Value]bool{}) {
			switch {
			case o == ssa.Value(fn.Params[1]):
				ra.origins = append(ra.origins, "pos")
			case o == ssa.Value(fn.Params[2]):
				ra.origins = append(ra.origins, "end")
			case isBufLen(o):
				ra.origins = append(ra.origins, "N")
			default:
				return nil
			}
		}
		out = append(out, ra)
	}
	w.posSum = out
	return out
}

// recordsTrivia: the method itself stores Space/Comments/Raw/Pos/End of the lexer's token (a part of nextToken split off
// into a method of its own, like a trivia loop): it belongs to the tiling argument and is followed, not abstracted.
func (e *lbEngine) recordsTrivia(fn *ssa.Function) bool {
	for _, b := range fn.Blocks {
		for _, in := range b.Instrs {
			st, ok := in.(*ssa.Store)
			if !ok {
				continue
			}
			fa, ok := st.Addr.(*ssa.FieldAddr)
			if !ok {
				continue
			}
			switch fieldAddrName(fa) {
			case "Space", "Comments", "Raw", "Pos", "End":
				if _, isCur := e.w.curTokenAddr(fa.X); isCur {
					return true
				}
			}
		}
	}
	return false
}

// loopThresholds: for the natural loop headed at b, the comparisons between linear terms that its blocks branch on, each
// as the non-strict inequality both of its sides can live with (a < b and a <= b give b - a >= 0).
func (e *lbEngine) loopThresholds(in *lbInst, fn *ssa.Function, header *ssa.BasicBlock) []lin {
	var out []lin
	for _, l := range e.loopsOf(fn) {
		if l.header != header {
			continue
		}
		for bb := range l.body {
			iff, ok := bb.Instrs[len(bb.Instrs)-1].(*ssa.If)
			if !ok {
				continue
			}
			bo, ok := iff.Cond.(*ssa.BinOp)
			if !ok || !isIntType(bo.X.Type()) {
				continue
			}
			a, ok1 := e.linear(in, bo.X)
			c, ok2 := e.linear(in, bo.Y)
			if !ok1 || !ok2 {
				continue
			}
			switch bo.Op {
			case token.LSS, token.LEQ:
				out = append(out, c.sub(a))
			case token.GTR, token.GEQ:
				out = append(out, a.sub(c))
			case token.NEQ, token.EQL:
				out = append(out, c.sub(a), a.sub(c))
			}
		}
	}
	return out
}

// prefixTest: call is h(l, off, s) of a lexer method whose body is `return strings.HasPrefix(l.Buffer[l.pos+off:], s)`,
// s being a string parameter of the calling function: "the bytes at cursor+off begin with s". Returns off and s.
func (e *lbEngine) prefixTest(in *lbInst, call *ssa.Call) (lin, *ssa.Parameter, bool) {
	h := call.Call.StaticCallee()
	if h == nil || h.Blocks == nil || len(h.Blocks) != 1 || h.Signature.Recv() == nil || len(h.Params) != 3 || len(call.Call.Args) != 3 {
		return lin{}, nil, false
	}
	if e.aliasOf(in, call.Call.Args[0]) != "lexer" {
		return lin{}, nil, false
	}
	ret, ok := h.Blocks[0].Instrs[len(h.Blocks[0].Instrs)-1].(*ssa.Return)
	if !ok || len(ret.Results) != 1 {
		return lin{}, nil, false
	}
	hp, ok := ret.Results[0].(*ssa.Call)
	if !ok || hp.Call.StaticCallee() == nil || hp.Call.StaticCallee().String() != "strings.HasPrefix" || len(hp.Call.Args) != 2 {
		return lin{}, nil, false
	}
	// the needle is h's string parameter, the text a slice of the buffer from pos + (h's int parameter) to the end
	var sp, ip *ssa.Parameter
	for _, p := range h.Params[1:] {
		if isStringType(p.Type()) {
			sp = p
		} else if isIntType(p.Type()) {
			ip = p
		}
	}
	if sp == nil || ip == nil || hp.Call.Args[1] != ssa.Value(sp) {
		return lin{}, nil, false
	}
	sl, ok := hp.Call.Args[0].(*ssa.Slice)
	if !ok || sl.High != nil || sl.Low == nil {
		return lin{}, nil, false
	}
	bo, ok := sl.Low.(*ssa.BinOp)
	if !ok || bo.Op != token.ADD {
		return lin{}, nil, false
	}
	isPos := func(v ssa.Value) bool {
		ld, ok := isLoad(v)
		if !ok {
			return false
		}
		fa, ok := ld.(*ssa.FieldAddr)
		return ok && fieldAddrName(fa) == "pos" && fa.X == ssa.Value(h.Params[0])
	}
	if !((isPos(bo.X) && bo.Y == ssa.Value(ip)) || (isPos(bo.Y) && bo.X == ssa.Value(ip))) {
		return lin{}, nil, false
	}
	// the buffer operand
	if ld, ok := isLoad(sl.X); !ok {
		return lin{}, nil, false
	} else if fa, ok := ld.(*ssa.FieldAddr); !ok || fieldAddrName(fa) != "Buffer" {
		return lin{}, nil, false
	}
	// arguments of the call: which is the offset, which the string
	var off lin
	var strArg *ssa.Parameter
	for i, p := range h.Params {
		if p == ip {
			l, ok := e.linear(in, call.Call.Args[i])
			if !ok {
				return lin{}, nil, false
			}
			off = l
		}
		if p == sp {
			strArg, _ = call.Call.Args[i].(*ssa.Parameter)
		}
	}
	if strArg == nil {
		return lin{}, nil, false
	}
	return off, strArg, true
}

func (e *lbEngine) inScope(fn *ssa.Function) bool {
	file := e.w.fileOf(fn.Pos())
	if e.astScope {
		// C04/R3: the consumers of package ast only (the quoting helpers they call are C15/R5's, with their documented domain)
		return fnPkgPath(fn) == modRoot+"/ast" && !strings.HasSuffix(file, "options.go")
	}
	switch {
	case e.split && strings.HasSuffix(file, "split.go") && fnPkgPath(fn) == modRoot:
		return true // C12/R5: a piece constructor of the splitter is followed in the context of its call
	case strings.HasSuffix(file, "lexer.go") && fnPkgPath(fn) == modRoot:
		return true
	case strings.HasSuffix(file, "token/quote.go"):
		return true
	case fnPkgPath(fn) == modRoot+"/char":
		return true
	case fnPkgPath(fn) == modRoot && fn.Signature.Recv() == nil && len(naturalLoops(fn)) == 0:
		// a constructor of errors shared by the lexer and the parser (newError(file, pos, end, …)): followed where the
		// lexer calls it, for the positions it hands to File.Position
		for _, p := range fn.Params {
			if isNamed(p.Type(), modRoot+"/token", "File") {
				return true
			}
		}
	}
	return false
}

func (e *lbEngine) inline(in *lbInst, st *lstate, call *ssa.Call, callee *ssa.Function) *lstate {
	com := call.Common()
	ni := &lbInst{fn: callee, bindLin: map[*ssa.Parameter]lin{}, bindLen: map[*ssa.Parameter]lin{}, bindBool: map[*ssa.Parameter]bool{}, alias: map[ssa.Value]string{}, parent: in}
	for i, p := range callee.Params {
		if i >= len(com.Args) {
			break
		}
		a := com.Args[i]
		switch {
		case e.aliasOf(in, a) == "lexer" || e.aliasOf(in, a) == "file":
			ni.alias[p] = e.aliasOf(in, a)
		case e.bytes && isByteType(p.Type()):
			if k, ok := constInt(a); ok {
				if ni.bindByte == nil {
					ni.bindByte = map[*ssa.Parameter]byte{}
				}
				ni.bindByte[p] = byte(k)
			} else if ap, ok := a.(*ssa.Parameter); ok {
				if k, ok := in.bindByte[ap]; ok {
					if ni.bindByte == nil {
						ni.bindByte = map[*ssa.Parameter]byte{}
					}
					ni.bindByte[p] = k
				}
			}
		case isIntType(p.Type()):
			if l, ok := e.linear(in, a); ok {
				ni.bindLin[p] = l
			}
		case isBoolType(p.Type()):
			if b, ok := constBool(a); ok {
				ni.bindBool[p] = b
			} else if ap, ok := a.(*ssa.Parameter); ok {
				if b, ok := in.bindBool[ap]; ok {
					ni.bindBool[p] = b
				}
			}
		case isStringish(p.Type()):
			ni.bindLen[p] = e.lenLin(in, a)
			if sv, ok := constString(a); ok {
				if ni.bindStr == nil {
					ni.bindStr = map[*ssa.Parameter]string{}
				}
				ni.bindStr[p] = sv
			} else if ap, ok := a.(*ssa.Parameter); ok {
				if sv, ok := in.bindStr[ap]; ok {
					if ni.bindStr == nil {
						ni.bindStr = map[*ssa.Parameter]string{}
					}
					ni.bindStr[p] = sv
				}
			}
		}
	}
	if e.bytes && e.record && callee.Name() == "peekDelimiter" {
		e.requireAt(st, callee, call, "C03/R9", "peekDelimiter: the byte under the cursor is a quote (the delimiter panic is unreachable)", []string{"context reached"}, []lin{linConst(0)})
	}
	if e.trace && e.record && os.Getenv("VERIF_LB_CALLDEBUG") == callee.Name() {
		fmt.Printf("LB CALL %s from %s: %s\n", callee.Name(), e.context(), e.at.showState(st))
		for p, l := range ni.bindLin {
			fmt.Printf("    %s := %s\n", p.Name(), e.at.show(l))
		}
	}
	// frame rule: facts that mention neither the cursor nor an argument stay with the caller
	relevant := map[atomID]bool{e.P: true}
	if e.tokProg {
		if h, ok := e.at.byKey["havoc"]; ok {
			relevant[h] = true
		}
	}
	for _, l := range ni.bindLin {
		for _, t := range l.t {
			relevant[t.a] = true
		}
	}
	for _, l := range ni.bindLen {
		for _, t := range l.t {
			relevant[t.a] = true
		}
	}
	var frame, passed []lfact
	isPassed := make([]bool, len(st.f))
	for changed := true; changed; {
		changed = false
		for k, f := range st.f {
			if isPassed[k] || f.g != 0 {
				continue
			}
			rel := false
			for _, t := range f.l.t {
				if relevant[t.a] {
					rel = true
					break
				}
			}
			if !rel {
				continue
			}
			isPassed[k] = true
			changed = true
			for _, t := range f.l.t {
				if t.a != e.N {
					relevant[t.a] = true
				}
			}
		}
	}
	for k, f := range st.f {
		if isPassed[k] {
			passed = append(passed, f)
		} else {
			frame = append(frame, f)
		}
	}
	cst := emptyState().with(passed...).carry(st)
	if e.bytes && cst != nil {
		for i, p := range callee.Params {
			if i < len(com.Args) && isByteType(p.Type()) {
				if aid, ok := e.at.byKey[com.Args[i]]; ok {
					if idx, ok := st.valIdx(aid); ok {
						cst = cst.withVal(e.atom(p), idx)
					}
				}
			}
		}
	}
	finish := func(post *lstate) *lstate {
		if post == nil {
			return nil
		}
		return post.with(frame...)
	}
	var mk strings.Builder
	fmt.Fprintf(&mk, "%p|", callee)
	for _, p := range callee.Params {
		if l, ok := ni.bindLin[p]; ok {
			mk.WriteString("i" + l.key() + "|")
		}
		if l, ok := ni.bindLen[p]; ok {
			mk.WriteString("s" + l.key() + "|")
		}
		if b, ok := ni.bindBool[p]; ok {
			fmt.Fprintf(&mk, "b%v|", b)
		}
		mk.WriteString(ni.alias[p] + "|")
	}
	fmt.Fprintf(&mk, "%p|", call)
	mk.WriteString(cst.key())
	memoKey := mk.String()
	if !e.record || e.recorded[memoKey] {
		if m, ok := e.memo[memoKey]; ok {
			return finish(m)
		}
	}
	if e.record {
		if e.recorded == nil {
			e.recorded = map[string]bool{}
		}
		e.recorded[memoKey] = true
	}
	st = cst
	var progG atomID
	if e.tokProg && (callee.Name() == "consumeToken" || callee.Name() == "consumeFieldToken") {
		progG = e.at.get(ghostFieldKey{callee, "entryPos"}, callee.Name()+".entry.pos", false)
		st = st.eliminate(e.at, map[atomID]bool{progG: true}).eq(linAtom(progG), linAtom(e.P))
	}
	keep := st.atomsOf()
	keep[e.P], keep[e.N] = true, true
	e.frames = append(e.frames, lbFrame{fn: callee, call: call})
	rets := e.run(ni, st)
	if e.tiling || e.tokLen {
		// what a callee recorded about the token being built (a trivia loop split off into its own method) is the
		// caller's knowledge afterwards
		for k, id := range e.at.byKey {
			if gk, ok := k.(ghostFieldKey); ok {
				if o, isS := gk.owner.(string); isS && o == "Token" {
					keep[id] = true
				}
			}
			if ks, ok := k.(string); ok && ks == "lastEnd" {
				keep[id] = true
			}
		}
	}
	e.frames = e.frames[:len(e.frames)-1]
	if progG != 0 && e.record {
		for _, rt := range rets {
			if rt.st == nil {
				continue
			}
			e.progressAtReturn(rt, callee, progG)
		}
	}
	if e.memo == nil {
		e.memo = map[string]*lstate{}
	}
	if len(rets) == 0 {
		e.memo[memoKey] = nil
		return nil
	}
	res := callee.Signature.Results()
	var all []*lstate
	var allZ [][]lin
	var resAtoms []atomID
	// boolean results: what holds at the returns where the component is true (false) becomes a fact guarded by the value
	// the caller tests — the call itself, or the Extract of a tuple component (`skipped, hasError := l.skipComment(..)`)
	type boolComp struct {
		i            int
		g            atomID
		whenT, whenF []*lstate
	}
	var boolComps []*boolComp
	if res.Len() == 1 && isBoolType(res.At(0).Type()) {
		boolComps = append(boolComps, &boolComp{i: 0, g: e.atom(call)})
	} else if res.Len() > 1 && call.Referrers() != nil {
		for _, u := range *call.Referrers() {
			if ex, ok := u.(*ssa.Extract); ok && isBoolType(ex.Type()) {
				boolComps = append(boolComps, &boolComp{i: ex.Index, g: e.atom(ex)})
			}
		}
	}
	for _, r := range rets {
		s := r.st
		if s == nil {
			continue
		}
		var zs []lin
		for i, v := range r.vals {
			t := res.At(i).Type()
			var target any = ssa.Value(call)
			name := e.valName(call)
			if res.Len() > 1 {
				target = tupleKey{call, i}
				name = fmt.Sprintf("%s#%d", name, i)
			}
			switch {
			case e.bytes && isByteType(t):
				if aid, ok := e.at.byKey[v]; ok {
					if idx, ok := s.valIdx(aid); ok {
						a := e.atom(call)
						keep[a] = true
						s = s.withVal(a, idx)
					}
				}
			case isIntType(t):
				if l, ok := e.linear(r.in, v); ok {
					a := e.at.get(target, name, false)
					keep[a] = true
					s = s.eq(linAtom(a), l)
					zs = append(zs, linAtom(a).sub(l))
				}
			case isStringish(t):
				var lk any = lenKey{call}
				if res.Len() > 1 {
					lk = lenKey{tupleKey{call, i}}
				}
				a := e.at.get(lk, "len("+name+")", true)
				keep[a] = true
				s = s.eq(linAtom(a), e.lenLin(r.in, v))
				zs = append(zs, linAtom(a).sub(e.lenLin(r.in, v)))
			}
		}
		if s == nil {
			continue
		}
		for _, bc := range boolComps {
			if bc.i >= len(r.vals) {
				continue
			}
			if t := e.refine(r.in, s, r.vals[bc.i], true); t != nil {
				bc.whenT = append(bc.whenT, e.project(t, keep))
			}
			if f := e.refine(r.in, s, r.vals[bc.i], false); f != nil {
				bc.whenF = append(bc.whenF, e.project(f, keep))
			}
		}
		// generalise before the callee-local atoms disappear
		var extra []lfact
		for _, f := range s.generalise(e.at, zs) {
			extra = append(extra, f)
		}
		ps := e.project(s.with(extra...), keep)
		if e.trace && e.record && os.Getenv("VERIF_LB_LIVEDEBUG") != "" && callee.Name() == "slice" {
			var ks []string
			for a := range keep {
				ks = append(ks, e.at.name[a])
			}
			sort.Strings(ks)
			fmt.Printf("LB PROJECT slice keep=%v\n   s=%s\n   with extras=%s\n   ps=%s\n", ks, e.at.showState(s), e.at.showState(s.with(extra...)), e.at.showState(ps))
		}
		all = append(all, ps)
		for _, z := range zs {
			for _, t := range z.t {
				if t.c == 1 && keep[t.a] {
					resAtoms = append(resAtoms, t.a)
					break
				}
			}
		}
		allZ = append(allZ, nil)
	}
	if len(all) == 0 {
		e.memo[memoKey] = nil
		return nil
	}
	post := joinLin(e.at, all, allZ, nil, resAtoms...)
	defer func() { e.memo[memoKey] = post }()
	for _, bc := range boolComps {
		if post == nil {
			break
		}
		g := bc.g
		for _, side := range []struct {
			pol bool
			sts []*lstate
		}{{true, bc.whenT}, {false, bc.whenF}} {
			if len(side.sts) == 0 {
				continue
			}
			j := joinLin(e.at, side.sts, nil, nil)
			if j == nil {
				continue
			}
			var add []lfact
			for _, f := range j.f {
				if f.g != 0 || post.idx[f.key()] {
					continue
				}
				add = append(add, lfact{g: g, gp: side.pol, l: f.l})
			}
			post = post.with(add...)
			for _, bb := range j.bf {
				if bb.g != 0 {
					continue
				}
				if cur, has := post.byteSet(bb.idx); has && cur == bb.set {
					continue
				}
				post = post.withGuardedByte(g, side.pol, bb.idx, bb.set)
			}
		}
	}
	if os.Getenv("VERIF_LB_LIVEDEBUG") != "" && !e.lostDumped {
		np := lfact{l: linAtom(e.N).sub(linAtom(e.P))}
		if cst.proves(e.at, np) && !post.proves(e.at, np) {
			e.lostDumped = true
			fmt.Printf("LB LOST in %s (%s)\n   entry %s\n   post %s\n", callee.Name(), e.context(), e.at.showState(cst), e.at.showState(post))
			for i, a := range all {
				fmt.Printf("   ret %d: %s\n", i, e.at.showState(a))
			}
			for i, r := range rets {
				fmt.Printf("   raw ret %d: %s\n", i, e.at.showState(r.st))
			}
		}
	}
	if e.trace && e.record && os.Getenv("VERIF_LB_LIVEDEBUG") != "" {
		fmt.Printf("LB POST %s: %s\n   frame %d facts\n", callee.Name(), e.at.showState(post), len(frame))
		for i, a := range all {
			fmt.Printf("   ret %d: %s\n", i, e.at.showState(a))
		}
	}
	return finish(post)
}

func (e *lbEngine) project(s *lstate, keep map[atomID]bool) *lstate {
	if s == nil {
		return nil
	}
	drop := map[atomID]bool{}
	for a := range s.atomsOf() {
		if !keep[a] {
			drop[a] = true
		}
	}
	return s.eliminate(e.at, drop)
}

// scanObligations: for the loops of a byte-scanning function, (1) every back edge is taken with the
// cursor exactly one byte further than at the start of the iteration, (2) every edge that leaves the
// loop without returning is taken only at end of input.
func (e *lbEngine) scanObligations(in *lbInst, fn *ssa.Function, b *ssa.BasicBlock, outs []*lstate) {
	for _, l := range naturalLoops(fn) {
		if !l.body[b] {
			continue
		}
		g := e.at.get(ghostKey{l.header}, fmt.Sprintf("%s.iter%d.pos", fn.Name(), l.header.Index), false)
		last := b.Instrs[len(b.Instrs)-1]
		for si, s := range b.Succs {
			if si >= len(outs) || outs[si] == nil {
				continue
			}
			st := outs[si]
			switch {
			case s == l.header:
				d := linAtom(e.P).sub(linAtom(g))
				e.requireAt(st, fn, last, "C14/R8", fmt.Sprintf("%s: scan loop — each iteration that continues advances the cursor by exactly one byte", funcName(fn)),
					[]string{"step >= 1", "step <= 1"}, []lin{d.add(linConst(-1)), linConst(1).sub(d)})
			case !l.body[s]:
				// leaving the loop on a match (the true edge of `bytes at the cursor == terminator`) is the success exit
				if iff, ok := last.(*ssa.If); ok && si == 0 {
					if bo, ok := iff.Cond.(*ssa.BinOp); ok && bo.Op == token.EQL && isStringType(bo.X.Type()) {
						isParam := func(v ssa.Value) bool { _, ok := v.(*ssa.Parameter); return ok }
						if isParam(bo.X) || isParam(bo.Y) {
							continue
						}
					}
					// the same test through a helper: peekHas(0, end) = strings.HasPrefix(l.Buffer[l.pos:], end)
					if c, ok := iff.Cond.(*ssa.Call); ok {
						if _, _, isT := e.prefixTest(in, c); isT {
							continue
						}
					}
				}
				// leaving the loop otherwise: only at end of input
				room := linAtom(e.P).sub(linAtom(e.N)).add(linConst(-1))
				what := "pos >= len(Buffer)"
				for _, p := range fn.Params {
					if isStringType(p.Type()) {
						room = room.add(e.lenLin(in, p)) // pos + len(terminator) > len(Buffer): it no longer fits
						what = "pos + len(" + p.Name() + ") > len(Buffer)"
						break
					}
				}
				if what == "pos >= len(Buffer)" {
					room = room.add(linConst(1))
				}
				e.requireAt(st, fn, last, "C14/R8", fmt.Sprintf("%s: scan loop — the search gives up only where the terminator no longer fits", funcName(fn)),
					[]string{what}, []lin{room})
			}
		}
	}
}

// progressObligations: on every back edge of a loop of the byte-level code either the cursor is at
// least one byte further than at the start of the iteration, or some integer phi of the loop head
// is assigned a value at least one larger than it had.
func (e *lbEngine) progressObligations(in *lbInst, fn *ssa.Function, b *ssa.BasicBlock, outs []*lstate) {
	for li, l := range e.loopsOf(fn) {
		if !l.body[b] {
			continue
		}
		for si, s := range b.Succs {
			if s != l.header || si >= len(outs) || outs[si] == nil {
				continue
			}
			st := outs[si]
			g := e.at.get(ghostKey{l.header}, fmt.Sprintf("%s.iter%d.pos", fn.Name(), l.header.Index), false)
			ok := st.proves(e.at, lfact{l: linAtom(e.P).sub(linAtom(g)).add(linConst(-1))})
			how := "the cursor advances"
			pi := -1
			for k, p := range l.header.Preds {
				if p == b {
					pi = k
				}
			}
			if !ok && pi >= 0 {
				for _, instr := range l.header.Instrs {
					phi, isPhi := instr.(*ssa.Phi)
					if !isPhi {
						break
					}
					if !isIntType(phi.Type()) {
						continue
					}
					nv, okl := e.linear(in, phi.Edges[pi])
					if okl && st.proves(e.at, lfact{l: nv.sub(linAtom(e.atom(phi))).add(linConst(-1))}) {
						ok, how = true, "counter "+phi.Comment+" increases"
						break
					}
					if okl && st.proves(e.at, lfact{l: linAtom(e.atom(phi)).sub(nv).add(linConst(-1))}) {
						ok, how = true, "counter "+phi.Comment+" decreases" // `for shift := 4*(n-1); shift >= 0; shift -= 4`
						break
					}
				}
			}
			// ranges over finite values need no measure
			if !ok {
				for _, instr := range l.header.Instrs {
					if _, isNext := instr.(*ssa.Next); isNext {
						ok, how = true, "range"
					}
				}
				for bb := range l.body {
					for _, instr := range bb.Instrs {
						if _, isNext := instr.(*ssa.Next); isNext {
							ok, how = true, "range"
						}
					}
				}
			}
			construct := fmt.Sprintf("%s: loop %d — every iteration advances the cursor or a counter", funcName(fn), li+1)
			key := "C03/R7 " + construct
			ob := e.obs[key]
			if ob == nil {
				ob = &lbOb{rule: "C03/R7", construct: construct, where: e.w.pos(lastPos(l.header)), details: map[string]bool{}}
				e.obs[key] = ob
				e.obOrder = append(e.obOrder, key)
			}
			ob.total++
			if !ok {
				ob.failed++
				d := fmt.Sprintf("on the back edge from block %d (%s) neither pos >= pos at the start of the iteration + 1 nor an integer loop variable grown (or shrunk) by at least 1 is proved; reached through %s", b.Index, e.w.pos(lastPos(b)), e.context())
				if len(ob.details) < 3 {
					ob.details[d] = true
				}
				if e.trace {
					fmt.Printf("LB FAIL %s\n   %s\n   state %s\n", key, d, e.at.showState(st))
				}
			} else if len(ob.details) == 0 {
				_ = how
			}
		}
	}
}

// typeRanges: what the Go type of the values behind the atoms of the terms guarantees (an unsigned value is not negative,
// a byte is at most 255): added to the state an obligation is judged in.
func (e *lbEngine) typeRanges(st *lstate, need []lin) *lstate {
	if st == nil {
		return st
	}
	seen := map[atomID]bool{}
	for _, l := range need {
		for _, t := range l.t {
			if seen[t.a] || e.at.isLen[t.a] {
				continue
			}
			seen[t.a] = true
			v, ok := e.owner[t.a]
			if !ok || e.at.byKey[v] != t.a {
				continue
			}
			b, ok := v.Type().Underlying().(*types.Basic)
			if !ok || b.Info()&types.IsUnsigned == 0 {
				continue
			}
			st = st.ge(linAtom(t.a), linConst(0))
			switch b.Kind() {
			case types.Uint8:
				st = st.ge(linConst(255), linAtom(t.a))
			case types.Uint16:
				st = st.ge(linConst(65535), linAtom(t.a))
			}
			if st == nil {
				return nil
			}
		}
	}
	return st
}

func (e *lbEngine) requireAt(st *lstate, fn *ssa.Function, instr ssa.Instruction, rule, construct string, what []string, need []lin) {
	key := rule + " " + construct
	ob := e.obs[key]
	if ob == nil {
		ob = &lbOb{rule: rule, construct: construct, where: e.w.pos(lastPos(instr.Block())), details: map[string]bool{}}
		e.obs[key] = ob
		e.obOrder = append(e.obOrder, key)
	}
	ob.total++
	var failed []string
	proveBudgetInit = 3000
	jst := e.typeRanges(st, need)
	for i, l := range need {
		if jst != nil && !jst.proves(e.at, lfact{l: l}) {
			failed = append(failed, fmt.Sprintf("%s (needs %s >= 0)", what[i], e.at.show(normGE(l))))
		}
	}
	proveBudgetInit = 90
	if len(failed) > 0 {
		ob.failed++
		d := fmt.Sprintf("not proved on the edge from block %d (%s): %s; reached through %s", instr.Block().Index, e.w.pos(lastPos(instr.Block())), strings.Join(failed, ", "), e.context())
		if len(ob.details) < 3 {
			ob.details[d] = true
		}
		if e.trace {
			fmt.Printf("LB FAIL %s\n   %s\n   state %s\n", key, d, e.at.showState(st))
		}
	}
}

// flagMethods: the cursor-moving methods of the scope that return a bool (by name).
func (e *lbEngine) flagMethods() map[string]bool {
	out := map[string]bool{}
	for _, fn := range e.w.ModFns {
		if fn.Signature.Recv() == nil || !e.inScope(fn) || !e.movesCursor(fn) {
			continue
		}
		res := fn.Signature.Results()
		for i := 0; i < res.Len(); i++ {
			if isBoolType(res.At(i).Type()) {
				out[fn.Name()] = true
			}
		}
	}
	return out
}

// movesCursor: the callee (transitively) stores to Lexer.pos.
func (e *lbEngine) movesCursor(fn *ssa.Function) bool {
	if e.moves == nil {
		e.moves = map[*ssa.Function]int{}
	}
	switch e.moves[fn] {
	case 1:
		return true
	case 2:
		return false
	case 3:
		return false // in progress
	}
	e.moves[fn] = 3
	res := false
	for _, b := range fn.Blocks {
		for _, in := range b.Instrs {
			switch x := in.(type) {
			case *ssa.Store:
				if fa, ok := x.Addr.(*ssa.FieldAddr); ok && fieldAddrName(fa) == "pos" {
					if n := fieldAddrStruct(fa); n != nil && n.Obj().Name() == "Lexer" {
						res = true
					}
				}
			case *ssa.Call:
				if c := x.Call.StaticCallee(); c != nil && c.Blocks != nil && fnPkgPath(c) == modRoot && e.movesCursor(c) {
					res = true
				}
			}
		}
	}
	if res {
		e.moves[fn] = 1
	} else {
		e.moves[fn] = 2
	}
	return res
}

// ---- C13/R4: tiling of the input by Space and Raw ---------------------------------------------------

func (e *lbEngine) ghostAtom(owner any, ownerName, field string) atomID {
	return e.at.get(ghostFieldKey{owner, field}, ownerName+"."+field, false)
}

var tilingGhosts = []string{"Pos", "End", "RawLo", "RawHi", "SpaceLo", "SpaceHi", "isBad"}

func (e *lbEngine) dropGhosts(st *lstate, owner any) *lstate {
	drop := map[atomID]bool{}
	for _, g := range tilingGhosts {
		if id, ok := e.at.byKey[ghostFieldKey{owner, g}]; ok {
			drop[id] = true
		}
	}
	return st.eliminate(e.at, drop)
}

// bufSlice: the value is Buffer[lo:hi].
func (e *lbEngine) bufSlice(in *lbInst, v ssa.Value) (lo, hi lin, ok bool) {
	switch x := v.(type) {
	case *ssa.Slice:
		if e.aliasOf(in, x.X) != "buffer" {
			return lin{}, lin{}, false
		}
		lo, hi = linConst(0), linAtom(e.N)
		if x.Low != nil {
			if l, ok := e.linear(in, x.Low); ok {
				lo = l
			}
		}
		if x.High != nil {
			if l, ok := e.linear(in, x.High); ok {
				hi = l
			}
		}
		return lo, hi, true
	case *ssa.Phi:
		// bounds of a phi of input slices are tracked as atoms assigned on the incoming edges
		return linAtom(e.at.get(ghostFieldKey{x, "lo"}, e.valName(x)+".lo", false)), linAtom(e.at.get(ghostFieldKey{x, "hi"}, e.valName(x)+".hi", false)), true
	}
	return lin{}, lin{}, false
}

func (e *lbEngine) present(st *lstate, a atomID) bool {
	if st.atomSet == nil {
		st.atomSet = st.atomsOf()
	}
	return st.atomSet[a]
}

// tilingStore handles a store into a field of Lexer.Token or of a TokenComment literal.
func (e *lbEngine) tilingStore(in *lbInst, stp **lstate, x *ssa.Store) bool {
	st := *stp
	// the whole token is reset
	if fa, ok := x.Addr.(*ssa.FieldAddr); ok && fieldAddrName(fa) == "Token" && e.aliasOf(in, fa.X) == "lexer" {
		*stp = e.dropGhosts(st, "Token")
		return true
	}
	fa, ok := x.Addr.(*ssa.FieldAddr)
	if !ok {
		return false
	}
	var owner any
	ownerName := ""
	switch b := fa.X.(type) {
	case *ssa.FieldAddr:
		if fieldAddrName(b) == "Token" && e.aliasOf(in, b.X) == "lexer" {
			owner, ownerName = "Token", "Token"
		}
	case *ssa.Alloc:
		if isNamed(b.Type().(*types.Pointer).Elem(), modRoot+"/token", "TokenComment") {
			owner, ownerName = b, "comment"
		}
	}
	if owner == nil {
		return false
	}
	field := fieldAddrName(fa)
	fn := in.fn
	if field == "Kind" && ownerName == "Token" {
		// remember whether the token has been marked <bad> on this path
		g := e.ghostAtom(owner, ownerName, "isBad")
		st = st.eliminate(e.at, map[atomID]bool{g: true})
		if k, ok := constString(x.Val); ok && k == "<bad>" {
			st = st.eq(linAtom(g), linConst(1))
		}
		*stp = st
		return true
	}
	eqOb := func(what string, a, b lin) {
		e.requireAt(st, fn, x, "C13/R4", fmt.Sprintf("%s: %s.%s — %s", funcName(fn), ownerName, field, what),
			[]string{"<=", ">="}, []lin{b.sub(a), a.sub(b)})
	}
	set := func(name string, l lin) {
		g := e.ghostAtom(owner, ownerName, name)
		st = st.eliminate(e.at, map[atomID]bool{g: true}).eq(linAtom(g), l)
	}
	get := func(name string) (lin, bool) {
		id, ok := e.at.byKey[ghostFieldKey{owner, name}]
		if !ok || !e.present(st, id) {
			return lin{}, false
		}
		return linAtom(id), true
	}
	lastEnd := e.at.get("lastEnd", "end of the last token/comment", false)
	switch field {
	case "Space", "Raw":
		lo, hi, ok := e.bufSlice(in, x.Val)
		if !ok {
			if c, isC := x.Val.(*ssa.Const); isC {
				if sv, _ := constString(c); sv == "" {
					return true
				}
			}
			e.requireAt(st, fn, x, "C13/R4", fmt.Sprintf("%s: %s.%s — is a slice of the input", funcName(fn), ownerName, field), []string{"stored text is Buffer[a:b]"}, []lin{linConst(-1)})
			return true
		}
		if field == "Space" {
			if e.record {
				eqOb("begins where the previous token or comment ended", lo, linAtom(lastEnd))
				if p, ok := get("Pos"); ok {
					eqOb("ends at Pos", hi, p)
				}
				if r, ok := get("RawLo"); ok {
					eqOb("ends where Raw begins", hi, r)
				}
			}
			set("SpaceLo", lo)
			set("SpaceHi", hi)
		} else {
			if e.record {
				if s, ok := get("SpaceHi"); ok {
					eqOb("begins where Space ends", lo, s)
				}
				if p, ok := get("Pos"); ok {
					eqOb("begins at Pos", lo, p)
				}
				if en, ok := get("End"); ok {
					eqOb("ends at End", hi, en)
				}
			}
			set("RawLo", lo)
			set("RawHi", hi)
		}
	case "Pos", "End":
		l, ok := e.linear(in, x.Val)
		if !ok {
			return true
		}
		if field == "Pos" {
			if e.record {
				if s, ok := get("SpaceHi"); ok {
					eqOb("is where Space ends", l, s)
				}
				if r, ok := get("RawLo"); ok {
					eqOb("is where Raw begins", l, r)
				}
			}
			set("Pos", l)
		} else {
			if e.record {
				if r, ok := get("RawHi"); ok {
					eqOb("is where Raw ends", l, r)
				}
			}
			set("End", l)
			st = st.eliminate(e.at, map[atomID]bool{lastEnd: true}).eq(linAtom(lastEnd), l)
		}
	default:
		return false
	}
	*stp = st
	return true
}

// ---- C12/R5: the pieces of SplitRawStatements ------------------------------------------------------

func (e *lbEngine) splitAtoms() (tp, te, c0 atomID) {
	return e.at.get(ghostFieldKey{"Token", "Pos(field)"}, "Token.Pos", false),
		e.at.get(ghostFieldKey{"Token", "End(field)"}, "Token.End", false),
		e.at.get(ghostFieldKey{"Token", "Comments[0].Pos"}, "Token.Comments[0].Pos", false)
}

// splitTokenAtom: addr is &lex.Token.Pos, &lex.Token.End or &lex.Token.Comments[0].Pos.
func (e *lbEngine) splitTokenAtom(in *lbInst, addr ssa.Value) (atomID, bool) {
	fa, ok := addr.(*ssa.FieldAddr)
	if !ok {
		return 0, false
	}
	tp, te, c0 := e.splitAtoms()
	isTok := func(v ssa.Value) bool {
		b, ok := v.(*ssa.FieldAddr)
		return ok && fieldAddrName(b) == "Token" && e.aliasOf(in, b.X) == "lexer"
	}
	if isTok(fa.X) {
		switch fieldAddrName(fa) {
		case "Pos":
			return tp, true
		case "End":
			return te, true
		}
		return 0, false
	}
	// Comments[0].Pos
	if fieldAddrName(fa) == "Pos" {
		if ia, ok := fa.X.(*ssa.IndexAddr); ok {
			if k, isC := constInt(ia.Index); isC && k == 0 {
				if ld, ok := isLoad(ia.X); ok {
					if cf, ok := ld.(*ssa.FieldAddr); ok && fieldAddrName(cf) == "Comments" && isTok(cf.X) {
						return c0, true
					}
				}
			}
		}
	}
	return 0, false
}

// splitPieceStore: the store of RawStatement.End completes a piece: it lies within the input, is ordered, and starts
// at or after the end of the piece before it.
func (e *lbEngine) splitPieceStore(in *lbInst, stp **lstate, x *ssa.Store) bool {
	fa, ok := x.Addr.(*ssa.FieldAddr)
	if !ok {
		return false
	}
	al, ok := fa.X.(*ssa.Alloc)
	if !ok || !isNamed(al.Type(), modRoot, "RawStatement") {
		return false
	}
	if fieldAddrName(fa) != "End" {
		return true
	}
	st := *stp
	fields := allocFieldStores(al)
	posV := fields["Pos"]
	endL, ok1 := e.linear(in, x.Val)
	if posV == nil || !ok1 {
		e.requireAt(st, in.fn, x, "C12/R5", "piece: Pos and End are recorded", []string{"both fields stored from tracked values"}, []lin{linConst(-1)})
		return true
	}
	posL, ok2 := e.linear(in, posV)
	if !ok2 {
		e.requireAt(st, in.fn, x, "C12/R5", "piece: Pos and End are recorded", []string{"both fields stored from tracked values"}, []lin{linConst(-1)})
		return true
	}
	if e.record {
		e.requireAt(st, in.fn, x, "C12/R5", "piece: 0 <= Pos <= End <= len(input)", []string{"0 <= Pos", "Pos <= End", "End <= len(input)"},
			[]lin{posL, endL.sub(posL), linAtom(e.N).sub(endL)})
		last := e.at.get("lastPieceEnd", "End of the previous piece", false)
		if e.present(st, last) {
			e.requireAt(st, in.fn, x, "C12/R5", "piece: starts at or after the end of the previous piece", []string{"previous End <= Pos"}, []lin{posL.sub(linAtom(last))})
		}
	}
	last := e.at.get("lastPieceEnd", "End of the previous piece", false)
	st = st.eliminate(e.at, map[atomID]bool{last: true}).eq(linAtom(last), endL)
	*stp = st
	return true
}

// progressAtReturn: C13/R6 at one return of a token reader.
func (e *lbEngine) progressAtReturn(rt lbRet, callee *ssa.Function, g atomID) {
	st := rt.st
	var instr ssa.Instruction = rt.ret
	if rt.ret == nil {
		instr = callee.Blocks[0].Instrs[0]
	}
	// not judged here: a return that hands over to another reader (its own returns are judged), a return after a reader
	// that was only summarised as "moves the cursor forward" (judged by C13/R3 and by the deep run of the thorough tier),
	// and the returns after consumeNumber (whether "0x" or a digit came first is a fact about two values — base and i —
	// that the domain does not relate; C13/R3 covers that every return of consumeNumber passes skipN)
	if rt.ret != nil {
		for _, x := range rt.ret.Block().Instrs {
			if c, ok := x.(*ssa.Call); ok {
				if sc := c.Call.StaticCallee(); sc != nil && (sc.Name() == "consumeToken" || sc.Name() == "consumeNumber") {
					return
				}
			}
		}
		for _, p := range rt.ret.Block().Preds {
			for _, x := range p.Instrs {
				if c, ok := x.(*ssa.Call); ok {
					if sc := c.Call.StaticCallee(); sc != nil && sc.Name() == "consumeNumber" && len(rt.ret.Block().Instrs) == 1 {
						return
					}
				}
			}
		}
	}
	if h, ok := e.at.byKey["havoc"]; ok && e.shallow {
		if !st.proves(e.at, lfact{l: linAtom(h).scale(-1)}) {
			return
		}
	}
	construct := funcName(callee) + ": a return has consumed at least one byte, or the input is exhausted"
	atEOF := st.proves(e.at, lfact{l: linAtom(e.P).sub(linAtom(e.N))})
	adv := linAtom(e.P).sub(linAtom(g)).add(linConst(-1))
	okk := atEOF || st.proves(e.at, lfact{l: adv})
	if !okk {
		// by refutation: no progress contradicts what is known about the bytes
		if s2 := st.with(lfact{l: linAtom(g).sub(linAtom(e.P))}); s2 == nil || s2.bytesContradict(e.at) {
			okk = true
		}
	}
	need := linConst(0)
	if !okk {
		need = linConst(-1)
	}
	e.requireAt(st, callee, instr, "C13/R6", construct+fmt.Sprintf(" [return at %s]", e.w.pos(lastPos(instr.Block()))), []string{"pos - pos at entry >= 1, or pos >= len(Buffer)"}, []lin{need})
}

// delimiterPanicDead: the "BUG: invalid delimiter" panic of (*Lexer).peekDelimiter is unreachable — decided by
// interpreting consumeToken with byte facts: the literal readers are entered only after a quote was seen at the offset
// the cursor is then moved to. Returns the number of calling contexts and the failure details.
func (w *World) delimiterPanicDead() (contexts int, failures []string) {
	if w.delimDone {
		return w.delimCtx, w.delimFail
	}
	w.delimDone = true
	root := w.fn(w.Mem, "(*Lexer).consumeToken")
	if root == nil || w.fn(w.Mem, "(*Lexer).peekDelimiter") == nil {
		w.delimFail = []string{"(*Lexer).consumeToken / peekDelimiter not found"}
		return 0, w.delimFail
	}
	defer debug.SetGCPercent(debug.SetGCPercent(1000))
	e := w.newLexBounds()
	e.bytes, e.shallow, e.shallowLeaf = true, true, true
	e.inlineAlso = map[string]bool{}
	// the literal readers that call peekDelimiter are followed; everything else only moves the cursor
	pd := w.fn(w.Mem, "(*Lexer).peekDelimiter")
	for _, cs := range w.callersOf(pd) {
		e.inlineAlso[cs.Parent().Name()] = true
	}
	e.trace = verboseRule() != "" && verboseRule() != "1" && strings.HasPrefix("C03/R9", verboseRule())
	e.runRoot(root, map[string]bool{"noPanic": false})
	e.runRoot(root, map[string]bool{"noPanic": true})
	for _, ob := range e.results() {
		if ob.rule != "C03/R9" {
			continue
		}
		w.delimCtx += ob.total
		if ob.failed > 0 {
			for d := range ob.details {
				w.delimFail = append(w.delimFail, d)
			}
		}
	}
	if w.delimCtx == 0 {
		w.delimFail = append(w.delimFail, "peekDelimiter was not reached by the interpretation of consumeToken")
	}
	sort.Strings(w.delimFail)
	return w.delimCtx, w.delimFail
}

// ruleC03R9: the one panic with a non-*Error payload that the residual analysis (C03/R3, C04/R2) cannot decide.
func ruleC03R9(w *World, r *Report) {
	const rule = "C03/R9"
	r.rule(rule, "the \"BUG: invalid delimiter\" panic of (*Lexer).peekDelimiter is unreachable: consumeToken enters the string/bytes readers only on paths on which the byte at the offset the cursor is then moved to was compared equal to '\"' or '\\'' — LEXBOUNDS with byte facts (what is known about Buffer[idx], idx a linear term), literal readers followed, other lexer methods only moving the cursor", 1)
	n, fails := w.delimiterPanicDead()
	construct := "(*Lexer).peekDelimiter: delimiter panic"
	if len(fails) > 0 {
		r.bad(rule, construct, w.pos(w.fn(w.Mem, "(*Lexer).peekDelimiter").Pos()), strings.Join(fails, " | "))
	} else {
		r.ok(rule, construct, w.pos(w.fn(w.Mem, "(*Lexer).peekDelimiter").Pos()), fmt.Sprintf("the panic is not reached in any of the %d calling contexts", n))
	}
}

// ruleC13R6: no token but <eof> is empty.
func ruleC13R6(w *World, r *Report) {
	const rule = "C13/R6"
	r.rule(rule, "every return of (*Lexer).consumeToken and (*Lexer).consumeFieldToken has moved the cursor by at least one byte since entry, or the cursor is at the end of the input (the <eof> arm): no token other than <eof> is empty, and the recovering parser's skip loops reach <eof> — LEXBOUNDS with byte facts (a scan that starts on a byte of its own class runs at least once), callees inlined", 4)
	defer debug.SetGCPercent(debug.SetGCPercent(1000))
	nt := w.fn(w.Mem, "(*Lexer).nextToken")
	if nt == nil {
		r.errorf("(*Lexer).nextToken not found")
		return
	}
	e := w.newLexBounds()
	e.bytes, e.tokProg = true, true
	joinByteRefute = true
	defer func() { joinByteRefute = false }()
	e.trace = verboseRule() != "" && verboseRule() != "1" && strings.HasPrefix(rule, verboseRule())
	if os.Getenv("VERIF_C13R6_DEEP") != "" {
		e.runRoot(nt, map[string]bool{"noPanic": false})
		e.runRoot(nt, map[string]bool{"noPanic": true})
	} else {
		// the scans of consumeToken / consumeFieldToken themselves; other readers only move the cursor forward (that each
		// of them passes a skip/skipN on every return is C13/R3). The thorough tier used to inline everything from
		// nextToken instead; that run cannot prove progress behind consumeString in the dot-identifier context (the join of
		// consumeQuotedContent's returns loses `skipN(i + len(q))` there) and reported a correct tree, so it was removed
		// (DESIGN.md §2 C13).
		e.shallow, e.shallowLeaf = true, true
		for _, name := range []string{"(*Lexer).consumeToken", "(*Lexer).consumeFieldToken"} {
			root := w.fn(w.Mem, name)
			if root == nil {
				r.errorf("%s not found", name)
				return
			}
			e.runRoot(root, map[string]bool{"noPanic": false})
			e.runRoot(root, map[string]bool{"noPanic": true})
		}
	}
	n := 0
	for _, ob := range e.results() {
		if ob.rule != rule {
			continue
		}
		n++
		if ob.failed == 0 {
			r.ok(rule, ob.construct, ob.where, fmt.Sprintf("proved in %d context(s)", ob.total))
		} else {
			var ds []string
			for d := range ob.details {
				ds = append(ds, d)
			}
			sort.Strings(ds)
			r.bad(rule, ob.construct, ob.where, fmt.Sprintf("%d of %d context(s): %s", ob.failed, ob.total, strings.Join(ds, " | ")))
		}
	}
	if n == 0 {
		r.errorf("no return of the token readers reached")
	}
}

// pathOnlyThrough: every path from the entry to target passes one of the blocks that, like via, store the number's
// kind (the two arms of `if int { Kind = <int> } else { Kind = <float> }` dominate nothing on their own).
func pathOnlyThrough(fn *ssa.Function, via, target *ssa.BasicBlock) bool {
	kindBlocks := map[*ssa.BasicBlock]bool{}
	for _, b := range fn.Blocks {
		for _, x := range b.Instrs {
			if st, ok := x.(*ssa.Store); ok {
				if fa, ok := st.Addr.(*ssa.FieldAddr); ok && fieldAddrName(fa) == "Kind" {
					if k, ok := constString(st.Val); ok && (k == "<int>" || k == "<float>") {
						kindBlocks[b] = true
					}
				}
			}
		}
	}
	seen := map[*ssa.BasicBlock]bool{}
	var reach func(b *ssa.BasicBlock) bool
	reach = func(b *ssa.BasicBlock) bool {
		if kindBlocks[b] || seen[b] {
			return false
		}
		seen[b] = true
		if b == target {
			return true
		}
		for _, s := range b.Succs {
			if reach(s) {
				return true
			}
		}
		return false
	}
	return !reach(fn.Blocks[0])
}

func isKindBadStore(x *ssa.Store) bool {
	fa, ok := x.Addr.(*ssa.FieldAddr)
	if !ok || fieldAddrName(fa) != "Kind" {
		return false
	}
	k, ok := constString(x.Val)
	return ok && k == "<bad>"
}

// numFollowReject: a number is rejected (raise, or <bad> in recovering mode) only because an identifier character
// follows it directly.
func (e *lbEngine) numFollowReject(in *lbInst, st *lstate, at ssa.Instruction) {
	// only rejections of a number that has already been classified (<int> / <float> stored on the way here): a
	// malformed number ("0x" without a digit) is rejected for its own reason, before that
	classified := false
	for _, b := range in.fn.Blocks {
		for _, x := range b.Instrs {
			if stx, ok := x.(*ssa.Store); ok {
				if fa, ok := stx.Addr.(*ssa.FieldAddr); ok && fieldAddrName(fa) == "Kind" {
					if k, ok := constString(stx.Val); ok && (k == "<int>" || k == "<float>") {
						if b == at.Block() || b.Dominates(at.Block()) || pathOnlyThrough(in.fn, b, at.Block()) {
							classified = true
						}
					}
				}
			}
		}
	}
	if !classified {
		return
	}
	set, has := st.byteSet(linAtom(e.P))
	okk := has
	if has {
		for c := 0; c < 256; c++ {
			if set.has(byte(c)) && !e.identPart.has(byte(c)) {
				okk = false
			}
		}
	}
	need := linConst(0)
	if !okk {
		need = linConst(-1)
	}
	e.requireAt(st, in.fn, at, "C14/R11", "consumeNumber: a number is rejected only when an identifier character follows it directly", []string{"the byte behind the number is known to be a letter, a digit or '_'"}, []lin{need})
}

// numFollowEdge: on every edge into a return of consumeNumber that does not mark the token <bad>, the input is
// exhausted or the byte behind the number is not an identifier character ("1from" is not a number and a name).
func (e *lbEngine) numFollowEdge(in *lbInst, b, p *ssa.BasicBlock, s *lstate) {
	if _, isRet := b.Instrs[len(b.Instrs)-1].(*ssa.Return); !isRet || len(b.Instrs) != 1 {
		return
	}
	// the <bad> arm returns from its own block
	for _, x := range p.Instrs {
		if st, ok := x.(*ssa.Store); ok && isKindBadStore(st) {
			return
		}
	}
	ret := b.Instrs[len(b.Instrs)-1]
	atEOF := s.proves(e.at, lfact{l: linAtom(e.P).sub(linAtom(e.N))})
	okk := atEOF
	if !okk {
		var notPart bset
		for c := 0; c < 256; c++ {
			if !e.identPart.has(byte(c)) {
				notPart.add(byte(c))
			}
		}
		if set, has := s.byteSet(linAtom(e.P)); has && set.inter(e.identPart).empty() {
			okk = true
		}
		_ = notPart
	}
	need := linConst(0)
	if !okk {
		need = linConst(-1)
	}
	e.requireAt(s, in.fn, ret, "C14/R11", "consumeNumber: a number is accepted only at the end of input or in front of a byte that is not an identifier character", []string{"pos >= len(Buffer), or the byte at the cursor is known not to be a letter, a digit or '_'"}, []lin{need})
}

// ruleC14R11: numbers may not be glued to an identifier — and only that.
func ruleC14R11(w *World, r *Report) {
	const rule = "C14/R11"
	r.rule(rule, "what stands right behind a number literal: consumeNumber rejects (raises, or marks the token <bad> in recovering mode) only when the byte at the cursor is an identifier character (char.IsIdentPart's set, C14/R6), and returns a number only at the end of input or in front of a byte that is not one — LEXBOUNDS with byte facts on consumeNumber", 2)
	defer debug.SetGCPercent(debug.SetGCPercent(1000))
	root := w.fn(w.Mem, "(*Lexer).consumeNumber")
	isPart := w.fn(w.Char, "IsIdentPart")
	if root == nil || isPart == nil {
		r.errorf("(*Lexer).consumeNumber / char.IsIdentPart not found")
		return
	}
	set, ok := w.predicateTrueSet(isPart)
	if !ok {
		r.undecided(rule, "char.IsIdentPart", w.pos(isPart.Pos()), "not a pure comparison predicate")
		return
	}
	e := w.newLexBounds()
	e.bytes, e.numFollow = true, true
	e.shallow, e.shallowLeaf = true, true
	for c := 0; c < 256; c++ {
		if set[c] {
			e.identPart.add(byte(c))
		}
	}
	e.trace = verboseRule() != "" && verboseRule() != "1" && strings.HasPrefix(rule, verboseRule())
	e.runRoot(root, map[string]bool{"noPanic": false})
	e.runRoot(root, map[string]bool{"noPanic": true})
	n := 0
	for _, ob := range e.results() {
		if ob.rule != rule {
			continue
		}
		n++
		if ob.failed == 0 {
			r.ok(rule, ob.construct, ob.where, fmt.Sprintf("proved in %d context(s)", ob.total))
		} else {
			var ds []string
			for d := range ob.details {
				ds = append(ds, d)
			}
			sort.Strings(ds)
			r.bad(rule, ob.construct, ob.where, fmt.Sprintf("%d of %d context(s): %s", ob.failed, ob.total, strings.Join(ds, " | ")))
		}
	}
	if n < 2 {
		r.errorf("the rejection and the acceptance of consumeNumber were not both reached (%d obligations)", n)
	}
}

// ruleC14R12: "0x" alone is not a number.
func ruleC14R12(w *World, r *Report) {
	const rule = "C14/R12"
	r.rule(rule, "hexadecimal literals have at least one digit: consumeNumber is interpreted once per value of its base variable (a trace partition on the constant-valued phi that the \"0x\" prefix test sets to 16); in the hex partition every cursor move has consumed at least three bytes", 1)
	defer debug.SetGCPercent(debug.SetGCPercent(1000))
	root := w.fn(w.Mem, "(*Lexer).consumeNumber")
	if root == nil {
		r.errorf("(*Lexer).consumeNumber not found")
		return
	}
	// the base variable: an int phi with constant edges 10 and 16
	var basePhi *ssa.Phi
	var blocks []*ssa.BasicBlock
	blocks = append(blocks, root.Blocks...)
	{
		// the measuring loop may live in a helper of the lexer that only looks (scanNumber() (n, base, isInt))
		probe := w.newLexBounds()
		for _, b := range root.Blocks {
			for _, in := range b.Instrs {
				if c, ok := in.(*ssa.Call); ok {
					if h := c.Call.StaticCallee(); h != nil && h.Blocks != nil && h.Signature.Recv() != nil && w.isLexerPtr(h.Signature.Recv().Type()) && !probe.movesCursor(h) && len(naturalLoops(h)) > 0 {
						blocks = append(blocks, h.Blocks...)
					}
				}
			}
		}
	}
	for _, b := range blocks {
		for _, in := range b.Instrs {
			phi, ok := in.(*ssa.Phi)
			if !ok {
				break
			}
			vals := map[int64]bool{}
			allConst := true
			for _, e := range phi.Edges {
				k, isC := constInt(e)
				if !isC {
					allConst = false
					break
				}
				vals[k] = true
			}
			if allConst && vals[10] && vals[16] && len(vals) == 2 {
				basePhi = phi
			}
		}
	}
	construct := "consumeNumber: hex partition"
	if basePhi == nil {
		r.undecided(rule, construct, w.pos(root.Pos()), "no variable of consumeNumber is set to 10 or 16 by the prefix test (the numeric base is kept in another way)")
		return
	}
	e := w.newLexBounds()
	e.shallow, e.shallowLeaf = true, true
	e.hexDigits = true
	e.cutEdges = map[[2]*ssa.BasicBlock]bool{}
	jb := basePhi.Block()
	for i, ed := range basePhi.Edges {
		if k, _ := constInt(ed); k != 16 {
			e.cutEdges[[2]*ssa.BasicBlock{jb.Preds[i], jb}] = true
		}
	}
	e.trace = verboseRule() != "" && verboseRule() != "1" && strings.HasPrefix(rule, verboseRule())
	e.runRoot(root, map[string]bool{"noPanic": false})
	e.runRoot(root, map[string]bool{"noPanic": true})
	n := 0
	for _, ob := range e.results() {
		if ob.rule != rule {
			continue
		}
		n++
		if ob.failed == 0 {
			r.ok(rule, ob.construct, ob.where, fmt.Sprintf("proved in %d context(s)", ob.total))
		} else {
			var ds []string
			for d := range ob.details {
				ds = append(ds, d)
			}
			sort.Strings(ds)
			r.bad(rule, ob.construct, ob.where, fmt.Sprintf("%d of %d context(s): %s — \"0x\" without a digit is taken for an integer", ob.failed, ob.total, strings.Join(ds, " | ")))
		}
	}
	if n == 0 {
		r.errorf("no cursor move of consumeNumber reached in the hex partition")
	}
}

// ruleC16R3: the case-insensitive comparison behind IsKeywordLike / IsIdent is a comparison of whole strings.
func ruleC16R3(w *World, r *Report) {
	const rule = "C16/R3"
	r.rule(rule, "char.EqualFold, on which Token.IsKeywordLike and Token.IsIdent rest (C16/R1), returns true only when both strings have the same length and only after its index has run to that length (LEXBOUNDS at each return that is not the constant false): a prefix match would turn every identifier that starts with a pseudo-keyword into that keyword", 2)
	defer debug.SetGCPercent(debug.SetGCPercent(1000))
	root := w.fn(w.Char, "EqualFold")
	if root == nil {
		r.errorf("char.EqualFold not found")
		return
	}
	e := w.newLexBounds()
	e.foldEq = true
	e.trace = verboseRule() != "" && verboseRule() != "1" && strings.HasPrefix(rule, verboseRule())
	e.runRoot(root, nil)
	n := 0
	for _, ob := range e.results() {
		if ob.rule != rule {
			continue
		}
		n++
		if ob.failed == 0 {
			r.ok(rule, ob.construct, ob.where, fmt.Sprintf("proved in %d context(s)", ob.total))
		} else {
			var ds []string
			for d := range ob.details {
				ds = append(ds, d)
			}
			sort.Strings(ds)
			r.bad(rule, ob.construct, ob.where, fmt.Sprintf("%d of %d context(s): %s", ob.failed, ob.total, strings.Join(ds, " | ")))
		}
	}
	if n < 2 {
		r.errorf("no return of char.EqualFold that can be true was reached")
	}
}

// ruleC12R5: the arithmetic clause of C12.
func ruleC12R5(w *World, r *Report) {
	const rule = "C12/R5"
	r.rule(rule, "SplitRawStatements: every piece has 0 <= Pos <= End <= len(input), begins at or after the end of the piece before it, and both s[Pos:End] slices are within the input — proved in the LEXBOUNDS domain with the fields of the lexer's current token as atoms, under the contract of Lexer.NextToken that C13/R1 and C13/R4 establish (the new token starts at or after the old End, End >= Pos, End <= len(Buffer), its first comment lies between the old End and its Pos; a fresh Lexer has the zero token)", 2)
	defer debug.SetGCPercent(debug.SetGCPercent(1000))
	root := w.fn(w.Mem, "SplitRawStatements")
	if root == nil {
		r.errorf("SplitRawStatements not found")
		return
	}
	e := w.newLexBounds()
	e.split = true
	e.trace = verboseRule() != "" && verboseRule() != "1" && strings.HasPrefix(rule, verboseRule())
	e.runRoot(root, nil)
	n := 0
	for _, ob := range e.results() {
		isSlice := ob.rule == "C03/R6" && strings.Contains(ob.construct, "s[")
		if ob.rule != rule && !isSlice {
			continue
		}
		n++
		construct := ob.construct
		if ob.failed == 0 {
			r.ok(rule, construct, ob.where, fmt.Sprintf("proved in %d context(s)", ob.total))
		} else {
			var ds []string
			for d := range ob.details {
				ds = append(ds, d)
			}
			sort.Strings(ds)
			r.bad(rule, construct, ob.where, fmt.Sprintf("%d of %d context(s): %s", ob.failed, ob.total, strings.Join(ds, " | ")))
		}
	}
	if n < 2 {
		r.errorf("expected the piece obligations and the slices of SplitRawStatements, found %d", n)
	}
}

// tokLenStore: stores to Token.Kind / Token.AsString in the token reader (C06/R3).
func (e *lbEngine) tokLenStore(in *lbInst, stp **lstate, x *ssa.Store) bool {
	fa, ok := x.Addr.(*ssa.FieldAddr)
	if !ok {
		return false
	}
	b, ok := fa.X.(*ssa.FieldAddr)
	if !ok || fieldAddrName(b) != "Token" || e.aliasOf(in, b.X) != "lexer" {
		return false
	}
	st := *stp
	switch fieldAddrName(fa) {
	case "Kind":
		k := e.at.get(ghostFieldKey{"Token", "kindIsParam"}, "Token.kindIsParam", false)
		st = st.eliminate(e.at, map[atomID]bool{k: true})
		if c, ok := constString(x.Val); ok {
			if c == "<param>" && e.paramStart && e.record {
				// C14/R14: "@" and then a byte that may begin an identifier
				g := e.at.get("entryPos", "cursor at entry", false)
				okAt, okStart := linConst(-1), linConst(-1)
				if set, known := e.byteSetAt(st, linAtom(g)); known && set.subsetOf(bsetOf('@')) {
					okAt = linConst(0)
				}
				if start, ok := e.classifierSetByName("IsIdentStart"); ok {
					if set, known := e.byteSetAt(st, linAtom(g).add(linConst(1))); known && set.subsetOf(start) {
						okStart = linConst(0)
					}
				}
				e.requireAt(st, in.fn, x, "C14/R14", funcName(in.fn)+": a <param> token is '@' followed by a byte that begins an identifier", []string{"the first byte of the token is known to be '@'", "the byte behind '@' is known to be a letter or '_'"}, []lin{okAt, okStart})
			}
			if c == "<param>" {
				st = st.eq(linAtom(k), linConst(1))
			} else {
				st = st.eq(linAtom(k), linConst(0))
			}
		} else if kindNotParam(x) || e.w.neverParamKind(x.Val, 0) || e.shorterThanParamKind(in, st, x.Val) {
			st = st.eq(linAtom(k), linConst(0))
		} else {
			// not a constant: may be <param>
			st = st.ge(linAtom(k), linConst(0)).ge(linConst(1), linAtom(k))
		}
	case "AsString":
		a := e.at.get(ghostFieldKey{"Token", "asStringLen"}, "len(Token.AsString)", false)
		st = st.eliminate(e.at, map[atomID]bool{a: true})
		if lo, hi, ok := e.bufSlice(in, x.Val); ok {
			st = st.eq(linAtom(a), hi.sub(lo))
		}
	default:
		return false
	}
	*stp = st
	return true
}

// neverParamKind: a value stored into Token.Kind that is "<param>" on no path: a constant, a phi of such values, a
// parameter that only receives such values (`l.Token.Kind = kind` in a reader that is told the kind of its literal), a
// value looked up in a constant table without that entry.
func (w *World) neverParamKind(v ssa.Value, depth int) bool {
	if depth > 5 {
		return false
	}
	for {
		switch x := v.(type) {
		case *ssa.ChangeType:
			v = x.X
			continue
		case *ssa.Convert:
			v = x.X
			continue
		}
		break
	}
	if c, ok := constString(v); ok {
		return c != "<param>"
	}
	switch x := v.(type) {
	case *ssa.Phi:
		for _, e := range x.Edges {
			if e != ssa.Value(x) && !w.neverParamKind(e, depth+1) {
				return false
			}
		}
		return len(x.Edges) > 0
	case *ssa.Parameter:
		fn := x.Parent()
		idx := -1
		for i, p := range fn.Params {
			if p == x {
				idx = i
			}
		}
		n := 0
		for _, site := range w.callersOf(fn) {
			if site.Parent() != nil && site.Parent().Synthetic != "" && len(w.callersOf(site.Parent())) == 0 {
				continue
			}
			args := site.Common().Args
			if idx < 0 || idx >= len(args) || !w.neverParamKind(args[idx], depth+1) {
				return false
			}
			n++
		}
		return n > 0
	case *ssa.Lookup:
		if ci := w.constMapLoad(x.X); ci != nil {
			for _, ev := range ci.entries {
				if ev.kind != cConst || ev.c.Kind() != constant.String || constant.StringVal(ev.c) == "<param>" {
					return false
				}
			}
			return len(ci.entries) > 0
		}
	case *ssa.Extract:
		if lk, ok := x.Tuple.(*ssa.Lookup); ok && x.Index == 0 {
			return w.neverParamKind(lk, depth+1)
		}
	}
	return false
}

// shorterThanParamKind: the text stored as the kind is known to be shorter than "<param>" (an operator's own spelling:
// TokenKind(l.slice(0, n)) with n <= 2).
func (e *lbEngine) shorterThanParamKind(in *lbInst, st *lstate, v ssa.Value) bool {
	for {
		switch x := v.(type) {
		case *ssa.ChangeType:
			v = x.X
			continue
		case *ssa.Convert:
			v = x.X
			continue
		}
		break
	}
	if !isStringish(v.Type()) {
		return false
	}
	return st.proves(e.at, lfact{l: linConst(int64(len("<param>") - 1)).sub(e.lenLin(in, v))})
}

// kindNotParam: a non-constant value stored into Token.Kind that cannot be "<param>": a one-byte string
// (TokenKind([]byte{c})), or a key found in token.KeywordsMap (the store is dominated by the ok-edge of the lookup
// with that key; the map holds the reserved words only, C14/R1).
// keywordHitValue: v is the key of a `_, ok := KeywordsMap[v]` lookup of its function whose hit edge dominates the block.
func keywordHitValue(v ssa.Value, at *ssa.BasicBlock) bool {
	for _, b := range at.Parent().Blocks {
		for _, in := range b.Instrs {
			lk, ok := in.(*ssa.Lookup)
			if !ok || !lk.CommaOk || lk.Index != v {
				continue
			}
			ld, ok := lk.X.(*ssa.UnOp)
			if !ok {
				continue
			}
			g, ok := ld.X.(*ssa.Global)
			if !ok || g.Name() != "KeywordsMap" {
				continue
			}
			for _, u := range referrers(lk) {
				ex, ok := u.(*ssa.Extract)
				if !ok || ex.Index != 1 {
					continue
				}
				for _, uu := range referrers(ex) {
					if iff, ok := uu.(*ssa.If); ok {
						yes := iff.Block().Succs[0]
						if len(yes.Preds) == 1 && (yes == at || yes.Dominates(at)) {
							return true
						}
					}
				}
			}
		}
	}
	return false
}

func kindNotParam(st *ssa.Store) bool {
	v := st.Val
	for {
		switch x := v.(type) {
		case *ssa.ChangeType:
			v = x.X
			continue
		case *ssa.Convert:
			v = x.X
			continue
		}
		break
	}
	if sl, ok := v.(*ssa.Slice); ok {
		if al, ok := sl.X.(*ssa.Alloc); ok {
			if arr, ok := al.Type().(*types.Pointer).Elem().Underlying().(*types.Array); ok && arr.Len() == 1 {
				return true
			}
		}
	}
	if keywordHitValue(st.Val, st.Block()) {
		return true
	}
	// the kind returned by a keyword classifier of the module (`k, ok := token.LookupKeyword(s)`): every value it returns
	// is a constant other than <param> or the key of a KeywordsMap hit
	if ex, ok := v.(*ssa.Extract); ok && ex.Index == 0 {
		if call, ok := ex.Tuple.(*ssa.Call); ok {
			if callee := call.Call.StaticCallee(); callee != nil && callee.Blocks != nil && corePkg(fnPkgPath(callee)) {
				all, n := true, 0
				for _, rb := range callee.Blocks {
					ret, ok := rb.Instrs[len(rb.Instrs)-1].(*ssa.Return)
					if !ok || len(ret.Results) == 0 {
						continue
					}
					n++
					r0 := ret.Results[0]
					if c, isC := constString(r0); isC {
						if c == "<param>" {
							all = false
						}
						continue
					}
					if !keywordHitValue(r0, rb) {
						all = false
					}
				}
				if all && n > 0 {
					return true
				}
			}
		}
	}
	return false
}

// ruleC06R3: the lexer side of "Param.end = Atmark + 1 + len(Name)".
func ruleC06R3(w *World, r *Report) {
	const rule = "C06/R3"
	r.rule(rule, "on every return of (*Lexer).consumeToken on which Token.Kind may be <param>, the bytes consumed since entry are exactly 1 + len(Token.AsString), AsString being a slice of the input: the parser copies AsString into Param.Name and ast.Param ends at Atmark + 1 + len(Name) (LEXBOUNDS, helpers inlined, other lexer methods only move the cursor forward)", 1)
	defer debug.SetGCPercent(debug.SetGCPercent(1000))
	root := w.fn(w.Mem, "(*Lexer).consumeToken")
	if root == nil {
		r.errorf("(*Lexer).consumeToken not found")
		return
	}
	// the kind constant must exist at all
	stores := 0
	for _, fn := range w.ModFns {
		if fnPkgPath(fn) != modRoot {
			continue
		}
		for _, b := range fn.Blocks {
			for _, in := range b.Instrs {
				if st, ok := in.(*ssa.Store); ok {
					if fa, ok := st.Addr.(*ssa.FieldAddr); ok && fieldAddrName(fa) == "Kind" {
						if c, ok := constString(st.Val); ok && c == "<param>" {
							stores++
							if fn != root {
								r.bad(rule, "store of <param> in "+funcName(fn), w.pos(st.Pos()), "a <param> token is produced outside consumeToken: its length is not covered by this rule")
							}
						}
					}
				}
			}
		}
	}
	if stores == 0 {
		r.errorf("no store of the <param> kind found")
		return
	}
	e := w.newLexBounds()
	e.tokLen, e.shallow, e.shallowLeaf = true, true, true
	e.trace = verboseRule() != "" && verboseRule() != "1" && strings.HasPrefix(rule, verboseRule())
	e.runRoot(root, map[string]bool{"noPanic": false})
	e.runRoot(root, map[string]bool{"noPanic": true})
	n := 0
	for _, ob := range e.results() {
		if ob.rule != rule {
			continue
		}
		n++
		if ob.failed == 0 {
			r.ok(rule, ob.construct, ob.where, fmt.Sprintf("proved in %d context(s)", ob.total))
		} else {
			var ds []string
			for d := range ob.details {
				ds = append(ds, d)
			}
			sort.Strings(ds)
			r.bad(rule, ob.construct, ob.where, fmt.Sprintf("%d of %d context(s): %s", ob.failed, ob.total, strings.Join(ds, " | ")))
		}
	}
	if n == 0 {
		r.errorf("no return of consumeToken with a possible <param> kind was reached")
	}
}

// ---- roots --------------------------------------------------------------------------------------

func (e *lbEngine) runRoot(fn *ssa.Function, bools map[string]bool) {
	in := &lbInst{fn: fn, bindLin: map[*ssa.Parameter]lin{}, bindLen: map[*ssa.Parameter]lin{}, bindBool: map[*ssa.Parameter]bool{}, alias: map[ssa.Value]string{}}
	st := emptyState()
	for _, p := range fn.Params {
		if n := namedOf(p.Type()); n != nil && n.Obj().Name() == "Lexer" && n.Obj().Pkg().Path() == modRoot {
			in.alias[p] = "lexer"
			st = st.ge(linAtom(e.P), linConst(0)).ge(linAtom(e.N), linAtom(e.P))
			if e.tokLen || e.scanNeed != nil {
				st = st.eq(linAtom(e.at.get("entryPos", "cursor at entry", false)), linAtom(e.P))
			}
			if e.split {
				st = st.eq(linAtom(e.at.get("lastPieceEnd", "End of the previous piece", false)), linConst(0))
			}
			if os.Getenv("VERIF_LB_ASSUME_AVAIL") != "" {
				st = st.ge(linAtom(e.N), linAtom(e.P).add(linConst(1)))
			}
		}
		if b, ok := bools[p.Name()]; ok && isBoolType(p.Type()) {
			in.bindBool[p] = b
		}
		// documented domains of the exported helpers
		if pre, ok := lbRootPre[funcName(fn)+"."+p.Name()]; ok && isStringish(p.Type()) {
			st = st.ge(linAtom(e.lenAtom(p)), linConst(pre.minLen))
			e.rootPre = append(e.rootPre, fmt.Sprintf("%s: len(%s) >= %d — %s", funcName(fn), p.Name(), pre.minLen, pre.why))
		}
	}
	if e.tiling {
		// inductive hypothesis: the previous call left the cursor at the End of its token (checked on return)
		st = st.eq(linAtom(e.at.get("lastEnd", "end of the last token/comment", false)), linAtom(e.P))
	}
	e.frames = []lbFrame{{fn: fn}}
	e.record = true
	var progG atomID
	if e.tokProg && (fn.Name() == "consumeToken" || fn.Name() == "consumeFieldToken") {
		progG = e.at.get(ghostFieldKey{fn, "entryPos"}, fn.Name()+".entry.pos", false)
		st = st.eq(linAtom(progG), linAtom(e.P)).eq(linAtom(e.at.get("havoc", "a reader moved the cursor", false)), linConst(0))
	}
	rets := e.run(in, st)
	if progG != 0 {
		for _, rt := range rets {
			if rt.st != nil {
				e.progressAtReturn(rt, fn, progG)
			}
		}
	}
	e.frames = nil
}

func (e *lbEngine) results() []*lbOb {
	var out []*lbOb
	keys := append([]string{}, e.obOrder...)
	sort.Strings(keys)
	for _, k := range keys {
		out = append(out, e.obs[k])
	}
	return out
}

// ruleC03R6: bounds of every index, slice, cursor move and error position of the byte-level code.
// lexDeepRun: the deep LEXBOUNDS interpretation (nextToken in both modes, callees inlined in context, then every
// function of the scope that was not reached), run once per process and shared by the rules that read its obligations.
func (w *World) lexDeepRun(e *lbEngine) *lbEngine {
	if w.lexDeep != nil {
		return w.lexDeep
	}
	nt := w.fn(w.Mem, "(*Lexer).nextToken")
	if nt == nil {
		return e
	}
	e.runRoot(nt, map[string]bool{"noPanic": false})
	e.runRoot(nt, map[string]bool{"noPanic": true})
	var rest []*ssa.Function
	for _, fn := range w.ModFns {
		if fn.Parent() != nil || fn.Synthetic != "" || !e.inScope(fn) || e.visited[fn] {
			continue
		}
		rest = append(rest, fn)
	}
	for _, fn := range rest {
		if e.visited[fn] {
			continue
		}
		e.runRoot(fn, nil)
	}
	w.lexDeep = e
	return e
}

// ruleC09R5: the range of a lexer error is ordered.
func ruleC09R5(w *World, r *Report) {
	const rule = "C09/R5"
	r.rule(rule, "every (pos, end) pair the lexer hands to File.Position satisfies 0 <= pos <= end (and end <= len(Buffer), C03/R6): the Position of an *Error of the lexer has 0 <= Pos <= End <= len(input) — proved at the call inside errorfAtPosition in every calling context of the deep LEXBOUNDS run", 7)
	defer debug.SetGCPercent(debug.SetGCPercent(1000))
	e := w.lexDeepRun(w.newLexBounds())
	n := 0
	for _, ob := range e.results() {
		if ob.rule != rule {
			continue
		}
		n++
		if ob.failed == 0 {
			r.ok(rule, ob.construct, ob.where, fmt.Sprintf("proved in %d context(s)", ob.total))
		} else {
			var ds []string
			for d := range ob.details {
				ds = append(ds, d)
			}
			sort.Strings(ds)
			r.bad(rule, ob.construct, ob.where, fmt.Sprintf("%d of %d context(s): %s", ob.failed, ob.total, strings.Join(ds, " | ")))
		}
	}
	for _, nn := range uniqSorted(e.notes) {
		r.undecided(rule, "engine limit: "+nn, "-", "the interpretation lost track of the cursor here")
	}
	if n == 0 {
		r.errorf("no call of File.Position reached by the interpretation")
	}
}

// lexProgress: the strict-progress obligations of the loops of the byte-level code (C03/R7), one per loop: every function
// of the scope on its own, loop-free leaf helpers inlined, other lexer methods summarised as "move the cursor forward";
// cached.
func (w *World) lexProgress() []*lbOb {
	if w.lexProgDone {
		return w.lexProg
	}
	w.lexProgDone = true
	e2 := w.newLexBounds()
	e2.progress, e2.shallow, e2.shallowLeaf = true, true, true
	e2.trace = verboseRule() != "" && verboseRule() != "1" && strings.HasPrefix("C03/R7", verboseRule())
	for _, fn := range w.ModFns {
		if fn.Parent() != nil || fn.Synthetic != "" || !e2.inScope(fn) || len(naturalLoops(fn)) == 0 {
			continue
		}
		hasNoPanic := false
		for _, p := range fn.Params {
			if p.Name() == "noPanic" && isBoolType(p.Type()) {
				hasNoPanic = true
			}
		}
		if hasNoPanic {
			e2.runRoot(fn, map[string]bool{"noPanic": false})
			e2.runRoot(fn, map[string]bool{"noPanic": true})
		} else {
			e2.runRoot(fn, nil)
		}
	}
	runProgress := func(eng *lbEngine, fn *ssa.Function) {
		hasNoPanic := false
		for _, p := range fn.Params {
			if p.Name() == "noPanic" && isBoolType(p.Type()) {
				hasNoPanic = true
			}
		}
		if hasNoPanic {
			eng.runRoot(fn, map[string]bool{"noPanic": false})
			eng.runRoot(fn, map[string]bool{"noPanic": true})
		} else {
			eng.runRoot(fn, nil)
		}
	}
	// second chance for a loop whose progress is reported by a callee's boolean result (`skipped, err := l.skipComment()`;
	// `if !skipped { break }`): the summary "moves the cursor forward" cannot relate the flag to the cursor, so the
	// function is interpreted again with the cursor-moving methods that return a bool followed instead of summarised
	var retried map[string]*lbOb
	for _, ob := range e2.results() {
		if ob.rule != "C03/R7" || ob.failed == 0 {
			continue
		}
		if retried == nil {
			retried = map[string]*lbOb{}
			e3 := w.newLexBounds()
			e3.progress, e3.shallow, e3.shallowLeaf = true, true, true
			e3.inlineAlso = e3.flagMethods()
			for _, fn := range w.ModFns {
				if fn.Parent() != nil || fn.Synthetic != "" || !e3.inScope(fn) || len(naturalLoops(fn)) == 0 {
					continue
				}
				again := false
				for _, o := range e2.results() {
					if o.rule == "C03/R7" && o.failed > 0 && strings.HasPrefix(o.construct, funcName(fn)+": ") {
						again = true
					}
				}
				if again {
					runProgress(e3, fn)
				}
			}
			for _, o := range e3.results() {
				if o.rule == "C03/R7" {
					retried[o.construct] = o
				}
			}
		}
	}
	for _, ob := range e2.results() {
		if ob.rule != "C03/R7" {
			continue
		}
		if o2 := retried[ob.construct]; ob.failed > 0 && o2 != nil && o2.failed == 0 && o2.total > 0 {
			o2.note = ", with the flag-returning cursor methods followed"
			w.lexProg = append(w.lexProg, o2)
			continue
		}
		w.lexProg = append(w.lexProg, ob)
	}
	return w.lexProg
}

// lexLoopProgress: the C03/R7 verdict for the loop of fn whose header is h (found, proved).
func (w *World) lexLoopProgress(fn *ssa.Function, h *ssa.BasicBlock) (bool, bool) {
	for i, l := range naturalLoops(fn) {
		if l.header != h {
			continue
		}
		want := fmt.Sprintf("%s: loop %d — ", funcName(fn), i+1)
		for _, ob := range w.lexProgress() {
			if strings.HasPrefix(ob.construct, want) {
				return true, ob.failed == 0 && ob.total > 0
			}
		}
	}
	return false, false
}

func ruleC03R6(w *World, r *Report) {
	const rule = "C03/R6"
	r.rule(rule, "byte-level code never indexes outside its operand: in the methods of *Lexer (interpreted from (*Lexer).nextToken for noPanic=false and noPanic=true, callees inlined in context) and in token/quote.go and char/, every index s[i] has 0 <= i < len(s), every slice s[a:b] has 0 <= a <= b <= len(s), every assignment to Lexer.pos keeps 0 <= pos <= len(Buffer), and every error position handed to File.Position is <= len(Buffer) — proved in a relational linear-inequality domain over pos, len(Buffer), loop counters and string lengths; Lexer.pos is written only in lexer.go", 30)
	defer debug.SetGCPercent(debug.SetGCPercent(1000))
	e := w.newLexBounds()
	e.trace = strings.HasPrefix(rule, verboseRule()) && verboseRule() != "" && verboseRule() != "1"
	nt := w.fn(w.Mem, "(*Lexer).nextToken")
	if nt == nil {
		r.errorf("(*Lexer).nextToken not found")
		return
	}
	if dbg := os.Getenv("VERIF_LB_ROOT"); dbg != "" {
		e.trace = os.Getenv("VERIF_LB_QUIET") == ""
		joinDebug = os.Getenv("VERIF_LB_JOINDEBUG") != ""
		joinDebug2 = os.Getenv("VERIF_LB_JOINDEBUG2")
		if pf := os.Getenv("VERIF_LB_PROF"); pf != "" {
			f, _ := os.Create(pf)
			pprof.StartCPUProfile(f)
			defer pprof.StopCPUProfile()
		}
		for _, fn := range w.ModFns {
			if fn.Synthetic == "" && (funcName(fn) == dbg || fn.Name() == dbg) {
				t0 := time.Now()
				e.runRoot(fn, map[string]bool{"noPanic": os.Getenv("VERIF_LB_NOPANIC") == "1"})
				fmt.Printf("LB root %s: %d steps, %v; joins=%d pool avg=%d max=%d proves=%d\n", funcName(fn), e.steps, time.Since(t0), joinCalls, joinPool/(joinCalls+1), joinMaxPool, proveCalls)
			}
		}
		for _, ob := range e.results() {
			fmt.Printf("LB ob %s failed=%d/%d\n", ob.construct, ob.failed, ob.total)
		}
		for _, n := range uniqSorted(e.notes) {
			fmt.Printf("LB note %s\n", n)
		}
		return
	}
	e = w.lexDeepRun(e)
	for _, p := range uniqSorted(e.rootPre) {
		r.note("root precondition: %s", p)
	}
	r.count("functions interpreted", len(e.visited))
	r.count("abstract steps", e.steps)
	for _, ob := range e.results() {
		if ob.rule != rule {
			continue
		}
		if ob.failed == 0 {
			r.ok(rule, ob.construct, ob.where, fmt.Sprintf("proved in %d context(s)", ob.total))
		} else {
			var ds []string
			for d := range ob.details {
				ds = append(ds, d)
			}
			sort.Strings(ds)
			r.bad(rule, ob.construct, ob.where, fmt.Sprintf("%d of %d context(s): %s", ob.failed, ob.total, strings.Join(ds, " | ")))
		}
	}
	for _, n := range uniqSorted(e.notes) {
		r.undecided(rule, "engine limit: "+n, "-", "the interpretation lost track of the cursor here")
	}
	// C03/R7: strict progress of the loops — a second, cheap run: every function of the scope on its own,
	// loop-free leaf helpers inlined, other lexer methods summarised as "move the cursor forward"
	r.rule("C03/R7", "every loop of the byte-level code makes strict progress: on each back edge either Lexer.pos is at least one byte further than at the start of the iteration (so a skipN(n) counts only where n >= 1 is proved; `pos != saved` counts because the cursor only moves forward) or an integer variable of the loop head has grown (or shrunk) by at least one, or the loop ranges over a finite value", 6)
	for _, ob := range w.lexProgress() {
		if ob.failed == 0 {
			r.ok("C03/R7", ob.construct, ob.where, fmt.Sprintf("proved on %d back edge evaluation(s)%s", ob.total, ob.note))
		} else {
			var ds []string
			for d := range ob.details {
				ds = append(ds, d)
			}
			sort.Strings(ds)
			r.bad("C03/R7", ob.construct, ob.where, fmt.Sprintf("%d of %d: %s", ob.failed, ob.total, strings.Join(ds, " | ")))
		}
	}
	// who writes Lexer.pos
	for _, fn := range w.ModFns {
		for _, b := range fn.Blocks {
			for _, in := range b.Instrs {
				st, ok := in.(*ssa.Store)
				if !ok {
					continue
				}
				fa, ok := st.Addr.(*ssa.FieldAddr)
				if !ok || fieldAddrName(fa) != "pos" {
					continue
				}
				if n := fieldAddrStruct(fa); n == nil || n.Obj().Name() != "Lexer" {
					continue
				}
				if strings.HasSuffix(w.fileOf(st.Pos()), "lexer.go") {
					continue
				}
				r.bad(rule, "write to Lexer.pos in "+funcName(fn), w.pos(st.Pos()), "the cursor is assigned outside lexer.go, where its bounds are not tracked")
			}
		}
	}
}

func verboseRule() string { return os.Getenv("VERIF_VERBOSE") }

// ruleC14R8: comment scanning is exhaustive.
func ruleC14R8(w *World, r *Report) {
	const rule = "C14/R8"
	r.rule(rule, "comment scanning is exhaustive: in (*Lexer).skipCommentUntil (interpreted from (*Lexer).skipComment in the LEXBOUNDS domain) every iteration of the search loop that continues has moved the cursor by exactly one byte, after testing for the terminator at the position it leaves, and the loop gives up without a match only when the terminator no longer fits between the cursor and the end of input — so a terminator at any position, including the very end, is found; and every index, slice and cursor move of the comment scanner stays within the input (a comment opener is skipped only as far as it was examined)", 4)
	defer debug.SetGCPercent(debug.SetGCPercent(1000))
	e := w.newLexBounds()
	e.scanFns = map[string]bool{"skipCommentUntil": true}
	// C14/R10: how far behind the start of the comment the terminator search has to begin, per terminator:
	// the longest suffix of an opener that is a prefix of the terminator must not be part of a match ("/*/")
	r.rule("C14/R10", "the search for a comment terminator does not use bytes of the opener: where a proper suffix of an opener is a prefix of its terminator ('/*' and '*/'), every window compared with the terminator starts at least that far behind the start of the comment — '/*/' is an unclosed comment, not a complete one", 1)
	e.scanNeed = map[string]int64{}
	for _, c := range w.commentOpeners() {
		need := int64(0)
		for j := 0; j < len(c.opener); j++ {
			if strings.HasPrefix(c.term, c.opener[j:]) {
				need = int64(len(c.opener))
				break
			}
		}
		if need > e.scanNeed[c.term] {
			e.scanNeed[c.term] = need
		}
		if _, ok := e.scanNeed[c.term]; !ok {
			e.scanNeed[c.term] = 0
		}
	}
	e.trace = verboseRule() != "" && verboseRule() != "1" && strings.HasPrefix(rule, verboseRule())
	root := w.fn(w.Mem, "(*Lexer).skipComment")
	if root == nil || w.fn(w.Mem, "(*Lexer).skipCommentUntil") == nil {
		r.errorf("(*Lexer).skipComment / skipCommentUntil not found")
		return
	}
	e.runRoot(root, map[string]bool{"noPanic": false})
	e.runRoot(root, map[string]bool{"noPanic": true})
	n10 := 0
	for _, ob := range e.results() {
		if ob.rule != rule && ob.rule != "C03/R6" && ob.rule != "C14/R10" {
			continue
		}
		if ob.rule == "C14/R10" {
			n10++
			if ob.failed == 0 {
				r.ok("C14/R10", ob.construct, ob.where, fmt.Sprintf("proved in %d context(s)", ob.total))
			} else {
				var ds []string
				for d := range ob.details {
					ds = append(ds, d)
				}
				sort.Strings(ds)
				r.bad("C14/R10", ob.construct, ob.where, fmt.Sprintf("%d of %d context(s): %s", ob.failed, ob.total, strings.Join(ds, " | ")))
			}
			continue
		}
		// the index / slice / cursor bounds inside the comment scanner are part of this rule as well
		if ob.failed == 0 {
			r.ok(rule, ob.construct, ob.where, fmt.Sprintf("proved in %d context(s)", ob.total))
		} else {
			var ds []string
			for d := range ob.details {
				ds = append(ds, d)
			}
			sort.Strings(ds)
			r.bad(rule, ob.construct, ob.where, fmt.Sprintf("%d of %d context(s): %s", ob.failed, ob.total, strings.Join(ds, " | ")))
		}
	}
	// the match test of each iteration compares the bytes at the cursor with the terminator
	fn := w.fn(w.Mem, "(*Lexer).skipCommentUntil")
	matched := false
	for _, b := range fn.Blocks {
		for _, in := range b.Instrs {
			bo, ok := in.(*ssa.BinOp)
			if !ok || bo.Op != token.EQL || !isStringType(bo.X.Type()) {
				continue
			}
			for _, side := range [][2]ssa.Value{{bo.X, bo.Y}, {bo.Y, bo.X}} {
				if p, isP := side[1].(*ssa.Parameter); !isP || p.Parent() != fn || !isStringType(p.Type()) {
					continue
				}
				// side[0]: l.slice(0, len(end)) or l.Buffer[l.pos : l.pos+len(end)]
				switch x := side[0].(type) {
				case *ssa.Call:
					if c := x.Call.StaticCallee(); c != nil && c.Name() == "slice" {
						if k, ok := constInt(x.Call.Args[1]); ok && k == 0 {
							matched = true
						}
					}
				case *ssa.Slice:
					if f, _, ok := w.lexerField(x.Low); ok && f == "pos" {
						matched = true
					}
				}
			}
		}
	}
	for _, c := range e.searchCalls[fn] {
		if p, isP := c.Call.Args[1].(*ssa.Parameter); isP && p.Parent() == fn {
			matched = true // a library search for `end` in the input (where it looks, and what is done with the answer, are obligations above)
		}
	}
	if e.prefixTests[fn] > 0 {
		matched = true // a prefix test at the cursor through a helper of the lexer (peekHas(0, end))
	}
	if matched {
		r.ok(rule, "(*Lexer).skipCommentUntil: terminator test at the cursor", w.pos(fn.Pos()), "the bytes at the cursor are compared with the terminator `end`")
	} else {
		r.bad(rule, "(*Lexer).skipCommentUntil: terminator test at the cursor", w.pos(fn.Pos()), "no comparison of the bytes at the cursor with the terminator `end` found")
	}
}

// ruleC15R5: the quoting helpers never index outside their operand (the token/quote.go and char/ part of C03/R6).
func ruleC15R5(w *World, r *Report) {
	const rule = "C15/R5"
	r.rule(rule, "QuoteSQLString, QuoteSQLBytes, QuoteSQLIdent and the char helpers never index or slice outside their operand, for any argument (QuoteSQLIdent: any non-empty name) — LEXBOUNDS over token/quote.go and char/", 4)
	defer debug.SetGCPercent(debug.SetGCPercent(1000))
	e := w.newLexBounds()
	e.trace = verboseRule() != "" && verboseRule() != "1" && strings.HasPrefix(rule, verboseRule())
	for _, fn := range w.ModFns {
		if fn.Parent() != nil || fn.Synthetic != "" || !e.inScope(fn) || e.visited[fn] || fnPkgPath(fn) == modRoot {
			continue
		}
		e.runRoot(fn, nil)
	}
	for _, p := range uniqSorted(e.rootPre) {
		r.note("root precondition: %s", p)
	}
	for _, ob := range e.results() {
		if ob.rule != "C03/R6" {
			continue
		}
		if ob.failed == 0 {
			r.ok(rule, ob.construct, ob.where, fmt.Sprintf("proved in %d context(s)", ob.total))
		} else {
			var ds []string
			for d := range ob.details {
				ds = append(ds, d)
			}
			sort.Strings(ds)
			r.bad(rule, ob.construct, ob.where, fmt.Sprintf("%d of %d context(s): %s", ob.failed, ob.total, strings.Join(ds, " | ")))
		}
	}
	for _, n := range uniqSorted(e.notes) {
		r.undecided(rule, "engine limit: "+n, "-", "the interpretation lost track here")
	}
}

// ruleC13R4: Space and Raw of the comments and of the token tile the input.
func ruleC13R4(w *World, r *Report) {
	const rule = "C13/R4"
	r.rule(rule, "the texts recorded by (*Lexer).nextToken tile the input: every Space and Raw is a slice Buffer[a:b] of the input; a comment's or token's Space begins where the previous comment or token ended (the cursor at entry for the first one), Space ends where Raw begins, Pos is where Raw begins and End where it ends, on every return the cursor is at the End last recorded and Pos, End, Space and Raw of the token have been stored (Space and Raw not for a token marked <bad>) — proved as equalities of linear terms over the cursor in the LEXBOUNDS domain (callees only move the cursor forward)", 4)
	defer debug.SetGCPercent(debug.SetGCPercent(1000))
	root := w.fn(w.Mem, "(*Lexer).nextToken")
	if root == nil {
		r.errorf("(*Lexer).nextToken not found")
		return
	}
	e := w.newLexBounds()
	e.tiling, e.shallow = true, true
	e.trace = verboseRule() != "" && verboseRule() != "1" && strings.HasPrefix(rule, verboseRule())
	e.runRoot(root, map[string]bool{"noPanic": false})
	e.runRoot(root, map[string]bool{"noPanic": true})
	// second chance (see C03/R7): where a callee tells through a boolean result whether it moved the cursor, the summary
	// "moves the cursor forward" is too weak; interpret again with those methods followed
	var retried map[string]*lbOb
	for _, ob := range e.results() {
		if ob.rule == rule && ob.failed > 0 && retried == nil {
			retried = map[string]*lbOb{}
			e3 := w.newLexBounds()
			e3.tiling, e3.shallow = true, true
			e3.inlineAlso = e3.flagMethods()
			e3.runRoot(root, map[string]bool{"noPanic": false})
			e3.runRoot(root, map[string]bool{"noPanic": true})
			for _, o := range e3.results() {
				if o.rule == rule {
					retried[o.construct] = o
				}
			}
		}
	}
	for _, ob := range e.results() {
		if ob.rule != rule {
			continue
		}
		if o2 := retried[ob.construct]; ob.failed > 0 && o2 != nil && o2.failed == 0 && o2.total > 0 {
			r.ok(rule, ob.construct, ob.where, fmt.Sprintf("proved in %d context(s), with the flag-returning cursor methods followed", o2.total))
			continue
		}
		if ob.failed == 0 {
			r.ok(rule, ob.construct, ob.where, fmt.Sprintf("proved in %d context(s)", ob.total))
		} else {
			var ds []string
			for d := range ob.details {
				ds = append(ds, d)
			}
			sort.Strings(ds)
			r.bad(rule, ob.construct, ob.where, fmt.Sprintf("%d of %d context(s): %s", ob.failed, ob.total, strings.Join(ds, " | ")))
		}
	}
	// (writes to the current token outside nextToken — the '>>' split — are the subject of C13/R1)
}

// ruleC14R14: a query parameter is '@' and a name; the name begins with a letter or '_'. '@1' is the symbol '@' and an
// integer, not a parameter called "1".
func ruleC14R14(w *World, r *Report) {
	const rule = "C14/R14"
	r.rule(rule, "wherever (*Lexer).consumeToken stores Kind = <param>, the byte at the start of the token is known to be '@' and the byte behind it to be in char.IsIdentStart's set (LEXBOUNDS byte facts; the scan may live in helpers of the lexer)", 1)
	defer debug.SetGCPercent(debug.SetGCPercent(1000))
	root := w.fn(w.Mem, "(*Lexer).consumeToken")
	if root == nil {
		r.errorf("(*Lexer).consumeToken not found")
		return
	}
	e := w.newLexBounds()
	e.tokLen, e.bytes, e.paramStart, e.shallow, e.shallowLeaf = true, true, true, true, true
	e.inlineAlso = map[string]bool{}
	for _, h := range w.withOwnHelpers(root, "consumeNumber", "consumeQuotedContent") {
		e.inlineAlso[h.Name()] = true
	}
	e.trace = verboseRule() != "" && verboseRule() != "1" && strings.HasPrefix(rule, verboseRule())
	e.runRoot(root, map[string]bool{"noPanic": false})
	e.runRoot(root, map[string]bool{"noPanic": true})
	n := 0
	for _, ob := range e.results() {
		if ob.rule != rule {
			continue
		}
		n++
		if ob.failed == 0 {
			r.ok(rule, ob.construct, ob.where, fmt.Sprintf("proved in %d context(s)", ob.total))
		} else {
			var ds []string
			for d := range ob.details {
				ds = append(ds, d)
			}
			sort.Strings(ds)
			r.bad(rule, ob.construct, ob.where, fmt.Sprintf("%d of %d context(s): %s", ob.failed, ob.total, strings.Join(ds, " | ")))
		}
	}
	if n == 0 {
		r.errorf("no store of Kind = <param> was reached in consumeToken")
	}
}
